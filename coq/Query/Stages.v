(** C02 — the stage machine: a compiled *single-bag* join plan as free_join/execute.rs runs it.

    State = the current partial binding + for every atom the rows still compatible with it
    (trie-join style: [BindingInfo.subsets]). Headers pre-filter each atom; then the stages run,
    in an order chosen DYNAMICALLY by an arbitrary oracle (execute.rs re-sorts the remaining stages
    by size at run time, differently in different branches: [sort_plan_by_size]).

    [Intersect x scans] (JoinStage::Intersect): binds [x] to every value present in the named
    column of ALL scanned atoms, refining each scanned atom to the rows with that value that also
    pass the scan's constraints.
    [Fused cov cs bind others] (JoinStage::FusedIntersect): iterates the remaining rows of the cover
    atom that pass [cs], narrows the cover atom to that single row, binds the variables of [bind]
    from its columns, and probes every other (atom, columns) with the key assembled from the bound
    values, refining it to the rows with that key that pass the scan's constraints.
    A candidate whose refinement leaves some atom without rows is dropped.
    Executable definitions only. *)
From Coq Require Import List Arith Bool PeanoNat.
Import ListNotations.
Require Import Verif.Query.Spec.

(** plan.rs [SingleScanSpec] *)
Record scan := mkScan { s_atom : nat; s_col : nat; s_cs : list constr }.

(** an entry of [to_intersect]: ScanSpec (atom, indexed columns, constraints) + for every indexed
    column the position in [bind] whose value forms the key *)
Record mscan := mkMScan { m_atom : nat; m_cols : list nat; m_key : list nat; m_cs : list constr }.

Inductive stage :=
| Intersect (x : nat) (scans : list scan)
| Fused (cov : nat) (cov_cs : list constr) (bind : list (nat * nat)) (others : list mscan).

(** plan.rs [JoinHeader]: constraints evaluated on one atom before the join *)
Record header := mkHeader { h_atom : nat; h_cs : list constr }.

(** [p_tabs]: the relation of every atom, by atom id *)
Record plan := mkPlan { p_tabs : list nat; p_headers : list header; p_stages : list stage }.

Definition subsets := list (list row).

Fixpoint upd_nth {A} (i : nat) (f : A -> A) (l : list A) : list A :=
  match l, i with
  | [], _ => []
  | a :: tl, 0 => f a :: tl
  | a :: tl, S i' => a :: upd_nth i' f tl
  end.

Definition refine (i : nat) (keep : row -> bool) (s : subsets) : subsets := upd_nth i (filter keep) s.

Definition nonempty (l : list row) : bool := match l with [] => false | _ => true end.
Definition alive (s : subsets) : bool := forallb nonempty s.

Definition header_keep (hs : list header) (i : nat) (r : row) : bool :=
  forallb (fun h => if h_atom h =? i then all_cs (h_cs h) r else true) hs.

Definition init_subs (p : plan) (d : db) : subsets :=
  map (fun it => filter (header_keep (p_headers p) (fst it)) (get_tab d (snd it)))
      (combine (seq 0 (length (p_tabs p))) (p_tabs p)).

Definition scan_keep (sc : scan) (v : nat) (r : row) : bool :=
  (col r (s_col sc) =? v) && all_cs (s_cs sc) r.

Fixpoint refine_scans (scans : list scan) (v : nat) (s : subsets) : subsets :=
  match scans with
  | [] => s
  | sc :: tl => refine_scans tl v (refine (s_atom sc) (scan_keep sc v) s)
  end.

Fixpoint nat_list_eqb (a b : list nat) : bool :=
  match a, b with
  | [], [] => true
  | x :: a', y :: b' => (x =? y) && nat_list_eqb a' b'
  | _, _ => false
  end.

Definition mscan_keep (m : mscan) (key : list nat) (r : row) : bool :=
  nat_list_eqb (map (col r) (m_cols m)) (map (fun k => nth k key 0) (m_key m)) && all_cs (m_cs m) r.

Fixpoint refine_mscans (ms : list mscan) (key : list nat) (s : subsets) : subsets :=
  match ms with
  | [] => s
  | m :: tl => refine_mscans tl key (refine (m_atom m) (mscan_keep m key) s)
  end.

Definition bind_env (bind : list (nat * nat)) (r : row) (e : env) : env :=
  rev (map (fun b => (snd b, col r (fst b))) bind) ++ e.

Definition step (st : stage) (e : env) (s : subsets) : list (env * subsets) :=
  match st with
  | Intersect x scans =>
      match scans with
      | [] => []
      | s0 :: _ =>
          flat_map (fun r0 =>
                      let v := col r0 (s_col s0) in
                      let s' := refine_scans scans v s in
                      if alive s' then [((x, v) :: e, s')] else [])
                   (nth (s_atom s0) s [])
      end
  | Fused cov cs bind others =>
      flat_map (fun r =>
                  if all_cs cs r then
                    let key := map (fun b => col r (fst b)) bind in
                    let s' := refine_mscans others key (upd_nth cov (fun _ => [r]) s) in
                    if alive s' then [(bind_env bind r e, s')] else []
                  else [])
               (nth cov s [])
  end.

(** the run-time order oracle: which of the remaining stages runs next, given the current state *)
Definition chooser := env -> subsets -> list stage -> nat.

Fixpoint remove_nth {A} (i : nat) (l : list A) : list A :=
  match l, i with
  | [], _ => []
  | _ :: tl, 0 => tl
  | a :: tl, S i' => a :: remove_nth i' tl
  end.

Fixpoint run (ch : chooser) (n : nat) (rem : list stage) (e : env) (s : subsets) : list env :=
  match rem with
  | [] => [e]
  | st0 :: _ =>
      match n with
      | 0 => []
      | S n' =>
          let i := ch e s rem mod length rem in
          flat_map (fun es => run ch n' (remove_nth i rem) (fst es) (snd es))
                   (step (nth i rem st0) e s)
      end
  end.

Definition run_plan (ch : chooser) (p : plan) (d : db) : list env :=
  let s := init_subs p d in
  if alive s then run ch (length (p_stages p)) (p_stages p) [] s else [].

(** the variables a stage binds *)
Definition bound (st : stage) : list nat :=
  match st with
  | Intersect x _ => [x]
  | Fused _ _ bind _ => map snd bind
  end.

Definition plan_vars (p : plan) : list nat := flat_map bound (p_stages p).

(** some fixed order oracles used by the case files *)
Definition ch_first : chooser := fun _ _ _ => 0.
Definition ch_last : chooser := fun _ _ rem => length rem - 1.
Definition ch_mix (k : nat) : chooser := fun e s rem => k + length e + length (concat s).
