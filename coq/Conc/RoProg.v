(** C19 / ReadOptimizedLock: the model's steps against the REGENERATED programs.

    gen/CountsFns.v (translator/src/x_counts.rs) holds, for [ReadOptimizedLock::read],
    [ReadOptimizedLock::lock] and [MutexWriter::drop] of concurrency/src/lib.rs, the synchronisation
    operations in program order with the control structure ([prog_rolock_read], [prog_rolock_lock],
    [prog_writer_drop]). This file
    - enumerates the paths of one loop iteration of those programs ([paths]), classifying every
      operation ([classify]: an operation this file does not know makes the result [None]);
    - states which block of source operations each label of Conc/RoLockModel.v stands for ([expand]);
    - proves that the model's labels, expanded, ARE the regenerated paths ([model_covers_program]),
      and that every step of the model extends the acting thread's position by the expansion of its
      label along a regenerated path ([step_follows_program]).
    So reordering the source (CAS after the wait for the readers, notify before the token store,
    dropping the wait, a new branch) changes a regenerated fact and stops these theorems. *)
From Coq Require Import List Arith Bool String Lia.
Import ListNotations.
Require Import Verif.Base.Res.
Require Verif.gen.CountsFns.
Require Import Verif.Conc.RoLockModel Verif.Conc.RoLock.
Import CountsFns.

(** source-level synchronisation operations of the three routines *)
Inductive opk :=
| KTokLoad                 (* self.token.load() *)
| KArmReadOk | KArmWriteOngoing
| KFenceAcq                (* fence(Ordering::Acquire) *)
| KRetReader               (* return MutexReader { .., _guard: guard } *)
| KDropGuard               (* mem::drop(guard) *)
| KNotifWait               (* n.wait() on the WriteOngoing notification *)
| KCas                     (* self.token.compare_and_swap(&guard, WriteOngoing) *)
| KPtrNe (b : bool)        (* if !ptr::eq(prev, guard): b = the CAS failed *)
| KDropGuardPrev           (* mem::drop((guard, prev)) *)
| KRcu                     (* self.token.rcu(|x| x.clone()) *)
| KReadersWait             (* readers_done.wait() *)
| KRetWriter               (* return MutexWriter *)
| KTokStore                (* self.lock.token.store(ReadOk(fresh)) *)
| KUnblockNotify.          (* self.unblock.notify() *)

Definition opk_eqb (a b : opk) : bool :=
  match a, b with
  | KTokLoad, KTokLoad | KArmReadOk, KArmReadOk | KArmWriteOngoing, KArmWriteOngoing
  | KFenceAcq, KFenceAcq | KRetReader, KRetReader | KDropGuard, KDropGuard
  | KNotifWait, KNotifWait | KCas, KCas | KDropGuardPrev, KDropGuardPrev | KRcu, KRcu
  | KReadersWait, KReadersWait | KRetWriter, KRetWriter | KTokStore, KTokStore
  | KUnblockNotify, KUnblockNotify => true
  | KPtrNe x, KPtrNe y => Bool.eqb x y
  | _, _ => false
  end.

Definition ord_eqb (a b : ordering) : bool :=
  match a, b with
  | Relaxed, Relaxed | Acquire, Acquire | Release, Release | AcqRel, AcqRel | SeqCst, SeqCst
  | OrdUnknown, OrdUnknown => true
  | _, _ => false
  end.

Fixpoint ords_eqb (a b : list ordering) : bool :=
  match a, b with
  | [], [] => true
  | x :: a', y :: b' => ord_eqb x y && ords_eqb a' b'
  | _, _ => false
  end.

Definition is_call (recv meth : string) (os : list ordering) (r m : string) (o : list ordering) : bool :=
  (String.eqb recv r && String.eqb meth m && ords_eqb os o)%bool.

(** a leaf operation of the regenerated programs -> its kind; [None] = not reviewed *)
Definition classify_call (recv meth : string) (os : list ordering) : option opk :=
  if is_call recv meth os "self.token" "load" [] then Some KTokLoad
  else if is_call recv meth os "" "fence" [Acquire] then Some KFenceAcq
  else if is_call recv meth os "guard" "drop" [] then Some KDropGuard
  else if is_call recv meth os "n" "wait" [] then Some KNotifWait
  else if is_call recv meth os "self.token" "compare_and_swap" [] then Some KCas
  else if is_call recv meth os "(guard,prev)" "drop" [] then Some KDropGuardPrev
  else if is_call recv meth os "self.token" "rcu" [] then Some KRcu
  else if is_call recv meth os "readers_done" "wait" [] then Some KReadersWait
  else if is_call recv meth os "self.lock.token" "store" [] then Some KTokStore
  else if is_call recv meth os "self.unblock" "notify" [] then Some KUnblockNotify
  else None.

Definition classify_ret (what : string) : option opk :=
  if String.eqb what "MutexReader" then Some KRetReader
  else if String.eqb what "MutexWriter" then Some KRetWriter
  else None.

Definition classify_arm (name : string) : option opk :=
  if String.eqb name "ReadOk" then Some KArmReadOk
  else if String.eqb name "WriteOngoing" then Some KArmWriteOngoing
  else None.

(** how a path leaves the loop body: falls off its end / [continue] (both: next iteration) or
    returns *)
Inductive pexit := XNext | XRet.

Definition pexit_eqb (a b : pexit) : bool :=
  match a, b with XNext, XNext | XRet, XRet => true | _, _ => false end.

Definition path := (list opk * option pexit)%type.   (* None = still inside the body *)

Definition seq_paths (ps : list path) (rest : list path) : list path :=
  flat_map (fun p => match snd p with
                     | None => map (fun q => (fst p ++ fst q, snd q)) rest
                     | Some _ => [p]
                     end) ps.

Fixpoint omap {A B} (f : A -> option B) (l : list A) : option (list B) :=
  match l with
  | [] => Some []
  | x :: tl => match f x, omap f tl with Some y, Some ys => Some (y :: ys) | _, _ => None end
  end.

(** paths of a block; only the shapes that occur in the three routines are accepted:
    calls, [return], [continue], a match on the token, the `if !ptr::eq(prev, guard)` test *)
Fixpoint paths (fuel : nat) (ops : list rop) : option (list path) :=
  match fuel with
  | O => None
  | S fuel' =>
      match ops with
      | [] => Some [([], None)]
      | op :: rest =>
          let here : option (list path) :=
            match op with
            | RCall recv meth os =>
                match classify_call recv meth os with Some k => Some [([k], None)] | None => None end
            | RReturn what =>
                match classify_ret what with Some k => Some [([k], Some XRet)] | None => None end
            | RContinue => Some [([], Some XNext)]
            | RMatch scrut arms =>
                if String.eqb scrut "guard.as_ref()" then
                  match omap (fun a => match classify_arm (fst a), paths fuel' (snd a) with
                                       | Some k, Some ps => Some (map (fun p => (k :: fst p, snd p)) ps)
                                       | _, _ => None
                                       end) arms with
                  | Some pss => Some (List.concat pss)
                  | None => None
                  end
                else None
            | RIf cond thn els =>
                if String.eqb cond "!std::ptr::eq(prev.as_ref(),guard.as_ref())" then
                  match paths fuel' thn, paths fuel' els with
                  | Some pt, Some pe =>
                      Some (map (fun p => (KPtrNe true :: fst p, snd p)) pt ++
                            map (fun p => (KPtrNe false :: fst p, snd p)) pe)
                  | _, _ => None
                  end
                else None
            | _ => None
            end in
          match here, paths fuel' rest with
          | Some ps, Some rs => Some (seq_paths ps rs)
          | _, _ => None
          end
      end
  end.

(** a routine that is one `loop { body }`: the paths of one iteration, falling off = next *)
Definition close (ps : list path) : list (list opk * pexit) :=
  map (fun p => (fst p, match snd p with Some x => x | None => XNext end)) ps.

Definition loop_paths (prog : list rop) : option (list (list opk * pexit)) :=
  match prog with
  | [RLoop body] => match paths 20 body with Some ps => Some (close ps) | None => None end
  | _ => None
  end.

(** a straight-line routine *)
Definition line_paths (prog : list rop) : option (list (list opk * pexit)) :=
  match paths 20 prog with
  | Some ps => Some (map (fun p => (fst p, match snd p with Some x => x | None => XRet end)) ps)
  | None => None
  end.

Definition read_paths := loop_paths prog_rolock_read.
Definition lock_paths := loop_paths prog_rolock_lock.
Definition drop_paths := line_paths prog_writer_drop.

Definition all_paths : list (list opk * pexit) :=
  match read_paths, lock_paths, drop_paths with
  | Some a, Some b, Some c => a ++ b ++ c
  | _, _, _ => []
  end.

(* ------------------------------------------------------------------------------------------ *)
(** * the model's labels as blocks of source operations *)

Definition expand (l : label) : list opk :=
  match l with
  | LRLoad _ | LWLoad _ => [KTokLoad]
  | LREnter _ => [KArmReadOk; KFenceAcq; KRetReader]
  | LBlock _ => [KArmWriteOngoing; KDropGuard]
  | LWake _ => [KNotifWait]
  | LCasOk _ => [KArmReadOk; KCas; KPtrNe false; KDropGuardPrev]
  | LCasFail _ => [KArmReadOk; KCas; KPtrNe true]
  | LWaitReaders _ => [KRcu; KReadersWait; KRetWriter]
  | LRelease _ => [KTokStore; KUnblockNotify]
  | LReadLo _ | LReadHi _ | LRLeave _ | LWriteLo _ _ | LWriteHi _ => []   (* the user's section *)
  end.

Definition actor (l : label) : nat :=
  match l with
  | LRLoad t | LREnter t | LBlock t | LWake t | LReadLo t | LReadHi t | LRLeave t | LWLoad t
  | LCasOk t | LCasFail t | LWaitReaders t | LWriteLo t _ | LWriteHi t | LRelease t => t
  end.

(** source operations a thread has executed in the current iteration of the routine it is in *)
Definition pos (p : tpc) : list opk :=
  match p with
  | RLoaded _ _ | WLoaded _ _ => [KTokLoad]
  | Blocked _ => [KTokLoad; KArmWriteOngoing; KDropGuard]
  | WSwapped _ _ => [KTokLoad; KArmReadOk; KCas; KPtrNe false; KDropGuardPrev]
  | _ => []            (* not inside read() / lock() / drop() *)
  end.

Fixpoint ops_eqb (a b : list opk) : bool :=
  match a, b with
  | [], [] => true
  | x :: a', y :: b' => opk_eqb x y && ops_eqb a' b'
  | _, _ => false
  end.

Fixpoint is_prefix (a b : list opk) : bool :=
  match a, b with
  | [], _ => true
  | x :: a', y :: b' => opk_eqb x y && is_prefix a' b'
  | _ :: _, [] => false
  end.

Definition complete (tr : list opk) : bool := existsb (fun p => ops_eqb tr (fst p)) all_paths.
Definition partial (tr : list opk) : bool :=
  existsb (fun p => is_prefix tr (fst p) && negb (ops_eqb tr (fst p))) all_paths.

(** one model step, seen from the program: either the acting thread is in the user's section
    (nothing of the three routines executed), or its position grows by the label's block and stays
    a proper prefix of a regenerated path, or the block completes a regenerated path and the thread
    is outside the routines again *)
Definition follows (before : list opk) (l : label) (after : list opk) : bool :=
  match expand l with
  | [] => ops_eqb before [] && ops_eqb after []
  | blk => (ops_eqb after (before ++ blk) && partial (before ++ blk))
           || (ops_eqb after [] && complete (before ++ blk))
  end.

(** the label sequences of the model, per routine iteration, and how the iteration ends *)
Definition model_iterations (t : nat) : list (list label * pexit) :=
  [ ([LRLoad t; LREnter t], XRet);
    ([LRLoad t; LBlock t; LWake t], XNext);
    ([LWLoad t; LCasFail t], XNext);
    ([LWLoad t; LCasOk t; LWaitReaders t], XRet);
    ([LWLoad t; LBlock t; LWake t], XNext);
    ([LRelease t], XRet) ].

Definition path_eqb (a b : list opk * pexit) : bool :=
  ops_eqb (fst a) (fst b) && pexit_eqb (snd a) (snd b).

Fixpoint paths_eqb (a b : list (list opk * pexit)) : bool :=
  match a, b with
  | [], [] => true
  | x :: a', y :: b' => path_eqb x y && paths_eqb a' b'
  | _, _ => false
  end.

Lemma opk_eqb_eq a b : opk_eqb a b = true -> a = b.
Proof. destruct a, b; simpl; try discriminate; auto. intros H. apply Bool.eqb_prop in H. congruence. Qed.

Lemma ops_eqb_eq : forall a b, ops_eqb a b = true -> a = b.
Proof.
  induction a; destruct b; simpl; try discriminate; auto.
  intros H. apply andb_prop in H. destruct H as [H1 H2]. apply opk_eqb_eq in H1. f_equal; auto.
Qed.

Lemma paths_eqb_eq : forall a b, paths_eqb a b = true -> a = b.
Proof.
  induction a; destruct b; simpl; try discriminate; auto.
  intros H. apply andb_prop in H. destruct H as [H1 H2]. f_equal; auto.
  unfold path_eqb in H1. apply andb_prop in H1. destruct H1 as [H1 H3].
  apply ops_eqb_eq in H1. destruct a as [a1 a2], p as [p1 p2]; simpl in *. subst. f_equal.
  destruct a2, p2; simpl in *; try discriminate; auto.
Qed.

(** the three regenerated programs are in the accepted shape, and the model's label blocks,
    concatenated per iteration, are EXACTLY their paths (same order, same exits): no source
    operation is left without a model step, none is invented, none is out of order *)
Theorem model_covers_program : forall t,
  read_paths <> None /\ lock_paths <> None /\ drop_paths <> None /\
  map (fun it => (List.concat (map expand (fst it)), snd it)) (model_iterations t) = all_paths.
Proof.
  intro t. split; [|split; [|split]]; try (vm_compute; discriminate).
  apply paths_eqb_eq. vm_compute. reflexivity.
Qed.

Theorem step_follows_program : forall s l s', step s l s' ->
  follows (pos (pcof s (actor l))) l (pos (pcof s' (actor l))) = true.
Proof.
  intros s l s' H. unfold step in H.
  destruct l; simpl actor; unfold exec in H;
    destruct (pcof s t) eqn:E; try discriminate.
  all: try (assert (Hlt : t < List.length (thr s)) by (apply pcof_lt; rewrite E; discriminate)).
  all: repeat match type of H with
       | (if ?c then _ else _) = Some _ => destruct c eqn:?; try discriminate
       | match ?c with _ => _ end = Some _ => destruct c eqn:?; try discriminate
       end.
  all: try (apply Nat.ltb_lt in Heqb).
  all: injection H as <-; rewrite ?pcof_upd by auto; rewrite ?Nat.eqb_refl;
       try (unfold pcof, setpc; simpl thr; rewrite nth_set_nth by auto; rewrite Nat.eqb_refl);
       vm_compute; reflexivity.
Qed.
