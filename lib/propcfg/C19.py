"""C19 configuration for bin/check."""

CFG = {
        "tier_a": ["CountsFns.EXPECTED_SHIFT", "CountsFns.COMPLETED_MASK", "CountsFns.completed",
                   "CountsFns.expected", "CountsFns.with_root_callback", "CountsFns.expect_one",
                   "CountsFns.complete_one", "CountsFns.scope_complete_is_last",
                   "CountsFns.atomic_sites", "CountsFns.prog_rolock_read", "CountsFns.prog_rolock_lock",
                   "CountsFns.prog_writer_drop", "CountsFns.prog_trigger_drop", "CountsFns.prog_notif_wait",
                   "CountsFns.prog_notif_notify", "CountsFns.prog_notif_has_been_notified"],
        "model_targets": ["Conc/ScopeModel.vo", "Conc/RoLockModel.vo", "Conc/WritersModel.vo"],
        "proof_targets": ["Props/C19.vo"],
        "harness": [
            {"bin": "h_conc", "name": "h_conc_scope", "sub": "conc-scope", "extra": ["--only", "scope"],
             "prefix": "cases_scope", "timeout": 900},
            {"bin": "h_conc", "name": "h_conc_rolock", "sub": "conc-rolock", "extra": ["--only", "rolock"],
             "prefix": "cases_rolock", "timeout": 900},
            {"bin": "h_conc", "name": "h_conc_vec", "sub": "conc-vec", "extra": ["--only", "vec"],
             "prefix": "cases_vec", "timeout": 900},
        ],
        "trusted": [
            "Tier A (gen/CountsFns.v, regenerated every run): the AtomicCounts packing (shift, mask, decode, initial word, "
            "expect_one guard + CAS target, complete_one fetch_add, completion test) is USED by Conc/ScopeModel.v; the "
            "program-order operation lists of ReadOptimizedLock::read/lock and MutexWriter::drop are compared with the "
            "RoLockModel labels by Conc/RoProg.v; the atomic-operation inventory (atomic_sites) is generated but not yet pinned",
            "the REST of the transition systems in coq/Conc/*Model.v was written by hand from concurrency/src/threadpool/mod.rs, "
            "lib.rs, parallel_writer.rs, concurrent_vec.rs (sequentially consistent; one modelled step per atomic "
            "operation / channel operation of the source)",
            "event placement of harness h_conc (events are logged strictly inside the bracketed API calls, "
            "ordered by one SeqCst counter)",
        ],
        "theorem_backed": "PROTOCOLS, for all interleavings of the modelled atomic steps (sequentially consistent): "
                          "a scope gets past its wait only when queue and running set are empty and every spawned "
                          "task ran exactly once; completion signalled exactly once; AtomicCounts never overflows; "
                          "a panic is reported; no configuration of a scope is stuck; nested scopes with helping "
                          "workers never deadlock for any pool size >= 1 (Conc/Nested.v); ReadOptimizedLock: no two "
                          "writers, no writer together with an admitted reader, a reader never sees a half-done "
                          "write; fetch_add ranges are disjoint and tile, all written items present and intact",
        "link_only": "the COMPOSITION of the writers with the lock - every raw copy of ParallelVecWriter must happen while its read guard is alive, otherwise a concurrent growth moves the buffer under it - is not in the Coq models (WritersModel leaves reallocation to RoLockModel): it is covered by the growth-during-copy stress scenarios of h_conc (moving-realloc allocator, seeded/C19/rt_c19 is the regression for it); real-time blocking (Condvar / crossbeam channel wake-ups), memory ordering weaker than SC "
                     "(Acquire/Release fences in lib.rs, AcqRel counters), arc-swap debt internals, Vec reallocation and "
                     "the unsafe raw-pointer writes, NotificationList, thread-local pool installation, "
                     "MAX_INLINE_SCOPE_HELP_DEPTH/BackupWorker: exercised by the stress harness only (testing, not proof); "
                     "every stress scenario's event log is additionally replayed through the Coq transition systems "
                     "(trace inclusion, kernel-evaluated)",
        "assumptions": [
            "sequential consistency (the code uses Acquire/Release/AcqRel; not modelled)",
            "crossbeam channels deliver each message exactly once (FIFO order is NOT assumed: the queue is a bag)",
            "arc-swap: a Guard keeps its Arc alive and compare_and_swap compares pointers (no ABA while a guard is held)",
            "task bodies are arbitrary (spawn / finish / panic chosen nondeterministically) but do not block forever on "
            "anything other than nested scopes",
        ],
    }
