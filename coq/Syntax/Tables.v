(** C15 — the hand-written lexer / printer / keyword tables of Sexp.v and Ast.v are EQUAL to the
    tables regenerated from the Rust source on every run (gen/SyntaxFacts.v, translator module
    x_syntax.rs).  Removing an escape, reordering the literal classification, adding / removing /
    reordering a keyword or changing the accepted tail lengths of a keyword arm changes the
    regenerated table and breaks a lemma of this file (pinned in Props/C15.v). *)
From Coq Require Import List NArith ZArith Bool Lia.
Import ListNotations.
Require Import Verif.Base.Cases Verif.gen.SyntaxFacts Verif.Syntax.Sexp Verif.Syntax.SexpProofs
               Verif.Syntax.Ast Verif.Syntax.AstProofs.
Local Open Scope N_scope.

(** * table-driven definitions over the regenerated tables *)
Fixpoint assoc {B} (t : list (N * B)) (c : N) : option B :=
  match t with
  | [] => None
  | (k, v) :: tl => if c =? k then Some v else assoc tl c
  end.

(** the lexer's `(in_escape, c)` table *)
Definition gen_unescape (c : N) : option N := assoc lexer_unescape_table c.

(** the printer's string-escaping `match c` *)
Definition gen_escape_char (c : N) : str :=
  match assoc printer_escape_table c with Some s => s | None => [c] end.
Definition gen_escape (s : str) : str := List.flat_map gen_escape_char s.

(** `Display for Literal`, String arm, entirely from regenerated data *)
Definition gen_print_string (s : str) : str :=
  printer_string_quote :: gen_escape s ++ [printer_string_quote].

Definition lit_of_res (r : lex_res) : lit :=
  match r with
  | LRBool b => LBool b
  | LRNaN => LFloat FNaN
  | LRInf => LFloat FInf
  | LRNegInf => LFloat FNInf
  end.

(** interpreter of the regenerated classification order *)
Fixpoint classify_by (parse_f64 : str -> option fl) (order : list lex_class) (s : str) : sexp :=
  match order with
  | [] => SAtom s
  | LCWord w r :: tl => if str_eqb s w then SLit (lit_of_res r) else classify_by parse_f64 tl s
  | LCInt :: tl => match parse_i64 s with Some z => SLit (LInt z) | None => classify_by parse_f64 tl s end
  | LCFloatFinite :: tl =>
      match parse_f64 s with Some (FFin x) => SLit (LFloat (FFin x)) | _ => classify_by parse_f64 tl s end
  | LCAtom :: _ => SAtom s
  end.

(** * the hand tables equal the regenerated ones *)
Lemma unescape_gen : forall c, unescape c = gen_unescape c.
Proof. intro c. reflexivity. Qed.

Lemma escape_gen : forall s, escape s = gen_escape s.
Proof.
  induction s as [|c tl IH]; [reflexivity|]. simpl. rewrite IH. unfold gen_escape_char. simpl.
  unfold c_bs, c_quote. destruct (c =? 92) eqn:E1; [apply N.eqb_eq in E1; subst; reflexivity|].
  destruct (c =? 34) eqn:E2; [apply N.eqb_eq in E2; subst; reflexivity|]. reflexivity.
Qed.

Lemma lexer_chars_gen :
  c_quote = lexer_string_quote /\ c_bs = lexer_escape_intro /\ c_quote = printer_string_quote
  /\ lexer_paren_tokens = [(c_lp, true); (c_rp, false)]
  /\ lexer_other_delims = [c_semi; c_lp; c_rp].
Proof. repeat split. Qed.

Lemma is_delim_gen : forall c, is_delim c = is_ws c || existsb (N.eqb c) lexer_other_delims.
Proof.
  intro c. unfold is_delim. simpl. unfold c_semi, c_lp, c_rp.
  destruct (is_ws c), (c =? 59), (c =? 40), (c =? 41); reflexivity.
Qed.

Lemma print_string_gen : forall fmt s, print_lit fmt (LStr s) = gen_print_string s.
Proof. intros. unfold gen_print_string. simpl. rewrite escape_gen. reflexivity. Qed.

Lemma print_misc_gen : forall fmt, print_lit fmt LUnit = printer_unit_text /\ k_dot0 = printer_float_int_suffix.
Proof. intro. split; reflexivity. Qed.

Lemma classify_gen : forall parse_f64 s, classify parse_f64 s = classify_by parse_f64 lexer_classify_order s.
Proof. intros. reflexivity. Qed.

(** the lexer reads back what the REGENERATED printer table emits, for every string *)
Theorem gen_string_roundtrip : forall s rest,
  lex_string false (gen_escape s ++ lexer_string_quote :: rest) = POk (s, rest).
Proof. intros. rewrite <- escape_gen. apply lex_string_escape. Qed.

(** compatibility of the two regenerated tables, stated on the tables alone: every escape the
    printer emits is the introducer followed by a character the lexer maps back to the original,
    and the two characters that are special inside a string are both escaped *)
Definition escape_tables_compatible : bool :=
  forallb (fun cs : N * list N =>
             match snd cs with
             | [i; d] => (i =? lexer_escape_intro)
                         && (match assoc lexer_unescape_table d with Some c => c =? fst cs | None => false end)
             | _ => false
             end) printer_escape_table
  && forallb (fun c => match assoc printer_escape_table c with Some _ => true | None => false end)
       [lexer_string_quote; lexer_escape_intro]
  && (printer_string_quote =? lexer_string_quote).
Lemma escape_tables_ok : escape_tables_compatible = true.
Proof. reflexivity. Qed.

(** * keyword tables *)
Definition hand_command_heads : list str :=
  [k_sort; k_datatype; k_datatypes; k_function; k_constructor; k_relation; k_ruleset; k_combined;
   k_rule; k_rewrite; k_birewrite; k_run; k_run_schedule; k_extract; k_check; k_prove; k_prove_exists;
   k_push; k_pop; k_print_stats; k_print_function; k_print_size; k_input; k_output; k_include; k_fail].
Definition hand_action_heads : list str := [k_let; k_set; k_delete; k_subsume; k_union; k_panic].
Definition hand_schedule_heads : list str := [k_saturate; k_seq; k_repeat; k_run].

Lemma heads_gen :
  List.map fst command_heads = hand_command_heads /\ command_fallback = FBAction
  /\ List.map fst action_heads = hand_action_heads /\ action_fallback = FBExpr
  /\ List.map fst schedule_heads = hand_schedule_heads /\ schedule_fallback = FBError
  /\ List.map fst fact_heads = [k_eq] /\ fact_fallback = FBExpr.
Proof. repeat split. Qed.

Definition is_head (tbl : list (str * option (list arity))) (h : str) : bool :=
  existsb (str_eqb h) (List.map fst tbl).

Lemma not_head : forall tbl h k, is_head tbl h = false -> In k (List.map fst tbl) -> str_eqb h k = false.
Proof.
  intros tbl h k H Hin. unfold is_head in H.
  destruct (str_eqb h k) eqn:E; [|reflexivity].
  assert (existsb (str_eqb h) (List.map fst tbl) = true) by (apply existsb_exists; exists k; auto). congruence.
Qed.

(** * the parser's dispatch follows the regenerated tables *)
Ltac heads_false H :=
  repeat match goal with
         | |- context [str_eqb ?h ?k] =>
             rewrite (not_head _ h k H) by (vm_compute; tauto)
         end.

(** a head that is not in the regenerated command table goes to `parse_action` *)
Lemma parse_command_fallback : forall chk h tail,
  is_head command_heads h = false ->
  parse_command chk (SList (SAtom h :: tail)) =
  bindM (parse_action chk (SList (SAtom h :: tail))) (fun a => ret (CAction a)).
Proof. intros chk h tail H. cbn [parse_command]. heads_false H. reflexivity. Qed.

(** a head that is not in the regenerated action table is an expression *)
Lemma parse_action_fallback : forall chk h tail,
  is_head action_heads h = false ->
  parse_action chk (SList (SAtom h :: tail)) =
  bindM (parse_expr chk (SList (SAtom h :: tail))) (fun e => ret (AExpr e)).
Proof. intros chk h tail H. unfold parse_action. heads_false H. reflexivity. Qed.

Lemma parse_fact_fallback : forall chk h tail,
  is_head fact_heads h = false ->
  parse_fact chk (SList (SAtom h :: tail)) =
  bindM (parse_expr chk (SList (SAtom h :: tail))) (fun e => ret (FFact e)).
Proof. intros chk h tail H. unfold parse_fact. heads_false H. reflexivity. Qed.

(** a head that is not in the regenerated schedule table is an error *)
Lemma parse_sched_fallback : forall chk h tail n,
  is_head schedule_heads h = false ->
  parse_sched chk (SList (SAtom h :: tail)) n = PErr EGrammar.
Proof. intros chk h tail n H. rewrite parse_sched_eq. cbv zeta. heads_false H. reflexivity. Qed.

(** the tail lengths the regenerated `match tail` patterns accept *)
Definition arity_ok (a : list arity) (n : nat) : bool :=
  existsb (fun p => match p with AExact k => Nat.eqb n k | AAtLeast k => Nat.leb k n end) a.

Ltac kwtests :=
  repeat match goal with
         | |- context [str_eqb ?a ?b] =>
             let v := eval vm_compute in (str_eqb a b) in change (str_eqb a b) with v
         end; cbv iota.
Ltac split_vars :=
  repeat match goal with
         | |- context [match ?x with _ => _ end] => is_var x; destruct x
         end.

(** a keyword arm rejects every tail whose length none of its regenerated slice patterns accepts *)
Lemma command_arity : forall chk h ar tail n,
  In (h, Some ar) command_heads -> arity_ok ar (List.length tail) = false ->
  parse_command chk (SList (SAtom h :: tail)) n = PErr EGrammar.
Proof.
  intros chk h ar tail n Hin Har. unfold command_heads in Hin. simpl in Hin.
  repeat (destruct Hin as [Hin|Hin]; [inversion Hin; subst; clear Hin | ]); try contradiction;
    destruct tail as [|t0 [|t1 [|t2 [|t3 tl]]]]; simpl in Har; try discriminate Har;
    cbn [parse_command]; kwtests; split_vars; reflexivity.
Qed.

Lemma action_arity : forall chk h ar tail n,
  In (h, Some ar) action_heads -> arity_ok ar (List.length tail) = false ->
  parse_action chk (SList (SAtom h :: tail)) n = PErr EGrammar.
Proof.
  intros chk h ar tail n Hin Har. unfold action_heads in Hin. simpl in Hin.
  repeat (destruct Hin as [Hin|Hin]; [inversion Hin; subst; clear Hin | ]); try contradiction;
    destruct tail as [|t0 [|t1 [|t2 tl]]]; simpl in Har; try discriminate Har;
    unfold parse_action; kwtests; reflexivity.
Qed.

Lemma schedule_arity : forall chk h ar tail n,
  In (h, Some ar) schedule_heads -> arity_ok ar (List.length tail) = false ->
  parse_sched chk (SList (SAtom h :: tail)) n = PErr EGrammar.
Proof.
  intros chk h ar tail n Hin Har. unfold schedule_heads in Hin. simpl in Hin.
  repeat (destruct Hin as [Hin|Hin]; [inversion Hin; subst; clear Hin | ]); try contradiction;
    destruct tail as [|t0 tl]; simpl in Har; try discriminate Har;
    rewrite parse_sched_eq; cbv zeta; kwtests; reflexivity.
Qed.
