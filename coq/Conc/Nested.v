(** C19 / nested scopes with helping workers: deadlock-freedom for any pool size >= 1 and any
    nesting depth (proofs over NestedModel.v) *)
From Coq Require Import List Arith Bool Lia.
Import ListNotations.
Require Import Verif.Base.Res Verif.Conc.NestedModel.

Notation occ := (count_occ Nat.eq_dec).

Fixpoint bcount (a : nat) (l : list frame) : nat :=
  match l with [] => 0 | f :: tl => (if is_body a f then 1 else 0) + bcount a tl end.

(** every scope frame is younger than the scopes of all body frames below it in the same stack *)
Fixpoint ord (stk : list frame) : Prop :=
  match stk with
  | [] => True
  | f :: rest => ord rest /\
      (is_scope f = true -> forall b, In b rest -> forall a, is_body a b = true -> a < fid f)
  end.

Lemma bcount_app a l1 l2 : bcount a (l1 ++ l2) = bcount a l1 + bcount a l2.
Proof. induction l1; simpl; auto. rewrite IHl1. lia. Qed.

Lemma bcount_concat_set a : forall (l : list (list frame)) t x, t < length l ->
  bcount a (concat (set_nth l t x)) + bcount a (nth t l []) = bcount a (concat l) + bcount a x.
Proof.
  induction l as [|h tl IH]; intros t x Ht; simpl in Ht; [lia|].
  destruct t; simpl.
  - rewrite !bcount_app. lia.
  - rewrite !bcount_app. specialize (IH t x). lia.
Qed.

Lemma in_set_nth {A} (y : A) : forall l t x, In y (set_nth l t x) -> y = x \/ In y l.
Proof.
  induction l as [|h tl IH]; intros t x H; simpl in *; [tauto|].
  destruct t; simpl in H.
  - destruct H; auto.
  - destruct H; auto. destruct (IH _ _ H); auto.
Qed.

Lemma nth_In_stack (l : list (list frame)) t : nth t l [] <> [] -> In (nth t l []) l /\ t < length l.
Proof.
  intros H. destruct (Nat.lt_ge_cases t (length l)).
  - split; auto. apply nth_In; auto.
  - rewrite nth_overflow in H by auto. congruence.
Qed.

Lemma bcount_pos a l : bcount a l >= 1 -> exists up b down, l = up ++ b :: down /\ is_body a b = true.
Proof.
  induction l as [|f tl IH]; simpl; [lia|]. intros H.
  destruct (is_body a f) eqn:E.
  - exists [], f, tl. auto.
  - destruct IH as (up & b & down & -> & Hb); [lia|]. exists (f :: up), b, down. auto.
Qed.

Lemma bcount_concat_pos a : forall l, bcount a (concat l) >= 1 ->
  exists stk, In stk l /\ bcount a stk >= 1.
Proof.
  induction l as [|h tl IH]; simpl; [lia|]. rewrite bcount_app. intros H.
  destruct (Nat.eq_dec (bcount a h) 0).
  - destruct IH as (stk & Hin & Hc); [lia|]. exists stk. auto.
  - exists h. split; auto. lia.
Qed.

Lemma ord_above up : forall b down a, ord (up ++ b :: down) -> is_body a b = true ->
  forall f, In f up -> is_scope f = true -> a < fid f.
Proof.
  induction up as [|g up IH]; intros b down a Ho Hb f Hin Hs; [destruct Hin|].
  simpl in Ho. destruct Ho as [Ho1 Ho2]. destruct Hin as [->|Hin].
  - apply (Ho2 Hs b); auto. apply in_or_app. right. left. auto.
  - eapply IH; eauto.
Qed.

Section P.
Variable W N : nat.
Hypothesis HW : 1 <= W <= N.

Record NInv (s : st) : Prop := {
  n_len : length (stacks s) = N;
  n_cnt : forall a, a < next s -> out s a = occ (queue s) a + bcount a (concat (stacks s));
  n_done : forall a, a < next s -> (done s a = true <-> out s a = 0);
  n_qid : forall a, In a (queue s) -> a < next s;
  n_fid : forall stk f, In stk (stacks s) -> In f stk -> fid f < next s;
  n_ord : forall stk, In stk (stacks s) -> ord stk
}.

Lemma concat_repeat_nil n : concat (repeat (@nil frame) n) = [].
Proof. induction n; simpl; auto. Qed.

Lemma ninv_init : NInv (init N).
Proof.
  constructor; simpl; intros; try lia; try tauto.
  - apply repeat_length.
  - apply repeat_spec in H. subst. destruct H0.
  - apply repeat_spec in H. subst. simpl. auto.
Qed.

Lemma updf_eq {A} (f : nat -> A) i v : updf f i v i = v.
Proof. unfold updf. rewrite Nat.eqb_refl. auto. Qed.
Lemma updf_neq {A} (f : nat -> A) i v x : x <> i -> updf f i v x = f x.
Proof. unfold updf. intro. destruct (Nat.eqb_spec x i); congruence. Qed.

Lemma is_body_fid a b : is_body a b = true -> a = fid b.
Proof. destruct b; simpl; try discriminate; apply Nat.eqb_eq. Qed.

Lemma occ_app l1 l2 (k : nat) : occ (l1 ++ l2) k = occ l1 k + occ l2 k.
Proof. apply count_occ_app. Qed.

Ltac stack_facts I Hn :=
  match type of Hn with
  | nth ?t ?l [] = _ =>
      let Hne := fresh "Hne" in
      assert (Hne : nth t l [] <> []) by (rewrite Hn; discriminate);
      destruct (nth_In_stack _ _ Hne) as [Hin Hlt]; rewrite Hn in Hin
  end.

Theorem ninv_step s s' : NInv s -> step W s s' -> NInv s'.
Proof.
  intros I St. inversion St; subst; clear St.
  - (* open *)
    rename H into Hlt. rename H1 into Hrun.
    set (stk := nth t (stacks s) []) in *.
    assert (Hstk : stk = [] \/ In stk (stacks s)).
    { destruct stk eqn:E; auto. right. rewrite <- E. apply nth_In; auto. }
    constructor; simpl.
    + rewrite length_set_nth. apply I.
    + intros a Ha. pose proof (bcount_concat_set a (stacks s) t (FRoot (next s) :: stk) Hlt) as C.
      fold stk in C. simpl in C.
      destruct (Nat.eq_dec a (next s)) as [->|Na].
      * rewrite updf_eq. rewrite Nat.eqb_refl in C.
        assert (occ (queue s) (next s) = 0).
        { apply count_occ_not_In. intro Hq. apply (n_qid s I) in Hq. lia. }
        assert (bcount (next s) (concat (stacks s)) = 0).
        { destruct (bcount (next s) (concat (stacks s))) eqn:E; auto. exfalso.
          destruct (bcount_concat_pos (next s) (stacks s)) as (k & Hk & Hc); [lia|].
          destruct (bcount_pos _ _ Hc) as (up & b & down & -> & Hb).
          apply is_body_fid in Hb.
          assert (fid b < next s) by (eapply (n_fid s I); eauto; apply in_or_app; right; left; auto).
          lia. }
        lia.
      * rewrite updf_neq by auto. destruct (Nat.eqb_spec a (next s)); [lia|].
        rewrite (n_cnt s I a) by lia. lia.
    + intros a Ha. destruct (Nat.eq_dec a (next s)) as [->|Na].
      * rewrite !updf_eq. split; [discriminate|lia].
      * rewrite !updf_neq by auto. apply (n_done s I). lia.
    + intros a Ha. apply (n_qid s I) in Ha. lia.
    + intros k f Hk Hf. apply in_set_nth in Hk. destruct Hk as [->|Hk].
      * destruct Hf as [<-|Hf]; [simpl; lia|].
        destruct Hstk as [E|Hin]; [rewrite E in Hf; destruct Hf|].
        pose proof (n_fid s I _ _ Hin Hf). lia.
      * pose proof (n_fid s I _ _ Hk Hf). lia.
    + intros k Hk. apply in_set_nth in Hk. destruct Hk as [->|Hk]; [|apply (n_ord s I); auto].
      simpl. split.
      * destruct Hstk as [E|Hin]; [rewrite E; simpl; auto|apply (n_ord s I); auto].
      * intros _ b Hb a Hab. apply is_body_fid in Hab. subst a.
        destruct Hstk as [E|Hin]; [rewrite E in Hb; destruct Hb|].
        apply (n_fid s I _ _ Hin Hb).
  - (* spawn *)
    rename H into Hn. rename H0 into Hb.
    stack_facts I Hn.
    assert (Ha : a < next s).
    { apply is_body_fid in Hb. subst a. apply (n_fid s I _ _ Hin). left. auto. }
    assert (Hpos : out s a >= 1).
    { rewrite (n_cnt s I a Ha).
      assert (bcount a (concat (stacks s)) >= 1); [|lia].
      pose proof (bcount_concat_set a (stacks s) t [] Hlt) as C. rewrite Hn in C. simpl in C.
      rewrite Hb in C. lia. }
    constructor; simpl; try apply I.
    + intros a0 Ha0. destruct (Nat.eq_dec a0 a) as [->|Na].
      * rewrite updf_eq. destruct (Nat.eq_dec a a); [|congruence]. rewrite (n_cnt s I a Ha). lia.
      * rewrite updf_neq by auto. destruct (Nat.eq_dec a a0); [congruence|]. apply (n_cnt s I); auto.
    + intros a0 Ha0. destruct (Nat.eq_dec a0 a) as [->|Na].
      * rewrite updf_eq. pose proof (n_done s I a Ha). split; [|lia]. intro D. apply H in D. lia.
      * rewrite updf_neq by auto. apply (n_done s I); auto.
    + intros a0 [<-|H0]; auto. apply (n_qid s I); auto.
  - (* finish task *)
    rename H into Hn. stack_facts I Hn.
    assert (Ha : a < next s) by (apply (n_fid s I _ (FTask a) Hin); left; auto).
    pose proof (bcount_concat_set a (stacks s) t rest Hlt) as C. rewrite Hn in C. simpl in C.
    rewrite Nat.eqb_refl in C.
    constructor; simpl; try apply I.
    + rewrite length_set_nth. apply I.
    + intros a0 Ha0. destruct (Nat.eq_dec a0 a) as [->|Na].
      * rewrite updf_eq. rewrite (n_cnt s I a Ha). lia.
      * rewrite updf_neq by auto. rewrite (n_cnt s I a0 Ha0).
        pose proof (bcount_concat_set a0 (stacks s) t rest Hlt) as C0. rewrite Hn in C0. simpl in C0.
        destruct (Nat.eqb_spec a0 a); [congruence|]. lia.
    + intros a0 Ha0. destruct (Nat.eq_dec a0 a) as [->|Na].
      * rewrite !updf_eq. destruct (Nat.eqb_spec (out s a) 1); split; intros; try lia; try discriminate.
        rewrite (n_cnt s I a Ha) in *. lia.
      * rewrite !updf_neq by auto. apply (n_done s I); auto.
    + intros k f Hk Hf. apply in_set_nth in Hk. destruct Hk as [->|Hk]; [|eapply (n_fid s I); eauto].
      apply (n_fid s I _ f Hin). right. auto.
    + intros k Hk. apply in_set_nth in Hk. destruct Hk as [->|Hk]; [|apply (n_ord s I); auto].
      pose proof (n_ord s I _ Hin) as O. simpl in O. tauto.
  - (* finish root *)
    rename H into Hn. stack_facts I Hn.
    assert (Ha : a < next s) by (apply (n_fid s I _ (FRoot a) Hin); left; auto).
    set (stk' := if Nat.eqb (out s a) 1 then rest else FWait a :: rest).
    assert (Hb' : forall a0, bcount a0 stk' = bcount a0 rest).
    { intro a0. unfold stk'. destruct (Nat.eqb (out s a) 1); simpl; auto. }
    constructor; simpl; try apply I.
    + rewrite length_set_nth. apply I.
    + intros a0 Ha0.
      pose proof (bcount_concat_set a0 (stacks s) t stk' Hlt) as C0. rewrite Hn, Hb' in C0. simpl in C0.
      destruct (Nat.eq_dec a0 a) as [->|Na].
      * rewrite updf_eq. rewrite (n_cnt s I a Ha). rewrite Nat.eqb_refl in C0. lia.
      * rewrite updf_neq by auto. rewrite (n_cnt s I a0 Ha0).
        destruct (Nat.eqb_spec a0 a); [congruence|]. lia.
    + intros a0 Ha0. destruct (Nat.eq_dec a0 a) as [->|Na].
      * rewrite !updf_eq. destruct (Nat.eqb_spec (out s a) 1); split; intros; try lia; try discriminate.
        pose proof (bcount_concat_set a (stacks s) t [] Hlt) as C0. rewrite Hn in C0. simpl in C0.
        rewrite Nat.eqb_refl in C0. rewrite (n_cnt s I a Ha) in *. lia.
      * rewrite !updf_neq by auto. apply (n_done s I); auto.
    + intros k f Hk Hf. apply in_set_nth in Hk. destruct Hk as [->|Hk]; [|eapply (n_fid s I); eauto].
      unfold stk' in Hf. destruct (Nat.eqb (out s a) 1).
      * apply (n_fid s I _ f Hin). right. auto.
      * destruct Hf as [<-|Hf]; [simpl; auto|]. apply (n_fid s I _ f Hin). right. auto.
    + intros k Hk. apply in_set_nth in Hk. destruct Hk as [->|Hk]; [|apply (n_ord s I); auto].
      pose proof (n_ord s I _ Hin) as O. simpl in O. unfold stk'.
      destruct (Nat.eqb (out s a) 1); simpl; tauto.
  - (* wake *)
    rename H into Hn. stack_facts I Hn.
    constructor; simpl; try apply I.
    + rewrite length_set_nth. apply I.
    + intros a0 Ha0. rewrite (n_cnt s I a0 Ha0).
      pose proof (bcount_concat_set a0 (stacks s) t rest Hlt) as C0. rewrite Hn in C0. simpl in C0. lia.
    + intros k f Hk Hf. apply in_set_nth in Hk. destruct Hk as [->|Hk]; [|eapply (n_fid s I); eauto].
      apply (n_fid s I _ f Hin). right. auto.
    + intros k Hk. apply in_set_nth in Hk. destruct Hk as [->|Hk]; [|apply (n_ord s I); auto].
      pose proof (n_ord s I _ Hin) as O. simpl in O. tauto.
  - (* start *)
    rename H0 into Hlt. rename H1 into Hn. rename H2 into Hq.
    assert (Ha : a < next s) by (apply (n_qid s I); rewrite Hq; apply in_or_app; right; left; auto).
    constructor; simpl; try apply I.
    + rewrite length_set_nth. apply I.
    + intros a0 Ha0. rewrite (n_cnt s I a0 Ha0), Hq.
      pose proof (bcount_concat_set a0 (stacks s) t [FTask a] Hlt) as C0. rewrite Hn in C0. simpl in C0.
      rewrite !occ_app. simpl.
      destruct (Nat.eq_dec a a0) as [->|Na]; [rewrite Nat.eqb_refl in C0; lia|].
      destruct (Nat.eqb_spec a0 a); [congruence|]. lia.
    + intros a0 Ha0. apply (n_qid s I). rewrite Hq. apply in_app_or in Ha0. apply in_or_app.
      destruct Ha0; auto. right. right. auto.
    + intros k f Hk Hf. apply in_set_nth in Hk. destruct Hk as [->|Hk]; [|eapply (n_fid s I); eauto].
      destruct Hf as [<-|[]]. auto.
    + intros k Hk. apply in_set_nth in Hk. destruct Hk as [->|Hk]; [|apply (n_ord s I); auto].
      simpl. split; auto. discriminate.
  - (* help *)
    rename H0 into Hn. rename H1 into Hq. stack_facts I Hn.
    assert (Ha : a < next s) by (apply (n_qid s I); rewrite Hq; apply in_or_app; right; left; auto).
    constructor; simpl; try apply I.
    + rewrite length_set_nth. apply I.
    + intros a0 Ha0. rewrite (n_cnt s I a0 Ha0), Hq.
      pose proof (bcount_concat_set a0 (stacks s) t (FTask a :: FWait n :: rest) Hlt) as C0.
      rewrite Hn in C0. simpl in C0. rewrite !occ_app. simpl.
      destruct (Nat.eq_dec a a0) as [->|Na]; [rewrite Nat.eqb_refl in C0; lia|].
      destruct (Nat.eqb_spec a0 a); [congruence|]. lia.
    + intros a0 Ha0. apply (n_qid s I). rewrite Hq. apply in_app_or in Ha0. apply in_or_app.
      destruct Ha0; auto. right. right. auto.
    + intros k f Hk Hf. apply in_set_nth in Hk. destruct Hk as [->|Hk]; [|eapply (n_fid s I); eauto].
      destruct Hf as [<-|Hf]; auto. apply (n_fid s I _ f Hin). auto.
    + intros k Hk. apply in_set_nth in Hk. destruct Hk as [->|Hk]; [|apply (n_ord s I); auto].
      pose proof (n_ord s I _ Hin) as O. simpl in *. split; auto. discriminate.
Qed.

Theorem reachable_ninv s : reachable W N s -> NInv s.
Proof. induction 1; [apply ninv_init|eapply ninv_step; eauto]. Qed.

(** safety across the whole pool: once a scope's completion has been signalled none of its jobs is
    queued and none of its bodies is on any thread's stack *)
Theorem nested_done_safe s a : reachable W N s -> a < next s -> done s a = true ->
  occ (queue s) a = 0 /\ bcount a (concat (stacks s)) = 0.
Proof.
  intros R Ha D. pose proof (reachable_ninv s R) as I.
  apply (n_done s I a Ha) in D. rewrite (n_cnt s I a Ha) in D. lia.
Qed.

(** what a stack's top can be *)
Definition top_body (stk : list frame) : bool :=
  match stk with FTask _ :: _ | FRoot _ :: _ => true | _ => false end.
Definition top_wake (s : st) (stk : list frame) : bool :=
  match stk with FWait n :: _ => done s n | _ => false end.

Lemma In_nth_stack (l : list (list frame)) stk : In stk l -> exists t, t < length l /\ nth t l [] = stk.
Proof. intro H. destruct (In_nth l stk [] H) as (t & A & B). eauto. Qed.

(** the core of the argument: with an empty queue, a thread whose top frame waits for an
    unfinished scope n implies another thread-top waiting for a strictly YOUNGER unfinished scope *)
Lemma blocked_chain s : NInv s -> queue s = [] ->
  (forall stk, In stk (stacks s) -> top_body stk = false /\ top_wake s stk = false) ->
  forall k n rest, next s - n <= k -> In (FWait n :: rest) (stacks s) -> False.
Proof.
  intros I Hq Hall. induction k as [|k IH]; intros n rest Hk Hin.
  - assert (fid (FWait n) < next s) by (eapply (n_fid s I); eauto; left; auto). simpl in H. lia.
  - assert (Hn : n < next s) by (apply (n_fid s I _ (FWait n) Hin); left; auto).
    destruct (Hall _ Hin) as [_ Hw]. simpl in Hw.
    assert (Hout : out s n <> 0).
    { intro E. apply (n_done s I n Hn) in E. congruence. }
    rewrite (n_cnt s I n Hn), Hq in Hout. simpl in Hout.
    destruct (bcount_concat_pos n (stacks s)) as (stk & Hstk & Hc); [lia|].
    destruct (bcount_pos _ _ Hc) as (up & b & down & -> & Hb).
    destruct (Hall _ Hstk) as [Htb Htw].
    destruct up as [|g up].
    + (* the body frame would be on top *)
      simpl in Htb. destruct b; simpl in Hb; try discriminate; discriminate.
    + simpl in Htb, Htw. destruct g as [x|x|m]; try discriminate.
      assert (Hlt : n < m).
      { apply (ord_above (FWait m :: up) b down n (n_ord s I _ Hstk) Hb (FWait m)); [left; auto|auto]. }
      apply (IH m (up ++ b :: down)); [lia|exact Hstk].
Qed.

(** DEADLOCK-FREEDOM of the pool, any pool size W >= 1, any number of threads, any nesting depth:
    as long as a job is queued or some thread is inside a scope, some step is enabled *)
Theorem nested_progress s : reachable W N s ->
  (queue s <> [] \/ exists t, nth t (stacks s) [] <> []) -> exists s', step W s s'.
Proof.
  intros R Hnf. pose proof (reachable_ninv s R) as I.
  (* 1. some thread's top frame is a running body: it can finish *)
  destruct (existsb top_body (stacks s)) eqn:E1.
  { apply existsb_exists in E1. destruct E1 as (stk & Hin & Ht).
    destruct (In_nth_stack _ _ Hin) as (t & Hlt & Hn).
    destruct stk as [|[a|a|a] rest]; simpl in Ht; try discriminate.
    - eexists. eapply NFinishTask; eauto.
    - eexists. eapply NFinishRoot; eauto. }
  (* 2. some waiter's scope is done: it wakes up *)
  destruct (existsb (top_wake s) (stacks s)) eqn:E2.
  { apply existsb_exists in E2. destruct E2 as (stk & Hin & Ht).
    destruct (In_nth_stack _ _ Hin) as (t & Hlt & Hn).
    destruct stk as [|[a|a|a] rest]; simpl in Ht; try discriminate.
    eexists. eapply NWake; eauto. }
  assert (Hall : forall stk, In stk (stacks s) -> top_body stk = false /\ top_wake s stk = false).
  { intros stk Hin. split.
    - destruct (top_body stk) eqn:E; auto.
      assert (existsb top_body (stacks s) = true) by (apply existsb_exists; eauto). congruence.
    - destruct (top_wake s stk) eqn:E; auto.
      assert (existsb (top_wake s) (stacks s) = true) by (apply existsb_exists; eauto). congruence. }
  destruct (queue s) as [|a q] eqn:Hq.
  - (* 4. empty queue, everybody at the top waits for an unfinished scope: impossible *)
    exfalso. destruct Hnf as [H|(t & Ht)]; [congruence|].
    destruct (nth_In_stack _ _ Ht) as [Hin Hlt].
    destruct (Hall _ Hin) as [Hb Hw].
    destruct (nth t (stacks s) []) as [|[x|x|n] rest] eqn:En; try congruence; try discriminate.
    eapply (blocked_chain s I Hq Hall (next s - n) n rest); eauto.
  - (* 3. a job is queued: worker 0 is idle (starts it) or waiting (helps) *)
    assert (H0 : 0 < length (stacks s)) by (rewrite (n_len s I); lia).
    destruct (nth 0 (stacks s) []) as [|[x|x|n] rest] eqn:En.
    + eexists. eapply (NStart W s 0 a [] q); eauto; lia.
    + exfalso. assert (In (FTask x :: rest) (stacks s)) by (rewrite <- En; apply nth_In; auto).
      destruct (Hall _ H). discriminate.
    + exfalso. assert (In (FRoot x :: rest) (stacks s)) by (rewrite <- En; apply nth_In; auto).
      destruct (Hall _ H). discriminate.
    + eexists. eapply (NHelp W s 0 n rest a [] q); eauto; lia.
Qed.
End P.
