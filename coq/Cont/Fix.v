(** C14 — rebuild to a fixpoint: the good-state invariant is kept by both strategies, the loop
    terminates within [rebuild_fuel], the result is canonical; the dirty-id closure is closed under
    "is contained in"; insertion and external unions keep the invariant (reachable states). *)
From Coq Require Import List Arith Bool PeanoNat Lia.
Import ListNotations.
Require Import Verif.Base.Res Verif.gen.UFSeq Verif.UF.Seq Verif.gen.MergeArms Verif.Egg.Model
  Verif.Egg.RepFacts Verif.Cont.Env Verif.Cont.Facts Verif.Cont.Pass.

Lemma rids_iter c x : In x (rids c) -> In x (iter c).
Proof.
  destruct c as [l|l|l|a b|rk rv l]; simpl; auto.
  intros H. apply in_app_iff in H as [H|H].
  - destruct rk; [|destruct H]. apply in_map_iff in H as ([k v] & <- & H).
    apply in_flat_map. exists (k, v). simpl. auto.
  - destruct rv; [|destruct H]. apply in_map_iff in H as ([k v] & <- & H).
    apply in_flat_map. exists (k, v). simpl. auto.
Qed.

Lemma rep_oob p x : Inv p -> length p <= x -> rep p x = x.
Proof. intros HI H. apply rep_fix; auto. apply par_oob. exact H. Qed.

Lemma displaced_self p : displaced p p = [].
Proof.
  unfold displaced. induction (seq 0 (length p)) as [|i l IH]; simpl; [reflexivity|].
  destruct (isroot_b p i); simpl; exact IH.
Qed.

Lemma in_displaced p p' x : Inv p' -> length p' = length p ->
  rep p x = x -> rep p' x <> x -> In x (displaced p p').
Proof.
  intros HI' Hl R N. unfold displaced. apply filter_In. split.
  - apply in_seq. destruct (le_lt_dec (length p) x) as [H|H]; [|lia].
    exfalso. apply N. apply rep_oob; auto. lia.
  - unfold isroot_b. apply andb_true_iff. split; [apply Nat.eqb_eq; exact R|].
    apply negb_true_iff. apply Nat.eqb_neq. exact N.
Qed.

Section WithOracle.
  Variable oracle : nat -> nat -> nat -> nat.

  Record Good (s : cstate) : Prop := mkGood {
    g_inv : Inv (cuf s);
    g_env : EnvInv (cenv s);
    g_roots : forall w, In w (live (cenv s)) -> rootp (cuf s) w;
    g_pend : forall d w x, In (d, w) (to_id (cenv s)) -> In x (rids d) ->
               rep (cuf s) x = x \/ In x (pending s)
  }.

  Definition run_pass (b : bool) (s : cstate) : env * list (nat * nat) * list nat * bool :=
    if b then pass_inc oracle (rep (cuf s)) (pending s) (cenv s) else pass_full oracle (rep (cuf s)) (cenv s).

  (** one pass, either strategy *)
  Theorem pass_step b s e' us dirty chg : Good s -> run_pass b s = (e', us, dirty, chg) ->
    exists p', UFStep (cuf s) us p'
      /\ Good (mkCS p' e' (displaced (cuf s) p'))
      /\ contents_ok (canonical (rep (cuf s))) e'
      /\ (chg = false -> us = [])
      /\ (contents_ok (canonical (rep (cuf s))) (cenv s) -> chg = false)
      /\ (forall c c' v, In (c, v) (to_id (cenv s)) -> In (c', v) (to_id e') -> c <> c' -> In v dirty)
      /\ (forall w, In w (live e') -> In w (live (cenv s))).
  Proof.
    intros G E. destruct s as [p e pend]. destruct G as [HI I Rl Pd]. simpl in *.
    assert (X : exists p', UFStep p us p' /\ EnvInv e' /\ (forall w, In w (live e') -> rootp p' w)
      /\ contents_ok (canonical (rep p)) e' /\ (chg = false -> us = [])
      /\ (contents_ok (canonical (rep p)) e -> chg = false)
      /\ (forall c c' v, In (c, v) (to_id e) -> In (c', v) (to_id e') -> c <> c' -> In v dirty)
      /\ (forall w, In w (live e') -> In w (live e))).
    { unfold run_pass in E. simpl in E. destruct b.
      - unfold pass_inc in E.
        destruct (inc_loop_spec oracle (rep p) (fun x => rep_idem p x HI)
                    (to_rebuild pend e) p e [] [] false HI I)
          as (p' & us' & E1 & U & I' & R' & Q' & S' & _ & T' & G' & A').
        + intros w H. split; [apply Rl; exact H|]. apply rootp_rep. apply Rl. exact H.
        + intros d w H. unfold canonical. destruct (changed (rep p) d) eqn:Ed; [right|left; reflexivity].
          unfold changed in Ed. apply existsb_exists in Ed as (x & Hx & Nx).
          apply negb_true_iff in Nx. apply Nat.eqb_neq in Nx.
          destruct (Pd d w x H Hx) as [R|Hp]; [contradiction|].
          unfold to_rebuild. apply nodup_In. apply in_flat_map. exists x. split; [exact Hp|].
          right. eapply (inv_idx e I); eauto. apply rids_iter. exact Hx.
        + rewrite E in *. cbn [fst snd app] in *. subst us'.
          exists p'. repeat (split; [assumption|]). split.
          * intros Hc. destruct (G' Hc) as [_ X]. exact X.
          * split; [exact A'|]. split; [exact T'|exact S'].
      - destruct (pass_full_spec oracle p e e' us dirty chg HI I Rl E)
          as (p' & U & I' & R' & Q' & C' & A' & T' & S').
        exists p'. repeat (split; [assumption|]). split; [intros Hc; apply C'; exact Hc|].
        split; [exact A'|]. split; [exact T'|exact S']. }
    destruct X as (p' & U & I' & R' & Q' & C' & A' & T' & S').
    exists p'. split; [exact U|]. split; [|repeat (split; [assumption|]); assumption].
    destruct U as (_ & HI' & Hl' & _).
    constructor; simpl; auto.
    intros d w x H Hx.
    assert (Rx : rep p x = x).
    { apply (proj1 (changed_false (rep p) d) (Q' d w H)). exact Hx. }
    destruct (Nat.eq_dec (rep p' x) x) as [Ex|Nx]; [left; exact Ex|right].
    apply in_displaced; auto.
  Qed.

  (** two containers whose contents are equal modulo the equalities the pass is run against are one
      value after the pass: their ids are in one class of the union-find once the staged unions are
      applied (the contents are filed once, hash-consing; colliding ids are unioned) *)
  Theorem pass_merges b s e' us dirty chg : Good s -> run_pass b s = (e', us, dirty, chg) ->
    exists p', uf_unions (cuf s) us = Ok p'
      /\ (forall c v, In (c, v) (to_id (cenv s)) ->
            exists v', In (rebuild_contents oracle (rep (cuf s)) c, v') (to_id e') /\ rep p' v' = rep p' v)
      /\ (forall c1 v1 c2 v2, In (c1, v1) (to_id (cenv s)) -> In (c2, v2) (to_id (cenv s)) ->
            rebuild_contents oracle (rep (cuf s)) c1 = rebuild_contents oracle (rep (cuf s)) c2 ->
            rep p' v1 = rep p' v2).
  Proof.
    intros G E.
    destruct (pass_step b s e' us dirty chg G E) as (p' & U & G' & _).
    pose proof U as (Eu & _).
    assert (T : forall c v, In (c, v) (to_id (cenv s)) ->
              exists v', In (rebuild_contents oracle (rep (cuf s)) c, v') (to_id e') /\ rep p' v' = rep p' v).
    { destruct s as [p e pend]. destruct G as [HI I Rl Pd]. simpl in *.
      unfold run_pass in E. simpl in E. destruct b.
      - unfold pass_inc in E.
        destruct (inc_loop_track oracle (rep p) (fun x => rep_idem p x HI)
                    (to_rebuild pend e) p e [] [] false HI I) as (p'' & us'' & E1 & U'' & T'').
        + intros w H. split; [apply Rl; exact H|]. apply rootp_rep. apply Rl. exact H.
        + rewrite E in *. cbn [fst snd app] in *. subst us''. rewrite Eu in U''. injection U'' as <-.
          intros c v H. apply T''. destruct (changed (rep p) c) eqn:Ed.
          * right. split; [exact H|].
            unfold changed in Ed. apply existsb_exists in Ed as (x & Hx & Nx).
            apply negb_true_iff in Nx. apply Nat.eqb_neq in Nx.
            destruct (Pd c v x H Hx) as [R|Hp]; [contradiction|].
            unfold to_rebuild. apply nodup_In. apply in_flat_map. exists x. split; [exact Hp|].
            right. eapply (inv_idx e I); eauto. apply rids_iter. exact Hx.
          * left. exists v. unfold rebuild_contents. rewrite Ed. auto.
      - destruct (pass_full_track oracle p e e' us dirty chg HI I Rl E) as (p'' & U'' & T'').
        rewrite Eu in U''. injection U'' as <-. exact T''. }
    exists p'. split; [exact Eu|]. split; [exact T|].
    intros c1 v1 c2 v2 H1 H2 Heq.
    destruct (T c1 v1 H1) as (w1 & Hw1 & E1). destruct (T c2 v2 H2) as (w2 & Hw2 & E2).
    rewrite Heq in Hw1.
    assert (w1 = w2) by (eapply NoDup_fst_fun; [apply (inv_keys _ (g_env _ G'))| |]; eauto).
    subst w2. congruence.
  Qed.

  Lemma uf_unions_nil_inv p p' : UFStep p [] p' -> p' = p.
  Proof. intros (E & _). simpl in E. injection E as <-. reflexivity. Qed.

  Definition Canon (s : cstate) : Prop := contents_ok (canonical (rep (cuf s))) (cenv s).

  Definition Result (s s' : cstate) : Prop :=
    Good s' /\ Canon s' /\ coarse (cuf s) (cuf s') /\ length (cuf s') = length (cuf s)
    /\ pending s' = [] /\ (forall w, In w (live (cenv s')) -> In w (live (cenv s))).

  Lemma loop_canonical fuel strat s dacc : Good s -> Canon s -> 1 <= fuel ->
    exists s' d, rebuild_loop oracle fuel strat s dacc = Ok (s', d) /\ Result s s'.
  Proof.
    intros G C Hf. destruct fuel as [|fuel]; [lia|]. cbn [rebuild_loop].
    change (if strat fuel then pass_inc oracle (rep (cuf s)) (pending s) (cenv s)
            else pass_full oracle (rep (cuf s)) (cenv s)) with (run_pass (strat fuel) s).
    destruct (run_pass (strat fuel) s) as [[[e' us] dirty] chg] eqn:E.
    destruct (pass_step _ s e' us dirty chg G E) as (p' & U & G' & Q' & C' & A' & _ & S').
    assert (chg = false) by (apply A'; exact C). subst chg.
    assert (us = []) by (apply C'; reflexivity). subst us.
    pose proof (uf_unions_nil_inv _ _ U) as ->. simpl.
    eexists. eexists. split; [reflexivity|].
    split; [exact G'|]. split; [exact Q'|]. split; [apply coarse_refl; apply (g_inv s G)|].
    split; [reflexivity|]. split; [apply displaced_self|exact S'].
  Qed.

  (** termination and result of the rebuild loop, for every choice of strategy per pass *)
  Theorem loop_spec : forall fuel strat s dacc, Good s -> 2 * nroots (cuf s) + 2 <= fuel ->
    exists s' d, rebuild_loop oracle fuel strat s dacc = Ok (s', d) /\ Result s s'.
  Proof.
    induction fuel as [|fuel IH]; intros strat s dacc G Hf; [lia|]. cbn [rebuild_loop].
    change (if strat fuel then pass_inc oracle (rep (cuf s)) (pending s) (cenv s)
            else pass_full oracle (rep (cuf s)) (cenv s)) with (run_pass (strat fuel) s).
    destruct (run_pass (strat fuel) s) as [[[e' us] dirty] chg] eqn:E.
    destruct (pass_step _ s e' us dirty chg G E) as (p' & U & G' & Q' & C' & A' & _ & S').
    pose proof U as (Eu & HI' & Hl' & Hco & Hn & Hs).
    rewrite Eu. cbn [bind].
    destruct chg.
    - (* something changed: either a union was staged (fewer roots) or the next pass is the last *)
      destruct us as [|u us].
      + pose proof (uf_unions_nil_inv _ _ U) as ->.
        destruct (loop_canonical fuel strat (mkCS (cuf s) e' (displaced (cuf s) (cuf s)))
                    (dacc ++ dirty_closure e' dirty) G' Q') as (s' & d & E' & R'); [lia|].
        exists s', d. split; [exact E'|].
        destruct R' as (R1 & R2 & R3 & R4 & R5 & R6). simpl in *.
        repeat (split; [assumption|]). intros w H. apply S'. apply R6. exact H.
      + assert (Hlt : nroots p' < nroots (cuf s)) by (apply Hs; congruence).
        destruct (IH strat (mkCS p' e' (displaced (cuf s) p')) (dacc ++ dirty_closure e' dirty) G')
          as (s' & d & E' & R'); [simpl; lia|].
        exists s', d. split; [exact E'|].
        destruct R' as (R1 & R2 & R3 & R4 & R5 & R6). simpl in *.
        split; [assumption|]. split; [assumption|]. split; [eapply coarse_trans; eauto|].
        split; [lia|]. split; [assumption|]. intros w H. apply S'. apply R6. exact H.
    - assert (us = []) by (apply C'; reflexivity). subst us.
      pose proof (uf_unions_nil_inv _ _ U) as ->.
      eexists. eexists. split; [reflexivity|].
      split; [exact G'|]. split; [exact Q'|]. split; [apply coarse_refl; apply (g_inv s G)|].
      split; [reflexivity|]. split; [apply displaced_self|exact S'].
  Qed.

  Lemma rebuild_fuel_enough s : 2 * nroots (cuf s) + 2 <= rebuild_fuel s.
  Proof. unfold rebuild_fuel. pose proof (nroots_le_len (cuf s)). lia. Qed.

  (* ---------------------------------------------------------------- reachable states *)

  Lemma Good_init : Good (mkCS [] empty_env []).
  Proof.
    constructor; simpl.
    - apply Inv_nil.
    - apply EnvInv_empty.
    - intros w [].
    - intros d w x [].
  Qed.

  Lemma rootp_app p w : Inv p -> rootp p w -> rootp (p ++ [length p]) w.
  Proof.
    intros HI [R L]. split; [rewrite rep_app_self; auto|]. rewrite app_length. simpl. lia.
  Qed.

  (** a fresh e-class (no container involved) *)
  Lemma Good_fresh s : Good s -> Good (mkCS (cuf s ++ [length (cuf s)]) (cenv s) (pending s)).
  Proof.
    intros [HI I Rl Pd]. constructor; simpl.
    - apply Inv_app_self. exact HI.
    - exact I.
    - intros w H. apply rootp_app; auto.
    - intros d w x H Hx. destruct (Pd d w x H Hx) as [R|P]; [left|right; exact P].
      rewrite rep_app_self; auto.
  Qed.

  (** hash-consing insertion of contents whose ids are canonical (or already known displaced) *)
  Lemma Good_insert s c : Good s ->
    (forall x, In x (rids c) -> rep (cuf s) x = x \/ In x (pending s)) ->
    let i := length (cuf s) in
    let r := get_or_insert (cenv s) c i in
    Good (mkCS (if snd r =? i then cuf s ++ [i] else cuf s) (fst r) (pending s))
    /\ In (c, snd r) (to_id (fst r)).
  Proof.
    intros G Hc i r. pose proof G as [HI I Rl Pd].
    assert (Hfresh : ~ In i (live (cenv s))).
    { intros H. apply Rl in H as [_ H]. unfold i in H. lia. }
    destruct (get_or_insert_inv (cenv s) c i I Hfresh) as [I' Hin]. fold r in I', Hin.
    split; [|exact Hin].
    unfold r, get_or_insert in *. destruct (find_id (to_id (cenv s)) c) as [v|] eqn:E; simpl in *.
    - apply find_id_Some in E.
      assert (v <> i). { intros ->. apply Hfresh. apply in_live. eauto. }
      destruct (Nat.eqb_spec v i); [contradiction|]. destruct s; exact G.
    - rewrite Nat.eqb_refl. constructor; simpl.
      + apply Inv_app_self. exact HI.
      + exact I'.
      + intros w [<-|H].
        * split; [|rewrite app_length; simpl; lia].
          rewrite rep_app_self; auto. apply rep_oob; auto.
        * apply rootp_app; auto.
      + intros d w x [H|H] Hx.
        * injection H as <- <-. destruct (Hc x Hx) as [R|P]; [left|right; exact P].
          rewrite rep_app_self; auto.
        * destruct (Pd d w x H Hx) as [R|P]; [left|right; exact P]. rewrite rep_app_self; auto.
  Qed.

  (** a union of two e-classes that are not container ids (containers are never unioned by the
      user: their sorts are not eq-sorts) *)
  Lemma Good_union s a b : Good s -> a < length (cuf s) -> b < length (cuf s) ->
    ~ In (rep (cuf s) a) (live (cenv s)) -> ~ In (rep (cuf s) b) (live (cenv s)) ->
    exists p', uf_union (cuf s) a b = Ok p'
      /\ Good (mkCS p' (cenv s) (pending s ++ displaced (cuf s) p')).
  Proof.
    intros [HI I Rl Pd] La Lb Na Nb.
    destruct (uf_union_spec (cuf s) a b HI La Lb) as (p' & Hu & HI' & Hl & Hg).
    exists p'. split; [exact Hu|]. constructor; simpl; auto.
    - intros w H. destruct (Rl w H) as [R L]. split; [|lia]. rewrite Hg, R. unfold glue.
      destruct (Nat.eqb_spec w (Nat.max (rep (cuf s) a) (rep (cuf s) b))) as [Ew|]; [|rewrite andb_false_r; reflexivity].
      exfalso. destruct (Nat.max_spec (rep (cuf s) a) (rep (cuf s) b)) as [[_ Em]|[_ Em]]; rewrite Em in Ew; subst w; contradiction.
    - intros d w x H Hx. destruct (Pd d w x H Hx) as [R|P]; [|right; apply in_app_iff; auto].
      destruct (Nat.eq_dec (rep p' x) x) as [Ex|Nx]; [left; exact Ex|right].
      apply in_app_iff. right. apply in_displaced; auto.
  Qed.

  (* ---------------------------------------------------------------- dirty-id closure *)

  Definition closed_under_parents (e : env) (D : list nat) : Prop :=
    forall v w, In v D -> In w (idx_get (vidx e) v) -> In w D.

  Lemma idx_get_in_all e v w : In w (idx_get (vidx e) v) -> In w (all_index_ids e).
  Proof.
    unfold all_index_ids. induction (vidx e) as [|[y s] vi IH]; simpl; [tauto|].
    destruct (y =? v); intros H; apply in_app_iff; auto.
  Qed.

  Definition unseen (e : env) (seen : list nat) : list nat :=
    filter (fun v => negb (smem v seen)) (nodup Nat.eq_dec (all_index_ids e)).

  Lemma close_dirty_spec e : forall fuel frontier seen,
    length (unseen e seen) < fuel ->
    (forall v, In v frontier -> In v seen) ->
    (forall v w, In v seen -> ~ In v frontier -> In w (idx_get (vidx e) v) -> In w seen) ->
    (forall v, In v seen -> In v (close_dirty fuel e frontier seen))
    /\ closed_under_parents e (close_dirty fuel e frontier seen).
  Proof.
    induction fuel as [|fuel IH]; intros frontier seen Hf Hsub Hpar; [lia|].
    cbn [close_dirty].
    set (next := flat_map (idx_get (vidx e)) frontier).
    set (fresh := nodup Nat.eq_dec (filter (fun v => negb (smem v seen)) next)).
    assert (Hfresh : forall w, In w fresh <-> In w next /\ ~ In w seen).
    { intros w. unfold fresh. rewrite nodup_In, filter_In. rewrite negb_true_iff.
      split; intros [H1 H2]; split; auto.
      - intros H. apply smem_In in H. congruence.
      - destruct (smem w seen) eqn:X; [|reflexivity]. apply smem_In in X. contradiction. }
    assert (Hcase : fresh = [] \/ exists x, In x fresh)
      by (destruct fresh as [|x l]; [left; reflexivity|right; exists x; simpl; auto]).
    destruct Hcase as [Hnil|Hx].
    - rewrite Hnil. rewrite Hnil in Hfresh.
      split; [auto|]. intros v w Hv Hw.
      destruct (in_dec Nat.eq_dec v frontier) as [Hin|Hnin]; [|eapply Hpar; eauto].
      destruct (in_dec Nat.eq_dec w seen) as [Hs|Hs]; [exact Hs|]. exfalso.
      assert (X : In w []) by (apply Hfresh; split; [apply in_flat_map; eauto|exact Hs]). destruct X.
    - replace (match fresh with [] => seen | _ :: _ => close_dirty fuel e fresh (seen ++ fresh) end)
        with (close_dirty fuel e fresh (seen ++ fresh))
        by (destruct fresh; [destruct Hx as (? & [])|reflexivity]).
      destruct (IH fresh (seen ++ fresh)) as [K1 K2].
      + destruct Hx as (x & Hx). apply Hfresh in Hx as [Hx1 Hx2].
        assert (Hall : In x (nodup Nat.eq_dec (all_index_ids e))).
        { apply nodup_In. unfold next in Hx1. apply in_flat_map in Hx1 as (v & _ & Hv).
          eapply idx_get_in_all; eauto. }
        assert (Hlt : length (unseen e (seen ++ fresh)) < length (unseen e seen)).
        { unfold unseen. apply (filter_lt _ _ _ x).
          - intros y _ Hy. apply negb_true_iff in Hy. apply negb_true_iff.
            destruct (smem y seen) eqn:X; [|reflexivity]. apply smem_In in X.
            assert (T : smem y (seen ++ fresh) = true) by (apply smem_In; apply in_app_iff; auto). congruence.
          - exact Hall.
          - apply negb_false_iff. apply smem_In. apply in_app_iff. right. apply Hfresh. auto.
          - apply negb_true_iff. destruct (smem x seen) eqn:X; [|reflexivity]. apply smem_In in X. contradiction. }
        lia.
      + intros v H. apply in_app_iff. auto.
      + intros v w Hv Hn Hw. apply in_app_iff in Hv as [Hv|Hv]; [|contradiction].
        destruct (in_dec Nat.eq_dec w seen) as [Hs|Hs]; [apply in_app_iff; auto|].
        apply in_app_iff. right. apply Hfresh. split; [|exact Hs].
        destruct (in_dec Nat.eq_dec v frontier) as [Hin|Hnin].
        * apply in_flat_map. eauto.
        * exfalso. apply Hs. eapply Hpar; eauto.
      + split; [|exact K2]. intros v H. apply K1. apply in_app_iff. auto.
  Qed.

  Lemma unseen_le e seen : length (unseen e seen) <= length (all_index_ids e).
  Proof.
    unfold unseen. eapply Nat.le_trans; [apply filter_len_le|].
    apply NoDup_incl_length; [apply NoDup_nodup|]. intros x H. apply nodup_In in H. exact H.
  Qed.

  (** expand_dirty_id_closure: contains the direct dirty ids and every container (transitively)
      containing one of them *)
  Theorem dirty_closure_spec e dirty : EnvInv e ->
    (forall v, In v dirty -> In v (dirty_closure e dirty))
    /\ (forall v d w, In v (dirty_closure e dirty) -> In (d, w) (to_id e) -> In v (iter d) ->
          In w (dirty_closure e dirty)).
  Proof.
    intros I. unfold dirty_closure.
    destruct (close_dirty_spec e (S (length (all_index_ids e))) dirty (nodup Nat.eq_dec dirty)) as [K1 K2].
    - pose proof (unseen_le e (nodup Nat.eq_dec dirty)). lia.
    - intros v H. apply nodup_In. exact H.
    - intros v w Hv Hn. apply nodup_In in Hv. contradiction.
    - split.
      + intros v H. apply K1. apply nodup_In. exact H.
      + intros v d w Hv Hd Hi. eapply K2; [exact Hv|]. eapply (inv_idx e I); eauto.
  Qed.

  (* ---------------------------------------------------------------- histories *)

  (** every state the container environment can be in: built from the empty environment by fresh
      e-classes, hash-consing insertions of contents over canonical ids, unions of e-classes that
      are not container ids, and rebuilds to fixpoint under any per-pass choice of strategy *)
  Inductive Reach : cstate -> Prop :=
  | R_init : Reach (mkCS [] empty_env [])
  | R_fresh s : Reach s -> Reach (mkCS (cuf s ++ [length (cuf s)]) (cenv s) (pending s))
  | R_insert s c : Reach s ->
      (forall x, In x (rids c) -> rep (cuf s) x = x \/ In x (pending s)) ->
      Reach (mkCS (if snd (get_or_insert (cenv s) c (length (cuf s))) =? length (cuf s)
                   then cuf s ++ [length (cuf s)] else cuf s)
                  (fst (get_or_insert (cenv s) c (length (cuf s)))) (pending s))
  | R_union s a b p' : Reach s -> a < length (cuf s) -> b < length (cuf s) ->
      ~ In (rep (cuf s) a) (live (cenv s)) -> ~ In (rep (cuf s) b) (live (cenv s)) ->
      uf_union (cuf s) a b = Ok p' ->
      Reach (mkCS p' (cenv s) (pending s ++ displaced (cuf s) p'))
  | R_rebuild s strat dacc s' d : Reach s ->
      rebuild_loop oracle (rebuild_fuel s) strat s dacc = Ok (s', d) -> Reach s'.

  Theorem Reach_Good s : Reach s -> Good s.
  Proof.
    induction 1 as [|s _ IH|s c _ IH Hc|s a b p' _ IH La Lb Na Nb Hu|s strat dacc s' d _ IH Hl].
    - apply Good_init.
    - apply Good_fresh. exact IH.
    - apply (Good_insert s c IH Hc).
    - destruct (Good_union s a b IH La Lb Na Nb) as (p'' & Hu' & G). rewrite Hu in Hu'.
      injection Hu' as <-. exact G.
    - destruct (loop_spec (rebuild_fuel s) strat s dacc IH (rebuild_fuel_enough s)) as (s'' & d' & E & R).
      rewrite Hl in E. injection E as <- <-. destruct R as (G & _). exact G.
  Qed.
End WithOracle.
