(** C01/C04: congruence closure [CC], the invariants [WFmid]/[WF] of the Egg model, soundness of
    evaluation, and preservation of [WF] by term insertion ([add_node]/[add_term]). *)
From Coq Require Import List Arith Lia PeanoNat Bool ZArith.
Import ListNotations.
Require Import Verif.Base.Res Verif.gen.UFSeq Verif.gen.MergeArms Verif.UF.Seq
  Verif.Egg.Model Verif.Egg.CmdOk Verif.Egg.RepFacts.

(* ------------------------------------------------------------------ *)
(** * terms and the congruence closure of a list of asserted equations *)

Lemma term_ind' (P : term -> Prop) :
  (forall z, P (TI z)) -> (forall f l, Forall P l -> P (T f l)) -> forall t, P t.
Proof.
  intros HI HT. fix IH 1. intros [f l|z]; [|apply HI]. apply HT.
  induction l as [|x tl IHl]; constructor; [apply IH|exact IHl].
Qed.

Inductive CC (U : list (term * term)) : term -> term -> Prop :=
| cc_ax a b : In (a, b) U -> CC U a b
| cc_refl t : CC U t t
| cc_sym a b : CC U a b -> CC U b a
| cc_trans a b c : CC U a b -> CC U b c -> CC U a c
| cc_cong f l1 l2 : Forall2 (CC U) l1 l2 -> CC U (T f l1) (T f l2).

Lemma CC_ind' U (P : term -> term -> Prop) :
  (forall a b, In (a, b) U -> P a b) ->
  (forall t, P t t) ->
  (forall a b, CC U a b -> P a b -> P b a) ->
  (forall a b c, CC U a b -> P a b -> CC U b c -> P b c -> P a c) ->
  (forall f l1 l2, Forall2 (CC U) l1 l2 -> Forall2 P l1 l2 -> P (T f l1) (T f l2)) ->
  forall a b, CC U a b -> P a b.
Proof.
  intros Hax Hrefl Hsym Htrans Hcong. fix IH 3. intros a b H.
  destruct H as [a b Hin|t|a b H|a b c H1 H2|f l1 l2 H].
  - apply Hax; exact Hin.
  - apply Hrefl.
  - apply Hsym; [exact H|apply IH; exact H].
  - apply (Htrans a b c); [exact H1|apply IH; exact H1|exact H2|apply IH; exact H2].
  - apply Hcong; [exact H|]. revert l1 l2 H. fix IHl 3. intros l1 l2 H.
    destruct H as [|x y l1 l2 Hxy Hl]; constructor; [apply IH; exact Hxy|apply IHl; exact Hl].
Qed.

Lemma CC_mono U U' : incl U U' -> forall a b, CC U a b -> CC U' a b.
Proof.
  intros Hi a b H. induction H using CC_ind'.
  - apply cc_ax. apply Hi. assumption.
  - apply cc_refl.
  - apply cc_sym. assumption.
  - eapply cc_trans; eassumption.
  - apply cc_cong. assumption.
Qed.

(* ------------------------------------------------------------------ *)
(** * list helpers *)

Lemma Forall_Forall2_impl {A B} (P : A -> Prop) (Q R : A -> B -> Prop) l vs :
  Forall P l -> Forall2 Q l vs -> (forall x v, P x -> Q x v -> R x v) -> Forall2 R l vs.
Proof.
  intros HP HQ H. induction HQ as [|x v l vs Hxv HQ IH]; constructor.
  - apply H; auto. inversion HP; auto.
  - apply IH. inversion HP; auto.
Qed.

Lemma Forall2_map_r {A B C} (R : A -> C -> Prop) (g : B -> C) l vs :
  Forall2 (fun x v => R x (g v)) l vs -> Forall2 R l (map g vs).
Proof. induction 1; cbn [map]; constructor; auto. Qed.

Lemma Forall2_right {A B} (Q : A -> B -> Prop) (P : B -> Prop) l vs :
  Forall2 Q l vs -> (forall x v, Q x v -> P v) -> Forall P vs.
Proof. intros H HQ. induction H; constructor; eauto. Qed.

Lemma Forall2_impl' {A B} (Q R : A -> B -> Prop) l vs :
  (forall x v, Q x v -> R x v) -> Forall2 Q l vs -> Forall2 R l vs.
Proof. intros H. induction 1; constructor; auto. Qed.

Lemma Forall2_refl {A} (R : A -> A -> Prop) l : (forall x, R x x) -> Forall2 R l l.
Proof. intros H. induction l; constructor; auto. Qed.

Lemma NoDup_snoc {A} (l : list A) x : NoDup l -> ~ In x l -> NoDup (l ++ [x]).
Proof.
  induction l as [|y tl IH]; intros Hn Hx; cbn [app].
  - constructor; [intros []|constructor].
  - inversion Hn as [|y' tl' Hy Htl]; subst. constructor.
    + intros Hin. apply in_app_or in Hin. destruct Hin as [Hin|[->|[]]]; [auto|].
      apply Hx. simpl. auto.
    + apply IH; auto. intros Hin. apply Hx. simpl. auto.
Qed.

(* ------------------------------------------------------------------ *)
(** * values, keys, lookup *)

Lemma val_eqb_eq a b : val_eqb a b = true <-> a = b.
Proof.
  destruct a as [i|x], b as [j|y]; cbn [val_eqb]; split; intros H; try discriminate.
  - apply Nat.eqb_eq in H. congruence.
  - injection H as ->. apply Nat.eqb_refl.
  - apply Z.eqb_eq in H. congruence.
  - injection H as ->. apply Z.eqb_refl.
Qed.

Lemma vals_eqb_eq : forall l1 l2, vals_eqb l1 l2 = true <-> l1 = l2.
Proof.
  induction l1 as [|a t1 IH]; intros [|b t2]; cbn [vals_eqb]; split; intros H; try discriminate; auto.
  - apply andb_true_iff in H. destruct H as [H1 H2].
    apply val_eqb_eq in H1. apply IH in H2. congruence.
  - injection H as -> ->. apply andb_true_iff. split; [apply val_eqb_eq|apply IH]; auto.
Qed.

Lemma vals_eqb_refl l : vals_eqb l l = true.
Proof. apply vals_eqb_eq. reflexivity. Qed.

Lemma tab_lookup_some t vs r : tab_lookup t vs = Some r -> In r t /\ rargs r = vs.
Proof.
  unfold tab_lookup. intros H. apply find_some in H. destruct H as [Hin He].
  split; auto. apply vals_eqb_eq. exact He.
Qed.

Lemma tab_lookup_none t vs : tab_lookup t vs = None -> ~ In vs (map rargs t).
Proof.
  unfold tab_lookup. intros H Hin. apply in_map_iff in Hin. destruct Hin as (r & <- & Hr).
  pose proof (find_none _ _ H r Hr) as E. cbv beta in E. rewrite vals_eqb_refl in E. discriminate.
Qed.

Lemma keys_functional t r1 r2 :
  NoDup (map rargs t) -> In r1 t -> In r2 t -> rargs r1 = rargs r2 -> r1 = r2.
Proof.
  induction t as [|r tl IH]; intros Hn H1 H2 E; [destruct H1|].
  cbn [map] in Hn. inversion Hn as [|k ks Hk Hks]; subst.
  destruct H1 as [->|H1], H2 as [->|H2]; auto.
  - exfalso. apply Hk. rewrite E. apply in_map. exact H2.
  - exfalso. apply Hk. rewrite <- E. apply in_map. exact H1.
Qed.

Lemma tab_lookup_func t r : NoDup (map rargs t) -> In r t -> tab_lookup t (rargs r) = Some r.
Proof.
  intros Hn Hin. destruct (tab_lookup t (rargs r)) as [r'|] eqn:E.
  - apply tab_lookup_some in E. destruct E as [Hin' E]. f_equal. eapply keys_functional; eauto.
  - apply tab_lookup_none in E. exfalso. apply E. apply in_map. exact Hin.
Qed.

Lemma tab_lookup_app t t2 vs r : tab_lookup t vs = Some r -> tab_lookup (t ++ t2) vs = Some r.
Proof.
  unfold tab_lookup. induction t as [|r0 tl IH]; cbn [List.find app]; intros H; [discriminate|].
  destruct (vals_eqb (rargs r0) vs); auto.
Qed.

Lemma tab_lookup_app_none t r vs : tab_lookup t vs = None ->
  tab_lookup (t ++ [r]) vs = if vals_eqb (rargs r) vs then Some r else None.
Proof.
  unfold tab_lookup. induction t as [|r0 tl IH]; cbn [List.find app]; intros H; [reflexivity|].
  destruct (vals_eqb (rargs r0) vs); [discriminate|auto].
Qed.

Lemma set_tab_set_nth : forall ts f t, set_tab ts f t = set_nth ts f t.
Proof. induction ts as [|h tl IH]; intros [|f] t; cbn [set_tab set_nth]; auto. rewrite IH. auto. Qed.

Lemma length_set_tab ts f t : length (set_tab ts f t) = length ts.
Proof. rewrite set_tab_set_nth. apply length_set_nth. Qed.

Lemma get_set_tab ts f t g : f < length ts ->
  get_tab (set_tab ts f t) g = if Nat.eqb g f then t else get_tab ts g.
Proof. intros H. unfold get_tab. rewrite set_tab_set_nth. apply nth_set_nth. exact H. Qed.

(* ------------------------------------------------------------------ *)
(** * unfolding of the nested fixpoints of [eval] and [add_term] *)

Fixpoint evals (s : state) (l : list term) : option (list val) :=
  match l with
  | [] => Some []
  | x :: tl => match eval s x, evals s tl with
               | Some v, Some vs => Some (v :: vs)
               | _, _ => None
               end
  end.

Lemma evals_eq s : forall l, evals s l =
  (fix evals0 (l : list term) : option (list val) :=
     match l with
     | [] => Some []
     | x :: tl => match eval s x, evals0 tl with
                  | Some v, Some vs => Some (v :: vs)
                  | _, _ => None
                  end
     end) l.
Proof. induction l as [|x tl IH]; [reflexivity|]. cbn [evals]. rewrite IH. reflexivity. Qed.

Lemma eval_T s f ts : eval s (T f ts) =
  match evals s ts with
  | Some vs => match tab_lookup (get_tab (tabs s) f) vs with
               | Some r => Some (rret r)
               | None => None
               end
  | None => None
  end.
Proof. rewrite evals_eq. reflexivity. Qed.

Lemma eval_TI s z : eval s (TI z) = Some (VInt z).
Proof. reflexivity. Qed.

Lemma evals_Forall2 s : forall l vs,
  evals s l = Some vs <-> Forall2 (fun x v => eval s x = Some v) l vs.
Proof.
  induction l as [|x tl IH]; intros vs; cbn [evals]; split; intros H.
  - injection H as <-. constructor.
  - inversion H. reflexivity.
  - destruct (eval s x) as [v|] eqn:Ex; [|discriminate].
    destruct (evals s tl) as [vs'|] eqn:Etl; [|discriminate].
    injection H as <-. constructor; auto. apply IH. reflexivity.
  - inversion H as [|x' v tl' vs' Hx Htl]; subst. rewrite Hx.
    apply IH in Htl. rewrite Htl. reflexivity.
Qed.

Fixpoint add_terms (s : state) (l : list term) : state * list val :=
  match l with
  | [] => (s, [])
  | x :: tl => let '(s1, v) := add_term s x in
               let '(s2, vs) := add_terms s1 tl in (s2, v :: vs)
  end.

Lemma add_terms_eq : forall l s, add_terms s l =
  (fix adds (s : state) (l : list term) : state * list val :=
     match l with
     | [] => (s, [])
     | x :: tl => let '(s1, v) := add_term s x in
                  let '(s2, vs) := adds s1 tl in (s2, v :: vs)
     end) s l.
Proof.
  induction l as [|x tl IH]; intros s; [reflexivity|]. cbn [add_terms].
  destruct (add_term s x) as [s1 v]. rewrite IH. reflexivity.
Qed.

Lemma add_term_T s f ts : add_term s (T f ts) =
  let '(s', vs) := add_terms s ts in add_node s' f vs.
Proof. rewrite add_terms_eq. reflexivity. Qed.

Lemma add_term_TI s z : add_term s (TI z) = (s, VInt z).
Proof. reflexivity. Qed.

(** [eval (T f l)] only depends on the results of the arguments (including failure): the
    junk-element algebra used for completeness *)
Lemma evals_congr s : forall l1 l2,
  Forall2 (fun a b => eval s a = eval s b) l1 l2 -> evals s l1 = evals s l2.
Proof. induction 1 as [|a b l1 l2 Hab Hl IH]; cbn [evals]; [reflexivity|]. rewrite Hab, IH. reflexivity. Qed.

Lemma eval_congr s f l1 l2 :
  Forall2 (fun a b => eval s a = eval s b) l1 l2 -> eval s (T f l1) = eval s (T f l2).
Proof. intros H. rewrite !eval_T. rewrite (evals_congr s l1 l2 H). reflexivity. Qed.

Theorem eval_respects_CC U s :
  (forall a b, In (a, b) U -> eval s a = eval s b) ->
  forall a b, CC U a b -> eval s a = eval s b.
Proof.
  intros Hc a b H. induction H using CC_ind'.
  - apply Hc. assumption.
  - reflexivity.
  - symmetry. assumption.
  - congruence.
  - apply eval_congr. assumption.
Qed.

(* ------------------------------------------------------------------ *)
(** * invariants *)

Definition vlt (n : nat) (v : val) : Prop := match v with VId i => i < n | VInt _ => True end.
Definition vroot (p : list nat) (v : val) : Prop :=
  match v with VId i => par p i = i | VInt _ => True end.
Definition is_id (v : val) : Prop := match v with VId _ => True | VInt _ => False end.

Definition row_lt (n : nat) (r : row) : Prop :=
  Forall (vlt n) (rargs r) /\ vlt n (rret r) /\ is_id (rret r).
Definition row_canon (p : list nat) (r : row) : Prop :=
  Forall (vroot p) (rargs r) /\ vroot p (rret r).
Definition row_sound (U : list (term * term)) (w : list term) (f : nat) (r : row) : Prop :=
  CC U (T f (map (witv w) (rargs r))) (witv w (rret r)).
Definition uf_sound (U : list (term * term)) (w : list term) (p : list nat) : Prop :=
  forall i, i < length p -> CC U (nth i w (TI 0)) (nth (rep p i) w (TI 0)).

(** holds at every point of a run, also between rebuild passes *)
Record WFmid (U : list (term * term)) (s : state) : Prop := {
  wm_inv : Inv (uf s);
  wm_wit : length (wit s) = length (uf s);
  wm_lt : forall f r, In r (get_tab (tabs s) f) -> row_lt (length (uf s)) r;
  wm_rsound : forall f r, In r (get_tab (tabs s) f) -> row_sound U (wit s) f r;
  wm_usound : uf_sound U (wit s) (uf s)
}.

Definition cert (U : list (term * term)) (s : state) : Prop :=
  forall a b, In (a, b) U -> exists v, eval s a = Some v /\ eval s b = Some v.

(** holds whenever control returns to the user, for EVERY command list *)
Record WFs (n : nat) (U : list (term * term)) (s : state) : Prop := {
  wf_mid : WFmid U s;
  wf_ntabs : length (tabs s) = n;
  wf_canon : forall f r, In r (get_tab (tabs s) f) -> row_canon (uf s) r;
  wf_func : forall f, NoDup (map rargs (get_tab (tabs s) f))
}.

(** ... and additionally, for well-formed command lists, the certificate *)
Definition WF (n : nat) (U : list (term * term)) (s : state) : Prop := WFs n U s /\ cert U s.

Lemma vlt_mono n m v : n <= m -> vlt n v -> vlt m v.
Proof. destruct v; cbn [vlt]; auto. lia. Qed.

Lemma witv_app w x v : vlt (length w) v -> witv (w ++ [x]) v = witv w v.
Proof. destruct v as [i|z]; cbn [vlt witv]; auto. intros H. apply app_nth1. exact H. Qed.

Lemma map_witv_app w x vs : Forall (vlt (length w)) vs -> map (witv (w ++ [x])) vs = map (witv w) vs.
Proof. intros H. apply map_ext_Forall. eapply Forall_impl; [|exact H]. intros v Hv. apply witv_app. exact Hv. Qed.

Lemma WFmid_mono U U' s : incl U U' -> WFmid U s -> WFmid U' s.
Proof.
  intros Hi [H1 H2 H3 H4 H5]. constructor; auto.
  - intros f r Hr. eapply CC_mono; [exact Hi|]. apply H4. exact Hr.
  - intros i Hlt. eapply CC_mono; [exact Hi|]. apply H5. exact Hlt.
Qed.

(* ------------------------------------------------------------------ *)
(** * soundness: no equality is invented *)

Lemma eval_sound U s : WFmid U s -> forall t v, eval s t = Some v -> CC U t (witv (wit s) v).
Proof.
  intros HW t. induction t as [z|f l IH] using term_ind'; intros v Hev.
  - rewrite eval_TI in Hev. injection Hev as <-. apply cc_refl.
  - rewrite eval_T in Hev. destruct (evals s l) as [vs|] eqn:El; [|discriminate].
    destruct (tab_lookup (get_tab (tabs s) f) vs) as [r|] eqn:Elk; [|discriminate].
    injection Hev as <-. apply tab_lookup_some in Elk. destruct Elk as [Hin Hargs].
    eapply cc_trans; [|apply (wm_rsound _ _ HW f r Hin)]. rewrite Hargs.
    apply cc_cong. apply Forall2_map_r. apply evals_Forall2 in El.
    eapply Forall_Forall2_impl; [exact IH|exact El|]. intros x v Hx Hv. apply Hx. exact Hv.
Qed.

Theorem sound_of_WFmid U s t1 t2 v : WFmid U s ->
  eval s t1 = Some v -> eval s t2 = Some v -> CC U t1 t2.
Proof.
  intros HW H1 H2. eapply cc_trans; [eapply eval_sound; eauto|].
  apply cc_sym. eapply eval_sound; eauto.
Qed.

(** results of evaluation on a canonical state are canonical ids in range *)
Lemma eval_val_ok n U s t v : WFs n U s -> eval s t = Some v ->
  vlt (length (uf s)) v /\ vroot (uf s) v.
Proof.
  intros HW Hev. destruct t as [f l|z].
  - rewrite eval_T in Hev. destruct (evals s l) as [vs|]; [|discriminate].
    destruct (tab_lookup (get_tab (tabs s) f) vs) as [r|] eqn:Elk; [|discriminate].
    injection Hev as <-. apply tab_lookup_some in Elk. destruct Elk as [Hin _].
    split.
    + apply (wm_lt _ _ (wf_mid _ _ _ HW) f r Hin).
    + apply (wf_canon _ _ _ HW f r Hin).
  - rewrite eval_TI in Hev. injection Hev as <-. cbn. auto.
Qed.

Lemma eval_T_is_id n U s f l v : WFs n U s -> eval s (T f l) = Some v -> is_id v.
Proof.
  intros HW Hev. rewrite eval_T in Hev. destruct (evals s l) as [vs|]; [|discriminate].
  destruct (tab_lookup (get_tab (tabs s) f) vs) as [r|] eqn:Elk; [|discriminate].
  injection Hev as <-. apply tab_lookup_some in Elk. destruct Elk as [Hin _].
  apply (wm_lt _ _ (wf_mid _ _ _ HW) f r Hin).
Qed.

(* ------------------------------------------------------------------ *)
(** * completeness from the certificate *)

Theorem complete_of_cert U s t1 t2 v1 v2 : cert U s -> CC U t1 t2 ->
  eval s t1 = Some v1 -> eval s t2 = Some v2 -> v1 = v2.
Proof.
  intros Hc Hcc H1 H2.
  assert (E : eval s t1 = eval s t2).
  { eapply eval_respects_CC; [|exact Hcc]. intros a b Hab.
    destruct (Hc a b Hab) as (v & Ha & Hb). congruence. }
  congruence.
Qed.

(* ------------------------------------------------------------------ *)
(** * monotonicity of [eval] when tables only gain rows that were not found *)

Lemma eval_mono_tabs s s' :
  (forall f vs r, tab_lookup (get_tab (tabs s) f) vs = Some r ->
                  tab_lookup (get_tab (tabs s') f) vs = Some r) ->
  forall t v, eval s t = Some v -> eval s' t = Some v.
Proof.
  intros Hlk t. induction t as [z|f l IH] using term_ind'; intros v Hev.
  - exact Hev.
  - rewrite eval_T in *. destruct (evals s l) as [vs|] eqn:El; [|discriminate].
    assert (El' : evals s' l = Some vs).
    { apply evals_Forall2. apply evals_Forall2 in El.
      eapply Forall_Forall2_impl; [exact IH|exact El|]. intros x w Hx Hw. apply Hx. exact Hw. }
    rewrite El'. destruct (tab_lookup (get_tab (tabs s) f) vs) as [r|] eqn:Elk; [|discriminate].
    rewrite (Hlk f vs r Elk). exact Hev.
Qed.

(* ------------------------------------------------------------------ *)
(** * add_node / add_term preserve WFs (any command) and the certificate (well-formed ones) *)

Lemma set_nth_oob {A} (l : list A) : forall i v, length l <= i -> set_nth l i v = l.
Proof.
  induction l as [|h tl IH]; intros [|i] v H; cbn [set_nth]; auto; cbn [length] in H; [lia|].
  rewrite IH by lia. reflexivity.
Qed.

Lemma get_set_tab' ts f t g :
  get_tab (set_tab ts f t) g = if (Nat.eqb g f && (f <? length ts))%bool then t else get_tab ts g.
Proof.
  destruct (Nat.ltb_spec f (length ts)) as [H|H].
  - rewrite get_set_tab by exact H. rewrite andb_true_r. reflexivity.
  - rewrite andb_false_r. rewrite set_tab_set_nth, set_nth_oob by exact H. reflexivity.
Qed.

Definition val_ok (s : state) (v : val) : Prop := vlt (length (uf s)) v /\ vroot (uf s) v.

(** [s'] extends [s]: ids stay valid and canonical, witnesses of old ids are unchanged, and
    everything that evaluated still evaluates to the same value *)
Record ext (s s' : state) : Prop := {
  ext_len : length (uf s) <= length (uf s');
  ext_ok : forall x, val_ok s x -> val_ok s' x;
  ext_wit : forall x, vlt (length (uf s)) x -> witv (wit s') x = witv (wit s) x;
  ext_eval : forall u w, eval s u = Some w -> eval s' u = Some w
}.

Lemma ext_refl s : ext s s.
Proof. constructor; auto. Qed.

Lemma ext_trans s1 s2 s3 : ext s1 s2 -> ext s2 s3 -> ext s1 s3.
Proof.
  intros [L1 O1 W1 E1] [L2 O2 W2 E2]. constructor; auto.
  - lia.
  - intros x Hx. rewrite W2, W1; auto. eapply vlt_mono; eauto.
Qed.

Lemma map_witv_ext s s' vs : ext s s' -> Forall (val_ok s) vs ->
  map (witv (wit s')) vs = map (witv (wit s)) vs.
Proof.
  intros He H. apply map_ext_Forall. eapply Forall_impl; [|exact H].
  intros v [Hv _]. apply (ext_wit _ _ He). exact Hv.
Qed.

Lemma add_node_struct n U s f vs :
  WFs n U s -> Forall (val_ok s) vs ->
  WFs n U (fst (add_node s f vs)) /\
  ext s (fst (add_node s f vs)) /\
  val_ok (fst (add_node s f vs)) (snd (add_node s f vs)) /\
  is_id (snd (add_node s f vs)) /\
  CC U (T f (map (witv (wit (fst (add_node s f vs)))) vs))
       (witv (wit (fst (add_node s f vs))) (snd (add_node s f vs))) /\
  (f < n -> forall l, Forall2 (fun x v => eval s x = Some v) l vs ->
     eval (fst (add_node s f vs)) (T f l) = Some (snd (add_node s f vs))).
Proof.
  intros HW Hvs. pose proof (wf_mid _ _ _ HW) as HM.
  unfold add_node.
  destruct (tab_lookup (get_tab (tabs s) f) vs) as [r|] eqn:Elk; cbn [fst snd].
  - pose proof Elk as Elk'. apply tab_lookup_some in Elk'. destruct Elk' as [Hin Hargs].
    split; [exact HW|]. split; [apply ext_refl|]. split; [|split; [|split]].
    + split; [apply (wm_lt _ _ HM f r Hin)|apply (wf_canon _ _ _ HW f r Hin)].
    + apply (wm_lt _ _ HM f r Hin).
    + rewrite <- Hargs. apply (wm_rsound _ _ HM f r Hin).
    + intros _ l Hl. apply evals_Forall2 in Hl. rewrite eval_T, Hl, Elk. reflexivity.
  - set (nr := mkRow vs (VId (length (uf s))) false).
    set (s' := mkSt (uf s ++ [length (uf s)]) (set_tab (tabs s) f (get_tab (tabs s) f ++ [nr]))
                    (wit s ++ [T f (map (witv (wit s)) vs)])).
    assert (Hvs_lt : Forall (vlt (length (uf s))) vs).
    { eapply Forall_impl; [|exact Hvs]. intros v H. apply H. }
    assert (Hvs_rt : Forall (vroot (uf s)) vs).
    { eapply Forall_impl; [|exact Hvs]. intros v H. apply H. }
    assert (Htab : forall g, get_tab (tabs s') g =
                     if (Nat.eqb g f && (f <? length (tabs s)))%bool
                     then get_tab (tabs s) f ++ [nr] else get_tab (tabs s) g).
    { intros g. unfold s'. cbn [tabs]. apply get_set_tab'. }
    assert (Hrows : forall g r, In r (get_tab (tabs s') g) ->
                     In r (get_tab (tabs s) g) \/ (g = f /\ r = nr)).
    { intros g r. rewrite Htab. destruct (Nat.eqb g f && (f <? length (tabs s)))%bool eqn:Ec; auto.
      apply andb_true_iff in Ec. destruct Ec as [Ec _]. apply Nat.eqb_eq in Ec. subst g.
      intros Hin. apply in_app_or in Hin. destruct Hin as [Hin|[<-|[]]]; auto. }
    assert (Hwlen : length (wit s) = length (uf s)) by apply (wm_wit _ _ HM).
    assert (Hmono : forall u w, eval s u = Some w -> eval s' u = Some w).
    { apply eval_mono_tabs. intros g ks r Hr. rewrite Htab.
      destruct (Nat.eqb g f && (f <? length (tabs s)))%bool eqn:Ec; auto.
      apply andb_true_iff in Ec. destruct Ec as [Ec _]. apply Nat.eqb_eq in Ec. subst g.
      apply tab_lookup_app. exact Hr. }
    assert (Hpar : forall x, par (uf s') x = par (uf s) x) by (intro; apply par_app_self).
    assert (Hlen' : length (uf s') = S (length (uf s))).
    { unfold s'. cbn [uf]. rewrite app_length. cbn [length]. lia. }
    assert (Hv : forall v, vroot (uf s) v -> vroot (uf s') v).
    { intros [j|z]; cbn [vroot]; auto. rewrite Hpar. auto. }
    assert (Hnew : CC U (T f (map (witv (wit s')) vs)) (witv (wit s') (VId (length (uf s))))).
    { unfold s'. cbn [wit]. rewrite <- Hwlen in Hvs_lt.
      rewrite map_witv_app by exact Hvs_lt. cbn [witv].
      rewrite app_nth2 by lia. rewrite Hwlen, Nat.sub_diag. cbn [nth]. apply cc_refl. }
    split; [|split; [|split; [|split; [exact I|split; [exact Hnew|]]]]].
    + constructor; [constructor|..].
      * (* Inv *) apply Inv_app_self. apply (wm_inv _ _ HM).
      * (* wit length *) rewrite Hlen'. unfold s'. cbn [wit]. rewrite app_length. cbn [length]. lia.
      * (* ids in range *)
        intros g r Hin. rewrite Hlen'.
        destruct (Hrows g r Hin) as [Hold|[-> ->]].
        -- destruct (wm_lt _ _ HM g r Hold) as (Ha & Hr & Hid).
           split; [|split; [|exact Hid]].
           ++ eapply Forall_impl; [|exact Ha]. intros v. apply vlt_mono. lia.
           ++ eapply vlt_mono; [|exact Hr]. lia.
        -- unfold nr, row_lt. cbn [rargs rret vlt is_id]. split; [|split; [lia|exact I]].
           eapply Forall_impl; [|exact Hvs_lt]. intros v. apply vlt_mono. lia.
      * (* rows sound *)
        intros g r Hin.
        destruct (Hrows g r Hin) as [Hold|[-> ->]].
        -- unfold s', row_sound. cbn [wit].
           destruct (wm_lt _ _ HM g r Hold) as (Ha & Hr & Hid). rewrite <- Hwlen in Ha, Hr.
           rewrite map_witv_app by exact Ha. rewrite witv_app by exact Hr.
           apply (wm_rsound _ _ HM g r Hold).
        -- exact Hnew.
      * (* uf sound *)
        intros x Hx. rewrite Hlen' in Hx. unfold s'. cbn [uf wit].
        rewrite rep_app_self by apply (wm_inv _ _ HM).
        destruct (Nat.eq_dec x (length (uf s))) as [->|Nx].
        -- rewrite rep_fix; [apply cc_refl|apply (wm_inv _ _ HM)|]. apply par_oob. lia.
        -- assert (Hxi : x < length (uf s)) by lia.
           pose proof (rep_le (uf s) x (wm_inv _ _ HM)) as Hle.
           rewrite !app_nth1 by lia. apply (wm_usound _ _ HM). exact Hxi.
      * (* number of tables *) unfold s'. cbn [tabs]. rewrite length_set_tab. apply (wf_ntabs _ _ _ HW).
      * (* canonical *)
        intros g r Hin. unfold row_canon.
        destruct (Hrows g r Hin) as [Hold|[-> ->]].
        -- destruct (wf_canon _ _ _ HW g r Hold) as [Ha Hr]. split; [|auto].
           eapply Forall_impl; [|exact Ha]. exact Hv.
        -- unfold nr. cbn [rargs rret]. split.
           ++ eapply Forall_impl; [|exact Hvs_rt]. exact Hv.
           ++ cbn [vroot]. rewrite Hpar. apply par_oob. lia.
      * (* functional *)
        intros g. rewrite Htab.
        destruct (Nat.eqb g f && (f <? length (tabs s)))%bool eqn:Ec; [|apply (wf_func _ _ _ HW)].
        rewrite map_app. cbn [map]. apply NoDup_snoc; [apply (wf_func _ _ _ HW)|].
        unfold nr. cbn [rargs]. apply tab_lookup_none. exact Elk.
    + constructor.
      * lia.
      * intros x [Hx1 Hx2]. split; [eapply vlt_mono; [|exact Hx1]; lia|apply Hv; exact Hx2].
      * intros x Hx. unfold s'. cbn [wit]. apply witv_app. rewrite Hwlen. exact Hx.
      * exact Hmono.
    + split; [cbn [vlt]; lia|]. cbn [vroot]. rewrite Hpar. apply par_oob. lia.
    + intros Hf l Hl. rewrite eval_T.
      assert (El' : evals s' l = Some vs).
      { apply evals_Forall2. eapply Forall2_impl'; [|exact Hl]. intros x v. apply Hmono. }
      assert (Hfl : (f <? length (tabs s)) = true).
      { apply Nat.ltb_lt. rewrite (wf_ntabs _ _ _ HW). exact Hf. }
      rewrite El', Htab, Nat.eqb_refl, Hfl. cbn [andb]. rewrite (tab_lookup_app_none _ nr vs Elk).
      unfold nr at 1. cbn [rargs]. rewrite vals_eqb_refl. reflexivity.
Qed.

(** what [add_term s t] guarantees, for every term [t] *)
Definition add_term_ok (n : nat) (U : list (term * term)) (t : term) : Prop :=
  forall s, WFs n U s ->
    WFs n U (fst (add_term s t)) /\
    ext s (fst (add_term s t)) /\
    val_ok (fst (add_term s t)) (snd (add_term s t)) /\
    CC U t (witv (wit (fst (add_term s t))) (snd (add_term s t))) /\
    (term_okb n t = true -> eval (fst (add_term s t)) t = Some (snd (add_term s t))) /\
    (is_T t = true -> is_id (snd (add_term s t))).

Lemma add_terms_struct n U : forall l, Forall (add_term_ok n U) l ->
  forall s, WFs n U s ->
    WFs n U (fst (add_terms s l)) /\
    ext s (fst (add_terms s l)) /\
    Forall (val_ok (fst (add_terms s l))) (snd (add_terms s l)) /\
    Forall2 (fun x v => CC U x (witv (wit (fst (add_terms s l))) v)) l (snd (add_terms s l)) /\
    (forallb (term_okb n) l = true ->
       Forall2 (fun x v => eval (fst (add_terms s l)) x = Some v) l (snd (add_terms s l))).
Proof.
  induction l as [|x tl IHl]; intros HF s HW; cbn [add_terms].
  - cbn [fst snd]. split; [exact HW|]. split; [apply ext_refl|]. repeat split; constructor.
  - inversion HF as [|x' tl' Hx Htl]; subst.
    destruct (Hx s HW) as (HW1 & He1 & Hv1 & Hc1 & Hev1 & _).
    destruct (add_term s x) as [s1 v]. cbn [fst snd] in *.
    destruct (IHl Htl s1 HW1) as (HW2 & He2 & Hv2 & Hc2 & Hev2).
    destruct (add_terms s1 tl) as [s2 vs]. cbn [fst snd] in *.
    split; [exact HW2|]. split; [eapply ext_trans; eauto|].
    split; [constructor; [apply (ext_ok _ _ He2); exact Hv1|exact Hv2]|]. split.
    + constructor; [|exact Hc2]. rewrite (ext_wit _ _ He2); [exact Hc1|apply Hv1].
    + cbn [forallb]. intros Hok. apply andb_true_iff in Hok. destruct Hok as [Hokx Hoktl].
      constructor; [|apply Hev2; exact Hoktl]. apply (ext_eval _ _ He2). apply Hev1. exact Hokx.
Qed.

Lemma add_term_struct n U : forall t, add_term_ok n U t.
Proof.
  induction t as [z|f l IH] using term_ind'; intros s HW.
  - rewrite add_term_TI. cbn [fst snd]. split; [exact HW|]. split; [apply ext_refl|].
    split; [split; exact I|]. split; [apply cc_refl|]. split; [reflexivity|discriminate].
  - rewrite add_term_T.
    destruct (add_terms_struct n U l IH s HW) as (HW1 & He1 & Hv1 & Hc1 & Hev1).
    destruct (add_terms s l) as [s1 vs]. cbn [fst snd] in *.
    destruct (add_node_struct n U s1 f vs HW1 Hv1) as (HW2 & He2 & Hv2 & Hid2 & Hc2 & Hev2).
    split; [exact HW2|]. split; [eapply ext_trans; eauto|]. split; [exact Hv2|].
    split; [|split; [|intros _; exact Hid2]].
    + eapply cc_trans; [|exact Hc2]. apply cc_cong.
      rewrite (map_witv_ext _ _ vs He2 Hv1). apply Forall2_map_r. exact Hc1.
    + cbn [term_okb]. intros Hok. apply andb_true_iff in Hok. destruct Hok as [Hf Hl].
      apply Nat.ltb_lt in Hf. apply (Hev2 Hf). apply Hev1. exact Hl.
Qed.

Lemma cert_ext U s s' : ext s s' -> cert U s -> cert U s'.
Proof.
  intros He Hc a b Hab. destruct (Hc a b Hab) as (v & Ha & Hb).
  exists v. split; apply (ext_eval _ _ He); assumption.
Qed.

(* ------------------------------------------------------------------ *)
(** * the initial state *)

Lemma get_tab_init n f : get_tab (tabs (init n)) f = [].
Proof.
  unfold init, get_tab. cbn [tabs]. destruct (Nat.lt_ge_cases f n).
  - apply nth_repeat.
  - apply nth_overflow. rewrite repeat_length. auto.
Qed.

Lemma WFs_init n : WFs n [] (init n).
Proof.
  constructor; [constructor|..].
  - apply Inv_nil.
  - reflexivity.
  - intros f r. rewrite get_tab_init. intros [].
  - intros f r. rewrite get_tab_init. intros [].
  - intros i Hi. cbn in Hi. lia.
  - unfold init. cbn [tabs]. apply repeat_length.
  - intros f r. rewrite get_tab_init. intros [].
  - intros f. rewrite get_tab_init. constructor.
Qed.

Lemma WF_init n : WF n [] (init n).
Proof. split; [apply WFs_init|]. intros a b []. Qed.
