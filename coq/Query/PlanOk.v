(** C02 — the plan checker [plan_ok q p : bool] (Tier A': the planner is not modelled; every plan
    it emits is certified per instance by this checker, which is proved sound once and for all
    databases and all run-time stage orders in Query/Sound.v).

    [plan_ok] has two halves.
    VALIDITY (the plan does nothing the query does not justify — gives "no match is lost"):
      every scanned (atom, column) really holds the variable the stage binds; every key column
      of a probed atom holds the variable bound at that key position; every constraint evaluated
      by a header or a scan is a constraint of that query atom, the constant written at that
      column, or the equality of two columns holding the same variable.
    COVERAGE (the plan enforces everything the query demands — gives "nothing else fires"):
      no variable is bound twice; for every atom, every written constraint and every constant
      is evaluated by a header or by some scan of that atom; every column holding a variable is
      equated with the variable's value by the stage that binds it (directly, or through
      column-equality constraints evaluated on the atom); a variable that no stage binds occurs
      in one atom only and its columns there are linked by evaluated equalities; every variable
      the actions read is bound.
    Executable definitions only. *)
From Coq Require Import List Arith Bool PeanoNat.
Import ListNotations.
Require Import Verif.Query.Spec Verif.Query.Stages.

Definition constr_eqb (a b : constr) : bool :=
  match a, b with
  | CEq a1 a2, CEq b1 b2 => (a1 =? b1) && (a2 =? b2)
  | CEqConst a1 a2, CEqConst b1 b2 => (a1 =? b1) && (a2 =? b2)
  | CLtConst a1 a2, CLtConst b1 b2 => (a1 =? b1) && (a2 =? b2)
  | CGtConst a1 a2, CGtConst b1 b2 => (a1 =? b1) && (a2 =? b2)
  | CLeConst a1 a2, CLeConst b1 b2 => (a1 =? b1) && (a2 =? b2)
  | CGeConst a1 a2, CGeConst b1 b2 => (a1 =? b1) && (a2 =? b2)
  | _, _ => false
  end.

Definition mem_nat (x : nat) (l : list nat) : bool := existsb (Nat.eqb x) l.
Definition mem_cs (k : constr) (l : list constr) : bool := existsb (constr_eqb k) l.

Fixpoint nodupb (l : list nat) : bool :=
  match l with
  | [] => true
  | x :: tl => negb (mem_nat x tl) && nodupb tl
  end.

Definition dummy_atom : atom := mkAtom 0 [] [].
Definition atom_at (q : query) (i : nat) : atom := nth i (q_atoms q) dummy_atom.

Definition is_var (x : nat) (g : arg) : bool := match g with AVar y => y =? x | AConst _ => false end.

Definition has_var (a : atom) (c x : nat) : bool :=
  match nth_error (a_args a) c with Some g => is_var x g | None => false end.

Definition has_const (a : atom) (c k : nat) : bool :=
  match nth_error (a_args a) c with Some (AConst k') => k' =? k | _ => false end.

(** a constraint evaluated by the plan on atom [a] is justified by the query *)
Definition cs_just (a : atom) (k : constr) : bool :=
  mem_cs k (a_cs a) ||
  match k with
  | CEqConst c kk => has_const a c kk
  | CEq c1 c2 => match nth_error (a_args a) c1 with
                 | Some (AVar x) => has_var a c2 x
                 | _ => false
                 end
  | _ => false
  end.

Definition scan_valid (q : query) (x : nat) (sc : scan) : bool :=
  has_var (atom_at q (s_atom sc)) (s_col sc) x && forallb (cs_just (atom_at q (s_atom sc))) (s_cs sc).

(** (column, variable) pairs a probe of [m] with the key built from [bind] equates *)
Definition mscan_pairs (bind : list (nat * nat)) (m : mscan) : list (nat * option nat) :=
  map (fun ck => (fst ck, option_map snd (nth_error bind (snd ck)))) (combine (m_cols m) (m_key m)).

Definition mscan_valid (q : query) (bind : list (nat * nat)) (m : mscan) : bool :=
  (length (m_cols m) =? length (m_key m)) &&
  forallb (fun cx => match snd cx with
                     | Some x => has_var (atom_at q (m_atom m)) (fst cx) x
                     | None => false
                     end) (mscan_pairs bind m) &&
  forallb (cs_just (atom_at q (m_atom m))) (m_cs m).

Definition stage_valid (q : query) (st : stage) : bool :=
  match st with
  | Intersect x scans => negb (Nat.eqb (length scans) 0) && forallb (scan_valid q x) scans
  | Fused cov cs bind others =>
      (cov <? length (q_atoms q)) &&
      forallb (cs_just (atom_at q cov)) cs &&
      forallb (fun b => has_var (atom_at q cov) (fst b) (snd b)) bind &&
      forallb (mscan_valid q bind) others
  end.

(** what a stage establishes about the remaining rows of atom [i] *)
Definition stage_vfacts (i : nat) (st : stage) : list (nat * nat) :=
  match st with
  | Intersect x scans => flat_map (fun sc => if s_atom sc =? i then [(s_col sc, x)] else []) scans
  | Fused cov cs bind others =>
      (if cov =? i then bind else []) ++
      flat_map (fun m => if m_atom m =? i
                         then flat_map (fun cx => match snd cx with Some x => [(fst cx, x)] | None => [] end)
                                       (mscan_pairs bind m)
                         else []) others
  end.

Definition stage_cfacts (i : nat) (st : stage) : list constr :=
  match st with
  | Intersect x scans => flat_map (fun sc => if s_atom sc =? i then s_cs sc else []) scans
  | Fused cov cs bind others =>
      (if cov =? i then cs else []) ++ flat_map (fun m => if m_atom m =? i then m_cs m else []) others
  end.

Definition header_cfacts (i : nat) (hs : list header) : list constr :=
  flat_map (fun h => if h_atom h =? i then h_cs h else []) hs.

(** columns known equal to the columns in [S] through evaluated [CEq] constraints *)
Definition eq_step (cs : list constr) (S : list nat) : list nat :=
  S ++ flat_map (fun k => match k with
                          | CEq a b => (if mem_nat a S then [b] else []) ++ (if mem_nat b S then [a] else [])
                          | _ => []
                          end) cs.

Fixpoint closure (cs : list constr) (n : nat) (S : list nat) : list nat :=
  match n with
  | 0 => S
  | S n' => closure cs n' (eq_step cs S)
  end.

Definition occurs_in (a : atom) (x : nat) : bool := existsb (is_var x) (a_args a).

Definition first_col (a : atom) (x : nat) : list nat :=
  match find (fun ca => is_var x (snd ca)) (iargs a) with
  | Some ca => [fst ca]
  | None => []
  end.

Definition iatoms (q : query) : list (nat * atom) := combine (seq 0 (length (q_atoms q))) (q_atoms q).

Definition only_here (q : query) (i x : nat) : bool :=
  forallb (fun ja => (fst ja =? i) || negb (occurs_in (snd ja) x)) (iatoms q).

Definition atom_ecs (p : plan) (i : nat) : list constr :=
  header_cfacts i (p_headers p) ++ flat_map (stage_cfacts i) (p_stages p).

Definition atom_evs (p : plan) (i : nat) : list (nat * nat) := flat_map (stage_vfacts i) (p_stages p).

Definition seeds (q : query) (p : plan) (i : nat) (a : atom) (x : nat) : list nat :=
  if mem_nat x (plan_vars p)
  then map fst (filter (fun cv => snd cv =? x) (atom_evs p i))
  else if only_here q i x then first_col a x else [].

Definition atom_covered (q : query) (p : plan) (i : nat) (a : atom) : bool :=
  forallb (fun k => mem_cs k (atom_ecs p i)) (a_cs a) &&
  forallb (fun ca => match snd ca with
                     | AConst k => mem_cs (CEqConst (fst ca) k) (atom_ecs p i)
                     | AVar x => mem_nat (fst ca) (closure (atom_ecs p i) (length (a_args a)) (seeds q p i a x))
                     end) (iargs a).

Definition plan_ok (q : query) (p : plan) : bool :=
  nat_list_eqb (p_tabs p) (map a_tab (q_atoms q)) &&
  forallb (fun h => forallb (cs_just (atom_at q (h_atom h))) (h_cs h)) (p_headers p) &&
  forallb (stage_valid q) (p_stages p) &&
  nodupb (plan_vars p) &&
  forallb (fun ia => atom_covered q p (fst ia) (snd ia)) (iatoms q) &&
  forallb (fun x => mem_nat x (plan_vars p)) (q_out q).

(* ------------------------------------------------------------------ harness-written cases *)

(** [CPlan q p]: a (query, compiled plan) pair dumped from the real planner — the per-instance
    obligation [plan_ok q p = true].
    [CExec q p d rows]: additionally the database the rule ran on and the rows the real engine
    produced: the specification matcher and the stage machine (under several order oracles) must
    both produce exactly those rows. *)
Inductive ccase :=
| CPlan (q : query) (p : plan)
| CExec (q : query) (p : plan) (d : db) (rows : list (list nat)).

Definition exec_ok (q : query) (p : plan) (d : db) (rows : list (list nat)) : bool :=
  let want := map (map (@Some nat)) rows in
  set_eqb (map (proj (q_out q)) (matches q d)) want &&
  forallb (fun ch => set_eqb (map (proj (q_out q)) (run_plan ch p d)) want)
          [ch_first; ch_last; ch_mix 1; ch_mix 2].

Definition check_case (c : ccase) : bool :=
  match c with
  | CPlan q p => plan_ok q p
  | CExec q p d rows => plan_ok q p && exec_ok q p d rows
  end.
