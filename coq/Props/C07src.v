(** C07 — the source-side half of "built only from rows that are not subsumed": the extractor
    model's [allowed] excludes subsumed rows, and every table scan of the CURRENT src/extract.rs
    that feeds cost relaxation, parent-edge selection and variant enumeration is guarded by
    `if !row.subsumed` (facts regenerated from the source on every run). *)
From Coq Require Import List Bool String.
Import ListNotations.
Require Import Verif.gen.SourceFacts Verif.Egg.Guards Verif.Extract.Model.

Theorem c07_allowed_excludes_subsumed : forall g r, allowed g r = true -> r_sub r = false.
Proof.
  intros g r H. unfold allowed in H.
  apply andb_true_iff in H. destruct H as [H _].
  apply andb_true_iff in H. destruct H as [H _].
  apply negb_true_iff in H. exact H.
Qed.
Print Assumptions c07_allowed_excludes_subsumed.

Theorem c07_source_scans_skip_subsumed :
  forallb (fun c => guarded_scan (fst c) (snd c)) extraction_calls = true
  /\ 3 <= List.length extraction_calls.
Proof. exact (conj extraction_scans_guarded extraction_scans_count). Qed.
Print Assumptions c07_source_scans_skip_subsumed.
