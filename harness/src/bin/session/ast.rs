//! Command language shared by the C09 harness and the Gallina model `Session/Pipeline.v`.
//! Every item has two printers: egglog text (`text`) and a Coq term (`coq`).
//! Names live in ONE universe (sorts, functions, rulesets, variables can collide on purpose):
//!   U 0 = "i64", U 1 = "String", U 2 = "old", U 3 = "new", U k = "n<k>" (k >= 4), G k = "$n<k>" (global-style name).

#[derive(Clone, Copy, Debug, PartialEq, Eq, Hash, PartialOrd, Ord)]
pub enum Name {
    U(usize),
    G(usize),
}
pub const I64: Name = Name::U(0);
pub const STR: Name = Name::U(1);
pub const OLD: Name = Name::U(2);
pub const NEW: Name = Name::U(3);
/// first user name id
pub const FIRST_USER: usize = 4;

impl Name {
    pub fn text(&self) -> String {
        match self {
            Name::U(0) => "i64".into(),
            Name::U(1) => "String".into(),
            Name::U(2) => "old".into(),
            Name::U(3) => "new".into(),
            Name::U(k) => format!("n{k}"),
            Name::G(k) => format!("$n{k}"),
        }
    }
    pub fn coq(&self) -> String {
        match self {
            Name::U(k) => format!("(U {k})"),
            Name::G(k) => format!("(G {k})"),
        }
    }
}

#[derive(Clone, Copy, Debug, PartialEq, Eq, Hash)]
pub enum Prim {
    Add,
    Min,
    Max,
    Bogus,
}
impl Prim {
    pub fn text(&self) -> &'static str {
        match self {
            Prim::Add => "+",
            Prim::Min => "min",
            Prim::Max => "max",
            Prim::Bogus => "bogus-prim",
        }
    }
    pub fn coq(&self) -> &'static str {
        match self {
            Prim::Add => "PAdd",
            Prim::Min => "PMin",
            Prim::Max => "PMax",
            Prim::Bogus => "PBogus",
        }
    }
}

#[derive(Clone, Debug, PartialEq, Eq, Hash)]
pub enum Expr {
    Var(Name),
    Int(i64),
    Str(usize),
    Call(Name, Vec<Expr>),
    Prim(Prim, Vec<Expr>),
}
impl Expr {
    pub fn text(&self) -> String {
        match self {
            Expr::Var(n) => n.text(),
            Expr::Int(i) => i.to_string(),
            Expr::Str(k) => format!("\"s{k}\""),
            Expr::Call(f, a) => {
                let mut s = format!("({}", f.text());
                for x in a {
                    s.push(' ');
                    s.push_str(&x.text());
                }
                s.push(')');
                s
            }
            Expr::Prim(p, a) => {
                let mut s = format!("({}", p.text());
                for x in a {
                    s.push(' ');
                    s.push_str(&x.text());
                }
                s.push(')');
                s
            }
        }
    }
    pub fn coq(&self) -> String {
        match self {
            Expr::Var(n) => format!("(EVar {})", n.coq()),
            Expr::Int(_) => "EInt".into(),
            Expr::Str(_) => "EStr".into(),
            Expr::Call(f, a) => format!("(ECall {} {})", f.coq(), clist(a.iter().map(|x| x.coq()))),
            Expr::Prim(p, a) => format!("(EPrim {} {})", p.coq(), clist(a.iter().map(|x| x.coq()))),
        }
    }
}

pub fn clist(it: impl Iterator<Item = String>) -> String {
    let v: Vec<String> = it.collect();
    format!("[{}]", v.join("; "))
}

#[derive(Clone, Debug, PartialEq, Eq, Hash)]
pub enum Fact {
    Eq(Expr, Expr),
    Holds(Expr),
}
impl Fact {
    pub fn text(&self) -> String {
        match self {
            Fact::Eq(a, b) => format!("(= {} {})", a.text(), b.text()),
            Fact::Holds(e) => e.text(),
        }
    }
    pub fn coq(&self) -> String {
        match self {
            Fact::Eq(a, b) => format!("(FEq {} {})", a.coq(), b.coq()),
            Fact::Holds(e) => format!("(FHolds {})", e.coq()),
        }
    }
}

#[derive(Clone, Debug, PartialEq, Eq, Hash)]
pub enum Action {
    Let(Name, Expr),
    Set(Name, Vec<Expr>, Expr),
    Union(Expr, Expr),
    Do(Expr),
}
impl Action {
    pub fn text(&self) -> String {
        match self {
            Action::Let(n, e) => format!("(let {} {})", n.text(), e.text()),
            Action::Set(f, a, v) => format!("(set {} {})", Expr::Call(*f, a.clone()).text(), v.text()),
            Action::Union(a, b) => format!("(union {} {})", a.text(), b.text()),
            Action::Do(e) => e.text(),
        }
    }
    pub fn coq(&self) -> String {
        match self {
            Action::Let(n, e) => format!("(ALet {} {})", n.coq(), e.coq()),
            Action::Set(f, a, v) => format!("(ASet {} {} {})", f.coq(), clist(a.iter().map(|x| x.coq())), v.coq()),
            Action::Union(a, b) => format!("(AUnion {} {})", a.coq(), b.coq()),
            Action::Do(e) => format!("(ADo {})", e.coq()),
        }
    }
}

#[derive(Clone, Copy, Debug, PartialEq, Eq, Hash)]
pub enum Presort {
    Vec,
    Map,
    Bogus,
}
impl Presort {
    pub fn text(&self) -> &'static str {
        match self {
            Presort::Vec => "Vec",
            Presort::Map => "Map",
            Presort::Bogus => "BogusPresort",
        }
    }
    pub fn coq(&self) -> &'static str {
        match self {
            Presort::Vec => "PsVec",
            Presort::Map => "PsMap",
            Presort::Bogus => "PsBogus",
        }
    }
}

#[derive(Clone, Debug, PartialEq, Eq, Hash)]
pub enum Cmd {
    Sort(Name),
    SortPre(Name, Presort, Vec<Name>),
    Datatype(Name, Vec<(Name, Vec<Name>)>),
    /// name, inputs, output, merge (None = :no-merge)
    Function(Name, Vec<Name>, Name, Option<Expr>),
    Constructor(Name, Vec<Name>, Name),
    Relation(Name, Vec<Name>),
    Ruleset(Name),
    /// rule-name id, ruleset (None = default), body, head
    Rule(usize, Option<Name>, Vec<Fact>, Vec<Action>),
    Act(Action),
    Run(Option<Name>, usize),
    Check(Vec<Fact>),
    Push,
    Pop,
    PrintSize(Name),
    /// (rewrite lhs rhs :ruleset rs :name "r<id>") / birewrite — NOT in the Gallina model (link-only):
    /// sessions containing one are compared on the engine but produce no model case
    Rewrite { id: usize, rs: Option<Name>, lhs: Expr, rhs: Expr, bi: bool },
    /// (unstable-combined-ruleset name subs..) — link-only like Rewrite
    Combined(Name, Vec<Name>),
}

fn names_text(v: &[Name]) -> String {
    v.iter().map(|n| n.text()).collect::<Vec<_>>().join(" ")
}
fn names_coq(v: &[Name]) -> String {
    clist(v.iter().map(|n| n.coq()))
}

impl Cmd {
    pub fn text(&self) -> String {
        match self {
            Cmd::Sort(n) => format!("(sort {})", n.text()),
            Cmd::SortPre(n, p, a) => format!("(sort {} ({} {}))", n.text(), p.text(), names_text(a)),
            Cmd::Datatype(n, vs) => {
                let mut s = format!("(datatype {}", n.text());
                for (v, a) in vs {
                    if a.is_empty() {
                        s.push_str(&format!(" ({})", v.text()));
                    } else {
                        s.push_str(&format!(" ({} {})", v.text(), names_text(a)));
                    }
                }
                s.push(')');
                s
            }
            Cmd::Function(n, i, o, m) => format!(
                "(function {} ({}) {} {})",
                n.text(),
                names_text(i),
                o.text(),
                match m {
                    None => ":no-merge".to_string(),
                    Some(e) => format!(":merge {}", e.text()),
                }
            ),
            Cmd::Constructor(n, i, o) => format!("(constructor {} ({}) {})", n.text(), names_text(i), o.text()),
            Cmd::Relation(n, i) => format!("(relation {} ({}))", n.text(), names_text(i)),
            Cmd::Ruleset(n) => format!("(ruleset {})", n.text()),
            Cmd::Rule(k, rs, b, h) => format!(
                "(rule ({}) ({}){} :name \"r{}\")",
                b.iter().map(|f| f.text()).collect::<Vec<_>>().join(" "),
                h.iter().map(|a| a.text()).collect::<Vec<_>>().join(" "),
                match rs {
                    None => String::new(),
                    Some(r) => format!(" :ruleset {}", r.text()),
                },
                k
            ),
            Cmd::Act(a) => a.text(),
            Cmd::Run(None, n) => format!("(run {n})"),
            Cmd::Run(Some(r), n) => format!("(run {} {n})", r.text()),
            Cmd::Check(fs) => format!("(check {})", fs.iter().map(|f| f.text()).collect::<Vec<_>>().join(" ")),
            Cmd::Push => "(push)".into(),
            Cmd::Pop => "(pop)".into(),
            Cmd::PrintSize(n) => format!("(print-size {})", n.text()),
            Cmd::Rewrite { id, rs, lhs, rhs, bi } => format!(
                "({} {} {}{} :name \"r{}\")",
                if *bi { "birewrite" } else { "rewrite" },
                lhs.text(),
                rhs.text(),
                match rs {
                    None => String::new(),
                    Some(r) => format!(" :ruleset {}", r.text()),
                },
                id
            ),
            Cmd::Combined(n, subs) => format!("(unstable-combined-ruleset {} {})", n.text(), names_text(subs)),
        }
    }
    pub fn is_modelled(&self) -> bool {
        !matches!(self, Cmd::Rewrite { .. } | Cmd::Combined(..))
    }
    pub fn coq(&self) -> String {
        match self {
            Cmd::Sort(n) => format!("CSort {}", n.coq()),
            Cmd::SortPre(n, p, a) => format!("CSortPre {} {} {}", n.coq(), p.coq(), names_coq(a)),
            Cmd::Datatype(n, vs) => format!(
                "CDatatype {} {}",
                n.coq(),
                clist(vs.iter().map(|(v, a)| format!("({}, {})", v.coq(), names_coq(a))))
            ),
            Cmd::Function(n, i, o, m) => format!(
                "CFunction {} {} {} {}",
                n.coq(),
                names_coq(i),
                o.coq(),
                match m {
                    None => "None".to_string(),
                    Some(e) => format!("(Some {})", e.coq()),
                }
            ),
            Cmd::Constructor(n, i, o) => format!("CConstructor {} {} {}", n.coq(), names_coq(i), o.coq()),
            Cmd::Relation(n, i) => format!("CRelation {} {}", n.coq(), names_coq(i)),
            Cmd::Ruleset(n) => format!("CRuleset {}", n.coq()),
            Cmd::Rule(k, rs, b, h) => format!(
                "CRule {} {} {} {}",
                k,
                match rs {
                    None => "None".to_string(),
                    Some(r) => format!("(Some {})", r.coq()),
                },
                clist(b.iter().map(|f| f.coq())),
                clist(h.iter().map(|a| a.coq()))
            ),
            Cmd::Act(a) => format!("CAct {}", a.coq()),
            Cmd::Run(None, _) => "CRun None".into(),
            Cmd::Run(Some(r), _) => format!("CRun (Some {})", r.coq()),
            Cmd::Check(fs) => format!("CCheck {}", clist(fs.iter().map(|f| f.coq()))),
            Cmd::Push => "CPush".into(),
            Cmd::Pop => "CPop".into(),
            Cmd::PrintSize(n) => format!("CPrintSize {}", n.coq()),
            Cmd::Rewrite { .. } | Cmd::Combined(..) => "CUNSUPPORTED".into(),
        }
    }
    pub fn kind(&self) -> &'static str {
        match self {
            Cmd::Sort(_) => "sort",
            Cmd::SortPre(..) => "sort-presort",
            Cmd::Datatype(..) => "datatype",
            Cmd::Function(..) => "function",
            Cmd::Constructor(..) => "constructor",
            Cmd::Relation(..) => "relation",
            Cmd::Ruleset(_) => "ruleset",
            Cmd::Rule(..) => "rule",
            Cmd::Act(Action::Let(..)) => "let",
            Cmd::Act(Action::Set(..)) => "set",
            Cmd::Act(Action::Union(..)) => "union",
            Cmd::Act(Action::Do(..)) => "expr",
            Cmd::Run(..) => "run",
            Cmd::Check(_) => "check",
            Cmd::Push => "push",
            Cmd::Pop => "pop",
            Cmd::PrintSize(_) => "print-size",
            Cmd::Rewrite { bi: false, .. } => "rewrite",
            Cmd::Rewrite { bi: true, .. } => "birewrite",
            Cmd::Combined(..) => "combined-ruleset",
        }
    }
    /// every name mentioned (for the observation universe)
    pub fn names(&self, out: &mut Vec<Name>) {
        fn ex(e: &Expr, out: &mut Vec<Name>) {
            match e {
                Expr::Var(n) => out.push(*n),
                Expr::Call(f, a) => {
                    out.push(*f);
                    a.iter().for_each(|x| ex(x, out));
                }
                Expr::Prim(_, a) => a.iter().for_each(|x| ex(x, out)),
                _ => {}
            }
        }
        fn fa(f: &Fact, out: &mut Vec<Name>) {
            match f {
                Fact::Eq(a, b) => {
                    ex(a, out);
                    ex(b, out)
                }
                Fact::Holds(e) => ex(e, out),
            }
        }
        fn ac(a: &Action, out: &mut Vec<Name>) {
            match a {
                Action::Let(n, e) => {
                    out.push(*n);
                    ex(e, out)
                }
                Action::Set(f, a, v) => {
                    out.push(*f);
                    a.iter().for_each(|x| ex(x, out));
                    ex(v, out)
                }
                Action::Union(a, b) => {
                    ex(a, out);
                    ex(b, out)
                }
                Action::Do(e) => ex(e, out),
            }
        }
        match self {
            Cmd::Sort(n) | Cmd::Ruleset(n) | Cmd::PrintSize(n) => out.push(*n),
            Cmd::SortPre(n, _, a) | Cmd::Relation(n, a) => {
                out.push(*n);
                out.extend(a.iter().copied())
            }
            Cmd::Datatype(n, vs) => {
                out.push(*n);
                for (v, a) in vs {
                    out.push(*v);
                    out.extend(a.iter().copied())
                }
            }
            Cmd::Function(n, i, o, m) => {
                out.push(*n);
                out.extend(i.iter().copied());
                out.push(*o);
                if let Some(e) = m {
                    ex(e, out)
                }
            }
            Cmd::Constructor(n, i, o) => {
                out.push(*n);
                out.extend(i.iter().copied());
                out.push(*o)
            }
            Cmd::Rule(_, rs, b, h) => {
                if let Some(r) = rs {
                    out.push(*r)
                }
                b.iter().for_each(|f| fa(f, out));
                h.iter().for_each(|a| ac(a, out));
            }
            Cmd::Act(a) => ac(a, out),
            Cmd::Run(Some(r), _) => out.push(*r),
            Cmd::Check(fs) => fs.iter().for_each(|f| fa(f, out)),
            Cmd::Rewrite { rs, lhs, rhs, .. } => {
                if let Some(r) = rs {
                    out.push(*r)
                }
                ex(lhs, out);
                ex(rhs, out);
            }
            Cmd::Combined(n, subs) => {
                out.push(*n);
                out.extend(subs.iter().copied());
            }
            _ => {}
        }
    }
}
