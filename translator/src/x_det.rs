//! Extension module (Tier A) for C20. Output: coq/gen/DetFacts.v
//! Contract: return (text of the .v file, report lines). Each report line is one JSON object
//! {"item":"DetFacts.<name>","file":"<rust file>","ok":true|false[,"error":"..."]}.
//! Fail closed: when a site is not recognised, OMIT the Gallina definition (so dependent proofs stop
//! compiling) and push an ok:false report line.
//!
//! Two regenerated inventories over the NON-TEST code of the workspace:
//!  * `iter_sites`: every iteration (`for .. in`, `.iter()`, `.iter_mut()`, `.drain()`,
//!    `.into_iter()`, `.keys()`, `.values()`, `.values_mut()`, `.into_keys()`, `.into_values()`,
//!    `.par_iter()`, `.retain()`) whose receiver is a struct field / local / parameter declared with a
//!    hash-based container type, in src/, egglog-bridge/src, core-relations/src -- classified by the
//!    container class the name resolves to IN THAT FILE (the `use` items of the file, then the crate's
//!    own aliases). Map-only methods (`keys`/`values`/..., `drain()` without a range) on a receiver
//!    whose type the scan cannot see are inventoried as class `CUntyped`.
//!  * `nd_sources`: clock, rng, CPU-count, pointer formatting, environment, pid and address reads
//!    (token scan, so macro arguments are covered), per file and kind with their number.
use std::collections::BTreeMap;
use std::path::{Path, PathBuf};
use syn::visit::Visit;

#[derive(Clone, Copy, PartialEq, Eq, PartialOrd, Ord, Debug)]
enum Class {
    InsertionOrdered,
    FixedBucket,
    RawTable,
    ShardedFixed,
    LibDefault,
    ImRandom,
    StdRandom,
    Unknown,
    Untyped,
}

impl Class {
    fn coq(self) -> &'static str {
        match self {
            Class::InsertionOrdered => "CInsertionOrdered",
            Class::FixedBucket => "CFixedBucket",
            Class::RawTable => "CRawTable",
            Class::ShardedFixed => "CShardedFixed",
            Class::LibDefault => "CLibDefault",
            Class::ImRandom => "CImRandom",
            Class::StdRandom => "CStdRandom",
            Class::Unknown => "CUnknown",
            Class::Untyped => "CUntyped",
        }
    }
}

const CONTAINERS: [&str; 6] = ["HashMap", "HashSet", "IndexMap", "IndexSet", "DashMap", "HashTable"];
const ITER_METHODS: [&str; 17] = [
    "iter", "iter_mut", "drain", "into_iter", "keys", "values", "values_mut", "into_keys", "into_values", "par_iter",
    "par_iter_mut", "into_par_iter", "par_drain", "retain", "shards", "shards_mut", "into_shards",
];
const MAPLIKE: [&str; 9] = ["keys", "values", "values_mut", "into_keys", "into_values", "drain", "shards", "shards_mut", "into_shards"];
/// wrappers that do not change which container an expression denotes
const TRANSPARENT_METHODS: [&str; 22] = [
    "clone", "borrow", "borrow_mut", "lock", "read", "write", "unwrap", "expect", "as_ref", "as_mut", "deref", "deref_mut",
    "to_owned", "take", "unwrap_or_default", "by_ref", "as_deref", "as_deref_mut", "try_lock", "get_mut_unchecked", "cloned", "copied",
];
/// accessors that go one level INTO a container (the value type)
const DESCEND_METHODS: [&str; 12] = [
    "get", "get_mut", "get_or_default", "entry", "or_default", "or_insert_with", "or_insert", "remove", "get_index", "get_or_insert_with",
    "get_index_mut", "swap_remove",
];

fn toks<T: quote::ToTokens>(t: &T) -> String {
    t.to_token_stream().to_string().replace(' ', "")
}

fn is_test_attr(attrs: &[syn::Attribute]) -> bool {
    attrs.iter().any(|a| {
        let s = toks(a);
        s.contains("cfg(test)") || s == "#[test]" || s.contains("cfg(all(test") || s.contains("cfg(any(test")
    })
}

fn walk(d: &Path, acc: &mut Vec<PathBuf>) {
    if let Ok(rd) = std::fs::read_dir(d) {
        for e in rd.flatten() {
            let p = e.path();
            if p.is_dir() {
                walk(&p, acc);
            } else if p.extension().map(|x| x == "rs").unwrap_or(false) {
                acc.push(p);
            }
        }
    }
}

fn source_files(repo: &Path, dirs: &[&str]) -> Vec<(String, PathBuf)> {
    let mut files = Vec::new();
    for d in dirs {
        walk(&repo.join(d), &mut files);
    }
    files.sort();
    files
        .into_iter()
        .filter_map(|f| {
            let rel = f.strip_prefix(repo).ok()?.to_string_lossy().to_string();
            let fname = f.file_name()?.to_string_lossy().to_string();
            if fname == "tests.rs" || rel.contains("/tests/") || rel.contains("bench") {
                None
            } else {
                Some((rel, f))
            }
        })
        .collect()
}

fn crate_of(rel: &str) -> &str {
    for c in ["egglog-bridge/src", "core-relations/src", "union-find/src", "concurrency/src", "numeric-id/src", "egglog-ast/src", "egglog-reports/src", "src"] {
        if rel.starts_with(c) {
            return c;
        }
    }
    ""
}

/// the class a QUALIFIED path (prefix segments + container name + generic args text) denotes
fn class_qualified(prefix: &[String], name: &str, generics: &str, aliases: &BTreeMap<String, Class>) -> Class {
    let fx = generics.contains("FxHasher") || generics.ends_with(",BuildHasher>") || generics.contains("FxBuildHasher");
    let root = prefix.first().map(|s| s.as_str()).unwrap_or("");
    match root {
        "hashbrown" => match name {
            "HashMap" | "HashSet" => {
                if fx {
                    Class::FixedBucket
                } else {
                    Class::LibDefault
                }
            }
            "HashTable" => Class::RawTable,
            _ => Class::Unknown,
        },
        "indexmap" => match name {
            "IndexMap" | "IndexSet" => Class::InsertionOrdered,
            _ => Class::Unknown,
        },
        "dashmap" => {
            if name == "DashMap" && fx {
                Class::ShardedFixed
            } else {
                Class::LibDefault
            }
        }
        "std" | "collections" | "alloc" => Class::StdRandom,
        "im_rc" | "im" => Class::ImRandom,
        "crate" | "super" | "self" | "util" | "common" | "egglog" | "core_relations" | "egglog_core_relations" => {
            aliases.get(name).or_else(|| aliases.get(&format!("~{name}"))).copied().unwrap_or(Class::Unknown)
        }
        _ => Class::Unknown,
    }
}

struct FileCtx {
    /// bare container names as resolved by this file's `use` items
    bare: BTreeMap<String, Class>,
    /// aliases of the crate (fallback for glob imports of the crate root / util / common)
    aliases: BTreeMap<String, Class>,
}

impl FileCtx {
    fn is_container_name(&self, n: &str) -> bool {
        CONTAINERS.contains(&n) || self.aliases.contains_key(n) || self.bare.contains_key(n) || self.aliases.contains_key(&format!("~{n}"))
    }
    fn is_inner_alias(&self, n: &str) -> bool {
        self.aliases.contains_key(&format!("~{n}"))
    }
    fn class_of_path(&self, p: &syn::Path) -> Option<Class> {
        let segs: Vec<String> = p.segments.iter().map(|s| s.ident.to_string()).collect();
        let k = segs.iter().position(|s| self.is_container_name(s))?;
        let name = &segs[k];
        let generics = toks(&p.segments[k].arguments);
        if k == 0 {
            if let Some(c) = self.bare.get(name) {
                return Some(*c);
            }
            if let Some(c) = self.aliases.get(&format!("~{name}")) {
                return Some(*c);
            }
            return Some(self.aliases.get(name).copied().unwrap_or(Class::Unknown));
        }
        Some(class_qualified(&segs[..k], name, &generics, &self.aliases))
    }
    /// classes of the hash containers named by a type, outermost first; `outer` = the outermost
    /// type constructor (through references and transparent wrappers) is itself a container
    fn type_info(&self, t: &syn::Type) -> Option<TypeInfo> {
        struct V<'c> {
            ctx: &'c FileCtx,
            out: Vec<Class>,
        }
        impl<'ast, 'c> Visit<'ast> for V<'c> {
            fn visit_path(&mut self, p: &'ast syn::Path) {
                if let Some(c) = self.ctx.class_of_path(p) {
                    self.out.push(c);
                }
                syn::visit::visit_path(self, p);
            }
        }
        let mut v = V { ctx: self, out: vec![] };
        v.visit_type(t);
        if v.out.is_empty() {
            return None;
        }
        Some(TypeInfo { outer: self.outer_is_container(t), classes: v.out })
    }
    fn outer_is_container(&self, t: &syn::Type) -> bool {
        match t {
            syn::Type::Reference(r) => self.outer_is_container(&r.elem),
            syn::Type::Paren(p) => self.outer_is_container(&p.elem),
            syn::Type::Group(p) => self.outer_is_container(&p.elem),
            syn::Type::Path(tp) => {
                if self.class_of_path(&tp.path).is_some() && tp.path.segments.last().map(|s| self.is_container_name(&s.ident.to_string())).unwrap_or(false) {
                    return !tp.path.segments.last().map(|s| self.is_inner_alias(&s.ident.to_string())).unwrap_or(false);
                }
                let last = match tp.path.segments.last() {
                    Some(l) => l,
                    None => return false,
                };
                let n = last.ident.to_string();
                if ["Arc", "Rc", "Box", "RefCell", "Mutex", "RwLock", "Option", "Cow", "Pooled", "ReadOptimizedLock", "Cell", "Lazy", "OnceLock"].contains(&n.as_str()) {
                    if let syn::PathArguments::AngleBracketed(ab) = &last.arguments {
                        for a in &ab.args {
                            if let syn::GenericArgument::Type(inner) = a {
                                return self.outer_is_container(inner);
                            }
                        }
                    }
                }
                false
            }
            _ => false,
        }
    }
}

#[derive(Clone, Debug)]
struct TypeInfo {
    outer: bool,
    classes: Vec<Class>,
}

impl TypeInfo {
    fn worst(a: &TypeInfo, b: &TypeInfo) -> TypeInfo {
        if b.classes.first() > a.classes.first() {
            b.clone()
        } else {
            a.clone()
        }
    }
    fn descend(&self) -> Option<TypeInfo> {
        if !self.outer {
            return Some(TypeInfo { outer: true, classes: self.classes.clone() });
        }
        if self.classes.len() > 1 {
            Some(TypeInfo { outer: true, classes: self.classes[1..].to_vec() })
        } else {
            None
        }
    }
}

fn flatten_use(tree: &syn::UseTree, prefix: &mut Vec<String>, out: &mut Vec<(Vec<String>, String)>) {
    match tree {
        syn::UseTree::Path(p) => {
            prefix.push(p.ident.to_string());
            flatten_use(&p.tree, prefix, out);
            prefix.pop();
        }
        syn::UseTree::Name(n) => out.push((prefix.clone(), n.ident.to_string())),
        syn::UseTree::Rename(r) => {
            // `use a::HashMap as Foo`: Foo denotes a::HashMap
            let mut p = prefix.clone();
            p.push(r.ident.to_string());
            out.push((p, format!("as:{}", r.rename)));
        }
        syn::UseTree::Glob(_) => out.push((prefix.clone(), "*".to_string())),
        syn::UseTree::Group(g) => {
            for t in &g.items {
                flatten_use(t, prefix, out);
            }
        }
    }
}

/// pass 1 over a crate: its container aliases (`type X<..> = <container type>;`)
fn crate_aliases(files: &[(String, syn::File)]) -> BTreeMap<String, Class> {
    let mut aliases: BTreeMap<String, Class> = BTreeMap::new();
    // three rounds so that an alias built on another alias of the crate resolves (each round
    // recomputes every alias from the previous round's table)
    for _ in 0..3 {
        let mut next: BTreeMap<String, Class> = BTreeMap::new();
        for (_, file) in files {
            struct A<'m> {
                ctx: FileCtx,
                found: &'m mut Vec<(String, Class)>,
                in_test: usize,
            }
            impl<'ast, 'm> Visit<'ast> for A<'m> {
                fn visit_item_mod(&mut self, m: &'ast syn::ItemMod) {
                    let t = is_test_attr(&m.attrs) || m.ident == "tests";
                    if t {
                        self.in_test += 1;
                    }
                    syn::visit::visit_item_mod(self, m);
                    if t {
                        self.in_test -= 1;
                    }
                }
                fn visit_item_type(&mut self, t: &'ast syn::ItemType) {
                    if self.in_test > 0 {
                        return;
                    }
                    if let Some(ti) = self.ctx.type_info(&t.ty) {
                        let n = t.ident.to_string();
                        if self.ctx.outer_is_container(&t.ty) {
                            self.found.push((n, ti.classes[0]));
                        } else {
                            // an alias that merely CONTAINS a hash container (ChildrenMaps)
                            self.found.push((format!("~{n}"), ti.classes[0]));
                        }
                    }
                }
            }
            let mut found = Vec::new();
            let mut a = A { ctx: file_ctx(file, &aliases), found: &mut found, in_test: 0 };
            a.visit_file(file);
            for (n, c) in found {
                let e = next.entry(n).or_insert(c);
                if c > *e {
                    *e = c;
                }
            }
        }
        aliases = next;
    }
    aliases
}

fn file_ctx(file: &syn::File, aliases: &BTreeMap<String, Class>) -> FileCtx {
    struct U {
        uses: Vec<(Vec<String>, String)>,
    }
    impl<'ast> Visit<'ast> for U {
        fn visit_item_use(&mut self, u: &'ast syn::ItemUse) {
            flatten_use(&u.tree, &mut Vec::new(), &mut self.uses);
        }
    }
    let mut u = U { uses: vec![] };
    u.visit_file(file);
    let mut bare: BTreeMap<String, Class> = BTreeMap::new();
    let mut bad_glob = false;
    for (prefix, name) in &u.uses {
        if name == "*" {
            if let Some(r) = prefix.first() {
                if ["hashbrown", "indexmap", "dashmap", "im_rc", "im"].contains(&r.as_str()) || (r == "std" && prefix.iter().any(|s| s == "collections")) {
                    bad_glob = true;
                }
            }
            continue;
        }
        let (qual_prefix, qual_name, local_name): (Vec<String>, String, String) = if let Some(rn) = name.strip_prefix("as:") {
            let mut p = prefix.clone();
            let n = p.pop().unwrap_or_default();
            (p, n, rn.to_string())
        } else {
            (prefix.clone(), name.clone(), name.clone())
        };
        if !(CONTAINERS.contains(&qual_name.as_str()) || aliases.contains_key(&qual_name) || aliases.contains_key(&format!("~{qual_name}"))) {
            continue;
        }
        let c = if qual_prefix.is_empty() { Class::Unknown } else { class_qualified(&qual_prefix, &qual_name, "", aliases) };
        let e = bare.entry(local_name).or_insert(c);
        if c > *e {
            *e = c;
        }
    }
    if bad_glob {
        for n in CONTAINERS {
            bare.entry(n.to_string()).or_insert(Class::Unknown);
        }
    }
    FileCtx { bare, aliases: aliases.clone() }
}

struct Site {
    file: String,
    func: String,
    what: String,
    class: Class,
}

struct Scan<'c> {
    ctx: &'c FileCtx,
    fields: &'c BTreeMap<String, TypeInfo>,
    file: String,
    cur_fn: String,
    locals: Vec<BTreeMap<String, TypeInfo>>,
    in_test: usize,
    sites: Vec<Site>,
}

impl<'c> Scan<'c> {
    fn lookup_local(&self, n: &str) -> Option<TypeInfo> {
        for m in self.locals.iter().rev() {
            if let Some(t) = m.get(n) {
                return Some(t.clone());
            }
        }
        None
    }
    fn bind(&mut self, n: String, t: TypeInfo) {
        if let Some(m) = self.locals.last_mut() {
            let t2 = match m.get(&n) {
                Some(old) => TypeInfo::worst(old, &t),
                None => t,
            };
            m.insert(n, t2);
        }
    }
    /// which container (if any the scan can see) an expression denotes; with the printed receiver
    fn recv(&self, e: &syn::Expr) -> Option<TypeInfo> {
        match e {
            syn::Expr::Paren(p) => self.recv(&p.expr),
            syn::Expr::Group(p) => self.recv(&p.expr),
            syn::Expr::Reference(r) => self.recv(&r.expr),
            syn::Expr::Unary(u) => self.recv(&u.expr),
            syn::Expr::Try(t) => self.recv(&t.expr),
            syn::Expr::Path(p) => {
                if p.path.segments.len() == 1 {
                    self.lookup_local(&p.path.segments[0].ident.to_string())
                } else {
                    None
                }
            }
            syn::Expr::Field(f) => match &f.member {
                syn::Member::Named(id) => self.fields.get(&id.to_string()).cloned(),
                // tuple-struct fields (`self.0`) are NOT typed: the index alone collides across every
                // tuple struct of the crate
                syn::Member::Unnamed(_) => None,
            },
            syn::Expr::Index(i) => self.recv(&i.expr).and_then(|t| t.descend()),
            syn::Expr::MethodCall(m) => {
                let name = m.method.to_string();
                if name == "collect" {
                    if let Some(tf) = &m.turbofish {
                        for a in &tf.args {
                            if let syn::GenericArgument::Type(t) = a {
                                return self.ctx.type_info(t);
                            }
                        }
                    }
                    return None;
                }
                if TRANSPARENT_METHODS.contains(&name.as_str()) {
                    return self.recv(&m.receiver);
                }
                if DESCEND_METHODS.contains(&name.as_str()) {
                    return self.recv(&m.receiver).and_then(|t| t.descend());
                }
                None
            }
            syn::Expr::Call(c) => {
                // HashMap::new() / Default::default() (no) / mem::take(&mut x)
                if let syn::Expr::Path(p) = &*c.func {
                    let last = p.path.segments.last().map(|s| s.ident.to_string()).unwrap_or_default();
                    if (last == "take" || last == "replace") && !c.args.is_empty() {
                        return self.recv(&c.args[0]);
                    }
                    if p.path.segments.len() >= 2 {
                        // a constructor path: the container is named before the last segment
                        let mut q = p.path.clone();
                        q.segments.pop();
                        let q2: syn::Path = syn::parse_str(toks(&q).trim_end_matches("::")).ok()?;
                        if let Some(c) = self.ctx.class_of_path(&q2) {
                            return Some(TypeInfo { outer: true, classes: vec![c] });
                        }
                    }
                }
                None
            }
            _ => None,
        }
    }
    fn show(e: &syn::Expr) -> String {
        let s = toks(e);
        if s.len() > 60 {
            format!("{}..", &s[..60])
        } else {
            s
        }
    }
    fn pat_bind(&mut self, p: &syn::Pat, ti: Option<TypeInfo>) {
        match p {
            syn::Pat::Ident(pi) => {
                if let Some(t) = ti {
                    self.bind(pi.ident.to_string(), t);
                }
            }
            syn::Pat::Type(pt) => {
                let t = self.ctx.type_info(&pt.ty);
                self.pat_bind(&pt.pat, t.or(ti));
            }
            syn::Pat::Reference(r) => self.pat_bind(&r.pat, ti),
            _ => {}
        }
    }
    fn enter_fn(&mut self, name: String, inputs: Vec<&syn::FnArg>) -> String {
        let saved = std::mem::replace(&mut self.cur_fn, name);
        self.locals.push(BTreeMap::new());
        for a in inputs {
            if let syn::FnArg::Typed(pt) = a {
                let t = self.ctx.type_info(&pt.ty);
                self.pat_bind(&pt.pat, t);
            }
        }
        saved
    }
}

impl<'ast, 'c> Visit<'ast> for Scan<'c> {
    fn visit_item_mod(&mut self, m: &'ast syn::ItemMod) {
        let t = is_test_attr(&m.attrs) || m.ident == "tests";
        if t {
            return;
        }
        syn::visit::visit_item_mod(self, m);
    }
    fn visit_item_fn(&mut self, f: &'ast syn::ItemFn) {
        if is_test_attr(&f.attrs) {
            return;
        }
        let saved = self.enter_fn(f.sig.ident.to_string(), f.sig.inputs.iter().collect());
        syn::visit::visit_item_fn(self, f);
        self.locals.pop();
        self.cur_fn = saved;
    }
    fn visit_impl_item_fn(&mut self, f: &'ast syn::ImplItemFn) {
        if is_test_attr(&f.attrs) {
            return;
        }
        let saved = self.enter_fn(f.sig.ident.to_string(), f.sig.inputs.iter().collect());
        syn::visit::visit_impl_item_fn(self, f);
        self.locals.pop();
        self.cur_fn = saved;
    }
    fn visit_trait_item_fn(&mut self, f: &'ast syn::TraitItemFn) {
        let saved = self.enter_fn(f.sig.ident.to_string(), f.sig.inputs.iter().collect());
        syn::visit::visit_trait_item_fn(self, f);
        self.locals.pop();
        self.cur_fn = saved;
    }
    fn visit_expr_closure(&mut self, c: &'ast syn::ExprClosure) {
        for p in &c.inputs {
            self.pat_bind(p, None);
        }
        syn::visit::visit_expr_closure(self, c);
    }
    fn visit_local(&mut self, l: &'ast syn::Local) {
        // visit the initialiser first (sites inside it), then bind
        syn::visit::visit_local(self, l);
        let init_ti = l.init.as_ref().and_then(|i| self.recv(&i.expr));
        self.pat_bind(&l.pat, init_ti);
    }
    fn visit_expr_for_loop(&mut self, fl: &'ast syn::ExprForLoop) {
        let mut e: &syn::Expr = &fl.expr;
        loop {
            match e {
                syn::Expr::Reference(r) => e = &r.expr,
                syn::Expr::Paren(p) => e = &p.expr,
                syn::Expr::Unary(u) => e = &u.expr,
                _ => break,
            }
        }
        let is_iter_call = matches!(e, syn::Expr::MethodCall(m) if ITER_METHODS.contains(&m.method.to_string().as_str()));
        if !is_iter_call {
            if let Some(ti) = self.recv(e) {
                if ti.outer {
                    self.sites.push(Site { file: self.file.clone(), func: self.cur_fn.clone(), what: format!("for _ in {}", Self::show(e)), class: ti.classes[0] });
                }
            }
        }
        syn::visit::visit_expr_for_loop(self, fl);
    }
    fn visit_expr_method_call(&mut self, m: &'ast syn::ExprMethodCall) {
        let name = m.method.to_string();
        if ITER_METHODS.contains(&name.as_str()) {
            let maplike = MAPLIKE.contains(&name.as_str()) && (name != "drain" || m.args.is_empty());
            match self.recv(&m.receiver) {
                Some(ti) if ti.outer => {
                    self.sites.push(Site { file: self.file.clone(), func: self.cur_fn.clone(), what: format!("{}.{}()", Self::show(&m.receiver), name), class: ti.classes[0] });
                }
                Some(ti) if maplike => {
                    // a map-only method on something that CONTAINS a hash container
                    self.sites.push(Site { file: self.file.clone(), func: self.cur_fn.clone(), what: format!("{}.{}()", Self::show(&m.receiver), name), class: ti.classes[0] });
                }
                Some(_) => {}
                None => {
                    if maplike {
                        self.sites.push(Site { file: self.file.clone(), func: self.cur_fn.clone(), what: format!("{}.{}()", Self::show(&m.receiver), name), class: Class::Untyped });
                    }
                }
            }
        }
        syn::visit::visit_expr_method_call(self, m);
    }
}

fn coq_str(s: &str) -> String {
    format!("\"{}\"%string", s.replace('"', "\"\""))
}

fn iteration_sites(repo: &Path) -> Result<String, String> {
    let crates = ["src", "egglog-bridge/src", "core-relations/src"];
    let mut out = String::new();
    let mut all_sites: Vec<Site> = Vec::new();
    let mut alias_rows: Vec<(String, String, Class)> = Vec::new();
    let mut n_files = 0usize;
    for cr in crates {
        let mut parsed: Vec<(String, syn::File)> = Vec::new();
        for (rel, path) in source_files(repo, &[cr]) {
            // `src` must not swallow the sub-crates
            if crate_of(&rel) != cr {
                continue;
            }
            let src = std::fs::read_to_string(&path).map_err(|e| format!("{rel}: {e}"))?;
            let file = syn::parse_file(&src).map_err(|e| format!("{rel}: does not parse: {e}"))?;
            parsed.push((rel, file));
        }
        if parsed.is_empty() {
            return Err(format!("no source files under {cr}"));
        }
        n_files += parsed.len();
        let aliases = crate_aliases(&parsed);
        for (n, c) in &aliases {
            alias_rows.push((cr.to_string(), n.trim_start_matches('~').to_string(), *c));
        }
        // crate-wide field table
        let mut fields: BTreeMap<String, TypeInfo> = BTreeMap::new();
        for (_, file) in &parsed {
            let ctx = file_ctx(file, &aliases);
            struct F<'c> {
                ctx: &'c FileCtx,
                fields: &'c mut BTreeMap<String, TypeInfo>,
            }
            impl<'ast, 'c> Visit<'ast> for F<'c> {
                fn visit_item_mod(&mut self, m: &'ast syn::ItemMod) {
                    if is_test_attr(&m.attrs) || m.ident == "tests" {
                        return;
                    }
                    syn::visit::visit_item_mod(self, m);
                }
                fn visit_fields_unnamed(&mut self, fu: &'ast syn::FieldsUnnamed) {
                    // tuple-struct fields: keyed by their index (`self.0`)
                    for (i, f) in fu.unnamed.iter().enumerate() {
                        if let Some(ti) = self.ctx.type_info(&f.ty) {
                            let n = format!(".{i}");
                            let t2 = match self.fields.get(&n) {
                                Some(old) => TypeInfo::worst(old, &ti),
                                None => ti,
                            };
                            self.fields.insert(n, t2);
                        }
                    }
                }
                fn visit_field(&mut self, f: &'ast syn::Field) {
                    if let (Some(id), Some(ti)) = (&f.ident, self.ctx.type_info(&f.ty)) {
                        let n = id.to_string();
                        let t2 = match self.fields.get(&n) {
                            Some(old) => TypeInfo::worst(old, &ti),
                            None => ti,
                        };
                        self.fields.insert(n, t2);
                    }
                }
            }
            let mut f = F { ctx: &ctx, fields: &mut fields };
            f.visit_file(file);
        }
        for (rel, file) in &parsed {
            let ctx = file_ctx(file, &aliases);
            let mut s = Scan { ctx: &ctx, fields: &fields, file: rel.clone(), cur_fn: String::new(), locals: vec![BTreeMap::new()], in_test: 0, sites: vec![] };
            s.visit_file(file);
            let _ = s.in_test;
            all_sites.append(&mut s.sites);
        }
    }
    if all_sites.len() < 20 {
        return Err(format!("only {} iteration sites recognised in {} files: the scan no longer sees the sources", all_sites.len(), n_files));
    }
    out.push_str("Inductive cclass := CInsertionOrdered | CFixedBucket | CRawTable | CShardedFixed | CLibDefault | CImRandom | CStdRandom | CUnknown | CUntyped.\n");
    out.push_str("(* (crate, alias, class) for every hash-container type alias of the three engine crates *)\nDefinition det_aliases : list (string * string * cclass) := [\n");
    out.push_str(&alias_rows.iter().map(|(c, n, k)| format!("  ({}, {}, {})", coq_str(c), coq_str(n), k.coq())).collect::<Vec<_>>().join(";\n"));
    out.push_str("\n].\n");
    // aggregate (file, fn, what, class) -> count
    let mut agg: BTreeMap<(String, String, String, Class), usize> = BTreeMap::new();
    for s in &all_sites {
        *agg.entry((s.file.clone(), s.func.clone(), s.what.clone(), s.class)).or_insert(0) += 1;
    }
    out.push_str("(* every iteration over a hash-based container the scan can type: (file, fn, site, class, count) *)\nDefinition iter_sites : list (string * string * string * cclass * nat) := [\n");
    out.push_str(
        &agg.iter()
            .map(|((f, func, what, c), n)| format!("  ({}, {}, {}, {}, {})", coq_str(f), coq_str(func), coq_str(what), c.coq(), n))
            .collect::<Vec<_>>()
            .join(";\n"),
    );
    out.push_str("\n].\n");
    out.push_str(&format!("Definition iter_sites_files_scanned : nat := {}.\n", n_files));
    Ok(out)
}

// ------------------------------------------------------------------------------------------------
// other sources of run-to-run variation: token scan of non-test items
// ------------------------------------------------------------------------------------------------

fn flatten_tokens(ts: proc_macro2::TokenStream, out: &mut Vec<String>) {
    for tt in ts {
        match tt {
            proc_macro2::TokenTree::Group(g) => {
                let (o, c) = match g.delimiter() {
                    proc_macro2::Delimiter::Parenthesis => ("(", ")"),
                    proc_macro2::Delimiter::Brace => ("{", "}"),
                    proc_macro2::Delimiter::Bracket => ("[", "]"),
                    proc_macro2::Delimiter::None => ("", ""),
                };
                out.push(o.to_string());
                flatten_tokens(g.stream(), out);
                out.push(c.to_string());
            }
            proc_macro2::TokenTree::Ident(i) => out.push(i.to_string()),
            proc_macro2::TokenTree::Punct(p) => out.push(p.as_char().to_string()),
            proc_macro2::TokenTree::Literal(l) => out.push(l.to_string()),
        }
    }
}

fn item_tokens(items: &[syn::Item], out: &mut Vec<String>) {
    use quote::ToTokens;
    for it in items {
        match it {
            syn::Item::Mod(m) => {
                if is_test_attr(&m.attrs) || m.ident == "tests" {
                    continue;
                }
                if let Some((_, inner)) = &m.content {
                    item_tokens(inner, out);
                }
            }
            syn::Item::Fn(f) if is_test_attr(&f.attrs) => {}
            syn::Item::Impl(im) => {
                for ii in &im.items {
                    match ii {
                        syn::ImplItem::Fn(f) if is_test_attr(&f.attrs) => {}
                        other => {
                            // drop doc attributes: they are `#[doc = "..."]` tokens holding prose
                            let mut ts = proc_macro2::TokenStream::new();
                            other.to_tokens(&mut ts);
                            flatten_tokens(ts, out);
                        }
                    }
                }
            }
            other => {
                let mut ts = proc_macro2::TokenStream::new();
                other.to_tokens(&mut ts);
                flatten_tokens(ts, out);
            }
        }
    }
}

fn nd_sources(repo: &Path) -> Result<String, String> {
    let dirs = ["src", "egglog-bridge/src", "core-relations/src", "union-find/src", "concurrency/src", "numeric-id/src", "egglog-ast/src", "egglog-reports/src"];
    let files = source_files(repo, &dirs);
    if files.len() < 30 {
        return Err(format!("only {} source files found", files.len()));
    }
    let mut rows: BTreeMap<(String, &'static str), usize> = BTreeMap::new();
    for (rel, path) in &files {
        let src = std::fs::read_to_string(path).map_err(|e| format!("{rel}: {e}"))?;
        let file = syn::parse_file(&src).map_err(|e| format!("{rel}: does not parse: {e}"))?;
        let mut t: Vec<String> = Vec::new();
        item_tokens(&file.items, &mut t);
        // strip `# [doc = "..."]` runs so that prose is not scanned
        let mut toks: Vec<String> = Vec::with_capacity(t.len());
        let mut i = 0;
        while i < t.len() {
            if t[i] == "#" && i + 5 < t.len() && t[i + 1] == "[" && t[i + 2] == "doc" && t[i + 3] == "=" {
                i += 6;
                continue;
            }
            toks.push(t[i].clone());
            i += 1;
        }
        let mut bump = |k: &'static str| *rows.entry((rel.clone(), k)).or_insert(0) += 1;
        for i in 0..toks.len() {
            let a = toks[i].as_str();
            let nxt = |k: usize| toks.get(i + k).map(|s| s.as_str()).unwrap_or("");
            let prv = |k: usize| if i >= k { toks[i - k].as_str() } else { "" };
            match a {
                "Instant" if nxt(1) == ":" && nxt(2) == ":" && nxt(3) == "now" => bump("NdClock"),
                "SystemTime" | "UNIX_EPOCH" => bump("NdClock"),
                "thread_rng" | "getrandom" | "fastrand" | "RandomState" | "from_entropy" => bump("NdRng"),
                "rand" if nxt(1) == ":" && nxt(2) == ":" && prv(1) != "use" => bump("NdRng"),
                "rand" if prv(1) == "use" => bump("NdRng"),
                "available_parallelism" | "num_cpus" | "sched_getaffinity" | "get_physical" => bump("NdHostCpus"),
                "current_num_threads" if nxt(1) == "(" && prv(1) != "fn" => bump("NdPoolSize"),
                "env" if nxt(1) == ":" && nxt(2) == ":" && ["var", "vars", "var_os", "vars_os", "current_dir", "temp_dir", "current_exe", "home_dir"].contains(&nxt(3)) => bump("NdEnv"),
                "process" if nxt(1) == ":" && nxt(2) == ":" && nxt(3) == "id" => bump("NdPid"),
                "thread" if nxt(1) == ":" && nxt(2) == ":" && nxt(3) == "current" => bump("NdPid"),
                "as_ptr" | "as_mut_ptr" | "addr_of" | "addr_of_mut" | "expose_addr" | "into_raw" if prv(1) != "fn" => bump("NdAddr"),
                "addr" if prv(1) == "." && nxt(1) == "(" => bump("NdAddr"),
                "usize" | "u64" | "isize" | "i64" if prv(1) == "as" && (prv(3) == "const" || prv(3) == "mut") && prv(4) == "*" => bump("NdAddr"),
                _ => {
                    if a.starts_with('"') && (a.contains(":p}") || a.contains(":p$")) {
                        bump("NdPtrFmt");
                    }
                }
            }
        }
    }
    let mut out = String::new();
    out.push_str("Inductive nd_kind := NdClock | NdRng | NdHostCpus | NdPoolSize | NdPtrFmt | NdEnv | NdPid | NdAddr.\n");
    out.push_str("(* reads of clock / rng / host CPU count / thread-pool size / pointer formatting / environment / pid+thread id / raw addresses in non-test code: (file, kind, count) *)\nDefinition nd_sources : list (string * nd_kind * nat) := [\n");
    out.push_str(&rows.iter().map(|((f, k), n)| format!("  ({}, {}, {})", coq_str(f), k, n)).collect::<Vec<_>>().join(";\n"));
    out.push_str("\n].\n");
    out.push_str(&format!("Definition nd_sources_files_scanned : nat := {}.\n", files.len()));
    Ok(out)
}

pub fn generate(repo: &Path) -> (String, Vec<String>) {
    let mut out = String::new();
    out.push_str("(* GENERATED by /verif/translator (x_det.rs): C20 iteration-site and nondeterminism-source inventories -- do not edit *)\n");
    out.push_str("From Coq Require Import List String.\nImport ListNotations.\n\n");
    let mut rep = Vec::new();
    let items: [(&str, &str, fn(&Path) -> Result<String, String>); 2] = [
        ("DetFacts.iter_sites", "src + egglog-bridge/src + core-relations/src", iteration_sites),
        ("DetFacts.nd_sources", "workspace sources", nd_sources),
    ];
    for (item, file, f) in items {
        match f(repo) {
            Ok(t) => {
                out.push_str(&t);
                out.push('\n');
                rep.push(format!("{{\"item\":\"{item}\",\"file\":\"{file}\",\"ok\":true}}"));
            }
            Err(e) => {
                out.push_str(&format!("(* {item} FAILED: {} *)\n", e.replace("*)", "* )")));
                rep.push(format!("{{\"item\":\"{item}\",\"file\":\"{file}\",\"ok\":false,\"error\":{:?}}}", e));
            }
        }
    }
    (out, rep)
}
