"""C08 configuration for bin/check."""

CFG = {
        "tier_a": ["SnapFacts.push_body", "SnapFacts.pop_carry", "SnapFacts.egraph_fields", "SnapFacts.bridge_fields",
                   "SnapFacts.database_fields", "SnapFacts.tableinfo_clone", "SnapFacts.counters_clone"],
        "model_targets": ["Snap/PushPop.vo", "Snap/Fields.vo"],
        "proof_targets": ["Props/C08.vo"],
        "harness": [{"bin": "h_snap", "prefix": "cases_snap", "timeout": 3000}],
        "tier_a_note": "gen/SnapFacts.v (translator/src/x_snap.rs) regenerates: the statement list of EGraph::push, the "
                       "carry-over (mem::swap) list of EGraph::pop with its `*self = *e; Ok(())` / `None => Err(Error::Pop)` "
                       "frame, the field lists (name, type text, syntactic handle class) and Clone origin of egglog::EGraph, "
                       "egglog_bridge::EGraph, core_relations::Database, the per-field initialisers of `impl Clone for "
                       "TableInfo` + deep_clone_map body, and the fresh-cell shape of `impl Clone for Counters`. Pinned by "
                       "c08_pop_is_regenerated, c08_push_is_regenerated, c08_carveouts_are, c08_fields_classified, "
                       "c08_shared_mutable_recorded, c08_tableinfo_clone_is (reviewed tables: coq/Snap/Fields.v). "
                       "NOT regenerated: Clone of the nested types below these structs (Parser, TypeInfo, RuleInfo, "
                       "ContainerValues, BaseValues, SortedWritesTable, DisplacedTable ...): reviewed by hand, link-only. "
                       "coq/Snap/Backend.v (store with index cells, clone non-interference) is PARKED, not in _CoqProject.",
        "trusted": [
            "coq/Snap/PushPop.v is a hand-written (Tier B) model of src/lib.rs push/pop (697-721), `Clone for EGraph` "
            "(derive, 285-311), egglog-bridge ActionRegistry / add_table (45-102, 583-651), TableAction::is_live "
            "(1449-1452), core-relations TableIdentity (free_join/mod.rs 134-164, 746) and exec_state.rs lookup_action "
            "(700-715). The DATABASE IS ABSTRACT in the theorems (any state type with any step functions of the "
            "declaration state and the database), so what the theorems rest on is only: which fields push copies, "
            "which fields pop restores, that the registry and the identity counter are shared, and how name-indexed "
            "access filters by liveness. That is what h_snap ties to the code.",
            "h_snap: the implementation predicate itself (P;(push);Q;(pop);R versus P;R, clone pair versus independent "
            "engines, compared after every command) on the real egglog::EGraph; plus the model's concrete instance "
            "(unary/binary i64 functions with max-merge, copy rules, rulesets, sorts, globals, update/read API) "
            "evaluated by the kernel against the engine's outputs for single sessions and clone pairs",
        ],
        "theorem_backed": "[session 4] push/pop bodies, the pop carry-over list, the field lists + clone classes of egglog::EGraph / egglog_bridge::EGraph / core_relations::Database and the TableInfo / Counters clone impls are REGENERATED (gen/SnapFacts.v); c08_pop_is_regenerated, c08_push_is_regenerated, c08_carveouts_are, c08_fields_classified, c08_shared_mutable_recorded, c08_tableinfo_clone_is: the model's push/pop ARE the interpreted regenerated bodies, every struct field is classified, the only shared-mutable field is action_registry (F6); for every database semantics and all P, Q, R with Q balanced (nested push/pop, declarations of "
                          "sorts/functions/rulesets/rules/globals, failing and half-declaring commands, API writes): "
                          "outputs(P;push;Q;pop;R) = outputs(P;R) on P and R up to exactly the run report shown by "
                          "print-stats and fresh-symbol numbers, final states equivalent frame by frame (declarations, "
                          "database, table names, live name resolution), outputs equal outright when the counters "
                          "agree; names declared in Q can be declared again; pop without push is an error without "
                          "effect; a table dropped by pop is MissingTable for name-indexed access also after its table "
                          "id is reused; clone isolation REFUTED in the faithful model (F6 witness) and proved for "
                          "interleavings in which a copy never declares a table name the other copy has or declares",
        "link_only": "the bridge's panic side channel (Arc<Mutex<Option<String>>>, shared by derive(Clone) between the live "
                     "e-graph, pushed snapshots and clones like the registry; empty between commands in the repaired "
                     "run_rules_inner, which takes a second error raised by the rebuild-before-report): not in the "
                     "model, exercised by h_snap's compound failures (union + panic / :no-merge conflict / failing "
                     "primitive in one iteration inside Q and in one clone, rule-running commands first in R and on "
                     "the other clone); deep-copy of the backend by Database::clone / TableInfo::clone / SortedWritesTable / DisplacedTable "
                     "/ Counters (the abstract db of the model is copied by construction; on the engine this is what "
                     "the triple and pair families test through observations, prints, runs and API reads after every "
                     "command); extension state, schedulers, user-defined commands and command macros (copied by "
                     "derive(Clone), not exercised); proof / term-encoding mode",
        "assumptions": [
            "names of different kinds are drawn from disjoint pools (a sort, a function, a ruleset, a rule and a global "
            "never share a spelling); rule names are unique per ruleset as in lib.rs add_rule",
            "tables with generated names (globals, term encoding) are never addressed by name (the parser rejects "
            "reserved symbols), so the model's table list holds the user-named tables only",
            "a rejected declaration may leave at most its own name half-declared (F2) and never removes a function name",
            "single-threaded; TableIdentity / symbol counters do not overflow",
        ],
    }
