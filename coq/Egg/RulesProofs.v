(** The rule interpreter of [Egg/Rules.v] and the C01/C04 theorems.

    Part 1 (constructor fragment): every state reached by [pexec] on a program whose signature is
    all [MUnionId] and whose actions are [AExpr]/[AUnion] over in-range function symbols is the
    result of a well-formed term-level history [run sg (init n) cs]; hence C01 (sound, complete)
    and the C04 invariant hold after every command of every such program, also at the point
    where an error (ungrounded action / panic) stops the program.

    Part 2 (all of [xcmd], any signature): the structural invariant [WFx] (union-find order
    invariant, ids in range and canonical, keys distinct) holds in every state reached by [pexec],
    error or not, and the model never reports error code 4 (fuel / panic). *)
From Coq Require Import List Arith Lia PeanoNat Bool ZArith.
Import ListNotations.
Require Import Verif.Base.Res Verif.gen.UFSeq Verif.gen.MergeArms Verif.UF.Seq Verif.Egg.Model.
Require Import Verif.Egg.Rules Verif.Egg.Merge Verif.Egg.Subsume.
Require Import Verif.Egg.CmdOk Verif.Egg.RepFacts Verif.Egg.CCDefs Verif.Egg.Rebuild Verif.Egg.CC.

(* ------------------------------------------------------------------ *)
(** * traces of a program *)

(** states after each command, up to (excluding) the first error: exactly what [prun] observes *)
Fixpoint ptrace (sg : list mergefn) (ps : pstate) (ks : list command) : list pstate :=
  match ks with
  | [] => []
  | k :: tl => match pexec sg ps k with
               | (ps', None) => ps' :: ptrace sg ps' tl
               | (_, Some _) => []
               end
  end.

(** the state in which the program ends: after the last command, or the state returned together
    with the first error *)
Fixpoint pfinal (sg : list mergefn) (ps : pstate) (ks : list command) : pstate * option nat :=
  match ks with
  | [] => (ps, None)
  | k :: tl => match pexec sg ps k with
               | (ps', None) => pfinal sg ps' tl
               | r => r
               end
  end.

Lemma prun_ptrace sg probes iprobes : forall ks ps,
  prun sg ps ks probes iprobes = map (fun ps' => observe (fst ps') probes iprobes) (ptrace sg ps ks).
Proof.
  induction ks as [|k tl IH]; intros ps; cbn [prun ptrace map]; [reflexivity|].
  destruct (pexec sg ps k) as [ps' [e|]]; cbn [map]; [reflexivity|]. rewrite IH. reflexivity.
Qed.

(** an invariant of [pexec] that holds error or not holds along the trace and at the end *)
Lemma ptrace_pfinal_inv (I : pstate -> Prop) (K : command -> Prop) sg :
  (forall ps k, I ps -> K k -> I (fst (pexec sg ps k))) ->
  forall ks ps, I ps -> Forall K ks ->
    Forall I (ptrace sg ps ks) /\ I (fst (pfinal sg ps ks)).
Proof.
  intros Hstep. induction ks as [|k tl IH]; intros ps HI HK; cbn [ptrace pfinal].
  - split; [constructor|exact HI].
  - inversion HK as [|k' tl' Hk Htl]; subst. pose proof (Hstep ps k HI Hk) as H1.
    destruct (pexec sg ps k) as [ps' [e|]]; cbn [fst] in *.
    + split; [constructor|exact H1].
    + destruct (IH ps' H1 Htl) as [Ht Hf]. split; [constructor; assumption|exact Hf].
Qed.

(* ------------------------------------------------------------------ *)
(** * Part 1: the constructor fragment *)

Fixpoint pat_okb (n : nat) (p : pat) : bool :=
  match p with
  | PVar _ => true
  | PInt _ => true
  | PAdd _ _ => true
  | PApp f ps => (f <? n) && forallb (pat_okb n) ps
  end.

Definition act_okb (n : nat) (a : action) : bool :=
  match a with
  | AExpr p => pat_okb n p
  | AUnion p q => pat_okb n p && pat_okb n q
  | _ => false
  end.

Definition rule_okb (n : nat) (r : rule) : bool := forallb (act_okb n) (rhead r).

Definition kcmd_okb (n : nat) (k : command) : bool :=
  match k with
  | KAct a => act_okb n a
  | KRule r => rule_okb n r
  | KRun _ => true
  end.

Definition sg_ctor_okb (sg : list mergefn) : bool :=
  forallb (fun m => match m with MUnionId => true | _ => false end) sg.

(** the constructor fragment: every table a constructor, every top-level action and rule head an
    expression or a union over function symbols of the signature (rule bodies are unrestricted) *)
Definition prog_ctor_okb (n : nat) (sg : list mergefn) (ks : list command) : bool :=
  sg_ctor_okb sg && forallb (kcmd_okb n) ks.

Lemma sg_ctor_okb_all sg : sg_ctor_okb sg = true -> all_unionid sg.
Proof.
  unfold sg_ctor_okb, all_unionid. intros H. apply Forall_forall. intros m Hm.
  rewrite forallb_forall in H. specialize (H m Hm). destruct m; try discriminate. reflexivity.
Qed.

(** ** patterns *)

Lemma pat_ind' (P : pat -> Prop) :
  (forall x, P (PVar x)) -> (forall z, P (PInt z)) -> (forall a b, P (PAdd a b)) ->
  (forall f ps, Forall P ps -> P (PApp f ps)) -> forall p, P p.
Proof.
  intros HV HI HA HP. fix IH 1. intros [x|f ps|z|a b]; [apply HV| |apply HI|apply HA].
  apply HP. induction ps as [|q tl IHl]; constructor; [apply IH|exact IHl].
Qed.

Lemma grounds_eq s e : forall ps, grounds s e ps =
  (fix grounds0 (ps : list pat) : option (list term) :=
     match ps with
     | [] => Some []
     | p :: tl => match ground s e p, grounds0 tl with
                  | Some t, Some ts => Some (t :: ts)
                  | _, _ => None
                  end
     end) ps.
Proof. induction ps as [|p tl IH]; [reflexivity|]. cbn [grounds]. rewrite IH. reflexivity. Qed.

Lemma ground_PApp s e f ps : ground s e (PApp f ps) =
  match grounds s e ps with Some ts => Some (T f ts) | None => None end.
Proof. rewrite grounds_eq. reflexivity. Qed.

(** ** witnesses stay inside the signature *)

Definition wit_ok (n : nat) (s : state) : Prop := Forall (fun t => term_okb n t = true) (wit s).

Lemma witv_okb n w v : Forall (fun t => term_okb n t = true) w -> term_okb n (witv w v) = true.
Proof.
  intros H. destruct v as [i|z]; cbn [witv]; [|reflexivity].
  destruct (nth_in_or_default i w (TI 0)) as [Hin|E]; [|rewrite E; reflexivity].
  rewrite Forall_forall in H. apply H. exact Hin.
Qed.

Lemma ground_okb n s e : wit_ok n s -> forall p t, pat_okb n p = true ->
  ground s e p = Some t -> term_okb n t = true.
Proof.
  intros Hw p. induction p as [x|z|a b|f ps IH] using pat_ind'; intros t Hok Hg.
  - cbn [ground] in Hg. destruct (env_get e x) as [v|]; [|discriminate].
    injection Hg as <-. apply witv_okb. exact Hw.
  - cbn [ground] in Hg. injection Hg as <-. reflexivity.
  - cbn [ground] in Hg. destruct (int_of e (PAdd a b)); [|discriminate]. injection Hg as <-. reflexivity.
  - rewrite ground_PApp in Hg. cbn [pat_okb] in Hok. apply andb_true_iff in Hok.
    destruct Hok as [Hf Hps]. destruct (grounds s e ps) as [ts|] eqn:Eg; [|discriminate].
    injection Hg as <-. cbn [term_okb]. rewrite Hf. cbn [andb].
    clear Hf. revert ts Eg. induction ps as [|p tl IHl]; intros ts Eg; cbn [grounds] in Eg.
    + injection Eg as <-. reflexivity.
    + inversion IH as [|p' tl' Hp Htl]; subst. cbn [forallb] in Hps.
      apply andb_true_iff in Hps. destruct Hps as [Hokp Hoktl].
      destruct (ground s e p) as [t|] eqn:Ep; [|discriminate].
      destruct (grounds s e tl) as [ts'|] eqn:Etl; [|discriminate].
      injection Eg as <-. cbn [forallb]. rewrite (Hp t Hokp eq_refl). cbn [andb].
      apply (IHl Htl Hoktl ts' eq_refl).
Qed.

Lemma add_node_wit_ok n s f vs : wit_ok n s -> f < n -> wit_ok n (fst (add_node s f vs)).
Proof.
  intros Hw Hf. unfold add_node. destruct (tab_lookup (get_tab (tabs s) f) vs); cbn [fst]; [exact Hw|].
  unfold wit_ok. cbn [wit]. apply Forall_app. split; [exact Hw|]. constructor; [|constructor].
  cbn [term_okb]. apply andb_true_iff. split; [apply Nat.ltb_lt; exact Hf|].
  apply forallb_forall. intros t Hin. apply in_map_iff in Hin. destruct Hin as (v & <- & _).
  apply witv_okb. exact Hw.
Qed.

Lemma add_term_wit_ok n : forall t s, wit_ok n s -> term_okb n t = true ->
  wit_ok n (fst (add_term s t)).
Proof.
  induction t as [z|f l IH] using term_ind'; intros s Hw Hok.
  - exact Hw.
  - rewrite add_term_T. cbn [term_okb] in Hok. apply andb_true_iff in Hok. destruct Hok as [Hf Hl].
    apply Nat.ltb_lt in Hf.
    assert (H : wit_ok n (fst (CCDefs.add_terms s l))).
    { clear Hf. revert s Hw. induction l as [|x tl IHl]; intros s Hw; cbn [CCDefs.add_terms]; [exact Hw|].
      inversion IH as [|x' tl' Hx Htl]; subst. cbn [forallb] in Hl. apply andb_true_iff in Hl.
      destruct Hl as [Hokx Hoktl]. pose proof (Hx s Hw Hokx) as H1.
      destruct (add_term s x) as [s1 v]. cbn [fst] in H1.
      pose proof (IHl Htl Hoktl s1 H1) as H2.
      destruct (CCDefs.add_terms s1 tl) as [s2 vs]. exact H2. }
    destruct (CCDefs.add_terms s l) as [s1 vs]. cbn [fst] in H. apply add_node_wit_ok; assumption.
Qed.

Lemma rebuild_pass_wit sg s s' more e : rebuild_pass sg s = Ok (s', more, e) -> wit s' = wit s.
Proof.
  unfold rebuild_pass. destruct (rebuild_tabs (uf s) sg (tabs s)) as [[ts' us] e0].
  destruct (uf_unions (uf s) us) as [p'| |]; cbn [bind]; intros H; try discriminate.
  injection H as <- _ _. reflexivity.
Qed.

Lemma rebuild_wit sg : forall fuel s s' e, rebuild fuel sg s = Ok (s', e) -> wit s' = wit s.
Proof.
  induction fuel as [|fuel IH]; intros s s' e H; cbn [rebuild] in H; [discriminate|].
  destruct (rebuild_pass sg s) as [[[s1 more] e1]| |] eqn:Ep; cbn [bind] in H; try discriminate.
  apply rebuild_pass_wit in Ep. destruct more.
  - destruct (rebuild fuel sg s1) as [[s2 e2]| |] eqn:Er; cbn [bind] in H; try discriminate.
    injection H as <- _. rewrite (IH _ _ _ Er). exact Ep.
  - injection H as <- _. exact Ep.
Qed.

(** terms in range; unlike [cmd_okb] this does not ask union sides to be constructor terms *)
Definition cmd_tokb (n : nat) (c : cmd) : bool :=
  match c with
  | CAdd t => term_okb n t
  | CUnion a b => term_okb n a && term_okb n b
  end.

Lemma exec_wit_ok n sg s c s' : wit_ok n s -> cmd_tokb n c = true -> exec sg s c = Ok s' ->
  wit_ok n s'.
Proof.
  intros Hw Hok He. destruct c as [t|t1 t2]; cbn [exec cmd_tokb] in *.
  - injection He as <-. apply add_term_wit_ok; assumption.
  - apply andb_true_iff in Hok. destruct Hok as [Hok1 Hok2].
    pose proof (add_term_wit_ok n t1 s Hw Hok1) as H1.
    destruct (add_term s t1) as [s1 v1]. cbn [fst] in H1.
    pose proof (add_term_wit_ok n t2 s1 H1 Hok2) as H2.
    destruct (add_term s1 t2) as [s2 v2]. cbn [fst] in H2.
    destruct v1 as [a|z1]; [|injection He as <-; exact H2].
    destruct v2 as [b|z2]; [|injection He as <-; exact H2].
    destruct (uf_union (uf s2) a b) as [p'| |]; cbn [bind] in He; try discriminate.
    destruct (rebuild _ sg _) as [[s4 e4]| |] eqn:Er; cbn [bind] in He; try discriminate.
    injection He as <-. apply rebuild_wit in Er. unfold wit_ok. rewrite Er. exact H2.
Qed.

(** ** normalising an issued command into a well-formed history *)

(** an ill-sorted union (a side is an integer literal) is executed by [exec] as two insertions *)
Definition cmd_norm (c : cmd) : list cmd :=
  match c with
  | CUnion a b => if is_T a && is_T b then [c] else [CAdd a; CAdd b]
  | CAdd _ => [c]
  end.

Lemma run_single sg s c : run sg s [c] = exec sg s c.
Proof. cbn [run]. destruct (exec sg s c); reflexivity. Qed.

Lemma run_cmd_norm sg s c : run sg s (cmd_norm c) = exec sg s c.
Proof.
  destruct c as [t|a b]; cbn [cmd_norm]; [apply run_single|].
  destruct (is_T a && is_T b) eqn:E; [apply run_single|].
  cbn [run exec bind]. destruct a as [fa la|za].
  - destruct b as [fb lb|zb]; [discriminate|].
    destruct (add_term s (T fa la)) as [s1 v1]. cbn [fst]. rewrite add_term_TI. cbn [fst].
    destruct v1; reflexivity.
  - rewrite add_term_TI. cbn [fst]. destruct (add_term s b) as [s2 v2]. reflexivity.
Qed.

Lemma cmd_norm_okb n c : cmd_tokb n c = true -> cmds_okb n (cmd_norm c) = true.
Proof.
  unfold cmds_okb. destruct c as [t|a b]; cbn [cmd_norm cmd_tokb]; intros H.
  - cbn [forallb cmd_okb]. rewrite H. reflexivity.
  - apply andb_true_iff in H. destruct H as [Ha Hb].
    destruct (is_T a && is_T b) eqn:E; cbn [forallb cmd_okb]; rewrite Ha, Hb; [|reflexivity].
    apply andb_true_iff in E. destruct E as [-> ->]. reflexivity.
Qed.

Lemma cmd_okb_tokb n c : cmd_okb n c = true -> cmd_tokb n c = true.
Proof.
  destruct c as [t|a b]; cbn [cmd_okb cmd_tokb]; auto. intros H.
  apply andb_true_iff in H. destruct H as [H _]. apply andb_true_iff in H. destruct H as [H _]. exact H.
Qed.

Lemma cmds_okb_app n cs1 cs2 : cmds_okb n cs1 = true -> cmds_okb n cs2 = true ->
  cmds_okb n (cs1 ++ cs2) = true.
Proof. unfold cmds_okb. intros H1 H2. rewrite forallb_app, H1, H2. reflexivity. Qed.

(** ** reachability by a well-formed term-level history *)

Definition Reach (n : nat) (sg : list mergefn) (s : state) : Prop :=
  exists cs, cmds_okb n cs = true /\ run sg (init n) cs = Ok s.

Lemma Reach_init n sg : Reach n sg (init n).
Proof. exists []. split; reflexivity. Qed.

Lemma run_wit_ok n sg : forall cs s s', wit_ok n s -> cmds_okb n cs = true ->
  run sg s cs = Ok s' -> wit_ok n s'.
Proof.
  induction cs as [|c cs IH]; intros s s' Hw Hok Hr; cbn [run] in Hr.
  - injection Hr as <-. exact Hw.
  - unfold cmds_okb in Hok. cbn [forallb] in Hok. apply andb_true_iff in Hok. destruct Hok as [Hc Hcs].
    destruct (exec sg s c) as [s1| |] eqn:Ee; cbn [bind] in Hr; try discriminate.
    apply (IH s1 s'); auto. eapply exec_wit_ok; eauto. apply cmd_okb_tokb. exact Hc.
Qed.

Lemma Reach_wit_ok n sg s : Reach n sg s -> wit_ok n s.
Proof.
  intros (cs & Hok & Hr). eapply run_wit_ok; [|exact Hok|exact Hr]. constructor.
Qed.

Lemma Reach_WFs n sg s : all_unionid sg -> Reach n sg s -> exists U, WFs n U s.
Proof. intros Hsg (cs & _ & Hr). exists (unions_of cs). eapply run_init_WFs; eauto. Qed.

(** [s'] is obtained from [s] by running a well-formed list of term-level commands *)
Definition Steps (n : nat) (sg : list mergefn) (s s' : state) : Prop :=
  exists cs, cmds_okb n cs = true /\ run sg s cs = Ok s'.

Lemma Steps_refl n sg s : Steps n sg s s.
Proof. exists []. split; reflexivity. Qed.

Lemma Steps_trans n sg s1 s2 s3 : Steps n sg s1 s2 -> Steps n sg s2 s3 -> Steps n sg s1 s3.
Proof.
  intros (c1 & H1 & R1) (c2 & H2 & R2). exists (c1 ++ c2). split; [apply cmds_okb_app; assumption|].
  rewrite run_app_egg, R1. exact R2.
Qed.

Lemma Reach_Steps n sg s s' : Reach n sg s -> Steps n sg s s' -> Reach n sg s'.
Proof. intros H1 H2. exact (Steps_trans n sg (init n) s s' H1 H2). Qed.

(** one issued command = one [exec] = a well-formed history of one or two commands *)
Lemma Reach_step n sg s c : all_unionid sg -> Reach n sg s -> cmd_tokb n c = true ->
  exists s', exec sg s c = Ok s' /\ Steps n sg s s'.
Proof.
  intros Hsg HR Hok. destruct (Reach_WFs n sg s Hsg HR) as (U & HW).
  destruct (exec_spec sg n U s c Hsg HW) as (s' & He & _).
  exists s'. split; [exact He|]. exists (cmd_norm c). split.
  - apply cmd_norm_okb. exact Hok.
  - rewrite run_cmd_norm. exact He.
Qed.

(** ** ground commands of the fragment *)

Definition xc_okb (n : nat) (x : xcmd) : bool :=
  match x with
  | XC c => cmd_tokb n c
  | XPanic => true
  | _ => false
  end.

Definition err_user (e : option nat) : Prop := e = None \/ e = Some 1.

Lemma xexec_reach n sg s x : all_unionid sg -> Reach n sg s -> xc_okb n x = true ->
  Steps n sg s (fst (xexec sg s x)) /\ err_user (snd (xexec sg s x)).
Proof.
  intros Hsg HR Hok. destruct x as [c| | | |]; try discriminate; cbn [xexec xc_okb] in *.
  - destruct (Reach_step n sg s c Hsg HR Hok) as (s' & He & HS). rewrite He. cbn [fst snd].
    split; [exact HS|left; reflexivity].
  - cbn [fst snd]. split; [apply Steps_refl|right; reflexivity].
Qed.

(** a list of issued commands run by [xrun] (up to the first panic) is a [run] *)
Lemma xrun_reach n sg : all_unionid sg -> forall xs s, Reach n sg s ->
  forallb (xc_okb n) xs = true ->
  Steps n sg s (fst (xrun sg s xs)) /\ err_user (snd (xrun sg s xs)).
Proof.
  intros Hsg. induction xs as [|x xs IH]; intros s HR Hok; cbn [xrun].
  - cbn [fst snd]. split; [apply Steps_refl|left; reflexivity].
  - cbn [forallb] in Hok. apply andb_true_iff in Hok. destruct Hok as [Hx Hxs].
    destruct (xexec_reach n sg s x Hsg HR Hx) as [HS1 He1].
    destruct (xexec sg s x) as [s1 [e|]]; cbn [fst snd] in *.
    + split; assumption.
    + destruct (IH s1 (Reach_Steps n sg s s1 HR HS1) Hxs) as [HS2 He2].
      split; [eapply Steps_trans; eauto|exact He2].
Qed.

Lemma ground_action_okb n s e a : wit_ok n s -> act_okb n a = true ->
  match ground_action s e a with Some x => xc_okb n x = true | None => True end.
Proof.
  intros Hw Hok. destruct a as [p|p q| | | |]; try discriminate; cbn [ground_action act_okb] in *.
  - destruct (ground s e p) as [t|] eqn:Ep; cbn [option_map]; [|exact I].
    cbn [xc_okb cmd_tokb]. eapply ground_okb; eauto.
  - apply andb_true_iff in Hok. destruct Hok as [Hp Hq].
    destruct (ground s e p) as [a|] eqn:Ep; [|exact I].
    destruct (ground s e q) as [b|] eqn:Eq; [|exact I].
    cbn [xc_okb cmd_tokb]. rewrite (ground_okb n s e Hw p a Hp Ep), (ground_okb n s e Hw q b Hq Eq).
    reflexivity.
Qed.

Lemma rule_cmds_okb n s r : wit_ok n s -> rule_okb n r = true ->
  forallb (xc_okb n) (rule_cmds s r) = true.
Proof.
  intros Hw Hok. apply forallb_forall. intros x Hin. unfold rule_cmds in Hin.
  apply in_flat_map in Hin. destruct Hin as (e & _ & Hin).
  apply in_flat_map in Hin. destruct Hin as (a & Ha & Hin).
  unfold rule_okb in Hok. rewrite forallb_forall in Hok. specialize (Hok a Ha).
  pose proof (ground_action_okb n s e a Hw Hok) as H.
  destruct (ground_action s e a) as [x'|]; destruct Hin as [<-|[]]; [exact H|reflexivity].
Qed.

Definition rules_ok (n : nat) (rules : list rule) : Prop := Forall (fun r => rule_okb n r = true) rules.

Lemma iteration_reach n sg rules s : all_unionid sg -> Reach n sg s -> rules_ok n rules ->
  Steps n sg s (fst (iteration sg rules s)) /\ err_user (snd (iteration sg rules s)).
Proof.
  intros Hsg HR Hrules. unfold iteration. apply xrun_reach; auto.
  apply forallb_forall. intros x Hin. apply in_flat_map in Hin. destruct Hin as (r & Hr & Hin).
  unfold rules_ok in Hrules. rewrite Forall_forall in Hrules.
  pose proof (rule_cmds_okb n s r (Reach_wit_ok n sg s HR) (Hrules r Hr)) as H.
  rewrite forallb_forall in H. apply H. exact Hin.
Qed.

Lemma run_n_reach n sg rules : all_unionid sg -> rules_ok n rules -> forall k s, Reach n sg s ->
  Steps n sg s (fst (run_n sg rules k s)) /\ err_user (snd (run_n sg rules k s)).
Proof.
  intros Hsg Hrules. induction k as [|k IH]; intros s HR; cbn [run_n].
  - cbn [fst snd]. split; [apply Steps_refl|left; reflexivity].
  - destruct (iteration_reach n sg rules s Hsg HR Hrules) as [HS1 He1].
    destruct (iteration sg rules s) as [s1 [e|]]; cbn [fst snd] in *.
    + split; assumption.
    + match goal with |- context [if ?c then _ else _] => destruct c end.
      * cbn [fst snd]. split; [exact HS1|left; reflexivity].
      * destruct (IH s1 (Reach_Steps n sg s s1 HR HS1)) as [HS2 He2].
        split; [eapply Steps_trans; eauto|exact He2].
Qed.

(** the error codes of the fragment: none, 1 (panic action) or 3 (ungrounded action) — never the
    model's own fuel/panic code 4, never a merge conflict *)
Definition err_prog (e : option nat) : Prop := e = None \/ e = Some 1 \/ e = Some 3.

(** one program command = a well-formed term-level history from the previous state *)
Lemma pexec_reach n sg s rules k : all_unionid sg -> Reach n sg s -> rules_ok n rules ->
  kcmd_okb n k = true ->
  Steps n sg s (fst (fst (pexec sg (s, rules) k))) /\
  rules_ok n (snd (fst (pexec sg (s, rules) k))) /\
  err_prog (snd (pexec sg (s, rules) k)).
Proof.
  intros Hsg HR Hrules Hk. destruct k as [a|r|m]; cbn [pexec kcmd_okb] in *.
  - pose proof (ground_action_okb n s [] a (Reach_wit_ok n sg s HR) Hk) as Hx.
    destruct (ground_action s [] a) as [x|].
    + destruct (xexec_reach n sg s x Hsg HR Hx) as [HR1 He1].
      destruct (xexec sg s x) as [s1 e]. cbn [fst snd] in *.
      split; [exact HR1|]. split; [exact Hrules|]. destruct He1 as [->| ->]; [left|right; left]; reflexivity.
    + cbn [fst snd]. split; [apply Steps_refl|]. split; [exact Hrules|]. right. right. reflexivity.
  - cbn [fst snd]. split; [apply Steps_refl|]. split; [|left; reflexivity].
    apply Forall_app. split; [exact Hrules|]. constructor; [exact Hk|constructor].
  - destruct (run_n_reach n sg rules Hsg Hrules m s HR) as [HR1 He1].
    destruct (run_n sg rules m s) as [s1 e]. cbn [fst snd] in *.
    split; [exact HR1|]. split; [exact Hrules|]. destruct He1 as [->| ->]; [left|right; left]; reflexivity.
Qed.

(** Every state a constructor-fragment program passes through — after each command, and the
    state returned together with an error — is the result of a well-formed term-level history. *)
Theorem rules_history n sg ks : prog_ctor_okb n sg ks = true ->
  Forall (fun ps => Reach n sg (fst ps)) (ptrace sg (init n, []) ks) /\
  Reach n sg (fst (fst (pfinal sg (init n, []) ks))).
Proof.
  unfold prog_ctor_okb. intros H. apply andb_true_iff in H. destruct H as [Hsg Hks].
  apply sg_ctor_okb_all in Hsg.
  destruct (ptrace_pfinal_inv (fun ps => Reach n sg (fst ps) /\ rules_ok n (snd ps))
              (fun k => kcmd_okb n k = true) sg) with (ks := ks) (ps := (init n, @nil rule))
    as [Ht Hf].
  - intros [s rules] k [HR Hr] Hk. cbn [fst snd] in *.
    destruct (pexec_reach n sg s rules k Hsg HR Hr Hk) as (H1 & H2 & _).
    split; [eapply Reach_Steps; eauto|exact H2].
  - cbn [fst snd]. split; [apply Reach_init|constructor].
  - apply Forall_forall. intros k Hk. rewrite forallb_forall in Hks. apply Hks. exact Hk.
  - split; [|apply Hf]. eapply Forall_impl; [|exact Ht]. intros ps Hps. apply Hps.
Qed.

(** ... and the histories are nested: each command of the program extends the history of the
    previous state by a well-formed list of term-level commands *)
Fixpoint chain {A} (Rel : A -> A -> Prop) (x : A) (l : list A) : Prop :=
  match l with
  | [] => True
  | y :: tl => Rel x y /\ chain Rel y tl
  end.

Theorem rules_stepwise n sg ks : prog_ctor_okb n sg ks = true ->
  chain (fun ps ps' => Steps n sg (fst ps) (fst ps')) (init n, []) (ptrace sg (init n, []) ks).
Proof.
  unfold prog_ctor_okb. intros H. apply andb_true_iff in H. destruct H as [Hsg Hks].
  apply sg_ctor_okb_all in Hsg.
  assert (G : forall ks ps, Reach n sg (fst ps) -> rules_ok n (snd ps) ->
            forallb (kcmd_okb n) ks = true ->
            chain (fun ps ps' => Steps n sg (fst ps) (fst ps')) ps (ptrace sg ps ks)).
  { clear ks Hks. induction ks as [|k tl IH]; intros [s rules] HR Hr Hks; cbn [ptrace]; [exact I|].
    cbn [forallb] in Hks. apply andb_true_iff in Hks. destruct Hks as [Hk Htl]. cbn [fst snd] in *.
    destruct (pexec_reach n sg s rules k Hsg HR Hr Hk) as (H1 & H2 & _).
    destruct (pexec sg (s, rules) k) as [ps' [e|]]; cbn [fst snd chain] in *; [exact I|].
    split; [exact H1|]. apply IH; [eapply Reach_Steps; eauto|exact H2|exact Htl]. }
  apply G; [apply Reach_init|constructor|exact Hks].
Qed.

(** the only errors such a program can raise are the user-visible ones *)
Theorem rules_errors n sg ks : prog_ctor_okb n sg ks = true ->
  err_prog (snd (pfinal sg (init n, []) ks)).
Proof.
  unfold prog_ctor_okb. intros H. apply andb_true_iff in H. destruct H as [Hsg Hks].
  apply sg_ctor_okb_all in Hsg.
  assert (G : forall ks ps, Reach n sg (fst ps) -> rules_ok n (snd ps) ->
            forallb (kcmd_okb n) ks = true -> err_prog (snd (pfinal sg ps ks))).
  { clear ks Hks. induction ks as [|k tl IH]; intros [s rules] HR Hr Hks; cbn [pfinal].
    - left. reflexivity.
    - cbn [forallb] in Hks. apply andb_true_iff in Hks. destruct Hks as [Hk Htl]. cbn [fst snd] in *.
      destruct (pexec_reach n sg s rules k Hsg HR Hr Hk) as (H1 & H2 & H3).
      destruct (pexec sg (s, rules) k) as [ps' [e|]]; cbn [fst snd] in *; [exact H3|].
      apply IH; [eapply Reach_Steps; eauto|exact H2|exact Htl]. }
  apply G; [apply Reach_init|constructor|exact Hks].
Qed.

(** C01 and C04 for a reachable state *)
Definition c04_inv (n : nat) (s : state) : Prop :=
  Inv (uf s) /\ length (wit s) = length (uf s) /\ length (tabs s) = n /\
  (forall f r i, In r (get_tab (tabs s) f) -> (In (VId i) (rargs r) \/ rret r = VId i) ->
     i < length (uf s) /\ par (uf s) i = i /\ rep (uf s) i = i) /\
  (forall f, NoDup (map rargs (get_tab (tabs s) f))) /\
  (forall f r1 r2, In r1 (get_tab (tabs s) f) -> In r2 (get_tab (tabs s) f) ->
     map (canon (uf s)) (rargs r1) = map (canon (uf s)) (rargs r2) -> r1 = r2).

Definition c01_holds (n : nat) (sg : list mergefn) (s : state) : Prop :=
  exists cs, cmds_okb n cs = true /\ run sg (init n) cs = Ok s /\
    forall t1 t2 v1 v2, eval s t1 = Some v1 -> eval s t2 = Some v2 ->
      (v1 = v2 <-> CC (unions_of cs) t1 t2).

Lemma Reach_c01 n sg s : all_unionid sg -> Reach n sg s -> c01_holds n sg s.
Proof.
  intros Hsg (cs & Hok & Hr). exists cs. split; [exact Hok|]. split; [exact Hr|].
  intros t1 t2 v1 v2 H1 H2. eapply c01_iff; eauto.
Qed.

Lemma Reach_c04 n sg s : all_unionid sg -> Reach n sg s -> c04_inv n s.
Proof.
  intros Hsg (cs & Hok & Hr).
  destruct (c04_inv_reachable n sg cs s Hsg Hr) as (H1 & H2 & H3 & H4 & _ & H6 & H7).
  unfold c04_inv. repeat split; auto; apply (H4 f r i); auto.
Qed.

Theorem rules_c01 n sg ks : prog_ctor_okb n sg ks = true ->
  Forall (fun ps => c01_holds n sg (fst ps)) (ptrace sg (init n, []) ks) /\
  c01_holds n sg (fst (fst (pfinal sg (init n, []) ks))).
Proof.
  intros H. destruct (rules_history n sg ks H) as [Ht Hf].
  unfold prog_ctor_okb in H. apply andb_true_iff in H. destruct H as [Hsg _].
  apply sg_ctor_okb_all in Hsg. split.
  - eapply Forall_impl; [|exact Ht]. intros ps. apply Reach_c01. exact Hsg.
  - apply Reach_c01; assumption.
Qed.

Theorem rules_c04 n sg ks : prog_ctor_okb n sg ks = true ->
  Forall (fun ps => c04_inv n (fst ps)) (ptrace sg (init n, []) ks) /\
  c04_inv n (fst (fst (pfinal sg (init n, []) ks))).
Proof.
  intros H. destruct (rules_history n sg ks H) as [Ht Hf].
  unfold prog_ctor_okb in H. apply andb_true_iff in H. destruct H as [Hsg _].
  apply sg_ctor_okb_all in Hsg. split.
  - eapply Forall_impl; [|exact Ht]. intros ps. apply (Reach_c04 n sg). exact Hsg.
  - apply (Reach_c04 n sg); assumption.
Qed.

(* ------------------------------------------------------------------ *)
(** * Part 2: the structural invariant for every signature and every ground command *)

(** a predicate on all values of a row *)
Definition rowx (P : val -> Prop) (r : row) : Prop := Forall P (rargs r) /\ P (rret r).

(** between rebuild passes: ids in range *)
Record WFxm (s : state) : Prop := {
  xm_inv : Inv (uf s);
  xm_wit : length (wit s) = length (uf s);
  xm_lt : forall f r, In r (get_tab (tabs s) f) -> rowx (vlt (length (uf s))) r
}.

(** whenever control returns: ids in range and canonical, keys distinct *)
Record WFx (n : nat) (s : state) : Prop := {
  wx_inv : Inv (uf s);
  wx_wit : length (wit s) = length (uf s);
  wx_ntabs : length (tabs s) = n;
  wx_rows : forall f r, In r (get_tab (tabs s) f) -> rowx (val_ok s) r;
  wx_keys : forall f, NoDup (map rargs (get_tab (tabs s) f))
}.

Lemma val_ok_int s z : val_ok s (VInt z).
Proof. split; exact I. Qed.

Lemma val_ok_min s a b : val_ok s (VId a) -> val_ok s (VId b) -> val_ok s (VId (Nat.min a b)).
Proof. intros Ha Hb. destruct (Nat.min_spec a b) as [[_ ->]|[_ ->]]; assumption. Qed.

Lemma get_tab_all (Q : table -> Prop) ts f : Q [] -> Forall Q ts -> Q (get_tab ts f).
Proof.
  intros Hd H. unfold get_tab. destruct (nth_in_or_default f ts []) as [Hin|E].
  - rewrite Forall_forall in H. apply H. exact Hin.
  - rewrite E. exact Hd.
Qed.

Lemma all_get_tab (Q : table -> Prop) ts : (forall f, Q (get_tab ts f)) -> Forall Q ts.
Proof.
  intros H. apply Forall_forall. intros t Hin. destruct (In_nth ts t [] Hin) as (f & _ & E).
  rewrite <- E. apply H.
Qed.

(** ** merge, insert, re-key for an arbitrary merge function *)

Section AnyMerge.
Variable P : val -> Prop.
Hypothesis P_int : forall z, P (VInt z).
Hypothesis P_min : forall a b, P (VId a) -> P (VId b) -> P (VId (Nat.min a b)).

Definition stagedP (ab : nat * nat) : Prop := P (VId (fst ab)) /\ P (VId (snd ab)) /\ fst ab <> snd ab.

Lemma merge_vals_P m cur new v us e : P cur -> P new -> merge_vals m cur new = (v, us, e) -> P v.
Proof.
  intros Hc Hn H.
  destruct m, cur as [a|x], new as [b|y]; cbn [merge_vals] in H;
    try (injection H as <- _ _; auto; fail).
  destruct (Nat.eqb a b); injection H as <- _ _; auto. rewrite merge_unionid_min. auto.
Qed.

Lemma merge_vals_us m cur new v us e : merge_vals m cur new = (v, us, e) ->
  Forall (fun ab => cur = VId (fst ab) /\ new = VId (snd ab) /\ fst ab <> snd ab) us.
Proof.
  intros H.
  destruct m, cur as [a|x], new as [b|y]; cbn [merge_vals] in H;
    try (injection H as _ <- _; constructor; fail).
  destruct (Nat.eqb_spec a b) as [|N]; injection H as _ <- _; constructor; [|constructor].
  cbn [fst snd]. auto.
Qed.

Lemma tab_insert_x m : forall t r t' us e, tab_insert m t r = (t', us, e) ->
  Forall (rowx P) t -> rowx P r -> Forall (rowx P) t' /\ Forall stagedP us.
Proof.
  induction t as [|r0 tl IH]; intros r t' us e H Ht Hr; cbn [tab_insert] in H.
  - injection H as <- <- <-. split; constructor; [exact Hr|constructor].
  - inversion Ht as [|x l Hr0 Htl]; subst.
    destruct (vals_eqb (rargs r0) (rargs r)).
    + destruct (merge_vals m (rret r0) (rret r)) as [[v us0] e0] eqn:Em. injection H as <- <- <-.
      destruct Hr0 as [Ha0 Hv0]. destruct Hr as [Ha Hv]. split.
      * constructor; [|exact Htl]. split; cbn [rargs rret]; [exact Ha0|].
        eapply merge_vals_P; [exact Hv0|exact Hv|exact Em].
      * eapply Forall_impl; [|apply (merge_vals_us _ _ _ _ _ _ Em)].
        intros ab (E1 & E2 & N). rewrite E1 in Hv0. rewrite E2 in Hv. split; [|split]; assumption.
    + destruct (tab_insert m tl r) as [[tl' us'] e'] eqn:Etl. injection H as <- <- <-.
      destruct (IH r tl' us' e' Etl Htl Hr) as [H1 H2]. split; [constructor; assumption|exact H2].
Qed.

Lemma rebuild_rows_x p m : forall rows acc acc' us e,
  rebuild_rows p m rows acc = (acc', us, e) ->
  Forall (rowx P) acc -> Forall (fun r => rowx P (canon_row p r)) rows ->
  Forall (rowx P) acc' /\ Forall stagedP us.
Proof.
  induction rows as [|r tl IH]; intros acc acc' us e H Hacc Hrows; cbn [rebuild_rows] in H.
  - injection H as <- <- <-. split; [exact Hacc|constructor].
  - inversion Hrows as [|x l Hr Htl]; subst.
    destruct (tab_insert m acc (canon_row p r)) as [[acc1 us1] e1] eqn:E1.
    destruct (rebuild_rows p m tl acc1) as [[acc2 us2] e2] eqn:E2.
    injection H as <- <- <-.
    destruct (tab_insert_x m acc (canon_row p r) acc1 us1 e1 E1 Hacc Hr) as [Ha1 Hu1].
    destruct (IH acc1 acc2 us2 e2 E2 Ha1 Htl) as [Ha2 Hu2].
    split; [exact Ha2|apply Forall_app; split; assumption].
Qed.

Lemma rebuild_tabs_x p : forall ts sg ts' us e,
  rebuild_tabs p sg ts = (ts', us, e) ->
  Forall (Forall (fun r => rowx P (canon_row p r))) ts ->
  length ts' = length ts /\ Forall (Forall (rowx P)) ts' /\
  Forall (fun t => NoDup (map rargs t)) ts' /\ Forall stagedP us.
Proof.
  induction ts as [|t tl IH]; intros sg ts' us e H Hts.
  - destruct sg; cbn [rebuild_tabs] in H; injection H as <- <- <-; repeat split; constructor.
  - inversion Hts as [|x l Ht Htl]; subst.
    assert (G : forall m sg', 
      (let '(t', us, e) := rebuild_rows p m t [] in
       let '(tl', us', e') := rebuild_tabs p sg' tl in (t' :: tl', us ++ us', e || e')) = (ts', us, e) ->
      length ts' = length (t :: tl) /\ Forall (Forall (rowx P)) ts' /\
      Forall (fun t => NoDup (map rargs t)) ts' /\ Forall stagedP us).
    { intros m sg' H'.
      pose proof (Merge.rebuild_rows_keys p m t [] (NoDup_nil _)) as Hk.
      destruct (rebuild_rows p m t []) as [[t1 us1] e1] eqn:E1. cbn [fst] in Hk.
      destruct (rebuild_tabs p sg' tl) as [[tl1 us2] e2] eqn:E2. injection H' as <- <- <-.
      destruct (rebuild_rows_x p m t [] t1 us1 e1 E1 (Forall_nil _) Ht) as [Hr1 Hu1].
      destruct (IH sg' tl1 us2 e2 E2 Htl) as (Hl & Hr2 & Hk2 & Hu2).
      split; [cbn [length]; congruence|]. split; [constructor; assumption|].
      split; [constructor; assumption|apply Forall_app; split; assumption]. }
    destruct sg as [|m sg']; cbn [rebuild_tabs] in H; eapply G; exact H.
Qed.
End AnyMerge.

(** ** one pass and the loop, any signature *)

Lemma rebuild_pass_x sg s : WFxm s ->
  exists s' more e, rebuild_pass sg s = Ok (s', more, e) /\
    WFxm s' /\ length (tabs s') = length (tabs s) /\
    (forall f, NoDup (map rargs (get_tab (tabs s') f))) /\
    (more = true -> nroots (uf s') < nroots (uf s)) /\
    (more = false -> forall f r, In r (get_tab (tabs s') f) -> rowx (val_ok s') r).
Proof.
  intros [HI Hw Hlt]. unfold rebuild_pass.
  destruct (rebuild_tabs (uf s) sg (tabs s)) as [[ts' us] e] eqn:Et.
  destruct (rebuild_tabs_x (val_ok s) (val_ok_int s) (val_ok_min s) (uf s) _ _ _ _ _ Et)
    as (Hlen & Hrows & Hkeys & Hst).
  { apply all_get_tab. intros f. apply Forall_forall. intros r Hin.
    destruct (Hlt f r Hin) as [Ha Hr]. unfold canon_row, rowx. cbn [rargs rret]. split.
    - apply Forall_map. eapply Forall_impl; [|exact Ha]. intros v Hv.
      split; [apply canon_vlt; assumption|apply canon_is_vroot; assumption].
    - split; [apply canon_vlt; assumption|apply canon_is_vroot; assumption]. }
  assert (Hplt : Forall (pair_lt (length (uf s))) us).
  { eapply Forall_impl; [|exact Hst]. intros ab ([Ha _] & [Hb _] & _). split; assumption. }
  destruct (uf_unions_spec us (uf s) HI Hplt) as (p' & Hus & HI' & Hl' & Hco & Hmg & Hn & Hns).
  rewrite Hus. cbn [bind]. eexists. eexists. eexists. split; [reflexivity|]. cbn [uf tabs wit].
  assert (Hget : forall f r, In r (get_tab ts' f) -> rowx (val_ok s) r).
  { intros f. apply Forall_forall. apply (get_tab_all (Forall (rowx (val_ok s)))); [constructor|exact Hrows]. }
  split; [|split; [exact Hlen|split; [|split]]].
  - constructor; cbn [uf tabs wit]; [exact HI'|congruence|].
    intros f r Hin. rewrite Hl'. destruct (Hget f r Hin) as [Ha Hr]. split.
    + eapply Forall_impl; [|exact Ha]. intros v Hv. apply Hv.
    + apply Hr.
  - intros f. apply (get_tab_all (fun t => NoDup (map rargs t))); [constructor|exact Hkeys].
  - intros Hmore. destruct us as [|[a b] tl]; [discriminate|].
    inversion Hst as [|x l ([_ Hpa] & [_ Hpb] & Hne) _]; subst. cbn [fst snd vroot] in *.
    apply (Hns a b tl eq_refl). rewrite !rep_fix; auto.
  - intros Hmore. destruct us as [|ab tl]; [|discriminate].
    cbn [uf_unions] in Hus. injection Hus as <-. intros f r Hin.
    exact (Hget f r Hin).
Qed.

Lemma rebuild_x sg n : forall fuel s, WFxm s -> length (tabs s) = n -> nroots (uf s) < fuel ->
  exists s' e, rebuild fuel sg s = Ok (s', e) /\ WFx n s'.
Proof.
  induction fuel as [|fuel IH]; intros s HM Hn Hfuel; [lia|]. cbn [rebuild].
  destruct (rebuild_pass_x sg s HM) as (s1 & more & e & Hp & HM1 & Hlen1 & Hnd1 & Hdec & Hcan).
  rewrite Hp. cbn [bind]. destruct more.
  - specialize (Hdec eq_refl).
    destruct (IH s1 HM1) as (s2 & e2 & Hr & HW2); [congruence|lia|].
    rewrite Hr. cbn [bind]. exists s2, (e || e2). split; [reflexivity|exact HW2].
  - exists s1, e. split; [reflexivity|]. destruct HM1 as [HI1 Hw1 Hlt1].
    constructor; auto; [congruence|]. apply Hcan. reflexivity.
Qed.

Lemma WFx_mid n s : WFx n s -> WFxm s.
Proof.
  intros [HI Hw Hn Hr Hk]. constructor; auto. intros f r Hin. destruct (Hr f r Hin) as [Ha Hv].
  split; [eapply Forall_impl; [|exact Ha]; intros v H; apply H|apply Hv].
Qed.

(** changing only the union-find to one of the same length keeps the mid invariant *)
Lemma WFxm_set_uf s p' : WFxm s -> Inv p' -> length p' = length (uf s) ->
  WFxm (mkSt p' (tabs s) (wit s)).
Proof.
  intros [HI Hw Hlt] HI' Hl. constructor; cbn [uf tabs wit]; [exact HI'|congruence|].
  intros f r Hin. rewrite Hl. apply (Hlt f r Hin).
Qed.

Definition not4 (e : option nat) : Prop := e <> Some 4.

Lemma do_rebuild_x sg n s : WFxm s -> length (tabs s) = n ->
  WFx n (fst (do_rebuild sg s)) /\ not4 (snd (do_rebuild sg s)).
Proof.
  intros HM Hn. unfold do_rebuild.
  destruct (rebuild_x sg n (rebuild_fuel s) s HM Hn) as (s' & e & Hr & HW).
  { unfold rebuild_fuel. pose proof (nroots_le_len (uf s)). lia. }
  rewrite Hr. cbn [fst snd]. split; [exact HW|]. unfold not4. destruct e; discriminate.
Qed.

(** ** term insertion *)

Definition vmono (s s' : state) : Prop := forall v, val_ok s v -> val_ok s' v.

Lemma WFx_set_tab n s f t : WFx n s -> Forall (rowx (val_ok s)) t -> NoDup (map rargs t) ->
  WFx n (mkSt (uf s) (set_tab (tabs s) f t) (wit s)).
Proof.
  intros [HI Hw Hn Hr Hk] Ht Hnd. constructor; cbn [uf tabs wit]; auto.
  - rewrite length_set_tab. exact Hn.
  - intros g r. rewrite get_set_tab'. destruct (Nat.eqb g f && (f <? length (tabs s)))%bool.
    + intros Hin. rewrite Forall_forall in Ht. apply (Ht r Hin).
    + apply Hr.
  - intros g. rewrite get_set_tab'. destruct (Nat.eqb g f && (f <? length (tabs s)))%bool; auto.
Qed.

Lemma WFx_push n s x : WFx n s ->
  let s' := mkSt (uf s ++ [length (uf s)]) (tabs s) (wit s ++ [x]) in
  WFx n s' /\ vmono s s' /\ val_ok s' (VId (length (uf s))).
Proof.
  intros [HI Hw Hn Hr Hk]. cbn zeta.
  set (s' := mkSt (uf s ++ [length (uf s)]) (tabs s) (wit s ++ [x])).
  assert (Hlen' : length (uf s') = S (length (uf s))).
  { unfold s'. cbn [uf]. rewrite app_length. cbn [length]. lia. }
  assert (Hpar : forall y, par (uf s') y = par (uf s) y) by (intro; apply par_app_self).
  assert (Hm : vmono s s').
  { intros v [H1 H2]. split.
    - rewrite Hlen'. eapply vlt_mono; [|exact H1]. lia.
    - destruct v as [j|z]; cbn [vroot] in *; auto. rewrite Hpar. exact H2. }
  split; [|split; [exact Hm|]].
  - constructor; auto.
    + apply Inv_app_self. exact HI.
    + rewrite Hlen'. unfold s'. cbn [wit]. rewrite app_length. cbn [length]. lia.
    + intros f r Hin. destruct (Hr f r Hin) as [Ha Hv]. split.
      * eapply Forall_impl; [|exact Ha]. exact Hm.
      * apply Hm. exact Hv.
  - split; [cbn [vlt]; lia|]. cbn [vroot]. rewrite Hpar. apply par_oob. lia.
Qed.

Lemma add_node_x n s f vs : WFx n s -> Forall (val_ok s) vs ->
  WFx n (fst (add_node s f vs)) /\ vmono s (fst (add_node s f vs)) /\
  val_ok (fst (add_node s f vs)) (snd (add_node s f vs)).
Proof.
  intros HW Hvs. unfold add_node.
  destruct (tab_lookup (get_tab (tabs s) f) vs) as [r|] eqn:Elk; cbn [fst snd].
  - apply tab_lookup_some in Elk. destruct Elk as [Hin _].
    split; [exact HW|]. split; [intros v Hv; exact Hv|]. apply (wx_rows _ _ HW f r Hin).
  - destruct (WFx_push n s (T f (map (witv (wit s)) vs)) HW) as (HW' & Hm & Hnew). cbn zeta in *.
    set (s' := mkSt (uf s ++ [length (uf s)]) (tabs s) (wit s ++ [T f (map (witv (wit s)) vs)])) in *.
    split; [|split; [exact Hm|exact Hnew]].
    apply (WFx_set_tab n s' f (get_tab (tabs s) f ++ [mkRow vs (VId (length (uf s))) false]) HW').
    + apply Forall_app. split.
      * apply Forall_forall. intros r Hin. apply (wx_rows _ _ HW' f r Hin).
      * constructor; [|constructor]. split; cbn [rargs rret]; [|exact Hnew].
        eapply Forall_impl; [|exact Hvs]. exact Hm.
    + rewrite map_app. cbn [map rargs]. apply NoDup_snoc; [apply (wx_keys _ _ HW)|].
      apply tab_lookup_none. exact Elk.
Qed.

Lemma add_terms_same s l : Rules.add_terms s l = CCDefs.add_terms s l.
Proof. reflexivity. Qed.

Definition add_term_xok (n : nat) (t : term) : Prop :=
  forall s, WFx n s ->
    WFx n (fst (add_term s t)) /\ vmono s (fst (add_term s t)) /\
    val_ok (fst (add_term s t)) (snd (add_term s t)).

Lemma add_terms_x n : forall l, Forall (add_term_xok n) l -> forall s, WFx n s ->
  WFx n (fst (CCDefs.add_terms s l)) /\ vmono s (fst (CCDefs.add_terms s l)) /\
  Forall (val_ok (fst (CCDefs.add_terms s l))) (snd (CCDefs.add_terms s l)).
Proof.
  induction l as [|x tl IHl]; intros HF s HW; cbn [CCDefs.add_terms].
  - cbn [fst snd]. split; [exact HW|]. split; [intros v Hv; exact Hv|constructor].
  - inversion HF as [|x' tl' Hx Htl]; subst.
    destruct (Hx s HW) as (HW1 & Hm1 & Hv1).
    destruct (add_term s x) as [s1 v]. cbn [fst snd] in *.
    destruct (IHl Htl s1 HW1) as (HW2 & Hm2 & Hv2).
    destruct (CCDefs.add_terms s1 tl) as [s2 vs]. cbn [fst snd] in *.
    split; [exact HW2|]. split; [intros w Hw; apply Hm2, Hm1, Hw|].
    constructor; [apply Hm2; exact Hv1|exact Hv2].
Qed.

Lemma add_term_x n : forall t, add_term_xok n t.
Proof.
  induction t as [z|f l IH] using term_ind'; intros s HW.
  - rewrite add_term_TI. cbn [fst snd]. split; [exact HW|]. split; [intros v Hv; exact Hv|apply val_ok_int].
  - rewrite add_term_T.
    destruct (add_terms_x n l IH s HW) as (HW1 & Hm1 & Hv1).
    destruct (CCDefs.add_terms s l) as [s1 vs]. cbn [fst snd] in *.
    destruct (add_node_x n s1 f vs HW1 Hv1) as (HW2 & Hm2 & Hv2).
    split; [exact HW2|]. split; [intros w Hw; apply Hm2, Hm1, Hw|exact Hv2].
Qed.

Lemma add_terms_x' n l s : WFx n s ->
  WFx n (fst (Rules.add_terms s l)) /\ vmono s (fst (Rules.add_terms s l)) /\
  Forall (val_ok (fst (Rules.add_terms s l))) (snd (Rules.add_terms s l)).
Proof.
  rewrite add_terms_same. apply add_terms_x. apply Forall_forall. intros t _. apply add_term_x.
Qed.

(** ** commands *)

Lemma exec_x sg n s c : WFx n s -> exists s', exec sg s c = Ok s' /\ WFx n s'.
Proof.
  intros HW. destruct c as [t|t1 t2]; cbn [exec].
  - eexists. split; [reflexivity|]. apply add_term_x. exact HW.
  - destruct (add_term_x n t1 s HW) as (HW1 & Hm1 & Hv1).
    destruct (add_term s t1) as [s1 v1]. cbn [fst snd] in *.
    destruct (add_term_x n t2 s1 HW1) as (HW2 & Hm2 & Hv2).
    destruct (add_term s1 t2) as [s2 v2]. cbn [fst snd] in *.
    destruct v1 as [a|z1]; [|exists s2; split; [reflexivity|exact HW2]].
    destruct v2 as [b|z2]; [|exists s2; split; [reflexivity|exact HW2]].
    apply Hm2 in Hv1. destruct Hv1 as [Ha _]. destruct Hv2 as [Hb _]. cbn [vlt] in Ha, Hb.
    destruct (uf_union_spec (uf s2) a b (wx_inv _ _ HW2) Ha Hb) as (p' & Hu & HI' & Hl' & _).
    rewrite Hu. cbn [bind].
    pose proof (WFxm_set_uf s2 p' (WFx_mid n s2 HW2) HI' Hl') as HM3.
    set (s3 := mkSt p' (tabs s2) (wit s2)) in *.
    destruct (rebuild_x sg n (rebuild_fuel s3) s3 HM3) as (s4 & e & Hr & HW4).
    { apply (wx_ntabs _ _ HW2). }
    { unfold rebuild_fuel. pose proof (nroots_le_len (uf s3)). lia. }
    rewrite Hr. cbn [bind]. exists s4. split; [reflexivity|exact HW4].
Qed.

Lemma tab_subsume_in t k r' : In r' (tab_subsume t k) ->
  exists r, In r t /\ rargs r' = rargs r /\ rret r' = rret r.
Proof.
  induction t as [|r0 tl IH]; cbn [tab_subsume]; [intros []|].
  destruct (vals_eqb (rargs r0) k).
  - intros [<-|Hin]; [exists r0; cbn; auto|exists r'; cbn; auto].
  - intros [<-|Hin]; [exists r0; cbn; auto|].
    destruct (IH Hin) as (r & H1 & H2). exists r. cbn. tauto.
Qed.

Lemma tab_remove_in t k r : In r (tab_remove t k) -> In r t.
Proof.
  induction t as [|r0 tl IH]; cbn [tab_remove]; [intros []|].
  destruct (vals_eqb (rargs r0) k); cbn; [auto|]. intros [<-|Hin]; auto.
Qed.

Lemma tab_remove_nodup t k : NoDup (map rargs t) -> NoDup (map rargs (tab_remove t k)).
Proof.
  induction t as [|r0 tl IH]; cbn [tab_remove map]; intros H; [exact H|].
  inversion H as [|x l Hx Hl]; subst. destruct (vals_eqb (rargs r0) k); [exact Hl|].
  cbn [map]. constructor; [|apply IH; exact Hl].
  intros Hin. apply Hx. apply in_map_iff in Hin. destruct Hin as (r & E & Hr).
  rewrite <- E. apply in_map. eapply tab_remove_in; eauto.
Qed.

Lemma xexec_x sg n s c : WFx n s ->
  WFx n (fst (xexec sg s c)) /\ not4 (snd (xexec sg s c)).
Proof.
  intros HW. destruct c as [c|f ts v|f ts|f ts|]; cbn [xexec].
  - destruct (exec_x sg n s c HW) as (s' & He & HW'). rewrite He. cbn [fst snd].
    split; [exact HW'|discriminate].
  - (* XSet *)
    destruct (add_terms_x' n ts s HW) as (HW1 & Hm1 & Hv1).
    destruct (Rules.add_terms s ts) as [s1 vs]. cbn [fst snd] in *.
    destruct (add_term_x n v s1 HW1) as (HW2 & Hm2 & Hv2).
    destruct (add_term s1 v) as [s2 w]. cbn [fst snd] in *.
    set (m := nth f sg MUnionId).
    pose proof (Merge.tab_insert_keys m (get_tab (tabs s2) f) (mkRow vs w false) (wx_keys _ _ HW2 f)) as Hk.
    destruct (tab_insert m (get_tab (tabs s2) f) (mkRow vs w false)) as [[t' us] e] eqn:Et.
    cbn [fst] in Hk.
    destruct (tab_insert_x (val_ok s2) (val_ok_int s2) (val_ok_min s2) m _ _ _ _ _ Et) as [Hrows Hst].
    { apply Forall_forall. intros r Hin. apply (wx_rows _ _ HW2 f r Hin). }
    { split; cbn [rargs rret]; [|exact Hv2]. eapply Forall_impl; [|exact Hv1]. exact Hm2. }
    pose proof (WFx_set_tab n s2 f t' HW2 Hrows Hk) as HW3.
    set (s3 := mkSt (uf s2) (set_tab (tabs s2) f t') (wit s2)) in *.
    destruct e; [cbn [fst snd]; split; [exact HW3|discriminate]|].
    assert (Hplt : Forall (pair_lt (length (uf s3))) us).
    { eapply Forall_impl; [|exact Hst]. intros ab ([Ha _] & [Hb _] & _). split; assumption. }
    destruct (uf_unions_spec us (uf s3) (wx_inv _ _ HW3) Hplt) as (p' & Hus & HI' & Hl' & _).
    rewrite Hus. destruct us as [|ab tl]; [cbn [fst snd]; split; [exact HW3|discriminate]|].
    apply do_rebuild_x.
    + apply WFxm_set_uf; [apply (WFx_mid n); exact HW3|exact HI'|exact Hl'].
    + apply (wx_ntabs _ _ HW3).
  - (* XSubsume *)
    destruct (add_terms_x' n ts s HW) as (HW0 & Hm0 & Hv0).
    destruct (Rules.add_terms s ts) as [s0 vs]. cbn [fst snd] in *.
    destruct (add_node_x n s0 f vs HW0 Hv0) as (HW1 & _ & _).
    destruct (add_node s0 f vs) as [s1 w]. cbn [fst snd] in *.
    split; [|discriminate]. apply WFx_set_tab; [exact HW1| |].
    + apply Forall_forall. intros r' Hin. apply tab_subsume_in in Hin.
      destruct Hin as (r & Hr & Ea & Ev). destruct (wx_rows _ _ HW1 f r Hr) as [Ha Hv].
      split; [rewrite Ea; exact Ha|rewrite Ev; exact Hv].
    + rewrite tab_subsume_args. apply (wx_keys _ _ HW1).
  - (* XDelete *)
    destruct (add_terms_x' n ts s HW) as (HW1 & Hm1 & Hv1).
    destruct (Rules.add_terms s ts) as [s1 vs]. cbn [fst snd] in *.
    split; [|discriminate]. apply WFx_set_tab; [exact HW1| |].
    + apply Forall_forall. intros r Hin. apply tab_remove_in in Hin. apply (wx_rows _ _ HW1 f r Hin).
    + apply tab_remove_nodup. apply (wx_keys _ _ HW1).
  - cbn [fst snd]. split; [exact HW|discriminate].
Qed.

Lemma xrun_x sg n : forall xs s, WFx n s -> WFx n (fst (xrun sg s xs)) /\ not4 (snd (xrun sg s xs)).
Proof.
  induction xs as [|x xs IH]; intros s HW; cbn [xrun].
  - cbn [fst snd]. split; [exact HW|discriminate].
  - destruct (xexec_x sg n s x HW) as [HW1 He1].
    destruct (xexec sg s x) as [s1 [e|]]; cbn [fst snd] in *; [split; assumption|apply IH; exact HW1].
Qed.

Lemma run_n_x sg n rules : forall k s, WFx n s ->
  WFx n (fst (run_n sg rules k s)) /\ not4 (snd (run_n sg rules k s)).
Proof.
  induction k as [|k IH]; intros s HW; cbn [run_n].
  - cbn [fst snd]. split; [exact HW|discriminate].
  - destruct (xrun_x sg n (flat_map (rule_cmds s) rules) s HW) as [HW1 He1].
    fold (iteration sg rules s) in HW1, He1.
    destruct (iteration sg rules s) as [s1 [e|]]; cbn [fst snd] in *; [split; assumption|].
    match goal with |- context [if ?c then _ else _] => destruct c end.
    + cbn [fst snd]. split; [exact HW1|discriminate].
    + apply IH. exact HW1.
Qed.

Lemma pexec_x sg n s rules k : WFx n s ->
  WFx n (fst (fst (pexec sg (s, rules) k))) /\ not4 (snd (pexec sg (s, rules) k)).
Proof.
  intros HW. destruct k as [a|r|m]; cbn [pexec].
  - destruct (ground_action s [] a) as [x|]; [|cbn [fst snd]; split; [exact HW|discriminate]].
    destruct (xexec_x sg n s x HW) as [HW1 He1].
    destruct (xexec sg s x) as [s1 e]. cbn [fst snd] in *. split; assumption.
  - cbn [fst snd]. split; [exact HW|discriminate].
  - destruct (run_n_x sg n rules m s HW) as [HW1 He1].
    destruct (run_n sg rules m s) as [s1 e]. cbn [fst snd] in *. split; assumption.
Qed.

Lemma WFx_init n : WFx n (init n).
Proof.
  constructor.
  - apply Inv_nil.
  - reflexivity.
  - unfold init. cbn [tabs]. apply repeat_length.
  - intros f r. rewrite get_tab_init. intros [].
  - intros f. rewrite get_tab_init. constructor.
Qed.

Lemma WFx_c04 n s : WFx n s -> c04_inv n s.
Proof.
  intros [HI Hw Hn Hr Hk]. unfold c04_inv. split; [exact HI|]. split; [exact Hw|].
  split; [exact Hn|]. split; [|split; [exact Hk|]].
  - intros f r i Hin Hi. destruct (Hr f r Hin) as [Ha Hv].
    assert (H : val_ok s (VId i)).
    { destruct Hi as [Hi|Hi]; [rewrite Forall_forall in Ha; apply Ha; exact Hi|rewrite <- Hi; exact Hv]. }
    destruct H as [H1 H2]. cbn [vlt vroot] in H1, H2. split; [exact H1|]. split; [exact H2|].
    apply rep_fix; assumption.
  - intros f r1 r2 H1 H2 E.
    assert (Hc : forall r, In r (get_tab (tabs s) f) -> map (canon (uf s)) (rargs r) = rargs r).
    { intros r Hin. destruct (Hr f r Hin) as [Ha _]. apply map_canon_vroot; [exact HI|].
      eapply Forall_impl; [|exact Ha]. intros v Hv. apply Hv. }
    rewrite (Hc r1 H1), (Hc r2 H2) in E. eapply keys_functional; eauto.
Qed.

(** For EVERY program over EVERY signature (constructors, lattice functions, relations, sets,
    subsumption, deletion, panics, ungrounded actions, merge conflicts): every state the program
    passes through, and the state returned together with an error, satisfies the structural
    invariant; and the model never reports its own fuel/panic code 4 — in particular the rebuild
    loop always terminates within [rebuild_fuel]. *)
Theorem x_inv_reachable n sg ks :
  Forall (fun ps => WFx n (fst ps)) (ptrace sg (init n, []) ks) /\
  WFx n (fst (fst (pfinal sg (init n, []) ks))).
Proof.
  apply (ptrace_pfinal_inv (fun ps => WFx n (fst ps)) (fun _ => True) sg).
  - intros [s rules] k HW _. cbn [fst] in *. apply pexec_x. exact HW.
  - apply WFx_init.
  - apply Forall_forall. intros; exact I.
Qed.

Theorem x_no_model_error n sg ks : snd (pfinal sg (init n, []) ks) <> Some 4.
Proof.
  assert (G : forall ks ps, WFx n (fst ps) -> snd (pfinal sg ps ks) <> Some 4).
  { clear ks. induction ks as [|k tl IH]; intros [s rules] HW; cbn [pfinal]; [discriminate|].
    cbn [fst] in HW. destruct (pexec_x sg n s rules k HW) as [HW1 He1].
    destruct (pexec sg (s, rules) k) as [ps' [e|]]; cbn [fst snd] in *; [exact He1|].
    apply IH. exact HW1. }
  apply G. apply WFx_init.
Qed.

(* ------------------------------------------------------------------ *)
(** * non-vacuity *)

Module REx.
(** constructors a, b, f; the rule (f y) = x ==> (union x y) fires, then a and b are united,
    then an ungrounded action stops the program (the last command is never run) *)
Definition sg1 := [MUnionId; MUnionId; MUnionId].
Definition ks1 := [KAct (AExpr (PApp 2 [PApp 0 []])); KAct (AExpr (PApp 2 [PApp 1 []]));
  KRule (mkRule [FEq 0 (PApp 2 [PVar 1])] [AUnion (PVar 0) (PVar 1)]);
  KRun 3; KAct (AUnion (PApp 0 []) (PApp 1 [])); KAct (AUnion (PVar 7) (PApp 0 []));
  KAct (AExpr (PApp 0 []))].

(** constructor a, min-lattice function g, relation r, constructor c; sets, a rule deriving
    relation tuples, a union that merges two g-rows through min, subsume, delete, panic *)
Definition sg2 := [MUnionId; MMin; MOld; MUnionId].
Definition ks2 := [KAct (ASet 1 [PApp 0 []] (PInt 5)); KAct (ASet 1 [PApp 0 []] (PInt 3));
  KAct (ASet 2 [PApp 0 []; PInt 1] (PInt 0)); KAct (AExpr (PApp 3 []));
  KAct (ASet 1 [PApp 3 []] (PInt 9));
  KRule (mkRule [FEq 0 (PApp 1 [PVar 1])] [ASet 2 [PVar 1; PVar 0] (PInt 0)]);
  KRun 2;
  KAct (AUnion (PApp 0 []) (PApp 3 []));
  KAct (ASubsume 2 [PApp 0 []; PInt 1]); KAct (ADelete 1 [PApp 0 []]); KAct APanic;
  KAct (AExpr (PApp 0 []))].

Definition dump (ps : pstate) :=
  (uf (fst ps), map (map (fun r => (rargs r, rret r, rsub r))) (tabs (fst ps))).
End REx.

Example rex_ctor :
  prog_ctor_okb 3 REx.sg1 REx.ks1 = true /\
  length (ptrace REx.sg1 (init 3, []) REx.ks1) = 5 /\
  snd (pfinal REx.sg1 (init 3, []) REx.ks1) = Some 3 /\
  REx.dump (fst (pfinal REx.sg1 (init 3, []) REx.ks1))
  = ([0; 0; 0; 2], [[([], VId 0, false)]; [([], VId 0, false)]; [([VId 0], VId 0, false)]]).
Proof. vm_compute. repeat split. Qed.

Example rex_mixed :
  length (ptrace REx.sg2 (init 4, []) REx.ks2) = 10 /\
  snd (pfinal REx.sg2 (init 4, []) REx.ks2) = Some 1 /\
  REx.dump (fst (pfinal REx.sg2 (init 4, []) REx.ks2))
  = ([0; 0],
     [[([], VId 0, false)]; [];
      [([VId 0; VInt 1], VInt 0, true); ([VId 0; VInt 3], VInt 0, false); ([VId 0; VInt 9], VInt 0, false)];
      [([], VId 0, false)]]) /\
  (* before the delete, the union had merged g(a)=3 and g(c)=9 into min = 3 *)
  nth 7 (map REx.dump (ptrace REx.sg2 (init 4, []) REx.ks2)) ([], [])
  = ([0; 0],
     [[([], VId 0, false)]; [([VId 0], VInt 3, false)];
      [([VId 0; VInt 1], VInt 0, false); ([VId 0; VInt 3], VInt 0, false); ([VId 0; VInt 9], VInt 0, false)];
      [([], VId 0, false)]]).
Proof. vm_compute. repeat split. Qed.

(* ------------------------------------------------------------------ *)
(** * the theorems in "every visited state" form *)

(** the states a program passes through: after each command up to the first error, and the
    state in which it ends (returned together with the error, if any) *)
Definition visited (sg : list mergefn) (n : nat) (ks : list command) (s : state) : Prop :=
  In s (map fst (ptrace sg (init n, []) ks)) \/ s = fst (fst (pfinal sg (init n, []) ks)).

Lemma visited_all (Q : state -> Prop) sg n ks :
  Forall (fun ps => Q (fst ps)) (ptrace sg (init n, []) ks) /\ Q (fst (fst (pfinal sg (init n, []) ks))) ->
  forall s, visited sg n ks s -> Q s.
Proof.
  intros [Ht Hf] s [Hin| ->]; [|exact Hf].
  apply in_map_iff in Hin. destruct Hin as (ps & <- & Hps).
  rewrite Forall_forall in Ht. apply Ht. exact Hps.
Qed.

Theorem rules_iff_visited n sg ks s : prog_ctor_okb n sg ks = true -> visited sg n ks s ->
  exists cs, cmds_okb n cs = true /\ run sg (init n) cs = Ok s /\
    forall t1 t2 v1 v2, eval s t1 = Some v1 -> eval s t2 = Some v2 ->
      (v1 = v2 <-> CC (unions_of cs) t1 t2).
Proof. intros H. apply (visited_all (c01_holds n sg)). apply rules_c01. exact H. Qed.

Theorem rules_sound_visited n sg ks s : prog_ctor_okb n sg ks = true -> visited sg n ks s ->
  exists cs, cmds_okb n cs = true /\ run sg (init n) cs = Ok s /\
    forall t1 t2 v, eval s t1 = Some v -> eval s t2 = Some v -> CC (unions_of cs) t1 t2.
Proof.
  intros H Hv. destruct (rules_iff_visited n sg ks s H Hv) as (cs & H1 & H2 & H3).
  exists cs. split; [exact H1|]. split; [exact H2|]. intros t1 t2 v E1 E2.
  apply (H3 t1 t2 v v E1 E2). reflexivity.
Qed.

Theorem rules_complete_visited n sg ks s : prog_ctor_okb n sg ks = true -> visited sg n ks s ->
  exists cs, cmds_okb n cs = true /\ run sg (init n) cs = Ok s /\
    forall t1 t2 v1 v2, CC (unions_of cs) t1 t2 -> eval s t1 = Some v1 -> eval s t2 = Some v2 -> v1 = v2.
Proof.
  intros H Hv. destruct (rules_iff_visited n sg ks s H Hv) as (cs & H1 & H2 & H3).
  exists cs. split; [exact H1|]. split; [exact H2|]. intros t1 t2 v1 v2 Hcc E1 E2.
  apply (H3 t1 t2 v1 v2 E1 E2). exact Hcc.
Qed.

Theorem rules_inv_visited n sg ks s : prog_ctor_okb n sg ks = true -> visited sg n ks s ->
  c04_inv n s.
Proof. intros H. apply (visited_all (c04_inv n)). apply rules_c04. exact H. Qed.

Theorem x_inv_visited n sg ks s : visited sg n ks s -> c04_inv n s.
Proof.
  apply (visited_all (c04_inv n)). destruct (x_inv_reachable n sg ks) as [Ht Hf]. split.
  - eapply Forall_impl; [|exact Ht]. intros ps. apply WFx_c04.
  - apply WFx_c04. exact Hf.
Qed.
