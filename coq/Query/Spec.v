(** C02 — specification side: databases as lists of rows per relation (values and columns are
    nats), conjunctive queries (atoms = relation + variable/constant arguments + per-atom column
    constraints; a repeated variable inside an atom is an equality between its columns), and
    [matches q db]: the naive nested-loop denotation. Executable definitions only. *)
From Coq Require Import List Arith Bool PeanoNat.
Import ListNotations.

Definition row := list nat.
Definition db := list (list row).
Definition get_tab (d : db) (t : nat) : list row := nth t d [].
Definition col (r : row) (c : nat) : nat := nth c r 0.

(** per-atom column constraints: table_spec.rs [Constraint] *)
Inductive constr :=
| CEq (c1 c2 : nat)
| CEqConst (c k : nat)
| CLtConst (c k : nat)
| CGtConst (c k : nat)
| CLeConst (c k : nat)
| CGeConst (c k : nat).

Definition cs_ok (r : row) (k : constr) : bool :=
  match k with
  | CEq a b => col r a =? col r b
  | CEqConst c k => col r c =? k
  | CLtConst c k => col r c <? k
  | CGtConst c k => k <? col r c
  | CLeConst c k => col r c <=? k
  | CGeConst c k => k <=? col r c
  end.

Definition all_cs (cs : list constr) (r : row) : bool := forallb (cs_ok r) cs.

Inductive arg := AVar (x : nat) | AConst (k : nat).

Record atom := mkAtom { a_tab : nat; a_args : list arg; a_cs : list constr }.

(** [q_out]: the variables the rule's actions read *)
Record query := mkQuery { q_atoms : list atom; q_out : list nat }.

Definition env := list (nat * nat).

Fixpoint lookup (e : env) (x : nat) : option nat :=
  match e with
  | [] => None
  | (y, v) :: tl => if x =? y then Some v else lookup tl x
  end.

(** the arguments of an atom paired with their column numbers *)
Definition iargs (a : atom) : list (nat * arg) := combine (seq 0 (length (a_args a))) (a_args a).

(** bind-or-compare the columns of one row *)
Fixpoint match_pairs (ps : list (nat * arg)) (r : row) (e : env) : option env :=
  match ps with
  | [] => Some e
  | (c, AVar x) :: tl =>
      match lookup e x with
      | None => match_pairs tl r ((x, col r c) :: e)
      | Some v => if v =? col r c then match_pairs tl r e else None
      end
  | (c, AConst k) :: tl => if col r c =? k then match_pairs tl r e else None
  end.

Definition match_row (a : atom) (e : env) (r : row) : list env :=
  if all_cs (a_cs a) r
  then match match_pairs (iargs a) r e with Some e' => [e'] | None => [] end
  else [].

Definition match_atom (d : db) (a : atom) (e : env) : list env :=
  flat_map (match_row a e) (get_tab d (a_tab a)).

Fixpoint match_atoms (d : db) (ats : list atom) (es : list env) : list env :=
  match ats with
  | [] => es
  | a :: tl => match_atoms d tl (flat_map (match_atom d a) es)
  end.

(** all substitutions satisfying the body, by nested loops in the order the atoms are written *)
Definition matches (q : query) (d : db) : list env := match_atoms d (q_atoms q) [[]].

(** equality of result sets, as sets of substitutions restricted to the variables [V] *)
Definition agree (V : list nat) (s t : env) : Prop := forall x, In x V -> lookup s x = lookup t x.

Definition sem_eq (V : list nat) (L1 L2 : list env) : Prop :=
  (forall s, In s L1 -> exists t, In t L2 /\ agree V s t) /\
  (forall t, In t L2 -> exists s, In s L1 /\ agree V s t).

(** executable comparison used by the harness-written case files: project on [V], compare as sets *)
Definition proj (V : list nat) (e : env) : list (option nat) := map (lookup e) V.

Definition onat_eqb (a b : option nat) : bool :=
  match a, b with
  | Some x, Some y => x =? y
  | None, None => true
  | _, _ => false
  end.

Fixpoint olist_eqb (a b : list (option nat)) : bool :=
  match a, b with
  | [], [] => true
  | x :: a', y :: b' => onat_eqb x y && olist_eqb a' b'
  | _, _ => false
  end.

Definition subset_b (A B : list (list (option nat))) : bool :=
  forallb (fun a => existsb (olist_eqb a) B) A.

Definition set_eqb (A B : list (list (option nat))) : bool := subset_b A B && subset_b B A.
