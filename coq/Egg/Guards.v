(** C13 / C07: where the CURRENT source filters subsumed rows.
    [gen/SourceFacts.v] (regenerated on every run) records
      - the subsumption constraint the frontend puts on every table atom of a rule body
        (src/lib.rs fn query -> RuleBuilder::query_table), and
      - for every scan of a backend table in src/extract.rs, the closure it runs and whether that
        closure's whole body is `if !row.subsumed { .. }`.
    This file gives the facts their meaning in terms of the models' own filters
    ([Egg/Rules.v]: a row matches only [if rsub r then []]; [Extract/Model.v]: [allowed] starts
    with [negb (r_sub r)]). *)
From Coq Require Import List Bool String.
Import ListNotations.
Require Import Verif.gen.SourceFacts.

(** does a row with subsumed flag [sub] pass the constraint? *)
Definition row_passes (c : sub_constraint) (sub : bool) : bool :=
  match c with
  | SubAny => true
  | SubOnlyLive => negb sub
  | SubOnlySubsumed => sub
  | SubUnknown => true
  end.

(** rule bodies (no :include-subsumed): exactly the rows the model's matcher keeps *)
Lemma query_default_is_model_filter : forall sub,
  row_passes query_subsumed_default sub = negb sub.
Proof. intro sub. vm_compute. reflexivity. Qed.

Lemma query_flag_reaches_backend : query_table_passes_flag = true.
Proof. vm_compute. reflexivity. Qed.

(** the extractor's cost relaxation, parent-edge selection and variant enumeration *)
Definition extraction_fns : list string := ["bellman_ford"%string; "extract_variants_with_sort"%string].

Definition guarded_scan (fn cl : string) : bool :=
  existsb (fun s => match s with (f, c, g) => String.eqb f fn && String.eqb c cl && g end) extract_scans.

Definition extraction_calls : list (string * string) :=
  filter (fun c => existsb (String.eqb (fst c)) extraction_fns) extract_for_each_calls.

Lemma extraction_scans_guarded :
  forallb (fun c => guarded_scan (fst c) (snd c)) extraction_calls = true.
Proof. vm_compute. reflexivity. Qed.

(** relax, save-parent-edge, variants: none may silently disappear from the inventory *)
Lemma extraction_scans_count : 3 <= List.length extraction_calls.
Proof. vm_compute. repeat constructor. Qed.

(** non-vacuity: an unguarded scan does exist in the file (function_to_dag prints subsumed rows on
    purpose), so the predicate can tell the difference *)
Lemma unguarded_scan_exists :
  existsb (fun c => negb (guarded_scan (fst c) (snd c))) extract_for_each_calls = true.
Proof. vm_compute. reflexivity. Qed.
