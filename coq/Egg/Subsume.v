(** C13: subsumed rows stop matching, forever; deleted rows are gone; nothing else is affected.
    Lemmas over [Egg/Model.v] / [Egg/Rules.v]. *)
From Coq Require Import List Arith ZArith Bool PeanoNat Lia.
Import ListNotations.
Require Import Verif.Base.Res Verif.gen.MergeArms Verif.gen.BridgeFns.
Require Import Verif.Egg.Model Verif.Egg.Rules Verif.Egg.Merge.

(** the translated [combine_subsumed] (max on 0/1 flags) is boolean OR: whichever of the two
    colliding rows is subsumed, in either order, the merged row is subsumed *)
Lemma combine_sub_orb a b : combine_sub a b = orb a b.
Proof. destruct a, b; reflexivity. Qed.

Definition tab_sub (t : table) (k : list val) : bool :=
  match tab_lookup t k with Some r => rsub r | None => false end.

Lemma tab_insert_sub m t r : forall k,
  tab_sub (fst (fst (tab_insert m t r))) k
  = orb (tab_sub t k) (andb (vals_eqb (rargs r) k) (rsub r)).
Proof.
  induction t as [|r0 t IH]; intros k; simpl.
  - unfold tab_sub, tab_lookup. simpl. destruct (vals_eqb (rargs r) k); reflexivity.
  - destruct (vals_eqb (rargs r0) (rargs r)) eqn:E0.
    + apply vals_eqb_eq in E0.
      destruct (merge_vals m (rret r0) (rret r)) as [[v us] e]. simpl.
      unfold tab_sub, tab_lookup. simpl. rewrite <- E0.
      destruct (vals_eqb (rargs r0) k); simpl.
      * rewrite combine_sub_orb. reflexivity.
      * rewrite orb_false_r. reflexivity.
    + specialize (IH k). destruct (tab_insert m t r) as [[tl' us] e]. simpl in *.
      unfold tab_sub, tab_lookup in *. simpl.
      destruct (vals_eqb (rargs r0) k) eqn:Ek; simpl.
      * apply vals_eqb_eq in Ek. subst k.
        destruct (vals_eqb (rargs r) (rargs r0)) eqn:E1; simpl; [|rewrite orb_false_r; reflexivity].
        apply vals_eqb_eq in E1. rewrite E1, vals_eqb_refl in E0. discriminate.
      * exact IH.
Qed.

(** after ANY sequence of inserts (merges, re-insertions of the same tuple, in any order) a key
    is subsumed iff it was before or some inserted row for it was: the flag is sticky *)
Theorem insert_all_sub m : forall ws t k,
  tab_sub (insert_all m t ws) k
  = orb (tab_sub t k) (existsb (fun w => andb (vals_eqb (rargs w) k) (rsub w)) ws).
Proof.
  induction ws as [|w ws IH]; intros t k; simpl.
  - rewrite orb_false_r. reflexivity.
  - rewrite IH, tab_insert_sub, orb_assoc. reflexivity.
Qed.

(** through a rebuild pass: the row now stored for canonical key [k] is subsumed iff SOME row
    whose key canonicalises to [k] was subsumed — merging a subsumed row with a congruent
    non-subsumed one, in either order, keeps it subsumed *)
Theorem rebuild_rows_sub p m rows k :
  tab_sub (fst (fst (rebuild_rows p m rows []))) k
  = existsb (fun r => andb (vals_eqb (map (canon p) (rargs r)) k) (rsub r)) rows.
Proof.
  rewrite rebuild_rows_insert_all, insert_all_sub. simpl.
  induction rows as [|r rows IH]; simpl; auto. rewrite IH. reflexivity.
Qed.

(* ------------------------------------------------------------------ subsume / delete frames *)

Lemma tab_subsume_args t k : map rargs (tab_subsume t k) = map rargs t.
Proof. induction t as [|r t IH]; simpl; auto. destruct (vals_eqb (rargs r) k); simpl; congruence. Qed.

Lemma tab_subsume_rets t k : map rret (tab_subsume t k) = map rret t.
Proof. induction t as [|r t IH]; simpl; auto. destruct (vals_eqb (rargs r) k); simpl; congruence. Qed.

(** subsuming key k sets k's flag and touches no other row *)
Theorem tab_subsume_sub t k k' :
  tab_sub (tab_subsume t k) k' = orb (tab_sub t k') (andb (vals_eqb k k') (match tab_lookup t k with Some _ => true | None => false end)).
Proof.
  unfold tab_sub, tab_lookup. induction t as [|r t IH]; simpl.
  - rewrite andb_false_r. reflexivity.
  - destruct (vals_eqb (rargs r) k) eqn:E; simpl.
    + apply vals_eqb_eq in E. subst k.
      destruct (vals_eqb (rargs r) k') eqn:E'; simpl.
      * rewrite orb_true_r. reflexivity.
      * rewrite orb_false_r. reflexivity.
    + destruct (vals_eqb (rargs r) k') eqn:E'; simpl.
      * apply vals_eqb_eq in E'. subst k'.
        destruct (vals_eqb k (rargs r)) eqn:E2.
        -- apply vals_eqb_eq in E2. subst k. rewrite vals_eqb_refl in E. discriminate.
        -- rewrite orb_false_r. reflexivity.
      * exact IH.
Qed.

Theorem tab_subsume_get t k k' : tab_get (tab_subsume t k) k' = tab_get t k'.
Proof.
  unfold tab_get, tab_lookup. induction t as [|r t IH]; simpl; auto.
  destruct (vals_eqb (rargs r) k); simpl; destruct (vals_eqb (rargs r) k'); simpl; auto.
Qed.

(** deleting key k removes exactly that row *)
Theorem tab_remove_get t k k' : keys_distinct t ->
  tab_get (tab_remove t k) k' = if vals_eqb k k' then None else tab_get t k'.
Proof.
  unfold keys_distinct, tab_get, tab_lookup. induction t as [|r t IH]; simpl; intros H.
  - destruct (vals_eqb k k'); reflexivity.
  - inversion H as [|? ? Hn Hd]; subst.
    destruct (vals_eqb (rargs r) k) eqn:E; simpl.
    + apply vals_eqb_eq in E. subst k.
      destruct (vals_eqb (rargs r) k') eqn:E'; simpl; auto.
      apply vals_eqb_eq in E'. subst k'.
      destruct (List.find (fun r0 => vals_eqb (rargs r0) (rargs r)) t) eqn:F; auto.
      apply find_some in F. destruct F as [F1 F2]. apply vals_eqb_eq in F2.
      exfalso. apply Hn. rewrite <- F2. apply in_map. exact F1.
    + destruct (vals_eqb (rargs r) k') eqn:E'; simpl.
      * apply vals_eqb_eq in E'. subst k'.
        destruct (vals_eqb k (rargs r)) eqn:E2; auto.
        apply vals_eqb_eq in E2. subst k. rewrite vals_eqb_refl in E. discriminate.
      * apply IH. exact Hd.
Qed.

Theorem tab_remove_sub t k k' : keys_distinct t ->
  tab_sub (tab_remove t k) k' = if vals_eqb k k' then false else tab_sub t k'.
Proof.
  unfold keys_distinct, tab_sub, tab_lookup. induction t as [|r t IH]; simpl; intros H.
  - destruct (vals_eqb k k'); reflexivity.
  - inversion H as [|? ? Hn Hd]; subst.
    destruct (vals_eqb (rargs r) k) eqn:E; simpl.
    + apply vals_eqb_eq in E. subst k.
      destruct (vals_eqb (rargs r) k') eqn:E'; simpl; auto.
      apply vals_eqb_eq in E'. subst k'.
      destruct (List.find (fun r0 => vals_eqb (rargs r0) (rargs r)) t) eqn:F; auto.
      apply find_some in F. destruct F as [F1 F2]. apply vals_eqb_eq in F2.
      exfalso. apply Hn. rewrite <- F2. apply in_map. exact F1.
    + destruct (vals_eqb (rargs r) k') eqn:E'; simpl.
      * apply vals_eqb_eq in E'. subst k'.
        destruct (vals_eqb k (rargs r)) eqn:E2; auto.
        apply vals_eqb_eq in E2. subst k. rewrite vals_eqb_refl in E. discriminate.
      * apply IH. exact Hd.
Qed.

(* ------------------------------------------------------------------ matching ignores subsumed rows *)

(** the view of a state in which subsumed rows are physically absent *)
Definition visible (s : state) : state :=
  mkSt (uf s) (map (filter (fun r => negb (rsub r))) (tabs s)) (wit s).

Lemma get_tab_visible s f :
  get_tab (tabs (visible s)) f = filter (fun r => negb (rsub r)) (get_tab (tabs s) f).
Proof.
  unfold get_tab, visible. simpl.
  change (@nil row) with (filter (fun r => negb (rsub r)) (@nil row)) at 1.
  apply map_nth.
Qed.

Lemma flat_map_filter_sub {B} (g : row -> list B) (t : table) :
  flat_map (fun r => if rsub r then [] else g r) (filter (fun r => negb (rsub r)) t)
  = flat_map (fun r => if rsub r then [] else g r) t.
Proof.
  induction t as [|r t IH]; simpl; auto.
  destruct (rsub r) eqn:E; simpl; auto. rewrite E. f_equal. exact IH.
Qed.

Lemma flat_map_ext_in {A B} (f g : A -> list B) l : (forall x, In x l -> f x = g x) -> flat_map f l = flat_map g l.
Proof. induction l; simpl; intros H; auto. rewrite H by auto. f_equal. apply IHl. auto. Qed.

(** pattern matching never sees a subsumed row, at any nesting depth *)
Fixpoint match_pat_visible (s : state) (p : pat) {struct p} :
  forall v e, match_pat (visible s) p v e = match_pat s p v e.
Proof.
  destruct p as [x|f ps|z|a b]; intros v e; try reflexivity.
  cbn [match_pat]. rewrite get_tab_visible.
  assert (Hargs : forall ps' vs e',
     (fix match_args (ps0 : list pat) (vs0 : list val) (e0 : env) {struct ps0} : list env :=
        match ps0, vs0 with
        | [], [] => [e0]
        | p0 :: ps1, v0 :: vs1 => flat_map (match_args ps1 vs1) (match_pat (visible s) p0 v0 e0)
        | _, _ => []
        end) ps' vs e'
     = (fix match_args (ps0 : list pat) (vs0 : list val) (e0 : env) {struct ps0} : list env :=
        match ps0, vs0 with
        | [], [] => [e0]
        | p0 :: ps1, v0 :: vs1 => flat_map (match_args ps1 vs1) (match_pat s p0 v0 e0)
        | _, _ => []
        end) ps' vs e').
  { clear -match_pat_visible.
    assert (G : forall ps', (forall vs e',
      (fix match_args (ps0 : list pat) (vs0 : list val) (e0 : env) {struct ps0} : list env :=
        match ps0, vs0 with
        | [], [] => [e0]
        | p0 :: ps1, v0 :: vs1 => flat_map (match_args ps1 vs1) (match_pat (visible s) p0 v0 e0)
        | _, _ => []
        end) ps' vs e'
     = (fix match_args (ps0 : list pat) (vs0 : list val) (e0 : env) {struct ps0} : list env :=
        match ps0, vs0 with
        | [], [] => [e0]
        | p0 :: ps1, v0 :: vs1 => flat_map (match_args ps1 vs1) (match_pat s p0 v0 e0)
        | _, _ => []
        end) ps' vs e')).
    { fix IH 1. intros [|p0 ps1] vs e'; [reflexivity|].
      destruct vs as [|v0 vs1]; [reflexivity|].
      rewrite (match_pat_visible s p0 v0 e').
      apply flat_map_ext_in. intros e'' _. apply IH. }
    exact G. }
  rewrite flat_map_filter_sub.
  apply flat_map_ext_in. intros r _. destruct (rsub r); auto. destruct (val_eqb (rret r) v); auto.
Qed.

Lemma match_args_visible s : forall ps vs e, match_args (visible s) ps vs e = match_args s ps vs e.
Proof.
  induction ps as [|p ps IH]; intros vs e; destruct vs as [|v vs]; cbn [match_args]; auto.
  rewrite match_pat_visible. apply flat_map_ext_in. intros e' _. apply IH.
Qed.

Lemma match_atom_visible s x p e : match_atom (visible s) x p e = match_atom s x p e.
Proof.
  destruct p as [y|f ps|z|a b]; try reflexivity.
  unfold match_atom. rewrite get_tab_visible, flat_map_filter_sub.
  apply flat_map_ext_in. intros r _. destruct (rsub r); auto.
  rewrite match_args_visible. reflexivity.
Qed.

Lemma match_fact_visible s f e : match_fact (visible s) f e = match_fact s f e.
Proof. destruct f; cbn [match_fact]; auto using match_atom_visible. Qed.

(** C13: a rule body matches exactly as if the subsumed rows were not in the database *)
Theorem match_body_visible s : forall fs es, match_body (visible s) fs es = match_body s fs es.
Proof.
  induction fs as [|f fs IH]; intros es; cbn [match_body]; auto.
  rewrite IH. f_equal. apply flat_map_ext_in. intros e _. apply match_fact_visible.
Qed.

(* ------------------------------------------------------------------ check / congruence still see them *)

Definition unflag_row (r : row) : row := mkRow (rargs r) (rret r) false.
Definition unflag (s : state) : state := mkSt (uf s) (map (map unflag_row) (tabs s)) (wit s).

Lemma tab_lookup_unflag t k :
  option_map rret (tab_lookup (map unflag_row t) k) = option_map rret (tab_lookup t k).
Proof.
  unfold tab_lookup. induction t as [|r t IH]; simpl; auto.
  destruct (vals_eqb (rargs r) k); simpl; auto.
Qed.

Lemma get_tab_unflag s f : get_tab (tabs (unflag s)) f = map unflag_row (get_tab (tabs s) f).
Proof. unfold get_tab, unflag. simpl. change (@nil row) with (map unflag_row []) at 1. apply map_nth. Qed.

(** [eval] (what (check ...) and term evaluation use) does not look at the subsume flag *)
Fixpoint eval_unflag (s : state) (t : term) {struct t} : eval (unflag s) t = eval s t.
Proof.
  destruct t as [f ts|z]; [|reflexivity].
  cbn [eval].
  assert (H : forall l,
    (fix evals (l : list term) : option (list val) :=
       match l with
       | [] => Some []
       | x :: tl => match eval (unflag s) x, evals tl with
                    | Some v, Some vs => Some (v :: vs)
                    | _, _ => None
                    end
       end) l
    = (fix evals (l : list term) : option (list val) :=
       match l with
       | [] => Some []
       | x :: tl => match eval s x, evals tl with
                    | Some v, Some vs => Some (v :: vs)
                    | _, _ => None
                    end
       end) l).
  { fix IH 1. intros [|x tl]; [reflexivity|]. rewrite (eval_unflag s x), (IH tl). reflexivity. }
  rewrite H.
  match goal with |- context [match ?o with Some vs => _ | None => None end] => destruct o as [vs|] end; auto.
  rewrite get_tab_unflag.
  pose proof (tab_lookup_unflag (get_tab (tabs s) f) vs) as L.
  destruct (tab_lookup (map unflag_row (get_tab (tabs s) f)) vs), (tab_lookup (get_tab (tabs s) f) vs);
    simpl in L; congruence.
Qed.

(** rebuilding (congruence) treats subsumed rows like any other row: keys, values and staged
    unions are the same whatever the flags *)
Lemma tab_insert_unflag m : forall t r,
  let '(t1, us1, e1) := tab_insert m t r in
  let '(t2, us2, e2) := tab_insert m (map unflag_row t) (unflag_row r) in
  map unflag_row t1 = t2 /\ us1 = us2 /\ e1 = e2.
Proof.
  induction t as [|r0 t IH]; intros r; simpl; auto.
  destruct (vals_eqb (rargs r0) (rargs r)).
  - destruct (merge_vals m (rret r0) (rret r)) as [[v us] e]. simpl. auto.
  - specialize (IH r). destruct (tab_insert m t r) as [[t1 us1] e1].
    destruct (tab_insert m (map unflag_row t) (unflag_row r)) as [[t2 us2] e2].
    destruct IH as (<- & <- & <-). auto.
Qed.

Theorem rebuild_rows_unflag p m : forall rows acc,
  let '(t1, us1, e1) := rebuild_rows p m rows acc in
  let '(t2, us2, e2) := rebuild_rows p m (map unflag_row rows) (map unflag_row acc) in
  map unflag_row t1 = t2 /\ us1 = us2 /\ e1 = e2.
Proof.
  induction rows as [|r rows IH]; intros acc; simpl; auto.
  pose proof (tab_insert_unflag m acc (canon_row p r)) as H.
  change (unflag_row (canon_row p r)) with (canon_row p (unflag_row r)) in H.
  destruct (tab_insert m acc (canon_row p r)) as [[a1 u1] e1].
  destruct (tab_insert m (map unflag_row acc) (canon_row p (unflag_row r))) as [[a2 u2] e2].
  destruct H as (<- & <- & <-).
  specialize (IH a1).
  destruct (rebuild_rows p m rows a1) as [[b1 v1] f1].
  destruct (rebuild_rows p m (map unflag_row rows) (map unflag_row a1)) as [[b2 v2] f2].
  destruct IH as (<- & <- & <-). auto.
Qed.
