"""C17 configuration for bin/check."""

CFG = {
        "tier_a": ["UFSeq"],
        "model_targets": ["UF/Ops.vo"],
        "proof_targets": ["Props/C17.vo"],
        "harness": [{"bin": "h_uf", "prefix": "cases_uf"}],
        "trusted": [
            "translator /verif/translator (Rust subset -> Gallina over Res; emitted gen/UFSeq.v is what the theorems are about)",
        ],
        "theorem_backed": "sequential UnionFind (translated from union-find/src/lib.rs): no panic, termination, same-root iff connected, representative = least id, path halving preserves the partition, for all operation sequences",
        "link_only": "concurrent union-find (linearizability under real interleavings, memory ordering, Buffer growth): stress correspondence only",
        "assumptions": [
            "ids are modelled as unbounded nat (u32/usize exhaustion not modelled)",
            "Vec indexing out of bounds is modelled as Panic and proved not to occur",
        ],
    }
