(** C20: executable model of ITERATION-ORDER determinism of hash-based containers.

    Three container shapes, all driven by the same operation histories:
    - [imap]  (indexmap::IndexMap/IndexSet): a dense entry vector iterated front to back; the hash
              index is used for LOOKUPS only (position of a key). The index is modelled by its
              abstraction function: bucket b holds the positions whose key hashes to b -- every
              lookup really goes through the hasher, only the incremental maintenance of the index is
              not modelled.
    - [tbl]   (hashbrown::HashMap/HashSet): buckets iterated in bucket order; the bucket of a key is
              [h k mod #buckets]; the table doubles and re-inserts when the load factor is exceeded;
              [clear] keeps the capacity (so the order depends on the HISTORY, not on the contents).
              Open addressing / SIMD groups are abstracted to chained buckets: what is kept is that the
              order is a function of (hash values, capacity history, operation history).
    - [shmap] (dashmap::DashMap): [n] independent tables, shard of a key = [h k mod n], iterated shard
              by shard. The default shard count is a function of the CPUs available to the process.

    A process is an environment [env] (hash seed, CPUs visible, address-space base); a container
    class is a [cmodel]: which hasher family and which capacity policy the process derives FROM ITS
    ENVIRONMENT. [observe c e ops] is what an iteration over the container shows after history [ops]
    in a process with environment [e]. *)
From Coq Require Import List Arith PeanoNat Bool.
Import ListNotations.

Definition entry := (nat * nat)%type.

Inductive op :=
| Ins (k v : nat)        (* insert / overwrite *)
| Del (k : nat)          (* remove (IndexMap: swap_remove) *)
| ShiftDel (k : nat)     (* IndexMap: shift_remove; tables: remove *)
| Clr.                   (* clear, capacity retained *)

(* ------------------------------------------------------------------------------------------- *)
(** * generic list helpers *)

Fixpoint upd_nth {A} (n : nat) (f : A -> A) (l : list A) : list A :=
  match l, n with
  | [], _ => []
  | x :: t, 0 => f x :: t
  | x :: t, S n' => x :: upd_nth n' f t
  end.

(* ------------------------------------------------------------------------------------------- *)
(** * insertion-ordered map (indexmap) *)

Fixpoint find_pos (es : list entry) (k : nat) : option nat :=
  match es with
  | [] => None
  | e :: t => if fst e =? k then Some 0 else option_map S (find_pos t k)
  end.

Definition key_at (es : list entry) (p : nat) : nat := fst (nth p es (0, 0)).

(** the hash index: bucket [b] holds the positions whose key hashes to [b] *)
Definition im_bucket (h : nat -> nat) (nb : nat) (es : list entry) (b : nat) : list nat :=
  filter (fun p => h (key_at es p) mod nb =? b) (seq 0 (length es)).

(** lookup = probe the bucket of [h k], compare keys through the entry vector *)
Definition im_lookup (h : nat -> nat) (nb : nat) (es : list entry) (k : nat) : option nat :=
  find (fun p => key_at es p =? k) (im_bucket h nb es (h k mod nb)).

Definition swap_remove_at (p : nat) (es : list entry) : list entry :=
  removelast (upd_nth p (fun _ => last es (0, 0)) es).

Definition shift_remove_at (p : nat) (es : list entry) : list entry :=
  firstn p es ++ skipn (S p) es.

Record imap := { im_entries : list entry; im_nb : nat }.

Definition im_step (h : nat -> nat) (m : imap) (o : op) : imap :=
  match o with
  | Ins k v =>
      match im_lookup h (im_nb m) (im_entries m) k with
      | Some p => {| im_entries := upd_nth p (fun _ => (k, v)) (im_entries m); im_nb := im_nb m |}
      | None =>
          let es := im_entries m ++ [(k, v)] in
          {| im_entries := es; im_nb := if im_nb m <? length es then 2 * im_nb m + 1 else im_nb m |}
      end
  | Del k =>
      match im_lookup h (im_nb m) (im_entries m) k with
      | Some p => {| im_entries := swap_remove_at p (im_entries m); im_nb := im_nb m |}
      | None => m
      end
  | ShiftDel k =>
      match im_lookup h (im_nb m) (im_entries m) k with
      | Some p => {| im_entries := shift_remove_at p (im_entries m); im_nb := im_nb m |}
      | None => m
      end
  | Clr => {| im_entries := []; im_nb := im_nb m |}
  end.

Definition im_run (h : nat -> nat) (nb0 : nat) (ops : list op) : imap :=
  fold_left (im_step h) ops {| im_entries := []; im_nb := nb0 |}.

Definition im_iter (m : imap) : list entry := im_entries m.

(** the hasher-free reference: the same history replayed on a plain vector *)
Definition ref_step (es : list entry) (o : op) : list entry :=
  match o with
  | Ins k v => match find_pos es k with
               | Some p => upd_nth p (fun _ => (k, v)) es
               | None => es ++ [(k, v)]
               end
  | Del k => match find_pos es k with Some p => swap_remove_at p es | None => es end
  | ShiftDel k => match find_pos es k with Some p => shift_remove_at p es | None => es end
  | Clr => []
  end.

Definition ref_run (ops : list op) : list entry := fold_left ref_step ops [].

(* ------------------------------------------------------------------------------------------- *)
(** * bucket-ordered table (hashbrown) *)

Definition buckets := list (list entry).

Definition bucket_upsert (b : list entry) (k v : nat) : list entry :=
  if existsb (fun e => fst e =? k) b
  then map (fun e => if fst e =? k then (k, v) else e) b
  else b ++ [(k, v)].

Definition t_insert_raw (h : nat -> nat) (bs : buckets) (k v : nat) : buckets :=
  upd_nth (h k mod length bs) (fun b => bucket_upsert b k v) bs.

Definition t_iter (bs : buckets) : list entry := concat bs.

(** double the table and re-insert every entry in iteration order *)
Definition t_grow (h : nat -> nat) (bs : buckets) : buckets :=
  fold_left (fun acc e => t_insert_raw h acc (fst e) (snd e)) (t_iter bs) (repeat [] (2 * length bs)).

(** [lf]: entries per bucket tolerated before the table grows *)
Definition t_insert (h : nat -> nat) (lf : nat) (bs : buckets) (k v : nat) : buckets :=
  let bs' := t_insert_raw h bs k v in
  if lf * length bs' <? length (t_iter bs') then t_grow h bs' else bs'.

Definition t_remove (h : nat -> nat) (bs : buckets) (k : nat) : buckets :=
  upd_nth (h k mod length bs) (filter (fun e => negb (fst e =? k))) bs.

Definition t_clear (bs : buckets) : buckets := map (fun _ => []) bs.

Definition t_step (h : nat -> nat) (lf : nat) (bs : buckets) (o : op) : buckets :=
  match o with
  | Ins k v => t_insert h lf bs k v
  | Del k | ShiftDel k => t_remove h bs k
  | Clr => t_clear bs
  end.

Record policy := { p_init : nat; p_lf : nat }.

Definition t_run (h : nat -> nat) (pol : policy) (ops : list op) : buckets :=
  fold_left (t_step h (p_lf pol)) ops (repeat [] (p_init pol)).

(* ------------------------------------------------------------------------------------------- *)
(** * sharded map (dashmap) *)

Definition sh_step (h : nat -> nat) (lf : nat) (shs : list buckets) (o : op) : list buckets :=
  match o with
  | Ins k v => upd_nth (h k mod length shs) (fun bs => t_insert h lf bs k v) shs
  | Del k | ShiftDel k => upd_nth (h k mod length shs) (fun bs => t_remove h bs k) shs
  | Clr => map t_clear shs
  end.

Definition sh_run (h : nat -> nat) (nshards : nat) (pol : policy) (ops : list op) : list buckets :=
  fold_left (sh_step h (p_lf pol)) ops (repeat (repeat [] (p_init pol)) nshards).

Definition sh_iter (shs : list buckets) : list entry := concat (map t_iter shs).

(* ------------------------------------------------------------------------------------------- *)
(** * processes and container classes *)

Record env := { e_seed : nat; e_cpus : nat; e_base : nat }.

Inductive cmodel :=
| MInsertionOrdered (hf : env -> nat -> nat) (nb0 : env -> nat)
| MBucket (hf : env -> nat -> nat) (pol : env -> policy)
| MSharded (hf : env -> nat -> nat) (shards : env -> nat) (pol : env -> policy).

Definition observe (c : cmodel) (e : env) (ops : list op) : list entry :=
  match c with
  | MInsertionOrdered hf nb0 => im_iter (im_run (hf e) (nb0 e) ops)
  | MBucket hf pol => t_iter (t_run (hf e) (pol e) ops)
  | MSharded hf shards pol => sh_iter (sh_run (hf e) (shards e) (pol e) ops)
  end.

(** what "fixed" means for a class: the hasher's VALUES, the capacity policy and the shard count do
    not vary with the environment. Nothing is asked of an insertion-ordered container. *)
Definition env_fixed (c : cmodel) : Prop :=
  match c with
  | MInsertionOrdered _ _ => True
  | MBucket hf pol => (forall e1 e2 k, hf e1 k = hf e2 k) /\ (forall e1 e2, pol e1 = pol e2)
  | MSharded hf shards pol =>
      (forall e1 e2 k, hf e1 k = hf e2 k) /\ (forall e1 e2, pol e1 = pol e2) /\
      (forall e1 e2, shards e1 = shards e2)
  end.

(** concrete hasher families: an unseeded multiplicative hash (FxHasher's shape) and a seeded one
    (RandomState / foldhash's per-process seed) *)
Definition fx (k : nat) : nat := (k * 37 + 7) mod 251.
Definition fx_family (_ : env) : nat -> nat := fx.
Definition seeded_family (e : env) (k : nat) : nat := fx (Nat.lxor k (e_seed e)).

Definition pol_default : policy := {| p_init := 4; p_lf := 1 |}.

(** dashmap's default shard amount: 4 * available_parallelism, rounded up to a power of two *)
Fixpoint pow2_above (fuel n p : nat) : nat :=
  match fuel with 0 => p | S f => if n <=? p then p else pow2_above f n (2 * p) end.
Definition dash_default_shards (e : env) : nat := pow2_above 16 (4 * e_cpus e) 1.

Definition class_fx_bucket : cmodel := MBucket fx_family (fun _ => pol_default).
Definition class_seeded_bucket : cmodel := MBucket seeded_family (fun _ => pol_default).
Definition class_dash_default : cmodel := MSharded fx_family dash_default_shards (fun _ => pol_default).
Definition class_dash_explicit (n : nat) : cmodel := MSharded fx_family (fun _ => n) (fun _ => pol_default).
Definition class_index_seeded : cmodel := MInsertionOrdered seeded_family (fun e => e_base e).

Definition entry_eqb (a b : entry) : bool := andb (fst a =? fst b) (snd a =? snd b).
Fixpoint entries_eqb (l1 l2 : list entry) : bool :=
  match l1, l2 with
  | [], [] => true
  | a :: t1, b :: t2 => andb (entry_eqb a b) (entries_eqb t1 t2)
  | _, _ => false
  end.
