(** C09 — executable model of egglog's command pipeline over the DECLARATION STATE
    (src/lib.rs:2023-2177 `process_program_internal` / `resolve_command` / `run_command`,
     src/typechecking.rs:381-831 `typecheck_program` / `typecheck_command` / `typecheck_function`,
     src/ast/desugar.rs, src/ast/remove_globals.rs, src/ast/check_shadowing.rs).

    phases per command:  desugar -> typecheck_program (MUTATES TypeInfo while checking, stops at the
    first error and keeps what it did) -> remove_globals -> check_shadowing (mutates `Names`) ->
    run_command per desugared command.

    Definitions only (so the model still evaluates when a proof breaks); proofs in Session/Proofs.v.
    The model is hand-written (Tier B); it is tied to the code by the correspondence cases that
    harness/src/bin/h_session.rs writes from the real engine (`check_case` below). *)
From Coq Require Import List Arith Bool PeanoNat.
Import ListNotations.

(* ---------------------------------------------------------------------------------------- *)
(** * Syntax *)

(** one universe of names: sorts, functions, rulesets and variables may collide on purpose.
    [U 0] = i64, [U 1] = String, [U 2] = old, [U 3] = new; [G k] is the [$]-prefixed name [$n<k>];
    [RS k] is the k-th fresh sort made by `desugar_relation` (not writable by the user). *)
Inductive name := U (k : nat) | G (k : nat) | RS (k : nat).

Definition name_eqb (a b : name) : bool :=
  match a, b with
  | U x, U y => Nat.eqb x y
  | G x, G y => Nat.eqb x y
  | RS x, RS y => Nat.eqb x y
  | _, _ => false
  end.

Definition s_i64 := U 0.
Definition s_string := U 1.
Definition v_old := U 2.
Definition v_new := U 3.

Inductive prim := PAdd | PMin | PMax | PBogus.

Inductive expr :=
| EVar (n : name)
| EInt
| EStr
| ECall (f : name) (args : list expr)
| EPrim (p : prim) (args : list expr).

Inductive fact := FEq (a b : expr) | FHolds (e : expr).

Inductive action :=
| ALet (x : name) (e : expr)
| ASet (f : name) (args : list expr) (v : expr)
| AUnion (a b : expr)
| ADo (e : expr).

Inductive presort := PsVec | PsMap | PsBogus.

Inductive cmd :=
| CSort (n : name)
| CSortPre (n : name) (p : presort) (args : list name)
| CDatatype (n : name) (variants : list (name * list name))
| CFunction (n : name) (ins : list name) (out : name) (merge : option expr)
| CConstructor (n : name) (ins : list name) (out : name)
| CRelation (n : name) (ins : list name)
| CRuleset (n : name)
| CRule (k : nat) (rs : option name) (body : list fact) (head : list action)
| CAct (a : action)
| CRun (rs : option name)
| CCheck (fs : list fact)
| CPush
| CPop
| CPrintSize (n : name).

(* ---------------------------------------------------------------------------------------- *)
(** * State *)

(** [KEq]: user eq-sort; [KRel]: eq-sort marked non-unionable (relations); [KCont]: container *)
Inductive skind := KBase | KEq | KRel | KCont.

Record fsig := { f_ctor : bool; f_ins : list name; f_out : name }.

(** one e-graph without its push stack *)
Record frame := {
  sorts : list (name * skind);          (* TypeInfo.sorts (+ non_unionable_sorts)          *)
  funcs : list (name * fsig);           (* TypeInfo.func_types                             *)
  globals : list (name * name);         (* TypeInfo.global_sorts: global -> its sort       *)
  tables : list (name * bool);          (* EGraph.functions; flag = internal_let           *)
  rulesets : list (option name * list nat);  (* EGraph.rulesets; None = the default ruleset  *)
  seen : list name;                     (* check_shadowing::Names.seen                     *)
  aliases : list nat;                   (* Names.global_aliases ([k] for global [G k])     *)
  fresh : nat                           (* parser.symbol_gen                               *)
}.

Definition sess := (frame * list frame)%type.

Definition init_frame : frame := {|
  sorts := [(s_i64, KBase); (s_string, KBase)];
  funcs := []; globals := []; tables := [];
  rulesets := [(None, [])];
  seen := []; aliases := []; fresh := 0 |}.
Definition init : sess := (init_frame, []).

Inductive err :=
| EUndefinedSort | ESortAlreadyBound | EFunctionBoundAtSort | EPresortNotFound | EBadPresortArgs
| EDupFunction | ECtorOutputNotSort | EBadMerge   (* since 473a35e: raised BEFORE the signature is recorded *)
| EShadowing              (* raised AFTER typecheck_program succeeded *)
| ELaterPart (e : err)    (* a later part of a compound declaration failed; earlier parts stay *)
| EUnbound | EUnboundFunction | EArity | EMismatch | ENeedsType | EAlreadyDefined
| ESetConstructor | ENonEqsortUnion | ENonUnionable | ELookupInRule
| ENoSuchRuleset | ERuleExists | EPop | EUnboundTable.

Inductive result := RAccept | RReject (e : err) | RPanic.

(* ---------------------------------------------------------------------------------------- *)
(** * Finite maps as association lists *)

Fixpoint lookup {A} (l : list (name * A)) (n : name) : option A :=
  match l with
  | [] => None
  | (m, a) :: tl => if name_eqb m n then Some a else lookup tl n
  end.

Definition has {A} (l : list (name * A)) (n : name) : bool :=
  match lookup l n with Some _ => true | None => false end.

(** HashMap::insert: replace in place if present, else add *)
Fixpoint set_assoc {A} (l : list (name * A)) (n : name) (a : A) : list (name * A) :=
  match l with
  | [] => [(n, a)]
  | (m, b) :: tl => if name_eqb m n then (m, a) :: tl else (m, b) :: set_assoc tl n a
  end.

Fixpoint mem (n : name) (l : list name) : bool :=
  match l with [] => false | m :: tl => name_eqb m n || mem n tl end.

Fixpoint memn (k : nat) (l : list nat) : bool :=
  match l with [] => false | m :: tl => Nat.eqb m k || memn k tl end.

Definition oname_eqb (a b : option name) : bool :=
  match a, b with
  | None, None => true
  | Some x, Some y => name_eqb x y
  | _, _ => false
  end.

Fixpoint rs_lookup (l : list (option name * list nat)) (r : option name) : option (list nat) :=
  match l with
  | [] => None
  | (q, rules) :: tl => if oname_eqb q r then Some rules else rs_lookup tl r
  end.

Fixpoint rs_add_rule (l : list (option name * list nat)) (r : option name) (k : nat) :=
  match l with
  | [] => []
  | (q, rules) :: tl => if oname_eqb q r then (q, k :: rules) :: tl else (q, rules) :: rs_add_rule tl r k
  end.

(* setters *)
Definition with_sorts F x := {| sorts := x; funcs := funcs F; globals := globals F; tables := tables F;
  rulesets := rulesets F; seen := seen F; aliases := aliases F; fresh := fresh F |}.
Definition with_funcs F x := {| sorts := sorts F; funcs := x; globals := globals F; tables := tables F;
  rulesets := rulesets F; seen := seen F; aliases := aliases F; fresh := fresh F |}.
Definition with_globals F x := {| sorts := sorts F; funcs := funcs F; globals := x; tables := tables F;
  rulesets := rulesets F; seen := seen F; aliases := aliases F; fresh := fresh F |}.
Definition with_tables F x := {| sorts := sorts F; funcs := funcs F; globals := globals F; tables := x;
  rulesets := rulesets F; seen := seen F; aliases := aliases F; fresh := fresh F |}.
Definition with_rulesets F x := {| sorts := sorts F; funcs := funcs F; globals := globals F; tables := tables F;
  rulesets := x; seen := seen F; aliases := aliases F; fresh := fresh F |}.
Definition with_seen F x := {| sorts := sorts F; funcs := funcs F; globals := globals F; tables := tables F;
  rulesets := rulesets F; seen := x; aliases := aliases F; fresh := fresh F |}.
Definition with_aliases F x := {| sorts := sorts F; funcs := funcs F; globals := globals F; tables := tables F;
  rulesets := rulesets F; seen := seen F; aliases := x; fresh := fresh F |}.
Definition with_fresh F x := {| sorts := sorts F; funcs := funcs F; globals := globals F; tables := tables F;
  rulesets := rulesets F; seen := seen F; aliases := aliases F; fresh := x |}.

(* ---------------------------------------------------------------------------------------- *)
(** * Expression typing (constraint.rs / typechecking.rs restricted to the modelled fragment)

    [pat = true]: query position — an unbound variable is bound to the expected sort.
    [exp]: the sort the context demands, if any. Returns the sort and the extended environment. *)

Definition tenv := list (name * name).

Definition var_sort (F : frame) (env : tenv) (n : name) : option name :=
  match lookup (globals F) n with
  | Some s => Some s
  | None => lookup env n
  end.

Definition ret_checked (s : name) (exp : option name) (env : tenv) : err + (name * tenv) :=
  match exp with
  | None => inr (s, env)
  | Some t => if name_eqb s t then inr (s, env) else inl EMismatch
  end.

Fixpoint tc (F : frame) (pat : bool) (e : expr) (exp : option name) (env : tenv) {struct e}
  : err + (name * tenv) :=
  match e with
  | EVar n =>
      match var_sort F env n with
      | Some s => ret_checked s exp env
      | None =>
          if pat then
            match exp with
            | Some t => inr (t, (n, t) :: env)
            | None => inl ENeedsType
            end
          else inl EUnbound
      end
  | EInt => ret_checked s_i64 exp env
  | EStr => ret_checked s_string exp env
  | ECall f args =>
      match lookup (funcs F) f with
      | None => inl EUnboundFunction
      | Some sg =>
          if Nat.eqb (length args) (length (f_ins sg)) then
            match (fix go (args : list expr) (ins : list name) (env : tenv) {struct args} : err + tenv :=
                     match args, ins with
                     | a :: args', i :: ins' =>
                         match tc F pat a (Some i) env with
                         | inl e => inl e
                         | inr (_, env') => go args' ins' env'
                         end
                     | _, _ => inr env
                     end) args (f_ins sg) env with
            | inl e => inl e
            | inr env' => ret_checked (f_out sg) exp env'
            end
          else inl EArity
      end
  | EPrim p args =>
      match p with
      | PBogus => inl EUnboundFunction
      | _ =>
          if Nat.eqb (length args) 2 then
            match (fix go (args : list expr) (env : tenv) {struct args} : err + tenv :=
                     match args with
                     | a :: args' =>
                         match tc F pat a (Some s_i64) env with
                         | inl e => inl e
                         | inr (_, env') => go args' env'
                         end
                     | [] => inr env
                     end) args env with
            | inl e => inl e
            | inr env' => ret_checked s_i64 exp env'
            end
          else inl EArity
      end
  end.

Fixpoint tc_args (F : frame) (pat : bool) (args : list expr) (ins : list name) (env : tenv) : err + tenv :=
  match args, ins with
  | a :: args', i :: ins' =>
      match tc F pat a (Some i) env with
      | inl e => inl e
      | inr (_, env') => tc_args F pat args' ins' env'
      end
  | _, _ => inr env
  end.

Definition tc_fact (F : frame) (f : fact) (env : tenv) : err + tenv :=
  match f with
  | FHolds e => match tc F true e None env with inl x => inl x | inr (_, env') => inr env' end
  | FEq a b =>
      match tc F true b None env with
      | inr (t, env') => match tc F true a (Some t) env' with inl x => inl x | inr (_, env'') => inr env'' end
      | inl _ =>
          match tc F true a None env with
          | inr (t, env') => match tc F true b (Some t) env' with inl x => inl x | inr (_, env'') => inr env'' end
          | inl x => inl x
          end
      end
  end.

Fixpoint tc_facts (F : frame) (fs : list fact) (env : tenv) : err + tenv :=
  match fs with
  | [] => inr env
  | f :: tl => match tc_fact F f env with inl x => inl x | inr env' => tc_facts F tl env' end
  end.

(** a call of a non-constructor, non-global function somewhere in [e] (`expr_has_function_lookup`) *)
Fixpoint has_lookup (F : frame) (e : expr) : bool :=
  match e with
  | ECall f args =>
      (match lookup (funcs F) f with
       | Some sg => negb (f_ctor sg) && negb (has (globals F) f)
       | None => false
       end) || existsb (has_lookup F) args
  | EPrim _ args => existsb (has_lookup F) args
  | _ => false
  end.

Definition unionable (F : frame) (s : name) : err + unit :=
  match lookup (sorts F) s with
  | Some KEq => inr tt
  | Some KRel => inl ENonUnionable
  | _ => inl ENonEqsortUnion
  end.

(** one action; [rule = true] inside a seminaive rule (function lookups are rejected) *)
Definition tc_action (F : frame) (rule : bool) (a : action) (env : tenv) : err + tenv :=
  match a with
  | ALet x e =>
      match tc F false e None env with
      | inl er => inl er
      | inr (t, env') =>
          if rule && has (env') x then inl EAlreadyDefined
          else if rule && has_lookup F e then inl ELookupInRule
          else inr ((x, t) :: env')
      end
  | ASet f args v =>
      match lookup (funcs F) f with
      | None => inl EUnboundFunction
      | Some sg =>
          if f_ctor sg then inl ESetConstructor
          else if negb (Nat.eqb (length args) (length (f_ins sg))) then inl EArity
          else
            match tc_args F false args (f_ins sg) env with
            | inl er => inl er
            | inr env' =>
                match tc F false v (Some (f_out sg)) env' with
                | inl er => inl er
                | inr (_, env'') =>
                    if rule && (existsb (has_lookup F) args || has_lookup F v) then inl ELookupInRule
                    else inr env''
                end
            end
      end
  | AUnion x y =>
      match tc F false x None env with
      | inl er => inl er
      | inr (t, env') =>
          match tc F false y (Some t) env' with
          | inl er => inl er
          | inr (_, env'') =>
              match unionable F t with
              | inl er => inl er
              | inr _ =>
                  if rule && (has_lookup F x || has_lookup F y) then inl ELookupInRule else inr env''
              end
          end
      end
  | ADo e =>
      match tc F false e None env with
      | inl er => inl er
      | inr (_, env') => if rule && has_lookup F e then inl ELookupInRule else inr env'
      end
  end.

Fixpoint tc_actions (F : frame) (rule : bool) (acts : list action) (env : tenv) : err + tenv :=
  match acts with
  | [] => inr env
  | a :: tl => match tc_action F rule a env with inl x => inl x | inr env' => tc_actions F rule tl env' end
  end.

(* ---------------------------------------------------------------------------------------- *)
(** * Desugared commands *)

Inductive ncmd :=
| NSort (n : name) (k : skind) (pre : option (presort * list name))
| NFunction (n : name) (ins : list name) (out : name) (ctor : bool) (merge : option expr)
| NRuleset (n : name)
| NRule (k : nat) (rs : option name) (body : list fact) (head : list action)
| NAct (a : action)
| NRun (rs : option name)
| NCheck (fs : list fact)
| NPush
| NPop
| NPrintSize (n : name).

(** desugar.rs; a relation takes a fresh sort name from the symbol generator *)
Definition desugar (F : frame) (c : cmd) : list ncmd * frame :=
  match c with
  | CSort n => ([NSort n KEq None], F)
  | CSortPre n p args => ([NSort n KCont (Some (p, args))], F)
  | CDatatype n vs => (NSort n KEq None :: map (fun v => NFunction (fst v) (snd v) n true None) vs, F)
  | CFunction n ins out m => ([NFunction n ins out false m], F)
  | CConstructor n ins out => ([NFunction n ins out true None], F)
  | CRelation n ins =>
      ([NSort (RS (fresh F)) KRel None; NFunction n ins (RS (fresh F)) true None], with_fresh F (S (fresh F)))
  | CRuleset n => ([NRuleset n], F)
  | CRule k rs b h => ([NRule k rs b h], F)
  | CAct a => ([NAct a], F)
  | CRun rs => ([NRun rs], F)
  | CCheck fs => ([NCheck fs], F)
  | CPush => ([NPush], F)
  | CPop => ([NPop], F)
  | CPrintSize n => ([NPrintSize n], F)
  end.

(* ---------------------------------------------------------------------------------------- *)
(** * Phase 1: typecheck_command — returns the (possibly mutated) frame even on error *)

Definition all_sorts_defined (F : frame) (l : list name) : bool := forallb (has (sorts F)) l.

Definition tc_presort (F : frame) (p : presort) (args : list name) : option err :=
  match p, args with
  | PsBogus, _ => Some EPresortNotFound
  | PsVec, [a] => if has (sorts F) a then None else Some EUndefinedSort
  | PsMap, [a; b] => if has (sorts F) a && has (sorts F) b then None else Some EUndefinedSort
  | _, _ => Some EBadPresortArgs
  end.

(** `declare_sort` + `add_arcsort`: every check precedes the insertion *)
Definition tc_sort (F : frame) (n : name) (k : skind) (pre : option (presort * list name)) : frame * option err :=
  if has (funcs F) n then (F, Some EFunctionBoundAtSort)
  else
    match (match pre with Some (p, args) => tc_presort F p args | None => None end) with
    | Some e => (F, Some e)
    | None =>
        if has (sorts F) n then (F, Some ESortAlreadyBound)
        else (with_sorts F ((n, k) :: sorts F), None)
    end.

Definition is_eq_kind (k : option skind) : bool :=
  match k with Some KEq | Some KRel => true | _ => false end.

(** `typecheck_function` (typechecking.rs:762-833, after repository commit 473a35e "validate a
    function's merge expression before recording its signature"): every check — duplicate,
    constructor output, merge expression (typechecked WITHOUT the function being declared) —
    precedes the insertion of the signature, so a rejected function declaration leaves [F] as is. *)
Definition tc_function (F : frame) (n : name) (ins : list name) (out : name) (ctor : bool)
           (merge : option expr) : frame * option err :=
  if has (sorts F) n then (F, Some ESortAlreadyBound)
  else if negb (all_sorts_defined F ins && has (sorts F) out) then (F, Some EUndefinedSort)
  else if has (funcs F) n then (F, Some EDupFunction)
  else if ctor && negb (is_eq_kind (lookup (sorts F) out)) then (F, Some ECtorOutputNotSort)
  else
    let F' := with_funcs F (set_assoc (funcs F) n {| f_ctor := ctor; f_ins := ins; f_out := out |}) in
    match merge with
    | None => (F', None)
    | Some m =>
        match tc F false m None [(v_old, out); (v_new, out)] with
        | inl _ => (F, Some EBadMerge)
        | inr _ => (F', None)
        end
    end.

Definition tc_ncmd (F : frame) (c : ncmd) : frame * option err :=
  match c with
  | NSort n k pre => tc_sort F n k pre
  | NFunction n ins out ctor m => tc_function F n ins out ctor m
  | NRule _ _ body head =>
      match tc_facts F body [] with
      | inl e => (F, Some e)
      | inr env => match tc_actions F true head env with inl e => (F, Some e) | inr _ => (F, None) end
      end
  | NAct (ALet x e) =>
      match tc F false e None [] with
      | inl er => (F, Some er)
      | inr (t, _) => (with_globals F (set_assoc (globals F) x t), None)
      end
  | NAct a => match tc_action F false a [] with inl e => (F, Some e) | inr _ => (F, None) end
  | NCheck fs => match tc_facts F fs [] with inl e => (F, Some e) | inr _ => (F, None) end
  | _ => (F, None)
  end.

(** `typecheck_program`: stops at the first error, keeping every mutation made so far *)
Fixpoint tc_program (F : frame) (cs : list ncmd) : frame * option err :=
  match cs with
  | [] => (F, None)
  | c :: tl =>
      match tc_ncmd F c with
      | (F', Some e) => (F', Some e)
      | (F', None) => tc_program F' tl
      end
  end.

(* ---------------------------------------------------------------------------------------- *)
(** * Phase 2: check_shadowing (after remove_globals) *)

Definition shadow_check (F : frame) (n : name) : frame * option err :=
  if mem n (seen F) then (F, Some EShadowing) else (with_seen F (n :: seen F), None).

Fixpoint expr_vars (F : frame) (e : expr) : list name :=
  match e with
  | EVar n => if has (globals F) n then [] else [n]
  | ECall _ args | EPrim _ args => flat_map (expr_vars F) args
  | _ => []
  end.

Definition fact_vars (F : frame) (f : fact) : list name :=
  match f with
  | FEq a b => expr_vars F a ++ expr_vars F b
  | FHolds e => expr_vars F e
  end.

(** `check_pattern_name`: the un-prefixed name must not alias a global, the name must be unseen *)
Definition pattern_clash (F : frame) (n : name) : bool :=
  (match n with U k | G k => memn k (aliases F) | RS _ => false end) || mem n (seen F).

Fixpoint let_vars (acts : list action) : list name :=
  match acts with
  | ALet x _ :: tl => x :: let_vars tl
  | _ :: tl => let_vars tl
  | [] => []
  end.

Definition shadow_ncmd (F : frame) (c : ncmd) : frame * option err :=
  match c with
  | NSort n _ _ => shadow_check F n
  | NFunction n _ _ _ _ => shadow_check F n
  | NRuleset n => shadow_check F n
  | NRule _ _ body head =>
      if existsb (pattern_clash F) (flat_map (fact_vars F) body ++ let_vars head) then (F, Some EShadowing)
      else (F, None)
  | NCheck fs =>
      if existsb (pattern_clash F) (flat_map (fact_vars F) fs) then (F, Some EShadowing) else (F, None)
  | NAct (ALet x _) =>
      match shadow_check F x with
      | (F', None) => (match x with G k => with_aliases F' (k :: aliases F') | _ => F' end, None)
      | r => r
      end
  | _ => (F, None)
  end.

Fixpoint shadow_program (F : frame) (cs : list ncmd) : frame * option err :=
  match cs with
  | [] => (F, None)
  | c :: tl =>
      match shadow_ncmd F c with
      | (F', Some e) => (F', Some e)
      | (F', None) => shadow_program F' tl
      end
  end.

(* ---------------------------------------------------------------------------------------- *)
(** * Phase 3: run_command

    `BackendRule::func` and `translate_expr_to_mergefn` index `self.functions[name]`: a function
    that typechecks (it is in `func_types`) but has no table PANICS (lib.rs:2700, lib.rs:744). *)

Fixpoint expr_tables_ok (F : frame) (e : expr) : bool :=
  match e with
  | EVar n => if has (globals F) n then has (tables F) n else true
  | ECall f args => has (tables F) f && forallb (expr_tables_ok F) args
  | EPrim _ args => forallb (expr_tables_ok F) args
  | _ => true
  end.

(** a global used in a QUERY is read from its table: when the sort recorded in `global_sorts` is no
    longer the sort of the table (second `let` of the name with another sort, rejected by
    check_shadowing after typechecking overwrote `global_sorts`), `query_table(..).unwrap()` panics
    (lib.rs:2776) *)
Definition global_sort_ok (F : frame) (n : name) : bool :=
  match lookup (globals F) n with
  | None => true
  | Some t => match lookup (funcs F) n with Some sg => name_eqb (f_out sg) t | None => false end
  end.

Fixpoint expr_globals_ok (F : frame) (e : expr) : bool :=
  match e with
  | EVar n => global_sort_ok F n
  | ECall _ args | EPrim _ args => forallb (expr_globals_ok F) args
  | _ => true
  end.

Definition fact_tables_ok (F : frame) (f : fact) : bool :=
  match f with
  | FEq a b => expr_tables_ok F a && expr_tables_ok F b && (expr_globals_ok F a && expr_globals_ok F b)
  | FHolds e => expr_tables_ok F e && expr_globals_ok F e
  end.

Definition action_tables_ok (F : frame) (a : action) : bool :=
  match a with
  | ALet _ e => expr_tables_ok F e
  | ASet f args v => has (tables F) f && forallb (expr_tables_ok F) args && expr_tables_ok F v
  | AUnion x y => expr_tables_ok F x && expr_tables_ok F y
  | ADo e => expr_tables_ok F e
  end.

Definition declare_table (F : frame) (n : name) (is_let : bool) : frame :=
  with_tables F ((n, is_let) :: tables F).

Definition run_ncmd (s : sess) (c : ncmd) : sess * result :=
  let '(F, st) := s in
  match c with
  | NSort _ _ _ => (s, RAccept)
  | NFunction n _ _ _ m =>
      (* the merge expression is lowered before the table exists *)
      if negb (match m with Some e => expr_tables_ok F e | None => true end) then (s, RPanic)
      else if has (tables F) n then (s, RPanic)
      else ((declare_table F n false, st), RAccept)
  | NRuleset n =>
      match rs_lookup (rulesets F) (Some n) with
      | Some _ => (s, RPanic)                      (* lib.rs:1566 *)
      | None => ((with_rulesets F ((Some n, []) :: rulesets F), st), RAccept)
      end
  | NRule k rs body head =>
      if negb (forallb (fact_tables_ok F) body && forallb (action_tables_ok F) head) then (s, RPanic)
      else
        match rs_lookup (rulesets F) rs with
        | None => (s, RReject ENoSuchRuleset)
        | Some rules =>
            if memn k rules then (s, RReject ERuleExists)
            else ((with_rulesets F (rs_add_rule (rulesets F) rs k), st), RAccept)
        end
  | NAct (ALet x e) =>
      (* remove_globals: (function x () sort :no-merge) with internal_let, then (set (x) e) *)
      if has (tables F) x then (s, RPanic)         (* lib.rs:866-872 *)
      else
        let sort := match lookup (globals F) x with Some t => t | None => s_i64 end in
        let F1 := if has (funcs F) x then F
                  else with_funcs F (set_assoc (funcs F) x {| f_ctor := false; f_ins := []; f_out := sort |}) in
        let F2 := declare_table F1 x true in
        if expr_tables_ok F2 e then ((F2, st), RAccept) else ((F2, st), RPanic)
  | NAct a => if action_tables_ok F a then (s, RAccept) else (s, RPanic)
  | NRun rs =>
      match rs_lookup (rulesets F) rs with
      | None => (s, RReject ENoSuchRuleset)
      | Some _ => (s, RAccept)
      end
  | NCheck fs => if forallb (fact_tables_ok F) fs then (s, RAccept) else (s, RPanic)
  | NPush => ((F, F :: st), RAccept)
  | NPop =>
      match st with
      | [] => (s, RReject EPop)
      | P :: st' => ((with_fresh P (fresh F), st'), RAccept)   (* the symbol generator is kept *)
      end
  | NPrintSize n =>
      match lookup (tables F) n with
      | Some false => (s, RAccept)
      | _ => (s, RReject EUnboundTable)
      end
  end.

Fixpoint run_program (s : sess) (cs : list ncmd) : sess * result :=
  match cs with
  | [] => (s, RAccept)
  | c :: tl =>
      match run_ncmd s c with
      | (s', RAccept) => run_program s' tl
      | r => r
      end
  end.

(* ---------------------------------------------------------------------------------------- *)
(** * The step function *)

(** an error in a later part of a compound declaration (datatype variant, relation function) is
    tagged so that theorems can tell it from an error of a single-part command *)
Definition tag_err (first_part : bool) (e : err) : err := if first_part then e else ELaterPart e.

Fixpoint tc_program_tagged (F : frame) (cs : list ncmd) (first : bool) : frame * option err :=
  match cs with
  | [] => (F, None)
  | c :: tl =>
      match tc_ncmd F c with
      | (F', Some e) => (F', Some (tag_err first e))
      | (F', None) => tc_program_tagged F' tl false
      end
  end.

Definition step (s : sess) (c : cmd) : sess * result :=
  let '(F0, st) := s in
  let '(ncs, F) := desugar F0 c in
  match tc_program_tagged F ncs true with
  | (F1, Some e) => ((F1, st), RReject e)
  | (F1, None) =>
      match shadow_program F1 ncs with
      | (F2, Some e) => ((F2, st), RReject e)
      | (F2, None) => run_program (F2, st) ncs
      end
  end.

Fixpoint run (s : sess) (cs : list cmd) : sess * list result :=
  match cs with
  | [] => (s, [])
  | c :: tl =>
      match step s c with
      | (s', RPanic) => (s', [RPanic])
      | (s', r) => let '(s'', rs) := run s' tl in (s'', r :: rs)
      end
  end.

(* ---------------------------------------------------------------------------------------- *)
(** * Correspondence with the implementation (cases written by harness/src/bin/h_session.rs) *)

Inductive res3 := OAccept | OReject | OPanic.

Inductive sref := SN (n : name) | SRel.

Definition sref_of (n : name) : sref := match n with RS _ => SRel | _ => SN n end.

Definition sref_eqb (a b : sref) : bool :=
  match a, b with
  | SN x, SN y => name_eqb x y
  | SRel, SRel => true
  | _, _ => false
  end.

Fixpoint list_eqb' {A} (eqb : A -> A -> bool) (l1 l2 : list A) : bool :=
  match l1, l2 with
  | [], [] => true
  | a :: t1, b :: t2 => eqb a b && list_eqb' eqb t1 t2
  | _, _ => false
  end.

(** what the harness observes per name: in TypeInfo.sorts?, TypeInfo.func_types entry
    (constructor?, input sorts, output sort), TypeInfo.is_global?, EGraph.functions has it? *)
Definition obs := (bool * option (bool * list sref * sref) * bool * bool)%type.

Definition observe (F : frame) (n : name) : obs :=
  (has (sorts F) n,
   match lookup (funcs F) n with
   | Some sg => Some (f_ctor sg, map sref_of (f_ins sg), sref_of (f_out sg))
   | None => None
   end,
   has (globals F) n,
   has (tables F) n).

Definition osig_eqb (a b : option (bool * list sref * sref)) : bool :=
  match a, b with
  | None, None => true
  | Some (c1, i1, o1), Some (c2, i2, o2) => Bool.eqb c1 c2 && list_eqb' sref_eqb i1 i2 && sref_eqb o1 o2
  | _, _ => false
  end.

Definition obs_eqb (a b : obs) : bool :=
  let '(s1, g1, l1, t1) := a in
  let '(s2, g2, l2, t2) := b in
  Bool.eqb s1 s2 && osig_eqb g1 g2 && Bool.eqb l1 l2 && Bool.eqb t1 t2.

Definition res_matches (r : result) (o : res3) : bool :=
  match r, o with
  | RAccept, OAccept => true
  | RReject _, OReject => true
  | RPanic, OPanic => true
  | _, _ => false
  end.

Fixpoint check_steps (s : sess) (cs : list cmd) (os : list (res3 * list (name * obs))) : bool :=
  match cs, os with
  | [], [] => true
  | c :: cs', (o, digest) :: os' =>
      let '(s', r) := step s c in
      res_matches r o &&
      match r with
      | RPanic => match os' with [] => true | _ => false end
      | _ => forallb (fun '(n, ob) => obs_eqb (observe (fst s') n) ob) digest && check_steps s' cs' os'
      end
  | _, _ => false
  end.

Definition check_case (c : list cmd * list (res3 * list (name * obs))) : bool :=
  check_steps init (fst c) (snd c).
