(** C20: what can be stated about determinism of the single-threaded engine in Coq.

    A Gallina model is a function: it cannot depend on addresses, hash seeds, environment or the
    clock, so "the model is deterministic" is true by construction and says nothing about the
    binary. What the development contributes instead:
    (1) kernel-checked facts about the source, regenerated on every run (gen/SourceFacts.v): every
        hash-container alias in non-test code uses the fixed FxHasher, and the only non-test file
        naming the randomly seeded std::collections::Hash{Map,Set} is the allow-listed
        src/serialize.rs (whose output is not part of command outputs);
    (2) the physical table model (Table/Model.v, proved in C16) returns rows in an order that is a
        function of the operation history alone (scan order = arrival order of the live rows),
        which is the order `print-function` and extraction tie-breaking see;
    The end-to-end claim on the real binary is decided by the correspondence harness (h_repro):
    byte comparison of transcripts across processes, ASLR settings and environments. *)
From Coq Require Import List String Bool.
Import ListNotations.
Require Import Verif.gen.SourceFacts.

Definition hasher_fixed (h : hasher) : bool := match h with HFx => true | HOtherHasher => false end.

Definition aliases_fixed : bool := forallb (fun a => hasher_fixed (snd a)) hash_aliases.

Definition std_hash_allowlist : list string := ["src/serialize.rs"%string].

Definition std_users_allowed : bool :=
  forallb (fun f => existsb (String.eqb f) std_hash_allowlist) std_hash_users.

(** the bridge crate already imports hashbrown / indexmap containers with their default (seeded)
    hasher at these sites; the run comparison shows no observable effect today. They are
    allow-listed WITH THEIR COUNT: a new site anywhere changes this fact. *)
Definition default_hasher_allowlist : list (string * nat) :=
  [("egglog-bridge/src/lib.rs"%string, 4); ("egglog-bridge/src/macros.rs"%string, 1);
   ("egglog-bridge/src/rule.rs"%string, 1)].

Definition site_eqb (a b : string * nat) : bool :=
  andb (String.eqb (fst a) (fst b)) (Nat.eqb (snd a) (snd b)).

Fixpoint sites_eqb (l1 l2 : list (string * nat)) : bool :=
  match l1, l2 with
  | [], [] => true
  | a :: t1, b :: t2 => andb (site_eqb a b) (sites_eqb t1 t2)
  | _, _ => false
  end.

Definition default_sites_allowed : bool := sites_eqb default_hasher_sites default_hasher_allowlist.

Lemma default_sites_allowed_true : default_sites_allowed = true.
Proof. vm_compute. reflexivity. Qed.

Lemma aliases_fixed_true : aliases_fixed = true.
Proof. vm_compute. reflexivity. Qed.

Lemma std_users_allowed_true : std_users_allowed = true.
Proof. vm_compute. reflexivity. Qed.

Lemma aliases_fixed_spec : forall f n h, In (f, n, h) hash_aliases -> h = HFx.
Proof.
  intros f n h Hin. pose proof aliases_fixed_true as H. unfold aliases_fixed in H.
  rewrite forallb_forall in H. specialize (H _ Hin). simpl in H. destruct h; [reflexivity|discriminate].
Qed.

Lemma inventory_nonempty : hash_aliases <> [].
Proof. discriminate. Qed.
