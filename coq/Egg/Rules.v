(** Executable rule interpreter over [Egg/Model.v]: naive (specification) matching on the frozen
    state, actions instantiated to GROUND TERMS through the witness terms and executed as
    term-level commands — so every run of this interpreter is a [Model.run]-style history and the
    C01/C04 theorems apply to it. No proofs in this file. *)
From Coq Require Import List Arith ZArith Bool PeanoNat.
Import ListNotations.
Require Import Verif.Base.Res Verif.Base.Cases Verif.gen.UFSeq Verif.Egg.Model.

Inductive pat :=
| PVar (x : nat)
| PApp (f : nat) (args : list pat)
| PInt (z : Z)
| PAdd (a b : pat).

Inductive fact :=
| FEq (x : nat) (p : pat)      (* (= x (f ..)) *)
| FPat (p : pat)               (* (f ..) *)
| FLt (a b : pat)              (* (< a b) on i64 *)
| FNeq (a b : pat).            (* (!= a b) on i64 *)

Inductive action :=
| AExpr (p : pat)
| AUnion (p q : pat)
| ASet (f : nat) (args : list pat) (v : pat)
| ASubsume (f : nat) (args : list pat)
| ADelete (f : nat) (args : list pat)
| APanic.

Record rule := mkRule { rbody : list fact; rhead : list action }.

Inductive command :=
| KAct (a : action)
| KRule (r : rule)
| KRun (n : nat).

Definition env := list (nat * val).

Fixpoint env_get (e : env) (x : nat) : option val :=
  match e with
  | [] => None
  | (y, v) :: tl => if Nat.eqb x y then Some v else env_get tl x
  end.

(** bind-or-compare *)
Definition env_bind (e : env) (x : nat) (v : val) : list env :=
  match env_get e x with
  | None => [(x, v) :: e]
  | Some w => if val_eqb v w then [e] else []
  end.

(** i64 expressions in guards (all variables must be bound) *)
Fixpoint int_of (e : env) (p : pat) : option Z :=
  match p with
  | PVar x => match env_get e x with Some (VInt z) => Some z | _ => None end
  | PInt z => Some z
  | PAdd a b => match int_of e a, int_of e b with
                | Some x, Some y => Some (x + y)%Z
                | _, _ => None
                end
  | PApp _ _ => None
  end.

Section Matching.
  Variable s : state.

  (** all extensions of [e] under which pattern [p] denotes value [v]; subsumed rows never match *)
  Fixpoint match_pat (p : pat) (v : val) (e : env) : list env :=
    match p with
    | PVar x => env_bind e x v
    | PInt z => if val_eqb v (VInt z) then [e] else []
    | PAdd _ _ => match int_of e p with
                  | Some z => if val_eqb v (VInt z) then [e] else []
                  | None => []
                  end
    | PApp f ps =>
        let fix match_args (ps : list pat) (vs : list val) (e : env) : list env :=
          match ps, vs with
          | [], [] => [e]
          | p :: ps', v :: vs' => flat_map (match_args ps' vs') (match_pat p v e)
          | _, _ => []
          end in
        flat_map (fun r => if rsub r then []
                           else if val_eqb (rret r) v then match_args ps (rargs r) e else [])
                 (get_tab (tabs s) f)
    end.

  Fixpoint match_args (ps : list pat) (vs : list val) (e : env) : list env :=
    match ps, vs with
    | [], [] => [e]
    | p :: ps', v :: vs' => flat_map (match_args ps' vs') (match_pat p v e)
    | _, _ => []
    end.

  (** a table atom, optionally binding the row's value to [x] *)
  Definition match_atom (x : option nat) (p : pat) (e : env) : list env :=
    match p with
    | PApp f ps =>
        flat_map (fun r => if rsub r then []
                           else flat_map (fun e' => match x with
                                                    | Some x => env_bind e' x (rret r)
                                                    | None => [e']
                                                    end)
                                         (match_args ps (rargs r) e))
                 (get_tab (tabs s) f)
    | _ => []
    end.

  Definition match_fact (f : fact) (e : env) : list env :=
    match f with
    | FEq x p => match_atom (Some x) p e
    | FPat p => match_atom None p e
    | FLt a b => match int_of e a, int_of e b with
                 | Some x, Some y => if (x <? y)%Z then [e] else []
                 | _, _ => []
                 end
    | FNeq a b => match int_of e a, int_of e b with
                  | Some x, Some y => if (x =? y)%Z then [] else [e]
                  | _, _ => []
                  end
    end.

  Fixpoint match_body (fs : list fact) (es : list env) : list env :=
    match fs with
    | [] => es
    | f :: tl => match_body tl (flat_map (match_fact f) es)
    end.

  (** instantiate an action pattern to a ground term through the witness terms *)
  Fixpoint ground (e : env) (p : pat) : option term :=
    match p with
    | PVar x => match env_get e x with
                | Some v => Some (witv (wit s) v)
                | None => None
                end
    | PInt z => Some (TI z)
    | PAdd _ _ => match int_of e p with Some z => Some (TI z) | None => None end
    | PApp f ps =>
        let fix grounds (ps : list pat) : option (list term) :=
          match ps with
          | [] => Some []
          | p :: tl => match ground e p, grounds tl with
                       | Some t, Some ts => Some (t :: ts)
                       | _, _ => None
                       end
          end in
        match grounds ps with Some ts => Some (T f ts) | None => None end
    end.

  Fixpoint grounds (e : env) (ps : list pat) : option (list term) :=
    match ps with
    | [] => Some []
    | p :: tl => match ground e p, grounds e tl with
                 | Some t, Some ts => Some (t :: ts)
                 | _, _ => None
                 end
    end.
End Matching.

(** ground (term-level) commands: the C01 fragment [XC] plus sets, subsumption, deletion *)
Inductive xcmd :=
| XC (c : cmd)
| XSet (f : nat) (ts : list term) (v : term)
| XSubsume (f : nat) (ts : list term)
| XDelete (f : nat) (ts : list term)
| XPanic.

Definition ground_action (s : state) (e : env) (a : action) : option xcmd :=
  match a with
  | AExpr p => option_map (fun t => XC (CAdd t)) (ground s e p)
  | AUnion p q => match ground s e p, ground s e q with
                  | Some a, Some b => Some (XC (CUnion a b))
                  | _, _ => None
                  end
  | ASet f ps v => match grounds s e ps, ground s e v with
                   | Some ts, Some t => Some (XSet f ts t)
                   | _, _ => None
                   end
  | ASubsume f ps => option_map (XSubsume f) (grounds s e ps)
  | ADelete f ps => option_map (XDelete f) (grounds s e ps)
  | APanic => Some XPanic
  end.

Fixpoint add_terms (s : state) (ts : list term) : state * list val :=
  match ts with
  | [] => (s, [])
  | t :: tl => let '(s1, v) := add_term s t in
               let '(s2, vs) := add_terms s1 tl in (s2, v :: vs)
  end.

Fixpoint tab_subsume (t : table) (args : list val) : table :=
  match t with
  | [] => []
  | r :: tl => if vals_eqb (rargs r) args then mkRow (rargs r) (rret r) true :: tl
               else r :: tab_subsume tl args
  end.

(** result of executing: [inl s] ok, [inr msg-code] an execution error
    (1 = panic, 2 = :no-merge conflict, 3 = ungrounded action, 4 = model fuel/panic) *)
Definition xres := (state * option nat)%type.

Definition do_rebuild (sg : list mergefn) (s : state) : xres :=
  match rebuild (rebuild_fuel s) sg s with
  | Ok (s', e) => (s', if e then Some 2 else None)
  | _ => (s, Some 4)
  end.

Definition xexec (sg : list mergefn) (s : state) (c : xcmd) : xres :=
  match c with
  | XC c => match exec sg s c with Ok s' => (s', None) | _ => (s, Some 4) end
  | XSet f ts v =>
      let '(s1, vs) := add_terms s ts in
      let '(s2, w) := add_term s1 v in
      let m := nth f sg MUnionId in
      let '(t', us, e) := tab_insert m (get_tab (tabs s2) f) (mkRow vs w false) in
      let s3 := mkSt (uf s2) (set_tab (tabs s2) f t') (wit s2) in
      if e then (s3, Some 2)
      else match uf_unions (uf s3) us with
           | Ok p' => match us with
                      | [] => (s3, None)
                      | _ => do_rebuild sg (mkSt p' (tabs s3) (wit s3))
                      end
           | _ => (s3, Some 4)
           end
  | XSubsume f ts =>
      (* the engine first inserts the tuple if it is new, then marks it *)
      let '(s0, vs) := add_terms s ts in
      let '(s1, _) := add_node s0 f vs in
      (mkSt (uf s1) (set_tab (tabs s1) f (tab_subsume (get_tab (tabs s1) f) vs)) (wit s1), None)
  | XDelete f ts =>
      let '(s1, vs) := add_terms s ts in
      (mkSt (uf s1) (set_tab (tabs s1) f (tab_remove (get_tab (tabs s1) f) vs)) (wit s1), None)
  | XPanic => (s, Some 1)
  end.

Fixpoint xrun (sg : list mergefn) (s : state) (cs : list xcmd) : xres :=
  match cs with
  | [] => (s, None)
  | c :: tl => match xexec sg s c with
               | (s', None) => xrun sg s' tl
               | r => r
               end
  end.

(** the ground commands one iteration of the rules issues, computed on the frozen state *)
Definition rule_cmds (s : state) (r : rule) : list xcmd :=
  flat_map (fun e => flat_map (fun a => match ground_action s e a with
                                        | Some c => [c]
                                        | None => [XPanic]
                                        end) (rhead r))
           (match_body s (rbody r) [[]]).

Definition iteration (sg : list mergefn) (rules : list rule) (s : state) : xres :=
  xrun sg s (flat_map (rule_cmds s) rules).

Definition tabs_size (s : state) : nat := fold_left (fun n t => n + length t) (tabs s) 0.
Definition n_sub (s : state) : nat :=
  fold_left (fun n t => n + length (filter rsub t)) (tabs s) 0.

(** [(run n)]: up to n iterations, stopping early when an iteration changes nothing *)
Fixpoint run_n (sg : list mergefn) (rules : list rule) (n : nat) (s : state) : xres :=
  match n with
  | O => (s, None)
  | S n' =>
      match iteration sg rules s with
      | (s', None) =>
          if (Nat.eqb (tabs_size s') (tabs_size s) && Nat.eqb (length (uf s')) (length (uf s))
              && Nat.eqb (n_sub s') (n_sub s)
              && list_eqb Nat.eqb (map (rep (uf s')) (seq 0 (length (uf s'))))
                                  (map (rep (uf s)) (seq 0 (length (uf s))))
              && list_eqb (list_eqb (fun a b => val_eqb (rret a) (rret b))) (tabs s') (tabs s))%bool
          then (s', None)
          else run_n sg rules n' s'
      | r => r
      end
  end.

(** program state: e-graph + declared rules *)
Definition pstate := (state * list rule)%type.

Definition pexec (sg : list mergefn) (ps : pstate) (k : command) : pstate * option nat :=
  let '(s, rules) := ps in
  match k with
  | KAct a => match ground_action s [] a with
              | Some c => let '(s', e) := xexec sg s c in ((s', rules), e)
              | None => ((s, rules), Some 3)
              end
  | KRule r => ((s, rules ++ [r]), None)
  | KRun n => let '(s', e) := run_n sg rules n s in ((s', rules), e)
  end.

(* ---------------------------------------------------------------- observations *)

Fixpoint index_of_first (v : val) (l : list (option val)) (i : Z) : Z :=
  match l with
  | [] => (-1)%Z
  | Some w :: tl => if val_eqb v w then i else index_of_first v tl (i + 1)%Z
  | None :: tl => index_of_first v tl (i + 1)%Z
  end.

(** class vector of the probe terms: -1 = not represented, else the index of the first probe
    with the same value (renaming-invariant) *)
Definition class_vector (s : state) (probes : list term) : list Z :=
  let vs := map (eval s) probes in
  map (fun o => match o with None => (-1)%Z | Some v => index_of_first v vs 0%Z end) vs.

Definition int_probe (s : state) (t : term) : option Z :=
  match eval s t with Some (VInt z) => Some z | _ => None end.

Record obs := mkObs {
  o_classes : list Z;
  o_sizes : list nat;          (* rows per table *)
  o_subs : list nat;           (* subsumed rows per table *)
  o_ints : list (option Z)     (* value of int-valued probe terms *)
}.

Definition observe (s : state) (probes iprobes : list term) : obs :=
  mkObs (class_vector s probes) (map (@length row) (tabs s))
        (map (fun t => length (filter rsub t)) (tabs s)) (map (int_probe s) iprobes).

Definition optZ_eqb (a b : option Z) : bool :=
  match a, b with
  | Some x, Some y => Z.eqb x y
  | None, None => true
  | _, _ => false
  end.

Definition obs_eqb (a b : obs) : bool :=
  (list_eqb Z.eqb (o_classes a) (o_classes b) && list_eqb Nat.eqb (o_sizes a) (o_sizes b)
   && list_eqb Nat.eqb (o_subs a) (o_subs b) && list_eqb optZ_eqb (o_ints a) (o_ints b))%bool.

(** run a program, observing after every command; stops at the first execution error *)
Fixpoint prun (sg : list mergefn) (ps : pstate) (ks : list command) (probes iprobes : list term)
  : list obs :=
  match ks with
  | [] => []
  | k :: tl => match pexec sg ps k with
               | (ps', None) => observe (fst ps') probes iprobes :: prun sg ps' tl probes iprobes
               | (_, Some _) => []
               end
  end.

Record ecase := mkCase {
  c_sg : list mergefn;
  c_cmds : list command;
  c_probes : list term;
  c_iprobes : list term;
  c_expected : list obs
}.

Definition check_case (c : ecase) : bool :=
  list_eqb obs_eqb
    (prun (c_sg c) (init (length (c_sg c)), []) (c_cmds c) (c_probes c) (c_iprobes c))
    (c_expected c).
