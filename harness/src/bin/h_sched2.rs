//! C18: custom schedulers. Instrumented `egglog::scheduler::Scheduler` policies (choose all;
//! none-then-all; seeded random subsets with duplicate / unsorted indices; one at a time; back-off)
//! record every match they are offered. Generated programs (egg_gen; rules incl. ones whose heads
//! use no variables), unions and other writes injected between the step that offers a match and
//! the step that applies it, failing steps (unknown ruleset, panicking / failing action) in between.
//!
//! Predicates on the implementation (each is what the property text states, nothing more):
//!  * offered: at a step where the query ran, every freshly offered tuple is a match of the rule
//!    body over the NON-SUBSUMED rows of the table dump taken just before the step (computed by an
//!    independent naive matcher), no tuple is offered more often than it matches, and every match
//!    of the body is offered now or was offered earlier (the query rule is semi-naive; earlier
//!    offers are compared modulo the current union-find);
//!  * no loss: what the scheduler did not choose is offered again at its next call (modulo the
//!    union-find), and with canonical ids (regression predicate of the fixed finding F7, key
//!    "F7-scheduler-stale-ids");
//!  * applied: the head of every chosen match holds after the step, modulo the equalities that
//!    hold then; a step in which nothing was chosen changes nothing;
//!  * choose-all == built-in `step_rules` on a clone run in lockstep (observations);
//!  * C04 invariant (`Dump::invariant`: canonical ids via hook H0, functional tables) after every
//!    step, also failed ones;
//!  * errors raised mid-step leave rulesets / schedulers usable.
//! Cases for the Gallina model (coq/Sched/Scheduler.v): the instantiate bookkeeping (exact residual
//! order) and the offered-match sets (`match_body` on the dumped tables).
use egglog::scheduler::{Matches, Scheduler};
use egglog::{EGraph, Value};
use egglog_numeric_id::NumericId;
use std::collections::{BTreeMap, HashMap, HashSet};
use std::sync::{Arc, Mutex};
use verif_harness::egg::*;
use verif_harness::egg_gen::*;
use verif_harness::util::*;

#[derive(Clone, Copy, Debug, PartialEq)]
enum Policy {
    All,
    NoneThenAll,
    Random,
    OneAtATime,
    BackOff,
}
const POLICIES: [Policy; 5] = [Policy::All, Policy::NoneThenAll, Policy::Random, Policy::OneAtATime, Policy::BackOff];

#[derive(Clone, Debug)]
struct Call {
    rule: String,
    n: usize,
    /// values of the head variables (harness order) of every offered match; [] for var-free heads
    tuples: Vec<Vec<Value>>,
    chosen: Vec<usize>,
    all: bool,
    seek: bool,
}

struct Shared {
    step: usize,
    calls: Vec<Call>,
    rng: Rng,
    ncalls: HashMap<String, usize>,
    backoff: HashMap<String, (usize, usize, usize)>,
    /// per rule: (source name of the head variable, constructor it is bound to by `(= v (f ..))`)
    head_vars: HashMap<String, Vec<(String, Option<String>)>>,
    /// names the variables have in the canonicalised core rule (`(= v0 (F v1))` renames v0 to a
    /// generated `@F<n>`), found by probing `Match::get_value`
    resolved: HashMap<String, Vec<String>>,
    missing_var: Option<String>,
    variant: bool,
}

#[derive(Clone)]
struct Instr {
    policy: Policy,
    sh: Arc<Mutex<Shared>>,
}

impl Scheduler for Instr {
    fn filter_matches(&mut self, rule: &str, _ruleset: &str, m: &mut Matches) -> bool {
        let mut sh = self.sh.lock().unwrap();
        let n = m.match_size();
        let specs: Vec<(String, Option<String>)> = sh.head_vars.get(rule).cloned().unwrap_or_default();
        let mut tuples: Vec<Vec<Value>> = Vec::with_capacity(n);
        if n > 0 && !specs.is_empty() && !sh.resolved.contains_key(rule) {
            let probe = |nm: &str| -> bool {
                std::panic::catch_unwind(std::panic::AssertUnwindSafe(|| m.get_match(0).get_value(nm))).is_ok()
            };
            let mut names: Vec<String> = Vec::new();
            for (plain, hint) in &specs {
                if probe(plain) {
                    names.push(plain.clone());
                    continue;
                }
                let mut found: Vec<String> = Vec::new();
                if let Some(h) = hint {
                    let c0 = format!("@{h}");
                    if probe(&c0) {
                        found.push(c0);
                    }
                    for k in 0..600 {
                        let c = format!("@{h}{k}");
                        if probe(&c) {
                            found.push(c);
                        }
                    }
                }
                if found.len() == 1 {
                    names.push(found.pop().unwrap());
                } else {
                    sh.missing_var = Some(format!("{rule}:{plain} candidates {:?}", found));
                }
            }
            if names.len() == specs.len() {
                sh.resolved.insert(rule.to_string(), names);
            }
        }
        let names: Option<Vec<String>> = if specs.is_empty() { Some(vec![]) } else { sh.resolved.get(rule).cloned() };
        for i in 0..n {
            match &names {
                Some(names) => {
                    let mt = m.get_match(i);
                    tuples.push(names.iter().map(|nm| mt.get_value(nm)).collect());
                }
                None => tuples.push(vec![]),
            }
        }
        let k = {
            let e = sh.ncalls.entry(rule.to_string()).or_insert(0);
            *e += 1;
            *e
        };
        let mut chosen: Vec<usize> = Vec::new();
        let mut all = false;
        let seek;
        match self.policy {
            Policy::All => {
                if sh.variant {
                    for i in 0..n {
                        chosen.push(i);
                    }
                } else {
                    all = true;
                }
                seek = true;
            }
            Policy::NoneThenAll => {
                if k == 1 {
                    seek = sh.variant;
                } else {
                    all = true;
                    seek = true;
                }
            }
            Policy::Random => {
                for i in 0..n {
                    if sh.rng.chance(1, 2) {
                        chosen.push(i);
                    }
                }
                if !chosen.is_empty() && sh.rng.chance(1, 3) {
                    let d = *sh.rng.pick(&chosen);
                    chosen.push(d);
                }
                // unsorted
                for i in (1..chosen.len()).rev() {
                    let j = sh.rng.below(i + 1);
                    chosen.swap(i, j);
                }
                seek = sh.rng.chance(1, 2);
            }
            Policy::OneAtATime => {
                if n > 0 {
                    let i = if sh.variant { 0 } else { sh.rng.below(n) };
                    chosen.push(i);
                }
                seek = n <= 1;
            }
            Policy::BackOff => {
                let now = sh.step;
                let (limit, ban, until) = *sh.backoff.get(rule).unwrap_or(&(2, 1, 0));
                if now < until {
                    seek = false;
                } else if n > limit {
                    sh.backoff.insert(rule.to_string(), (limit * 2, ban * 2, now + 1 + ban));
                    seek = false;
                } else {
                    all = true;
                    seek = true;
                }
            }
        }
        if all {
            m.choose_all();
        } else {
            for c in &chosen {
                m.choose(*c);
            }
        }
        sh.calls.push(Call { rule: rule.to_string(), n, tuples, chosen, all, seek });
        seek
    }
}

// ------------------------------------------------------------------------------------------
// scenario

#[derive(Clone, Debug)]
enum StepKind {
    Normal,
    NoSuchRuleset,
    Bad,
}

#[derive(Clone, Debug)]
struct StepPlan {
    inject: Vec<Action>,
    kind: StepKind,
}

#[derive(Clone, Debug)]
struct Scenario {
    p: Program,
    setup: Vec<Action>,
    rules: Vec<Rule>,
    /// 0 = none, 1 = (panic "boom"), 2 = failing primitive
    bad: usize,
    bad_fn: usize,
    policy: Policy,
    variant: bool,
    sched_seed: u64,
    steps: Vec<StepPlan>,
    tag: String,
}

fn rule_name(i: usize) -> String {
    format!("r{i}")
}

impl Scenario {
    fn rule_text(&self, i: usize) -> String {
        let r = &self.rules[i];
        format!(
            "(rule ({}) ({}) :ruleset r :name \"{}\")",
            r.body.iter().map(|f| self.p.fact_text(f)).collect::<Vec<_>>().join(" "),
            r.head.iter().map(|a| self.p.action_text(a)).collect::<Vec<_>>().join(" "),
            rule_name(i)
        )
    }
    fn bad_text(&self) -> String {
        let f = &self.p.decls[self.bad_fn].name;
        match self.bad {
            1 => format!("(ruleset bad)\n(rule ((= v0 ({f} v1))) ((panic \"boom\")) :ruleset bad :name \"bad0\")"),
            2 => format!("(ruleset bad)\n(relation Dz (i64))\n(rule ((= v0 ({f} v1))) ((Dz (/ 1 0))) :ruleset bad :name \"bad0\")"),
            _ => String::new(),
        }
    }
    fn text(&self) -> String {
        let mut s = self.p.header();
        s.push_str("(ruleset r)\n");
        for a in &self.setup {
            s.push_str(&self.p.action_text(a));
            s.push('\n');
        }
        for i in 0..self.rules.len() {
            s.push_str(&self.rule_text(i));
            s.push('\n');
        }
        s.push_str(&self.bad_text());
        s.push_str(&format!("\n; scheduler policy {:?} variant={} seed={}\n", self.policy, self.variant, self.sched_seed));
        for (t, st) in self.steps.iter().enumerate() {
            for a in &st.inject {
                s.push_str(&format!("{}\n", self.p.action_text(a)));
            }
            s.push_str(&format!("; step {t}: {:?}\n", st.kind));
        }
        s
    }
}

fn ground_head(g: &mut Gen) -> Vec<Action> {
    let k = g.r.below(3);
    let t1 = g.term(1);
    let t2 = g.term(2);
    match (k, g.rels.first().cloned()) {
        (0, Some(rl)) => vec![Action::Set(rl, vec![t1], Pat::Int(0))],
        (1, _) => vec![Action::Union(t1, t2)],
        _ => vec![Action::Expr(t2)],
    }
}

fn injection(g: &mut Gen, subsume_ok: bool) -> Action {
    let k = g.r.below(100);
    let d = g.r.range(0, 2);
    if k < 45 {
        Action::Union(g.term(d), g.term(d))
    } else if k < 65 {
        Action::Expr(g.term(d + 1))
    } else if k < 75 && !g.rels.is_empty() {
        let rl = g.rels[0];
        Action::Set(rl, vec![g.term(d)], Pat::Int(0))
    } else if k < 82 && !g.funcs.is_empty() {
        let f = g.funcs[0];
        let z = g.r.below(5) as i64;
        Action::Set(f, vec![g.term(d)], Pat::Int(z))
    } else if k < 92 && subsume_ok {
        let f = *g.r.pick(&g.unary.clone());
        Action::Subsume(f, vec![g.term(d)])
    } else if k < 97 && subsume_ok {
        let f = *g.r.pick(&g.unary.clone());
        Action::Delete(f, vec![g.term(d)])
    } else {
        Action::Union(g.term(d), g.term(d))
    }
}

fn generate(seed: u64, ci: u64) -> Scenario {
    let mut r = Rng::for_case(seed, ci);
    let policy = POLICIES[(ci % 5) as usize];
    let bias = match r.below(3) {
        0 => Bias::C01,
        1 => Bias::C13,
        _ => Bias::C03,
    };
    let variant = r.chance(1, 2);
    let sched_seed = r.next();
    let nsteps = r.range(2, 6);
    let mut g = Gen::new(&mut r, bias);
    let subsume_ok = bias == Bias::C13;
    let mut setup = Vec::new();
    let ns = g.r.range(2, 7);
    for _ in 0..ns {
        let d = g.r.range(1, 3);
        let k = g.r.below(10);
        if k < 6 {
            setup.push(Action::Expr(g.term(d)));
        } else if k < 8 {
            setup.push(Action::Union(g.term(d), g.term(d)));
        } else {
            setup.push(injection(&mut g, subsume_ok));
        }
    }
    let mut rules: Vec<Rule> = Vec::new();
    let mut seen: Vec<String> = Vec::new();
    let nr = g.r.range(1, 3);
    for _ in 0..nr {
        let mut rl = g.rule();
        if g.r.chance(1, 4) {
            rl.head = ground_head(&mut g);
        }
        let key = format!("{:?}", rl);
        if !seen.contains(&key) {
            seen.push(key);
            rules.push(rl);
        }
    }
    let bad = if policy != Policy::All && g.r.chance(1, 4) { g.r.range(1, 2) } else { 0 };
    let bad_fn = g.unary[0];
    let mut steps = Vec::new();
    for t in 0..nsteps {
        let ni = if t == 0 { g.r.below(2) } else { g.r.below(3) };
        let mut inject = Vec::new();
        for _ in 0..ni {
            inject.push(injection(&mut g, subsume_ok));
        }
        let kk = g.r.below(12);
        let kind = if policy != Policy::All && kk == 0 {
            StepKind::NoSuchRuleset
        } else if bad != 0 && kk < 4 {
            StepKind::Bad
        } else {
            StepKind::Normal
        };
        steps.push(StepPlan { inject, kind });
    }
    let p = g.p.clone();
    Scenario { p, setup, rules, bad, bad_fn, policy, variant, sched_seed, steps, tag: format!("seed={seed} case={ci}") }
}

/// F7 (DESIGN.md section 4, fixed by /repo c01cd3e): a match held back across a union was applied
/// with stale ids. Kept as a corpus seed that must pass.
fn f7_scenario() -> Scenario {
    let decls = vec![
        Decl { name: "A".into(), kind: Kind::Ctor, args: vec![] },
        Decl { name: "B".into(), kind: Kind::Ctor, args: vec![] },
        Decl { name: "G".into(), kind: Kind::Ctor, args: vec![Sort::S] },
        Decl { name: "Seen".into(), kind: Kind::Rel, args: vec![Sort::S] },
    ];
    let a = Pat::App(0, vec![]);
    let b = Pat::App(1, vec![]);
    Scenario {
        p: Program { decls, cmds: vec![], expect: vec![] },
        setup: vec![Action::Expr(a.clone()), Action::Expr(Pat::App(2, vec![b.clone()]))],
        rules: vec![Rule {
            body: vec![Fact::Eq(0, Pat::App(2, vec![Pat::Var(1)]))],
            head: vec![Action::Set(3, vec![Pat::Var(1)], Pat::Int(0))],
        }],
        bad: 0,
        bad_fn: 2,
        policy: Policy::NoneThenAll,
        variant: false,
        sched_seed: 1,
        steps: vec![
            StepPlan { inject: vec![], kind: StepKind::Normal },
            StepPlan { inject: vec![Action::Union(a, b)], kind: StepKind::Normal },
        ],
        tag: "corpus F7".into(),
    }
}

// ------------------------------------------------------------------------------------------
// independent naive matcher over a dump (non-subsumed rows only)

type Env = BTreeMap<usize, V>;

fn int_of(e: &Env, p: &Pat) -> Option<i64> {
    match p {
        Pat::Var(x) => match e.get(x) {
            Some(V::Int(z)) => Some(*z),
            _ => None,
        },
        Pat::Int(z) => Some(*z),
        Pat::Add(a, b) => Some(int_of(e, a)?.wrapping_add(int_of(e, b)?)),
        Pat::App(..) => None,
    }
}
fn bind(e: &Env, x: usize, v: &V) -> Option<Env> {
    match e.get(&x) {
        None => {
            let mut e2 = e.clone();
            e2.insert(x, v.clone());
            Some(e2)
        }
        Some(w) if w == v => Some(e.clone()),
        _ => None,
    }
}
fn m_pat(d: &Dump, p: &Pat, v: &V, e: &Env) -> Vec<Env> {
    match p {
        Pat::Var(x) => bind(e, *x, v).into_iter().collect(),
        Pat::Int(z) => if *v == V::Int(*z) { vec![e.clone()] } else { vec![] },
        Pat::Add(..) => match int_of(e, p) {
            Some(z) if *v == V::Int(z) => vec![e.clone()],
            _ => vec![],
        },
        Pat::App(f, ps) => {
            let mut out = Vec::new();
            for row in &d.tables[*f] {
                if !row.sub && row.ret == *v {
                    out.extend(m_args(d, ps, &row.args, e));
                }
            }
            out
        }
    }
}
fn m_args(d: &Dump, ps: &[Pat], vs: &[V], e: &Env) -> Vec<Env> {
    if ps.len() != vs.len() {
        return vec![];
    }
    let mut envs = vec![e.clone()];
    for (p, v) in ps.iter().zip(vs.iter()) {
        let mut next = Vec::new();
        for e1 in &envs {
            next.extend(m_pat(d, p, v, e1));
        }
        envs = next;
    }
    envs
}
fn m_atom(d: &Dump, x: Option<usize>, p: &Pat, e: &Env) -> Vec<Env> {
    let mut out = Vec::new();
    if let Pat::App(f, ps) = p {
        for row in &d.tables[*f] {
            if row.sub {
                continue;
            }
            for e1 in m_args(d, ps, &row.args, e) {
                match x {
                    Some(x) => out.extend(bind(&e1, x, &row.ret)),
                    None => out.push(e1),
                }
            }
        }
    }
    out
}
fn m_body(d: &Dump, body: &[Fact]) -> Vec<Env> {
    let mut envs = vec![Env::new()];
    for f in body {
        let mut next = Vec::new();
        for e in &envs {
            match f {
                Fact::Eq(x, p) => next.extend(m_atom(d, Some(*x), p, e)),
                Fact::Pat(p) => next.extend(m_atom(d, None, p, e)),
                Fact::Lt(a, b) => {
                    if let (Some(x), Some(y)) = (int_of(e, a), int_of(e, b)) {
                        if x < y {
                            next.push(e.clone());
                        }
                    }
                }
                Fact::Neq(a, b) => {
                    if let (Some(x), Some(y)) = (int_of(e, a), int_of(e, b)) {
                        if x != y {
                            next.push(e.clone());
                        }
                    }
                }
            }
        }
        envs = next;
    }
    envs
}

fn pat_vars(p: &Pat, out: &mut Vec<usize>) {
    match p {
        Pat::Var(x) => {
            if !out.contains(x) {
                out.push(*x)
            }
        }
        Pat::App(_, a) => a.iter().for_each(|q| pat_vars(q, out)),
        Pat::Add(a, b) => {
            pat_vars(a, out);
            pat_vars(b, out)
        }
        Pat::Int(_) => {}
    }
}
fn head_vars(r: &Rule) -> Vec<usize> {
    let mut out = Vec::new();
    for a in &r.head {
        match a {
            Action::Expr(p) => pat_vars(p, &mut out),
            Action::Union(p, q) => {
                pat_vars(p, &mut out);
                pat_vars(q, &mut out)
            }
            Action::Set(_, args, v) => {
                args.iter().for_each(|q| pat_vars(q, &mut out));
                pat_vars(v, &mut out)
            }
            Action::Subsume(_, args) | Action::Delete(_, args) => args.iter().for_each(|q| pat_vars(q, &mut out)),
            Action::Panic => {}
        }
    }
    out.sort();
    out
}
fn out_sort(d: &Decl) -> Sort {
    match d.kind {
        Kind::Ctor => Sort::S,
        _ => Sort::I,
    }
}
fn pat_sorts(p: &Program, pat: &Pat, expect: &Sort, out: &mut HashMap<usize, Sort>) {
    match pat {
        Pat::Var(x) => {
            out.insert(*x, expect.clone());
        }
        Pat::App(f, args) => {
            for (a, s) in args.iter().zip(p.decls[*f].args.iter()) {
                pat_sorts(p, a, s, out)
            }
        }
        Pat::Add(a, b) => {
            pat_sorts(p, a, &Sort::I, out);
            pat_sorts(p, b, &Sort::I, out)
        }
        Pat::Int(_) => {}
    }
}
fn var_sorts(p: &Program, r: &Rule) -> HashMap<usize, Sort> {
    let mut out = HashMap::new();
    for f in &r.body {
        match f {
            Fact::Eq(x, pat) => {
                if let Pat::App(g, _) = pat {
                    out.insert(*x, out_sort(&p.decls[*g]));
                    pat_sorts(p, pat, &Sort::S, &mut out);
                }
            }
            Fact::Pat(pat) => pat_sorts(p, pat, &Sort::S, &mut out),
            Fact::Lt(a, b) | Fact::Neq(a, b) => {
                pat_sorts(p, a, &Sort::I, &mut out);
                pat_sorts(p, b, &Sort::I, &mut out)
            }
        }
    }
    out
}

fn eval_env(ix: &[HashMap<Vec<V>, V>], p: &Pat, e: &Env) -> Option<V> {
    match p {
        Pat::Var(x) => e.get(x).cloned(),
        Pat::Int(z) => Some(V::Int(*z)),
        Pat::Add(..) => int_of(e, p).map(V::Int),
        Pat::App(f, args) => {
            let mut vs = Vec::new();
            for a in args {
                vs.push(eval_env(ix, a, e)?);
            }
            ix[*f].get(&vs).cloned()
        }
    }
}

/// does the head action hold in the (canonical) dump under the (canonicalised) environment?
fn head_holds(p: &Program, ix: &[HashMap<Vec<V>, V>], a: &Action, e: &Env) -> Option<String> {
    match a {
        Action::Expr(t) => {
            if eval_env(ix, t, e).is_none() {
                return Some(format!("{} is not represented", p.action_text(a)));
            }
        }
        Action::Union(x, y) => {
            let (vx, vy) = (eval_env(ix, x, e), eval_env(ix, y, e));
            if vx.is_none() || vx != vy {
                return Some(format!("{} does not hold ({:?} vs {:?})", p.action_text(a), vx, vy));
            }
        }
        Action::Set(f, args, v) => {
            let got = eval_env(ix, &Pat::App(*f, args.clone()), e);
            match (&p.decls[*f].kind, got, eval_env(ix, v, e)) {
                (_, None, _) => return Some(format!("{} has no row", p.action_text(a))),
                (Kind::Func(Merge::Min), Some(V::Int(s)), Some(V::Int(w))) if s > w => {
                    return Some(format!("{}: stored {s} > written {w} under min", p.action_text(a)))
                }
                (Kind::Func(Merge::Max), Some(V::Int(s)), Some(V::Int(w))) if s < w => {
                    return Some(format!("{}: stored {s} < written {w} under max", p.action_text(a)))
                }
                _ => {}
            }
        }
        _ => {}
    }
    None
}

fn sorted<T: Ord + Clone>(v: &[T]) -> Vec<T> {
    let mut w = v.to_vec();
    w.sort();
    w
}
fn count<T: PartialEq>(v: &[T], x: &T) -> usize {
    v.iter().filter(|y| *y == x).count()
}

fn twin_instantiate<T: Clone>(m: &[T], chosen: &[usize], all: bool) -> Vec<T> {
    if all {
        return vec![];
    }
    let mut cs = chosen.to_vec();
    cs.sort();
    cs.dedup();
    let mut v = m.to_vec();
    let mut p = v.len();
    for &c in cs.iter().rev() {
        p -= 1;
        if c != p {
            v.swap(c, p);
        }
    }
    v.truncate(p);
    v
}

fn v_coq(v: &V) -> String {
    match v {
        V::Id(i) => format!("VId {i}"),
        V::Int(z) => format!("VInt {}", coq_z(*z)),
    }
}
fn dump_coq(d: &Dump) -> String {
    coq_list(&d.tables, |t| {
        coq_list(t, |r| format!("mkRow {} ({}) {}", coq_list(&r.args, v_coq), v_coq(&r.ret), coq_bool(r.sub)))
    })
}
fn tuples_coq(ts: &[Vec<V>]) -> String {
    coq_list(ts, |t| coq_list(t, v_coq))
}

struct Viol {
    what: String,
    key: String,
    sc: String,
    tag: String,
    case: u64,
    step: usize,
}

#[derive(Default)]
struct Track {
    /// the residual the harness expects the engine to hold (exact order by the twin), with the
    /// step at which each tuple was first offered
    residual: Vec<(Vec<Value>, usize)>,
    sought: bool,
    first_seek_done: bool,
    history: Vec<Vec<V>>,
    /// pending instantiate case: (labels of offered, chosen, all)
    pending_inst: Option<(Vec<Vec<Value>>, Vec<usize>, bool)>,
}

struct Stats {
    policy_hist: BTreeMap<String, usize>,
    step_hist: BTreeMap<String, usize>,
    inject_hist: BTreeMap<String, usize>,
    offered_hist: BTreeMap<String, usize>,
    err_hist: BTreeMap<String, usize>,
    delayed_applied: usize,
    delayed_stale_applied: usize,
    varfree_calls: usize,
    first_seek_exact: usize,
    first_seek_total: usize,
    inst_cases: usize,
    off_cases: usize,
    twin_evals: usize,
    lockstep_compares: usize,
    head_checks: usize,
    missing_var: usize,
    offered_total: usize,
    dup_choice_calls: usize,
    reoffer_canon_checks: usize,
}

fn bucket(n: usize) -> String {
    match n {
        0 => "0".into(),
        1 => "1".into(),
        2..=3 => "2-3".into(),
        4..=7 => "4-7".into(),
        _ => "8+".into(),
    }
}

fn run_scenario(sc: &Scenario, ci: u64, w: &mut CaseWriter, viols: &mut Vec<Viol>, st: &mut Stats) -> bool {
    let p = &sc.p;
    let text = sc.text();
    let mut nontrivial = false;
    let viol = |what: String, key: &str, step: usize, viols: &mut Vec<Viol>| {
        viols.push(Viol { what, key: key.to_string(), sc: text.clone(), tag: sc.tag.clone(), case: ci, step });
    };
    let mut eg = EGraph::default();
    let mut setup_text = p.header();
    setup_text.push_str("(ruleset r)\n");
    let (r0, _) = step(&mut eg, &setup_text);
    if let Err(e) = r0 {
        viol(format!("harness: header rejected: {e}"), "harness-header", 0, viols);
        return false;
    }
    for a in &sc.setup {
        let (r, pn) = step(&mut eg, &p.action_text(a));
        if pn {
            viol(format!("engine panicked in setup: {:?}", r.err()), "engine-panic", 0, viols);
            return false;
        }
    }
    for i in 0..sc.rules.len() {
        let (r, _) = step(&mut eg, &sc.rule_text(i));
        if let Err(e) = r {
            viol(format!("harness: rule rejected: {e}: {}", sc.rule_text(i)), "harness-rule", 0, viols);
            return false;
        }
    }
    if sc.bad != 0 {
        let (r, _) = step(&mut eg, &sc.bad_text());
        if let Err(e) = r {
            viol(format!("harness: bad rule rejected: {e}"), "harness-rule", 0, viols);
            return false;
        }
    }
    let mut hv: HashMap<String, Vec<(String, Option<String>)>> = HashMap::new();
    let mut hvars: HashMap<String, Vec<usize>> = HashMap::new();
    let mut vsorts: HashMap<String, HashMap<usize, Sort>> = HashMap::new();
    for (i, r) in sc.rules.iter().enumerate() {
        let vs = head_vars(r);
        hv.insert(
            rule_name(i),
            vs.iter()
                .map(|x| {
                    let hint = r.body.iter().find_map(|f| match f {
                        Fact::Eq(y, Pat::App(g, _)) if y == x => Some(p.decls[*g].name.clone()),
                        _ => None,
                    });
                    (format!("v{x}"), hint)
                })
                .collect(),
        );
        hvars.insert(rule_name(i), vs);
        vsorts.insert(rule_name(i), var_sorts(p, r));
    }
    hv.insert("bad0".into(), vec![]);
    let sh = Arc::new(Mutex::new(Shared {
        step: 0,
        calls: vec![],
        rng: Rng::new(sc.sched_seed),
        ncalls: HashMap::new(),
        backoff: HashMap::new(),
        head_vars: hv,
        resolved: HashMap::new(),
        missing_var: None,
        variant: sc.variant,
    }));
    let sid = eg.add_scheduler(Box::new(Instr { policy: sc.policy, sh: sh.clone() }));
    // built-in twin for the choose-all policy: same history, `step_rules` instead
    let mut twin: Option<EGraph> = if sc.policy == Policy::All { Some(eg.clone()) } else { None };
    let probes = enumerate_probes(p, 3, 30, &[0, 1, 2]);
    let mut iprobes: Vec<Pat> = Vec::new();
    for (f, d) in p.decls.iter().enumerate() {
        if d.kind != Kind::Ctor {
            for t in probes.iter().filter(|t| pat_size(t) <= 3).take(6) {
                iprobes.push(Pat::App(f, vec![t.clone()]));
            }
        }
    }
    let mut tracks: HashMap<String, Track> = HashMap::new();
    for i in 0..sc.rules.len() {
        tracks.insert(rule_name(i), Track { sought: true, ..Default::default() });
    }
    tracks.insert("bad0".into(), Track { sought: true, ..Default::default() });
    *st.policy_hist.entry(format!("{:?}", sc.policy)).or_insert(0) += 1;
    let mut after_error = false;

    for (t, plan) in sc.steps.iter().enumerate() {
        for a in &plan.inject {
            let at = p.action_text(a);
            *st.inject_hist
                .entry(
                    match a {
                        Action::Union(..) => "union",
                        Action::Expr(_) => "insert",
                        Action::Set(..) => "set",
                        Action::Subsume(..) => "subsume",
                        Action::Delete(..) => "delete",
                        Action::Panic => "panic",
                    }
                    .into(),
                )
                .or_insert(0) += 1;
            let (r, pn) = step(&mut eg, &at);
            if pn {
                viol(format!("engine panicked on injected `{at}`: {:?}", r.err()), "engine-panic", t, viols);
                return nontrivial;
            }
            if let Some(b) = twin.as_mut() {
                let _ = step(b, &at);
            }
        }
        let pre = match dump(&eg, p) {
            Ok(d) => d,
            Err(e) => {
                viol(format!("dump failed before step {t}: {e}"), "dump-failed", t, viols);
                return nontrivial;
            }
        };
        // which residual tuples hold an id that is no longer canonical (an intervening union)?
        let mut stale: HashMap<String, Vec<bool>> = HashMap::new();
        for (name, tr) in tracks.iter() {
            let sorts = vsorts.get(name);
            let vars = hvars.get(name);
            let flags = tr
                .residual
                .iter()
                .map(|(tu, _)| match (sorts, vars) {
                    (Some(so), Some(vs)) => tu.iter().zip(vs.iter()).any(|(v, x)| {
                        so.get(x) == Some(&Sort::S) && canon_u32(&eg, v.rep()) != v.rep()
                    }),
                    _ => false,
                })
                .collect();
            stale.insert(name.clone(), flags);
        }
        // earlier offers modulo the union-find as it is just before the step
        let mut hist_pre: HashMap<String, Vec<Vec<V>>> = HashMap::new();
        for (name, tr) in tracks.iter() {
            hist_pre.insert(
                name.clone(),
                tr.history
                    .iter()
                    .map(|tu| tu.iter().map(|v| match v { V::Id(i) => V::Id(canon_u32(&eg, *i)), o => o.clone() }).collect())
                    .collect(),
            );
        }
        // snapshot for "held-back matches are offered with canonical ids" (only when something is held back)
        let pre_eg: Option<EGraph> = if tracks.values().any(|tr| !tr.residual.is_empty()) { Some(eg.clone()) } else { None };
        {
            let mut s = sh.lock().unwrap();
            s.step = t;
        }
        let ncalls0 = sh.lock().unwrap().calls.len();
        let ruleset = match plan.kind {
            StepKind::Normal => "r",
            StepKind::NoSuchRuleset => "nosuch",
            StepKind::Bad => "bad",
        };
        *st.step_hist.entry(format!("{:?}", plan.kind)).or_insert(0) += 1;
        let res = std::panic::catch_unwind(std::panic::AssertUnwindSafe(|| eg.step_rules_with_scheduler(sid, ruleset)));
        let calls: Vec<Call> = sh.lock().unwrap().calls[ncalls0..].to_vec();
        let step_ok = match &res {
            Ok(Ok(_)) => true,
            Ok(Err(e)) => {
                *st.err_hist.entry(format!("{:?}:{}", plan.kind, classify_error(&format!("{e}")))).or_insert(0) += 1;
                false
            }
            Err(_) => {
                *st.err_hist.entry(format!("{:?}:PANIC", plan.kind)).or_insert(0) += 1;
                false
            }
        };
        match (&plan.kind, &res) {
            (_, Err(_)) => {
                let key = if after_error { "C18-error-not-restored" } else { "engine-panic" };
                viol(format!("step {t} ({ruleset}) panicked inside step_rules_with_scheduler{}", if after_error { " after an earlier failed step" } else { "" }), key, t, viols);
                return nontrivial;
            }
            (StepKind::NoSuchRuleset, Ok(Ok(_))) => {
                viol(format!("step {t}: stepping an unknown ruleset succeeded"), "C18-unknown-ruleset-ok", t, viols);
                return nontrivial;
            }
            (StepKind::Normal, Ok(Err(e))) => {
                let key = if after_error { "C18-error-not-restored" } else { "C18-step-error" };
                viol(format!("step {t} on ruleset r failed{}: {e}", if after_error { " after an earlier failed step (rulesets / schedulers not put back?)" } else { "" }), key, t, viols);
                return nontrivial;
            }
            _ => {}
        }
        if !step_ok {
            after_error = true;
            nontrivial = true;
            // the rest of the engine must still work
            let (r, pn) = step(&mut eg, "(run r 0)");
            if pn || r.is_err() {
                viol(format!("after the failed step {t} ({ruleset}) `(run r 0)` fails: {:?}", r.err()), "C18-error-not-restored", t, viols);
                return nontrivial;
            }
        }
        let post = match dump(&eg, p) {
            Ok(d) => d,
            Err(e) => {
                viol(format!("dump failed after step {t}: {e}"), "dump-failed", t, viols);
                return nontrivial;
            }
        };
        if let Some(mv) = sh.lock().unwrap().missing_var.clone() {
            st.missing_var += 1;
            if std::env::var("C18_DEBUG").is_ok() { eprintln!("missing var {mv} in\n{}", text); }
            return nontrivial;
        }
        // ---- per call: offered / no-loss predicates, bookkeeping -------------------------------
        let mut any_chosen = false;
        let mut applied: Vec<(String, Vec<Value>, bool, bool)> = Vec::new(); // rule, tuple, delayed, stale
        for c in &calls {
            let tr = tracks.get_mut(&c.rule).expect("track");
            st.offered_total += c.n;
            *st.offered_hist.entry(bucket(c.n)).or_insert(0) += 1;
            let is_bad = c.rule == "bad0";
            let vars: Vec<usize> = hvars.get(&c.rule).cloned().unwrap_or_default();
            if vars.is_empty() {
                st.varfree_calls += 1;
            }
            let rl = tr.residual.len();
            // compare held-back tuples modulo the current union-find (a repaired engine may
            // re-canonicalise what it holds; the property speaks of matches modulo equality)
            let csorts: HashMap<usize, Sort> = vsorts.get(&c.rule).cloned().unwrap_or_default();
            let cz = |tu: &Vec<Value>| -> Vec<u32> {
                tu.iter()
                    .zip(vars.iter())
                    .map(|(v, x)| if csorts.get(x) == Some(&Sort::S) { canon_u32(&eg, v.rep()) } else { v.rep() })
                    .collect()
            };
            // no loss: the expected residual is offered again
            let exp: Vec<Vec<Value>> = tr.residual.iter().map(|x| x.0.clone()).collect();
            if c.n < rl || {
                let off: Vec<Vec<u32>> = c.tuples.iter().map(&cz).collect();
                let ex: Vec<Vec<u32>> = exp.iter().map(&cz).collect();
                ex.iter().any(|t| count(&off, t) < count(&ex, t))
            } {
                viol(
                    format!(
                        "step {t} rule {}: {} matches were held back by the scheduler, but only {} matches are offered now and some held-back match is missing",
                        c.rule, rl, c.n
                    ),
                    "C18-lost-match",
                    t,
                    viols,
                );
                return nontrivial;
            }
            // held-back matches are offered (and applied) modulo the equalities that hold now:
            // every id of the re-offered residual is its own representative before the step
            if let Some(pe) = &pre_eg {
                for tu in c.tuples[..rl].iter() {
                    st.reoffer_canon_checks += 1;
                    if let Some((v, _)) = tu.iter().zip(vars.iter()).find(|(v, x)| csorts.get(x) == Some(&Sort::S) && canon_u32(pe, v.rep()) != v.rep()) {
                        viol(
                            format!(
                                "step {t} rule {}: a match held back by the scheduler is offered again with the displaced id {} (canonical {}): it would be applied with the ids it had when it was first offered",
                                c.rule, v.rep(), canon_u32(pe, v.rep())
                            ),
                            "F7-scheduler-stale-ids",
                            t,
                            viols,
                        );
                        return nontrivial;
                    }
                }
            }
            // the model case for the previous instantiate: exact residual order
            if let Some((m, chosen, all)) = tr.pending_inst.take() {
                let mut dict: Vec<Vec<u32>> = Vec::new();
                let lab = |tu: &Vec<Value>, dict: &mut Vec<Vec<u32>>, add: bool| -> usize {
                    let k: Vec<u32> = cz(tu);
                    match dict.iter().position(|d| *d == k) {
                        Some(i) => i,
                        None => {
                            if add {
                                dict.push(k);
                                dict.len() - 1
                            } else {
                                4999
                            }
                        }
                    }
                };
                let ml: Vec<usize> = m.iter().map(|tu| lab(tu, &mut dict, true)).collect();
                let nl: Vec<usize> = c.tuples[..rl].iter().map(|tu| lab(tu, &mut dict, false)).collect();
                w.push(format!("(CInst {} {} {} {})", coq_nat_list(&ml), coq_nat_list(&chosen), coq_bool(all), coq_nat_list(&nl)));
                st.inst_cases += 1;
            }
            let fresh_raw: Vec<Vec<Value>> = c.tuples[rl..].to_vec();
            if !is_bad {
                let ri: usize = c.rule[1..].parse().unwrap();
                let rule = &sc.rules[ri];
                let sorts = &vsorts[&c.rule];
                let conv_t = |tu: &Vec<Value>| -> Vec<V> {
                    tu.iter().zip(vars.iter()).map(|(v, x)| conv(&eg, *v, sorts.get(x).unwrap_or(&Sort::S))).collect()
                };
                if tr.sought {
                    let fresh: Vec<Vec<V>> = fresh_raw.iter().map(conv_t).collect();
                    let envs = m_body(&pre, &rule.body);
                    let naive: Vec<Vec<V>> = envs.iter().map(|e| vars.iter().map(|x| e.get(x).cloned().unwrap_or(V::Int(-777))).collect()).collect();
                    let hist: &Vec<Vec<V>> = &hist_pre[&c.rule];
                    for f in &fresh {
                        if !naive.contains(f) {
                            viol(
                                format!("step {t} rule {}: the scheduler was offered {:?} for {:?}, which is not a match of the body over the non-subsumed rows", c.rule, f, vars),
                                "C18-offered-nonmatch",
                                t,
                                viols,
                            );
                            return nontrivial;
                        }
                        if count(&fresh, f) > count(&naive, f) {
                            viol(
                                format!("step {t} rule {}: {:?} offered {} times in one query but matches {} times", c.rule, f, count(&fresh, f), count(&naive, f)),
                                "C18-offered-twice",
                                t,
                                viols,
                            );
                            return nontrivial;
                        }
                    }
                    for m in &naive {
                        if !fresh.contains(m) && !hist.contains(m) {
                            viol(
                                format!("step {t} rule {}: {:?} for {:?} matches the body but was never offered to the scheduler", c.rule, m, vars),
                                "C18-not-offered",
                                t,
                                viols,
                            );
                            return nontrivial;
                        }
                    }
                    let first = !tr.first_seek_done;
                    if first {
                        st.first_seek_total += 1;
                        if sorted(&fresh) == sorted(&naive) {
                            st.first_seek_exact += 1;
                        } else if std::env::var("C18_DEBUG").is_ok() {
                            eprintln!("first seek differs: rule {} fresh {:?} naive {:?} prior calls {}\n{}", c.rule, sorted(&fresh), sorted(&naive), rl, text);
                        }
                    }
                    tr.first_seek_done = true;
                    // model case: match_body on the dumped tables
                    if pre.tables.iter().map(|t| t.len()).sum::<usize>() <= 60 {
                        w.push(format!(
                            "(COff {} {} {} {} {})",
                            dump_coq(&pre),
                            coq_list(&rule.body, Program::fact_coq),
                            coq_nat_list(&vars),
                            tuples_coq(&fresh),
                            tuples_coq(hist)
                        ));
                        st.off_cases += 1;
                    }
                    for f in &fresh {
                        tr.history.push(f.clone());
                    }
                }
            }
            // bookkeeping of what the engine must now hold
            let mut offered: Vec<(Vec<Value>, usize)> = tr.residual.clone();
            for f in &fresh_raw {
                offered.push((f.clone(), t));
            }
            let idxs: Vec<usize> = if c.all { (0..c.n).collect() } else { c.chosen.iter().cloned().collect::<std::collections::BTreeSet<_>>().into_iter().collect() };
            if !c.all && c.chosen.len() != idxs.len() {
                st.dup_choice_calls += 1;
            }
            for i in &idxs {
                any_chosen = true;
                let (tu, when) = &offered[*i];
                let delayed = *when < t;
                let is_stale = delayed && *i < rl && stale.get(&c.rule).map(|f| f[*i]).unwrap_or(false);
                if delayed {
                    st.delayed_applied += 1;
                    nontrivial = true;
                }
                if is_stale {
                    st.delayed_stale_applied += 1;
                }
                applied.push((c.rule.clone(), tu.clone(), delayed, is_stale));
            }
            tr.pending_inst = Some((offered.iter().map(|x| x.0.clone()).collect(), c.chosen.clone(), c.all));
            tr.residual = twin_instantiate(&offered, &c.chosen, c.all);
            tr.sought = c.seek;
        }
        let any_stale = applied.iter().any(|a| a.3);
        // ---- C04 invariant after every step ----------------------------------------------------
        st.twin_evals += 1;
        if let Some(msg) = post.invariant(&eg, p) {
            let key = if any_stale && msg.contains("non-canonical") { "F7-scheduler-stale-ids" } else { "C18-invariant" };
            viol(
                format!(
                    "after step {t} ({ruleset}, {}): {msg}{}",
                    if step_ok { "ok" } else { "failed" },
                    if any_stale { " -- a match held back by the scheduler across a union was applied in this step with the ids it had when it was offered" } else { "" }
                ),
                key,
                t,
                viols,
            );
            return nontrivial;
        }
        // ---- applied: nothing chosen => nothing changed; chosen heads hold ------------------
        if step_ok && !any_chosen {
            let norm = |d: &Dump| -> Vec<Vec<(Vec<V>, V, bool)>> {
                d.tables.iter().map(|t| sorted(&t.iter().map(|r| (r.args.clone(), r.ret.clone(), r.sub)).collect::<Vec<_>>())).collect()
            };
            if norm(&pre) != norm(&post) {
                viol(format!("step {t}: the scheduler chose no match but the database changed"), "C18-unchosen-applied", t, viols);
                return nontrivial;
            }
        }
        if step_ok {
            let ix = post.index();
            for (rname, tu, _delayed, is_stale) in &applied {
                if rname == "bad0" {
                    continue;
                }
                let ri: usize = rname[1..].parse().unwrap();
                let rule = &sc.rules[ri];
                let vars = &hvars[rname];
                let sorts = &vsorts[rname];
                let mut e = Env::new();
                for (v, x) in tu.iter().zip(vars.iter()) {
                    let vv = match conv(&eg, *v, sorts.get(x).unwrap_or(&Sort::S)) {
                        V::Id(i) => V::Id(canon_u32(&eg, i)),
                        o => o,
                    };
                    e.insert(*x, vv);
                }
                for a in &rule.head {
                    st.head_checks += 1;
                    if let Some(msg) = head_holds(p, &ix, a, &e) {
                        let key = if *is_stale { "F7-scheduler-stale-ids" } else { "C18-chosen-not-applied" };
                        viol(
                            format!("after step {t}: rule {rname} was applied for the chosen match {:?} (canonical now) but {msg}", e),
                            key,
                            t,
                            viols,
                        );
                        return nontrivial;
                    }
                }
            }
        }
        // ---- choose-all == built-in stepping, in lockstep -------------------------------------
        if let Some(b) = twin.as_mut() {
            let rb = std::panic::catch_unwind(std::panic::AssertUnwindSafe(|| b.step_rules("r")));
            let okb = matches!(rb, Ok(Ok(_)));
            st.lockstep_compares += 1;
            match dump(b, p) {
                Ok(db) => {
                    let (oa, ob) = (post.observe(&probes, &iprobes), db.observe(&probes, &iprobes));
                    if okb != step_ok || oa != ob {
                        viol(
                            format!(
                                "step {t}: a scheduler that chooses every match differs from step_rules on a clone: scheduler {} sizes {:?} classes {:?}; built-in {} sizes {:?} classes {:?}",
                                if step_ok { "ok" } else { "failed" }, oa.sizes, oa.classes, if okb { "ok" } else { "failed" }, ob.sizes, ob.classes
                            ),
                            "C18-all-vs-builtin",
                            t,
                            viols,
                        );
                        return nontrivial;
                    }
                    if oa.sizes != pre.tables.iter().map(|t| t.len()).collect::<Vec<_>>() {
                        nontrivial = true;
                    }
                }
                Err(e) => {
                    viol(format!("twin dump failed: {e}"), "dump-failed", t, viols);
                    return nontrivial;
                }
            }
        }
    }
    nontrivial
}

#[derive(Clone)]
struct ChooseAllPlain;
impl Scheduler for ChooseAllPlain {
    fn filter_matches(&mut self, _rule: &str, _ruleset: &str, m: &mut Matches) -> bool {
        m.choose_all();
        true
    }
}

/// fixed scenarios outside the generator's shape (one scheduler, several rulesets / snapshots /
/// errors raised by the chosen matches themselves)
fn fixed_probes(viols: &mut Vec<Viol>) -> usize {
    let mut n = 0;
    let mut push = |what: String, key: &str, sc: &str| {
        viols.push(Viol { what, key: key.into(), sc: sc.into(), tag: "fixed".into(), case: 0, step: 0 });
    };
    // (a) rule names are unique per ruleset only: two rulesets, both with a rule named "r"
    {
        n += 1;
        let prog = "(ruleset a)\n(ruleset b)\n(relation R (i64))\n(relation S (i64))\n(relation T (i64))\n(rule ((R x)) ((S x)) :ruleset a :name \"r\")\n(rule ((R x)) ((T x)) :ruleset b :name \"r\")\n(R 1)\n(R 2)";
        let mut eg = egglog::EGraph::default();
        eg.parse_and_run_program(None, prog).unwrap();
        let sid = eg.add_scheduler(Box::new(ChooseAllPlain));
        for rs in ["a", "a", "b", "b"] {
            let _ = eg.step_rules_with_scheduler(sid, rs);
        }
        let (s, t) = (eg.get_size("S"), eg.get_size("T"));
        if s != 2 || t != 2 {
            push(format!("one choose-all scheduler stepping rulesets a and b (both hold a rule named \"r\"): S has {s} rows and T has {t}, both must have 2 (every match is offered)"), "C18-same-rule-name-two-rulesets", prog);
        }
    }
    // (b) a match chosen by the scheduler whose action fails stays pending and is applied once the
    //     cause is repaired by a write between steps
    {
        n += 1;
        let prog = "(ruleset test)\n(function f (i64) i64 :no-merge)\n(relation R (i64))\n(relation S (i64))\n(rule ((R x)) ((S (f x))) :ruleset test :name \"r\" :naive)\n(R 1) (R 2) (R 3) (R 4) (R 5)\n(set (f 1) 10) (set (f 2) 20) (set (f 4) 40) (set (f 5) 50)";
        let mut eg = egglog::EGraph::default();
        eg.parse_and_run_program(None, prog).unwrap();
        let sid = eg.add_scheduler(Box::new(ChooseAllPlain));
        let first = eg.step_rules_with_scheduler(sid, "test");
        let _ = eg.parse_and_run_program(None, "(set (f 3) 30)");
        for _ in 0..2 {
            let _ = eg.step_rules_with_scheduler(sid, "test");
        }
        let s = eg.get_size("S");
        if first.is_ok() || s != 5 {
            push(format!("rule (R x) => (S (f x)) with (f 3) missing: first step {}; after (set (f 3) 30) and two more steps S has {s} rows, must have 5 (a chosen match is not dropped by an error raised mid-step)", if first.is_ok() { "succeeded (must fail)" } else { "failed as expected" }), "C18-chosen-match-lost-after-error", prog);
        }
    }
    // (c) push/pop between steps: the scheduler keeps being offered new matches
    {
        n += 1;
        let prog = "(ruleset t)\n(relation R (i64))\n(relation S (i64))\n(rule ((R x)) ((S x)) :ruleset t :name \"r\")\n(R 1)";
        let mut eg = egglog::EGraph::default();
        eg.parse_and_run_program(None, prog).unwrap();
        let sid = eg.add_scheduler(Box::new(ChooseAllPlain));
        for _ in 0..2 {
            let _ = eg.step_rules_with_scheduler(sid, "t");
        }
        let _ = eg.parse_and_run_program(None, "(push)\n(pop)\n(R 3)");
        for _ in 0..3 {
            let _ = eg.step_rules_with_scheduler(sid, "t");
        }
        let s = eg.get_size("S");
        if s != 2 {
            push(format!("after (push) (pop) (R 3) and three more steps of a choose-all scheduler S has {s} rows, must have 2: the restored e-graph's query rule collects matches into a buffer the scheduler record no longer reads"), "C18-pushpop-disconnects-scheduler", &format!("{prog}\n;; steps, then (push) (pop) (R 3), steps"));
        }
    }
    n
}

fn main() {
    let o = verif_harness::parse_opts();
    let mut ncases_override: Option<usize> = None;
    let mut i = 0;
    while i < o.extra.len() {
        if o.extra[i] == "--cases" {
            ncases_override = Some(o.extra[i + 1].parse::<usize>().expect("cases"));
            i += 1;
        }
        i += 1;
    }
    let header = "From Coq Require Import List ZArith NArith.\nImport ListNotations.\nRequire Import Verif.Base.Cases Verif.Egg.Model Verif.Egg.Rules Verif.Sched.Scheduler.\n";
    let mut w = CaseWriter::new(&o.out, "cases_sched2", header, "check_scase", 300);
    let ncases = ncases_override.unwrap_or(if o.thorough { 5000 } else { 300 });
    std::panic::set_hook(Box::new(|_| {}));
    let mut viols: Vec<Viol> = Vec::new();
    let mut st = Stats {
        policy_hist: BTreeMap::new(),
        step_hist: BTreeMap::new(),
        inject_hist: BTreeMap::new(),
        offered_hist: BTreeMap::new(),
        err_hist: BTreeMap::new(),
        delayed_applied: 0,
        delayed_stale_applied: 0,
        varfree_calls: 0,
        first_seek_exact: 0,
        first_seek_total: 0,
        inst_cases: 0,
        off_cases: 0,
        twin_evals: 0,
        lockstep_compares: 0,
        head_checks: 0,
        missing_var: 0,
        offered_total: 0,
        dup_choice_calls: 0,
        reoffer_canon_checks: 0,
    };
    let fixed_n = if o.replay.is_none() { fixed_probes(&mut viols) } else { 0 };
    let mut scenarios: Vec<(Scenario, u64)> = Vec::new();
    if let Some(path) = &o.replay {
        let txt = std::fs::read_to_string(path).expect("replay");
        let v: serde_json::Value = serde_json::from_str(&txt).expect("json");
        let viol = if v.get("violation").is_some() { &v["violation"] } else { &v };
        let inp = if viol.get("input").is_some() { &viol["input"] } else { viol };
        if inp["fixed"].as_str() == Some("F7") {
            scenarios.push((f7_scenario(), 0));
        } else {
            let seed = inp["seed"].as_u64().unwrap_or(o.seed);
            let idx = inp["case"].as_u64().unwrap_or(0);
            scenarios.push((generate(seed, idx), idx));
        }
    } else {
        // corpus first
        let cdir = std::path::Path::new(env!("CARGO_MANIFEST_DIR")).join("../corpus/C18");
        let mut files: Vec<_> = std::fs::read_dir(&cdir).map(|rd| rd.flatten().map(|e| e.path()).collect()).unwrap_or_else(|_| Vec::new());
        files.sort();
        for f in files {
            if f.extension().map(|e| e == "json").unwrap_or(false) {
                if let Ok(txt) = std::fs::read_to_string(&f) {
                    if let Ok(v) = serde_json::from_str::<serde_json::Value>(&txt) {
                        if v["fixed"].as_str() == Some("F7") {
                            scenarios.push((f7_scenario(), 0));
                        } else if let (Some(s), Some(c)) = (v["seed"].as_u64(), v["case"].as_u64()) {
                            scenarios.push((generate(s, c), c));
                        }
                    }
                }
            }
        }
        for ci in 0..ncases {
            scenarios.push((generate(o.seed, ci as u64), ci as u64));
        }
    }
    let mut distinct: HashSet<String> = HashSet::new();
    let mut nontrivial = 0usize;
    let mut samples: Vec<serde_json::Value> = Vec::new();
    for (sc, ci) in &scenarios {
        let fresh = distinct.insert(sc.text());
        let nt = run_scenario(sc, *ci, &mut w, &mut viols, &mut st);
        if fresh && nt {
            nontrivial += 1;
            if samples.len() < 3 {
                samples.push(serde_json::json!({"tag": sc.tag, "scenario": sc.text()}));
            }
        }
    }
    w.flush();
    // one violation per key is enough for the report (keep the first few of each)
    let mut per_key: HashMap<String, usize> = HashMap::new();
    // violations that are not the recorded finding F7 first (bin/check shows the first one)
    let mut ordered: Vec<&Viol> = viols.iter().filter(|v| !v.key.starts_with("F7-")).collect();
    ordered.extend(viols.iter().filter(|v| v.key.starts_with("F7-")));
    let vj: Vec<serde_json::Value> = ordered
        .into_iter()
        .filter(|v| {
            let e = per_key.entry(v.key.clone()).or_insert(0);
            *e += 1;
            *e <= 5
        })
        .take(25)
        .map(|v| {
            let input = if v.tag == "corpus F7" {
                serde_json::json!({"fixed": "F7", "scenario": v.sc, "step": v.step})
            } else {
                serde_json::json!({"seed": v.tag.split(' ').next().and_then(|s| s.strip_prefix("seed=")).and_then(|s| s.parse::<u64>().ok()).unwrap_or(o.seed),
                                   "case": v.case, "scenario": v.sc, "step": v.step})
            };
            serde_json::json!({"what": v.what, "key": v.key, "input": input})
        })
        .collect();
    let mut key_hist: BTreeMap<String, usize> = BTreeMap::new();
    for v in &viols {
        *key_hist.entry(v.key.clone()).or_insert(0) += 1;
    }
    let rep = serde_json::json!({
        "sub": "sched2",
        "cases": scenarios.len(),
        "shards": w.shards,
        "distinct_nontrivial": nontrivial,
        "rule": "corpus (F7) + seeded scenarios: egg_gen signature and rules (1-3 rules in one ruleset, 1/4 with a variable-free head), 2-7 setup actions, one instrumented scheduler (policy = case index mod 5: all / none-then-all / random subsets with duplicate unsorted indices / one at a time / back-off), 2-6 steps with 0-2 top-level writes (union, insert, set, subsume, delete) injected before each step and failing steps (unknown ruleset; ruleset whose action panics or divides by zero) in between; non-trivial iff a held-back match was applied in a later step, a step failed, or (choose-all) the step changed the database; distinct by scenario text",
        "samples": samples,
        "violations": vj,
        "policy_hist": st.policy_hist,
        "step_hist": st.step_hist,
        "inject_hist": st.inject_hist,
        "offered_hist": st.offered_hist,
        "err_hist": st.err_hist,
        "violation_key_hist": key_hist,
        "extra_coverage": {
            "fixed_probes_same_name_rulesets_error_midstep_pushpop": fixed_n,
            "matches_offered": st.offered_total,
            "delayed_matches_applied": st.delayed_applied,
            "delayed_matches_applied_with_stale_id": st.delayed_stale_applied,
            "calls_for_variable_free_heads": st.varfree_calls,
            "calls_with_duplicate_choices": st.dup_choice_calls,
            "reoffered_matches_checked_canonical": st.reoffer_canon_checks,
            "first_seek_multiset_equal_to_naive": format!("{}/{}", st.first_seek_exact, st.first_seek_total),
            "instantiate_model_cases": st.inst_cases,
            "offered_set_model_cases": st.off_cases,
            "invariant_twin_evaluations": st.twin_evals,
            "choose_all_lockstep_compares": st.lockstep_compares,
            "head_holds_checks": st.head_checks,
            "scenarios_skipped_head_var_renamed": st.missing_var
        }
    });
    std::fs::write(o.out.join("impl_report.json"), serde_json::to_string(&rep).unwrap()).unwrap();
}
