//! Extension module (Tier A) for C02. Output: coq/gen/PlanFacts.v
//! Contract: return (text of the .v file, report lines). Each report line is one JSON object
//! {"item":"PlanFacts.<name>","file":"<rust file>","ok":true|false[,"error":"..."]}.
//! Fail closed: when a site is not recognised, OMIT the Gallina definition (so dependent proofs stop
//! compiling) and push an ok:false report line.
//!
//! Regenerated from core-relations/src/free_join/{plan.rs,execute.rs}:
//!   mat_mode_kind      <- enum MatScanMode (variants, source order)
//!   join_stage_kind    <- enum JoinStage (variants; the one with a `mode: MatScanMode` field carries it)
//!   sort_barrier       <- the `matches!` pattern of sort_plan_by_size (stages that never move)
//!   leaf_scan_mat_mode <- the guard of the FusedIntersectMat arm of recompute_leaf_scans
//!   resort_guard       <- `cur_size > 32 && cur % 3 == 1 && ..` of run_plan
//!   mat_row_layout     <- InPlaceMaterializer/ScopedMaterializer::push_bindings (key = msg_vars, row = val_vars)
use quote::ToTokens;
use syn::parse::Parser;
use syn::visit::Visit;

fn toks<T: ToTokens>(t: &T) -> String {
    t.to_token_stream().to_string().chars().filter(|c| !c.is_whitespace()).collect()
}

fn line(item: &str, file: &str, res: &Result<String, String>) -> String {
    match res {
        Ok(_) => format!("{{\"item\":\"PlanFacts.{item}\",\"file\":\"{file}\",\"ok\":true}}"),
        Err(e) => format!(
            "{{\"item\":\"PlanFacts.{item}\",\"file\":\"{file}\",\"ok\":false,\"error\":\"{}\"}}",
            e.replace('\\', "/").replace('"', "'")
        ),
    }
}

struct Fns<'a> {
    want: &'a str,
    impl_for: Option<&'a str>,
    cur_impl: Option<String>,
    found: Vec<syn::Block>,
}
impl<'ast, 'a> Visit<'ast> for Fns<'a> {
    fn visit_item_fn(&mut self, f: &'ast syn::ItemFn) {
        if self.impl_for.is_none() && f.sig.ident == self.want {
            self.found.push((*f.block).clone());
        }
        syn::visit::visit_item_fn(self, f);
    }
    fn visit_item_impl(&mut self, i: &'ast syn::ItemImpl) {
        let prev = self.cur_impl.take();
        self.cur_impl = Some(toks(&*i.self_ty));
        syn::visit::visit_item_impl(self, i);
        self.cur_impl = prev;
    }
    fn visit_impl_item_fn(&mut self, f: &'ast syn::ImplItemFn) {
        if f.sig.ident == self.want {
            let ok = match (self.impl_for, &self.cur_impl) {
                (None, _) => true,
                (Some(w), Some(c)) => c.starts_with(w),
                _ => false,
            };
            if ok {
                self.found.push(f.block.clone());
            }
        }
        syn::visit::visit_impl_item_fn(self, f);
    }
}

fn find_fn(file: &syn::File, name: &str, impl_for: Option<&str>) -> Result<syn::Block, String> {
    let mut v = Fns { want: name, impl_for, cur_impl: None, found: Vec::new() };
    v.visit_file(file);
    if v.found.len() == 1 {
        Ok(v.found.remove(0))
    } else {
        Err(format!("expected exactly one fn {name}, found {}", v.found.len()))
    }
}

fn find_enum<'a>(file: &'a syn::File, name: &str) -> Result<&'a syn::ItemEnum, String> {
    for it in &file.items {
        if let syn::Item::Enum(e) = it {
            if e.ident == name {
                return Ok(e);
            }
        }
    }
    Err(format!("enum {name} not found"))
}

/// (scrutinee tokens, pattern) of a `matches!(e, pat)` without guard
fn parse_matches(mac: &syn::Macro) -> Result<(String, syn::Pat), String> {
    if !mac.path.is_ident("matches") {
        return Err("not a matches! macro".into());
    }
    let parser = |input: syn::parse::ParseStream| -> syn::Result<(syn::Expr, syn::Pat, bool)> {
        let e: syn::Expr = input.parse()?;
        input.parse::<syn::Token![,]>()?;
        let p = syn::Pat::parse_multi_with_leading_vert(input)?;
        let guard = input.peek(syn::Token![if]);
        if guard {
            let _: proc_macro2::TokenStream = input.parse()?;
        } else if input.peek(syn::Token![,]) {
            input.parse::<syn::Token![,]>()?;
        }
        Ok((e, p, guard))
    };
    let (e, p, guard) = parser.parse2(mac.tokens.clone()).map_err(|e| format!("matches! body: {e}"))?;
    if guard {
        return Err("matches! with an `if` guard is not supported".into());
    }
    Ok((toks(&e), p))
}

fn flatten_or(p: &syn::Pat, out: &mut Vec<syn::Pat>) {
    match p {
        syn::Pat::Or(o) => {
            for c in &o.cases {
                flatten_or(c, out);
            }
        }
        syn::Pat::Paren(pp) => flatten_or(&pp.pat, out),
        other => out.push(other.clone()),
    }
}

/// `MatScanMode::X` or `MatScanMode::X(_, ..)` -> "MX"
fn mode_pat(p: &syn::Pat, modes: &[String]) -> Result<String, String> {
    let path = match p {
        syn::Pat::Path(pp) => &pp.path,
        syn::Pat::TupleStruct(ts) => {
            for e in &ts.elems {
                if !matches!(e, syn::Pat::Wild(_) | syn::Pat::Rest(_)) {
                    return Err(format!("mode pattern binds something: {}", toks(p)));
                }
            }
            &ts.path
        }
        syn::Pat::Ident(pi) if pi.subpat.is_none() && pi.by_ref.is_none() => {
            return Err(format!("mode pattern is a binding: {}", pi.ident));
        }
        _ => return Err(format!("unsupported mode pattern {}", toks(p))),
    };
    let segs: Vec<String> = path.segments.iter().map(|s| s.ident.to_string()).collect();
    if segs.len() != 2 || segs[0] != "MatScanMode" {
        return Err(format!("unsupported mode path {}", toks(path)));
    }
    let m = format!("M{}", segs[1]);
    if !modes.contains(&m) {
        return Err(format!("unknown mode {m}"));
    }
    Ok(m)
}

/// a pattern over JoinStage -> Coq match arms over join_stage_kind (lhs patterns)
fn stage_pat_arms(p: &syn::Pat, kinds: &[(String, bool)], modes: &[String]) -> Result<Vec<String>, String> {
    let mut alts = Vec::new();
    flatten_or(p, &mut alts);
    let mut arms = Vec::new();
    for a in alts {
        let ps = match &a {
            syn::Pat::Struct(ps) => ps,
            _ => return Err(format!("unsupported stage pattern {}", toks(&a))),
        };
        let segs: Vec<String> = ps.path.segments.iter().map(|s| s.ident.to_string()).collect();
        if segs.len() != 2 || segs[0] != "JoinStage" {
            return Err(format!("unsupported stage path {}", toks(&ps.path)));
        }
        let k = format!("K{}", segs[1]);
        let has_mode = match kinds.iter().find(|(n, _)| *n == k) {
            Some((_, m)) => *m,
            None => return Err(format!("unknown stage kind {k}")),
        };
        let mut mode_alts: Option<Vec<String>> = None;
        for f in &ps.fields {
            let name = match &f.member {
                syn::Member::Named(i) => i.to_string(),
                _ => return Err("unnamed field".into()),
            };
            if name == "mode" && has_mode && f.colon_token.is_some() {
                let mut ms = Vec::new();
                flatten_or(&f.pat, &mut ms);
                let mut v = Vec::new();
                for m in &ms {
                    v.push(mode_pat(m, modes)?);
                }
                mode_alts = Some(v);
            } else {
                return Err(format!("stage pattern constrains field `{name}`"));
            }
        }
        if has_mode {
            match mode_alts {
                Some(v) => {
                    for m in v {
                        arms.push(format!("{k} {m}"));
                    }
                }
                None => arms.push(format!("{k} _")),
            }
        } else {
            arms.push(k);
        }
    }
    Ok(arms)
}

struct IfFinder {
    ifs: Vec<syn::ExprIf>,
}
impl<'ast> Visit<'ast> for IfFinder {
    fn visit_expr_if(&mut self, i: &'ast syn::ExprIf) {
        self.ifs.push(i.clone());
        syn::visit::visit_expr_if(self, i);
    }
}

struct ArmFinder {
    arms: Vec<syn::Arm>,
}
impl<'ast> Visit<'ast> for ArmFinder {
    fn visit_arm(&mut self, a: &'ast syn::Arm) {
        self.arms.push(a.clone());
        syn::visit::visit_arm(self, a);
    }
}

struct ForFinder {
    fors: Vec<syn::ExprForLoop>,
}
impl<'ast> Visit<'ast> for ForFinder {
    fn visit_expr_for_loop(&mut self, f: &'ast syn::ExprForLoop) {
        self.fors.push(f.clone());
        syn::visit::visit_expr_for_loop(self, f);
    }
}

fn gen_sort_barrier(exec: &syn::File, kinds: &[(String, bool)], modes: &[String]) -> Result<String, String> {
    let body = find_fn(exec, "sort_plan_by_size", None)?;
    // let mut last_pos = start; for i in start..instrs.len() { if matches!(..) { inner(last_pos..i); last_pos = i + 1; } } inner(last_pos..len); recompute
    let stmts = &body.stmts;
    if stmts.len() != 4 {
        return Err(format!("sort_plan_by_size: expected 4 statements, found {}", stmts.len()));
    }
    if toks(&stmts[0]) != "letmutlast_pos=start;" {
        return Err("sort_plan_by_size: first statement changed".into());
    }
    let fl = match &stmts[1] {
        syn::Stmt::Expr(syn::Expr::ForLoop(fl), _) => fl,
        _ => return Err("sort_plan_by_size: second statement is not a for loop".into()),
    };
    if toks(&*fl.pat) != "i" || toks(&*fl.expr) != "start..instrs.len()" {
        return Err("sort_plan_by_size: loop header changed".into());
    }
    if fl.body.stmts.len() != 1 {
        return Err("sort_plan_by_size: loop body changed".into());
    }
    let iff = match &fl.body.stmts[0] {
        syn::Stmt::Expr(syn::Expr::If(i), _) => i,
        _ => return Err("sort_plan_by_size: loop body is not an if".into()),
    };
    if iff.else_branch.is_some() {
        return Err("sort_plan_by_size: if has an else".into());
    }
    if toks(&iff.then_branch) != "{sort_plan_by_size_inner(order,last_pos..i,instrs,binding_info);last_pos=i+1;}" {
        return Err("sort_plan_by_size: barrier handling changed".into());
    }
    let mac = match &*iff.cond {
        syn::Expr::Macro(m) => &m.mac,
        _ => return Err("sort_plan_by_size: condition is not matches!".into()),
    };
    let (scrut, pat) = parse_matches(mac)?;
    if scrut != "&instrs[i]" {
        return Err("sort_plan_by_size: scrutinee changed".into());
    }
    if toks(&stmts[2]) != "sort_plan_by_size_inner(order,last_pos..instrs.len(),instrs,binding_info);" {
        return Err("sort_plan_by_size: tail sort changed".into());
    }
    let arms = stage_pat_arms(&pat, kinds, modes)?;
    let mut s = String::from("(** execute.rs sort_plan_by_size: the stages that are never moved by the run-time re-sort\n    (the stages between two of them are permuted freely) *)\nDefinition sort_barrier (k : join_stage_kind) : bool :=\n  match k with\n");
    for a in &arms {
        s.push_str(&format!("  | {a} => true\n"));
    }
    s.push_str("  | _ => false\n  end.\n");
    Ok(s)
}

fn gen_leaf_scan(exec: &syn::File, modes: &[String]) -> Result<String, String> {
    let body = find_fn(exec, "recompute_leaf_scans", None)?;
    let mut af = ArmFinder { arms: Vec::new() };
    af.visit_block(&body);
    let mut found = Vec::new();
    for a in &af.arms {
        if let (syn::Pat::Struct(ps), Some((_, g))) = (&a.pat, &a.guard) {
            if toks(&ps.path) == "JoinStage::FusedIntersectMat" {
                found.push((ps.clone(), (**g).clone()));
            }
        }
    }
    if found.len() != 1 {
        return Err(format!("recompute_leaf_scans: expected one guarded FusedIntersectMat arm, found {}", found.len()));
    }
    let g = &found[0].1;
    let (l, r) = match g {
        syn::Expr::Binary(b) if matches!(b.op, syn::BinOp::And(_)) => (&*b.left, &*b.right),
        _ => return Err("recompute_leaf_scans: guard is not a conjunction".into()),
    };
    if toks(l) != "to_intersect.is_empty()" {
        return Err("recompute_leaf_scans: first conjunct changed".into());
    }
    let mac = match r {
        syn::Expr::Macro(m) => &m.mac,
        _ => return Err("recompute_leaf_scans: second conjunct is not matches!".into()),
    };
    let (scrut, pat) = parse_matches(mac)?;
    if scrut != "mode" {
        return Err("recompute_leaf_scans: scrutinee changed".into());
    }
    let mut alts = Vec::new();
    flatten_or(&pat, &mut alts);
    let mut s = String::from("(** execute.rs recompute_leaf_scans: materialisation scans (without probes) that may be\n    factorised as a leaf scan *)\nDefinition leaf_scan_mat_mode (m : mat_mode_kind) : bool :=\n  match m with\n");
    let mut n = 0;
    for a in &alts {
        s.push_str(&format!("  | {} => true\n", mode_pat(a, modes)?));
        n += 1;
    }
    if n < modes.len() {
        s.push_str("  | _ => false\n");
    }
    s.push_str("  end.\n");
    Ok(s)
}

fn gen_resort_guard(exec: &syn::File) -> Result<String, String> {
    let body = find_fn(exec, "run_plan", Some("JoinState"))?;
    let mut f = IfFinder { ifs: Vec::new() };
    f.visit_block(&body);
    let mut hits = Vec::new();
    for i in &f.ifs {
        let c = toks(&*i.cond);
        if c.starts_with("cur_size>") && toks(&i.then_branch).starts_with("{sort_plan_by_size(instr_order,leaf_scans,cur,") {
            hits.push(c);
        }
    }
    if hits.len() != 1 {
        return Err(format!("run_plan: expected one re-sort guard, found {}", hits.len()));
    }
    // cur_size>32&&cur%3==1&&cur<instr_order.len()-1
    let c = &hits[0];
    let parts: Vec<&str> = c.split("&&").collect();
    if parts.len() != 3 || parts[2] != "cur<instr_order.len()-1" {
        return Err(format!("run_plan: re-sort guard changed: {c}"));
    }
    let min: u64 = parts[0].strip_prefix("cur_size>").and_then(|x| x.parse().ok()).ok_or("re-sort guard: size literal")?;
    let rest = parts[1].strip_prefix("cur%").ok_or("re-sort guard: period")?;
    let pq: Vec<&str> = rest.split("==").collect();
    if pq.len() != 2 {
        return Err("re-sort guard: period/phase".into());
    }
    let period: u64 = pq[0].parse().map_err(|_| "re-sort guard: period literal")?;
    let phase: u64 = pq[1].parse().map_err(|_| "re-sort guard: phase literal")?;
    Ok(format!(
        "(** execute.rs run_plan: the remaining stages are re-sorted when the current estimate exceeds\n    [resort_min_size], at every stage index = [resort_phase] mod [resort_period] (not at the last stage) *)\nDefinition resort_min_size : nat := {min}.\nDefinition resort_period : nat := {period}.\nDefinition resort_phase : nat := {phase}.\n"
    ))
}

fn layout_of(exec: &syn::File, imp: &str) -> Result<(String, String), String> {
    let body = find_fn(exec, "push_bindings", Some(imp))?;
    let mut ff = ForFinder { fors: Vec::new() };
    ff.visit_block(&body);
    let mut key = None;
    let mut val = None;
    for f in &ff.fors {
        let src = toks(&*f.expr);
        let part = if src.starts_with("spec.msg_vars.iter()") {
            "PMsgVars"
        } else if src.starts_with("spec.val_vars.iter()") {
            "PValVars"
        } else {
            continue;
        };
        let b = toks(&f.body);
        let tgt = if b.contains("scratch_key.push(") || b.contains("key.push(") {
            &mut key
        } else if b.contains("scratch_val.push(") || b.contains("val.push(") {
            &mut val
        } else {
            return Err(format!("{imp}::push_bindings: loop over {part} feeds neither key nor value"));
        };
        if tgt.is_some() {
            return Err(format!("{imp}::push_bindings: two loops feed the same part"));
        }
        *tgt = Some(part.to_string());
    }
    match (key, val) {
        (Some(k), Some(v)) => Ok((k, v)),
        _ => Err(format!("{imp}::push_bindings: key/value loops not recognised")),
    }
}

fn gen_layout(exec: &syn::File) -> Result<String, String> {
    let a = layout_of(exec, "InPlaceMaterializer")?;
    let b = layout_of(exec, "ScopedMaterializer")?;
    if a != b {
        return Err("InPlaceMaterializer and ScopedMaterializer lay rows out differently".into());
    }
    Ok(format!(
        "(** execute.rs push_bindings of both materialisers: a materialised row is keyed by the values of\n    [mat_key_part] and stores the values of [mat_val_part] *)\nInductive mat_part := PMsgVars | PValVars.\nDefinition mat_key_part : mat_part := {}.\nDefinition mat_val_part : mat_part := {}.\n",
        a.0, a.1
    ))
}

pub fn generate(repo: &std::path::Path) -> (String, Vec<String>) {
    let plan_rel = "core-relations/src/free_join/plan.rs";
    let exec_rel = "core-relations/src/free_join/execute.rs";
    let mut out = String::from(
        "(* GENERATED by /verif/translator (x_plans.rs) from core-relations/src/free_join/{plan.rs,execute.rs}; do not edit *)\nFrom Coq Require Import List Arith Bool.\nImport ListNotations.\n\n",
    );
    let mut rep = Vec::new();
    let parse = |rel: &str| -> Result<syn::File, String> {
        let src = std::fs::read_to_string(repo.join(rel)).map_err(|e| format!("{rel}: {e}"))?;
        syn::parse_file(&src).map_err(|e| format!("{rel}: {e}"))
    };
    let plan = parse(plan_rel);
    let exec = parse(exec_rel);

    // 1. mat_mode_kind
    let modes: Result<Vec<String>, String> = plan.as_ref().map_err(|e| e.clone()).and_then(|f| {
        let e = find_enum(f, "MatScanMode")?;
        Ok(e.variants.iter().map(|v| format!("M{}", v.ident)).collect())
    });
    let r1 = modes.clone().map(|ms| {
        format!("(** plan.rs enum MatScanMode *)\nInductive mat_mode_kind := {}.\n", ms.join(" | "))
    });
    rep.push(line("mat_mode_kind", plan_rel, &r1));
    if let Ok(t) = &r1 {
        out.push_str(t);
        out.push('\n');
    }

    // 2. join_stage_kind
    let kinds: Result<Vec<(String, bool)>, String> = match (&plan, &modes) {
        (Ok(f), Ok(_)) => find_enum(f, "JoinStage").map(|e| {
            e.variants
                .iter()
                .map(|v| {
                    let has_mode = match &v.fields {
                        syn::Fields::Named(n) => n.named.iter().any(|fd| {
                            fd.ident.as_ref().map(|i| i == "mode").unwrap_or(false) && toks(&fd.ty) == "MatScanMode"
                        }),
                        _ => false,
                    };
                    (format!("K{}", v.ident), has_mode)
                })
                .collect()
        }),
        (Err(e), _) => Err(e.clone()),
        (_, Err(e)) => Err(e.clone()),
    };
    let r2 = kinds.clone().map(|ks| {
        let cs: Vec<String> = ks.iter().map(|(k, m)| if *m { format!("{k} (m : mat_mode_kind)") } else { k.clone() }).collect();
        format!("(** plan.rs enum JoinStage *)\nInductive join_stage_kind := {}.\n", cs.join(" | "))
    });
    rep.push(line("join_stage_kind", plan_rel, &r2));
    if let Ok(t) = &r2 {
        out.push_str(t);
        out.push('\n');
    }

    // 3..6 need execute.rs and the two inductives
    let deps: Result<(&syn::File, Vec<(String, bool)>, Vec<String>), String> = match (&exec, &kinds, &modes) {
        (Ok(f), Ok(k), Ok(m)) => Ok((f, k.clone(), m.clone())),
        (Err(e), _, _) => Err(e.clone()),
        (_, Err(e), _) => Err(e.clone()),
        (_, _, Err(e)) => Err(e.clone()),
    };
    let r3 = deps.clone().and_then(|(f, k, m)| gen_sort_barrier(f, &k, &m));
    rep.push(line("sort_barrier", exec_rel, &r3));
    let r4 = deps.clone().and_then(|(f, _, m)| gen_leaf_scan(f, &m));
    rep.push(line("leaf_scan_mat_mode", exec_rel, &r4));
    let r5 = deps.clone().and_then(|(f, _, _)| gen_resort_guard(f));
    rep.push(line("resort_guard", exec_rel, &r5));
    let r6 = deps.clone().and_then(|(f, _, _)| gen_layout(f));
    rep.push(line("mat_row_layout", exec_rel, &r6));
    for r in [&r3, &r4, &r5, &r6] {
        if let Ok(t) = r {
            out.push_str(t);
            out.push('\n');
        }
    }
    (out, rep)
}
