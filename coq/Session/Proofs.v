(** C09 — proofs about the pipeline model of Session/Pipeline.v. *)
From Coq Require Import List Arith Bool PeanoNat Lia.
Import ListNotations.
Require Import Verif.Session.Pipeline.

(* ---------------------------------------------------------------------------------------- *)
(** * Basic facts *)

Lemma name_eqb_refl : forall n, name_eqb n n = true.
Proof. destruct n; simpl; apply Nat.eqb_refl. Qed.

Lemma name_eqb_eq : forall a b, name_eqb a b = true <-> a = b.
Proof.
  destruct a, b; simpl; split; intro H; try discriminate;
    try (apply Nat.eqb_eq in H; subst; reflexivity);
    try (inversion H; subst; apply Nat.eqb_refl).
Qed.

Lemma mem_In : forall n l, mem n l = true <-> In n l.
Proof.
  induction l as [|m tl IH]; simpl; split; intro H; try discriminate; try contradiction.
  - apply orb_true_iff in H. destruct H as [H|H].
    + left. apply name_eqb_eq; assumption.
    + right. apply IH; assumption.
  - apply orb_true_iff. destruct H as [H|H].
    + left. subst. apply name_eqb_refl.
    + right. apply IH; assumption.
Qed.

Lemma lookup_In : forall {A} (l : list (name * A)) n a, lookup l n = Some a -> In (n, a) l.
Proof.
  induction l as [|[m b] tl IH]; simpl; intros n a H; try discriminate.
  destruct (name_eqb m n) eqn:E.
  - inversion H; subst. apply name_eqb_eq in E; subst. left; reflexivity.
  - right. apply IH; assumption.
Qed.

Lemma has_In : forall {A} (l : list (name * A)) n, has l n = true <-> In n (map fst l).
Proof.
  unfold has. induction l as [|[m b] tl IH]; simpl; intros n; split; intro H; try discriminate; try contradiction.
  - destruct (name_eqb m n) eqn:E.
    + left. apply name_eqb_eq; assumption.
    + right. apply IH; assumption.
  - destruct (name_eqb m n) eqn:E; [reflexivity|].
    destruct H as [H|H].
    + subst. rewrite name_eqb_refl in E. discriminate.
    + apply IH; assumption.
Qed.

(** the declaration state, i.e. everything but the symbol generator *)
Definition decl_eq (F G : frame) : Prop :=
  sorts F = sorts G /\ funcs F = funcs G /\ globals F = globals G /\ tables F = tables G /\
  rulesets F = rulesets G /\ seen F = seen G /\ aliases F = aliases G.

Definition sess_decl_eq (s t : sess) : Prop :=
  decl_eq (fst s) (fst t) /\ Forall2 decl_eq (snd s) (snd t).

Lemma decl_eq_refl : forall F, decl_eq F F.
Proof. intros; repeat split. Qed.

Lemma Forall2_decl_refl : forall l, Forall2 decl_eq l l.
Proof. induction l; constructor; auto using decl_eq_refl. Qed.

Lemma sess_decl_eq_refl : forall s, sess_decl_eq s s.
Proof. intros [F st]; split; simpl; auto using decl_eq_refl, Forall2_decl_refl. Qed.

(* ---------------------------------------------------------------------------------------- *)
(** * The witnesses: rejected commands that leave declarations behind (F2), and what follows *)

Definition i64 := s_i64.
Definition f := U 10.
Definition d := U 11.
Definition va := U 12.
Definition vb := U 13.
Definition nope := U 14.
Definition r := U 15.

Definition good_merge := EPrim PMin [EVar v_old; EVar v_new].

(** (function f (i64) i64 :merge (bogus old new)) *)
Definition w_bad_merge := CFunction f [i64] i64 (Some (ECall nope [EVar v_old; EVar v_new])).
(** (datatype d (va i64) (vb nope)) *)
Definition w_bad_variant := CDatatype d [(va, [i64]); (vb, [nope])].
(** (constructor f (i64) i64) *)
Definition w_ctor_non_eq := CConstructor f [i64] i64.
(** (function f (i64 i64) i64 :merge ..) after (function f (i64) i64 :merge ..) *)
Definition w_dup_other_sig := CFunction f [i64; i64] i64 (Some good_merge).
(** (function r (i64) i64 ..) after (ruleset r) *)
Definition w_shadow := CFunction r [i64] i64 (Some good_merge).
(** (function f (i64) i64 :merge (f old)) — F9 *)
Definition w_self_merge := CFunction f [i64] i64 (Some (ECall f [EVar v_old])).

Definition rejected_with_effect (s : sess) (c : cmd) : Prop :=
  exists s' e, step s c = (s', RReject e) /\ ~ sess_decl_eq s s'.

Ltac refute_eq :=
  let H := fresh in
  intros [[H _] _]; simpl in H; try discriminate;
  try (destruct H as [_ [H _]]; simpl in H; discriminate).

(** since commit 473a35e a single function declaration is atomic: these three are now CLEAN *)
Lemma bad_merge_clean : step init w_bad_merge = (init, RReject EBadMerge).
Proof. vm_compute. reflexivity. Qed.
Lemma self_merge_clean : step init w_self_merge = (init, RReject EBadMerge).
Proof. vm_compute. reflexivity. Qed.
Lemma ctor_non_eq_clean : step init w_ctor_non_eq = (init, RReject ECtorOutputNotSort).
Proof. vm_compute. reflexivity. Qed.
Lemma dup_other_sig_clean :
  let s := fst (step init (CFunction f [i64] i64 (Some good_merge))) in
  step s w_dup_other_sig = (s, RReject EDupFunction).
Proof. vm_compute. reflexivity. Qed.

(** the remaining witnesses *)
Lemma bad_variant_leaves_sort_and_constructor : rejected_with_effect init w_bad_variant.
Proof.
  eexists; eexists; split; [vm_compute; reflexivity|].
  intros [[H _] _]. simpl in H. discriminate.
Qed.

Lemma shadowing_after_typecheck_leaves_signature :
  rejected_with_effect (fst (step init (CRuleset r))) w_shadow.
Proof.
  eexists; eexists; split; [vm_compute; reflexivity|].
  intros [[_ [H _]] _]. simpl in H. discriminate.
Qed.

(** (let $g 1) then (let $g "s"): rejected by check_shadowing, but the global's sort changed *)
Lemma second_let_changes_global_sort :
  rejected_with_effect (fst (step init (CAct (ALet (G 16) EInt)))) (CAct (ALet (G 16) EStr)).
Proof.
  eexists; eexists; split; [vm_compute; reflexivity|].
  intros [[_ [_ [H _]]] _]. simpl in H. discriminate.
Qed.

(** the F2 replays inside the model: the result list ends in a panic *)
Lemma f2_replay_datatype :
  snd (run init [w_bad_variant; CAct (ADo (ECall va [EInt]))])
  = [RReject (ELaterPart EUndefinedSort); RPanic].
Proof. vm_compute. reflexivity. Qed.

Lemma f2_replay_shadowing :
  snd (run init [CRuleset r; w_shadow; CAct (ASet r [EInt] EInt)])
  = [RAccept; RReject EShadowing; RPanic].
Proof. vm_compute. reflexivity. Qed.

(* ---------------------------------------------------------------------------------------- *)
(** * Rejected => unchanged, for the commands whose typechecking is pure *)

Definition pure_cmd (c : cmd) : bool :=
  match c with
  | CRuleset _ | CRule _ _ _ _ | CRun _ | CCheck _ | CPush | CPop | CPrintSize _ => true
  | CAct (ALet _ _) => false
  | CAct _ => true
  | _ => false
  end.

Lemma shadow_check_reject : forall F n F' e, shadow_check F n = (F', Some e) -> F' = F.
Proof. unfold shadow_check; intros F n F' e; destruct (mem n (seen F)); intro H; inversion H; reflexivity. Qed.

Ltac inv H := inversion H; subst; clear H.

Theorem reject_no_effect_pure : forall s c s' e,
  pure_cmd c = true -> step s c = (s', RReject e) -> s' = s.
Proof.
  intros [F st] c s' e Hp Hs. destruct c; simpl in Hp; try discriminate.
  - (* ruleset *)
    unfold step in Hs; simpl in Hs. unfold shadow_check in Hs.
    destruct (mem n (seen F)); simpl in Hs; [inv Hs; reflexivity|].
    destruct (rs_lookup _ _); inv Hs.
  - (* rule *)
    unfold step in Hs; simpl in Hs.
    destruct (tc_facts F body []) as [x|env]; simpl in Hs; [inv Hs; reflexivity|].
    destruct (tc_actions F true head env); simpl in Hs; [inv Hs; reflexivity|].
    destruct (existsb _ _); simpl in Hs; [inv Hs; reflexivity|].
    destruct (negb _); simpl in Hs; [inv Hs|].
    destruct (rs_lookup _ _); [|inv Hs; reflexivity].
    destruct (memn _ _); inv Hs; reflexivity.
  - (* action *)
    destruct a; try discriminate; unfold step in Hs; simpl in Hs.
    + destruct (lookup (funcs F) f0) as [sg|]; simpl in Hs; [|inv Hs; reflexivity].
      destruct (f_ctor sg); simpl in Hs; [inv Hs; reflexivity|].
      destruct (negb _); simpl in Hs; [inv Hs; reflexivity|].
      destruct (tc_args _ _ _ _ _); simpl in Hs; [inv Hs; reflexivity|].
      destruct (tc F false v _ _) as [|[? ?]]; simpl in Hs; [inv Hs; reflexivity|].
      destruct (_ && _ && _); inv Hs.
    + destruct (tc F false a None []) as [|[t env]]; simpl in Hs; [inv Hs; reflexivity|].
      destruct (tc F false b _ _) as [|[? ?]]; simpl in Hs; [inv Hs; reflexivity|].
      destruct (unionable F t); simpl in Hs; [inv Hs; reflexivity|].
      destruct (_ && _); inv Hs.
    + destruct (tc F false e0 None []) as [|[? ?]]; simpl in Hs; [inv Hs; reflexivity|].
      destruct (expr_tables_ok F e0); inv Hs.
  - (* run *)
    unfold step in Hs; simpl in Hs. destruct (rs_lookup _ _); inv Hs; reflexivity.
  - (* check *)
    unfold step in Hs; simpl in Hs.
    destruct (tc_facts F fs []); simpl in Hs; [inv Hs; reflexivity|].
    destruct (existsb _ _); simpl in Hs; [inv Hs; reflexivity|].
    destruct (forallb _ _); inv Hs.
  - (* pop *) unfold step in Hs; simpl in Hs. destruct st; inv Hs; reflexivity.
  - (* print-size *)
    unfold step in Hs; simpl in Hs. destruct (lookup (tables F) n) as [[|]|]; inv Hs; reflexivity.
Qed.

(** single-part declarations: an error raised by a check that precedes the first mutation *)
Definition early (e : err) : bool :=
  match e with
  | EUndefinedSort | ESortAlreadyBound | EFunctionBoundAtSort | EPresortNotFound | EBadPresortArgs
  | EDupFunction | ECtorOutputNotSort | EBadMerge
  | EUnbound | EUnboundFunction | EArity | EMismatch | ENeedsType => true
  | _ => false
  end.

Definition single_decl (c : cmd) : bool :=
  match c with
  | CSort _ | CSortPre _ _ _ | CFunction _ _ _ _ | CConstructor _ _ _ | CAct (ALet _ _) => true
  | _ => false
  end.

Lemma tc_sort_reject : forall F n k pre F' e, tc_sort F n k pre = (F', Some e) -> F' = F /\ early e = true.
Proof.
  unfold tc_sort; intros F n k pre F' e H.
  destruct (has (funcs F) n); [inv H; auto|].
  destruct pre as [[p args]|].
  - destruct (tc_presort F p args) eqn:E.
    + inv H. split; auto.
      unfold tc_presort in E. destruct p; destruct args as [|a [|b [|c l]]]; simpl in E;
        repeat match type of E with context [if ?b then _ else _] => destruct b end; inv E; reflexivity.
    + destruct (has (sorts F) n); inv H; auto.
  - destruct (has (sorts F) n); inv H; auto.
Qed.

Lemma tc_function_reject : forall F n ins out ctor m F' e,
  tc_function F n ins out ctor m = (F', Some e) -> F' = F /\ early e = true.
Proof.
  unfold tc_function; intros F n ins out ctor m F' e H.
  destruct (has (sorts F) n); [inv H; auto|].
  destruct (negb _); [inv H; auto|].
  destruct (has (funcs F) n); [inv H; auto|].
  destruct (ctor && _); [inv H; auto|].
  destruct m as [m|]; [|inv H].
  destruct (tc _ _ _ _ _); inv H; auto.
Qed.

Lemma tc_function_early : forall F n ins out ctor m F' e,
  tc_function F n ins out ctor m = (F', Some e) -> early e = true -> F' = F.
Proof. intros. apply tc_function_reject in H. tauto. Qed.

Theorem reject_no_effect_early : forall s c s' e,
  single_decl c = true -> step s c = (s', RReject e) -> early e = true -> s' = s.
Proof.
  intros [F st] c s' e Hd Hs He. destruct c; simpl in Hd; try discriminate.
  - (* sort *)
    unfold step in Hs; simpl in Hs.
    destruct (tc_sort F n KEq None) as [F1 [e1|]] eqn:E; simpl in Hs.
    + inv Hs. apply tc_sort_reject in E. destruct E; subst; reflexivity.
    + unfold shadow_check in Hs. destruct (mem n (seen F1)); simpl in Hs; inv Hs. discriminate.
  - (* presort *)
    unfold step in Hs; simpl in Hs.
    destruct (tc_sort F n KCont (Some (p, args))) as [F1 [e1|]] eqn:E; simpl in Hs.
    + inv Hs. apply tc_sort_reject in E. destruct E; subst; reflexivity.
    + unfold shadow_check in Hs. destruct (mem n (seen F1)); simpl in Hs; inv Hs. discriminate.
  - (* function *)
    unfold step in Hs; simpl in Hs.
    destruct (tc_function F n ins out false merge) as [F1 [e1|]] eqn:E; simpl in Hs.
    + inv Hs. apply tc_function_early in E; auto. subst; reflexivity.
    + unfold shadow_check in Hs. destruct (mem n (seen F1)); simpl in Hs; [inv Hs; discriminate|].
      destruct (negb _); simpl in Hs; [inv Hs|]. destruct (has (tables F1) n); inv Hs.
  - (* constructor *)
    unfold step in Hs; simpl in Hs.
    destruct (tc_function F n ins out true None) as [F1 [e1|]] eqn:E; simpl in Hs.
    + inv Hs. apply tc_function_early in E; auto. subst; reflexivity.
    + unfold shadow_check in Hs. destruct (mem n (seen F1)); simpl in Hs; [inv Hs; discriminate|].
      destruct (has (tables F1) n); inv Hs.
  - (* let *)
    destruct a; try discriminate. unfold step in Hs; simpl in Hs.
    destruct (tc F false e0 None []) as [|[t env]]; simpl in Hs; [inv Hs; reflexivity|].
    unfold shadow_check in Hs; simpl in Hs.
    destruct (mem x (seen F)); simpl in Hs; [inv Hs; discriminate|].
    destruct x; simpl in Hs;
      repeat match type of Hs with context [if ?b then _ else _] => destruct b end; inv Hs.
Qed.

(* ---------------------------------------------------------------------------------------- *)
(** * An accepted declaration adds exactly the declared names *)

Definition sort_names (F : frame) := map fst (sorts F).
Definition func_names (F : frame) := map fst (funcs F).
Definition table_names (F : frame) := map fst (tables F).

Theorem accept_sort_extends : forall F st n s',
  step (F, st) (CSort n) = (s', RAccept) ->
  ~ In n (sort_names F) /\ ~ In n (func_names F) /\ ~ In n (seen F) /\
  s' = (with_seen (with_sorts F ((n, KEq) :: sorts F)) (n :: seen F), st).
Proof.
  intros F st n s' H. unfold step in H; simpl in H. unfold tc_sort in H.
  destruct (has (funcs F) n) eqn:E1; simpl in H; [inv H|].
  destruct (has (sorts F) n) eqn:E2; simpl in H; [inv H|].
  unfold shadow_check in H; simpl in H.
  destruct (mem n (seen F)) eqn:E3; simpl in H; inv H.
  repeat split; auto.
  - intro K. apply has_In in K. congruence.
  - intro K. apply has_In in K. congruence.
  - intro K. apply mem_In in K. congruence.
Qed.

Lemma set_assoc_fresh : forall {A} (l : list (name * A)) n a, has l n = false -> set_assoc l n a = l ++ [(n, a)].
Proof.
  unfold has. induction l as [|[m b] tl IH]; simpl; intros n a H; [reflexivity|].
  destruct (name_eqb m n); [discriminate|]. rewrite IH; auto.
Qed.

Theorem accept_function_extends : forall F st n ins out m s',
  step (F, st) (CFunction n ins out m) = (s', RAccept) ->
  ~ In n (sort_names F) /\ ~ In n (func_names F) /\ ~ In n (seen F) /\ ~ In n (table_names F) /\
  (forall i, In i (out :: ins) -> In i (sort_names F)) /\
  s' = (with_tables (with_seen (with_funcs F (funcs F ++ [(n, {| f_ctor := false; f_ins := ins; f_out := out |})]))
                               (n :: seen F)) ((n, false) :: tables F), st).
Proof.
  intros F st n ins out m s' H. unfold step in H; simpl in H. unfold tc_function in H.
  destruct (has (sorts F) n) eqn:E1; simpl in H; [inv H|].
  destruct (all_sorts_defined F ins && has (sorts F) out) eqn:E2; simpl in H; [|inv H].
  destruct (has (funcs F) n) eqn:E3; simpl in H; [inv H|].
  assert (Hm : forall F1, (let '(F2, o) := (F1, @None err) in
     match o with Some e => ((F2, st), RReject e) | None =>
       match shadow_program F2 [NFunction n ins out false m] with
       | (F3, Some e) => ((F3, st), RReject e)
       | (F3, None) => run_program (F3, st) [NFunction n ins out false m] end end) = (s', RAccept) ->
     mem n (seen F1) = false /\ has (tables F1) n = false /\
     s' = (declare_table (with_seen F1 (n :: seen F1)) n false, st)).
  { intros F1 K. simpl in K. unfold shadow_check in K.
    destruct (mem n (seen F1)) eqn:E4; simpl in K; [inv K|].
    destruct (negb _); simpl in K; [inv K|].
    destruct (has (tables F1) n) eqn:E5; simpl in K; inv K. auto. }
  rewrite (set_assoc_fresh _ _ _ E3) in H.
  set (F1 := with_funcs F _) in H.
  assert (K : mem n (seen F1) = false /\ has (tables F1) n = false /\
              s' = (declare_table (with_seen F1 (n :: seen F1)) n false, st)).
  { apply Hm. destruct m as [m|]; simpl.
    - destruct (tc F false m None _); simpl in H; [inv H|]. exact H.
    - exact H. }
  destruct K as [K1 [K2 K3]]. subst s'. simpl in K1, K2.
  apply andb_true_iff in E2. destruct E2 as [E2a E2b].
  repeat split; auto.
  - intro K. apply has_In in K. congruence.
  - intro K. apply has_In in K. congruence.
  - intro K. apply mem_In in K. congruence.
  - intro K. apply has_In in K. congruence.
  - intros i [Hi|Hi].
    + subst. apply has_In; assumption.
    + apply has_In. unfold all_sorts_defined in E2a. rewrite forallb_forall in E2a. auto.
Qed.

Theorem accept_ruleset_extends : forall F st n s',
  step (F, st) (CRuleset n) = (s', RAccept) ->
  ~ In n (seen F) /\ rs_lookup (rulesets F) (Some n) = None /\
  s' = (with_rulesets (with_seen F (n :: seen F)) ((Some n, []) :: rulesets F), st).
Proof.
  intros F st n s' H. unfold step in H; simpl in H. unfold shadow_check in H.
  destruct (mem n (seen F)) eqn:E; simpl in H; [inv H|].
  destruct (rs_lookup (rulesets F) (Some n)) eqn:E2; inv H.
  repeat split; auto. intro K. apply mem_In in K. congruence.
Qed.

(* ---------------------------------------------------------------------------------------- *)
(** * Determinism / totality (functions), and the non-trivial part: a run never continues after a
      panic, and produces one result per command otherwise *)

Lemma run_length : forall cs s, length (snd (run s cs)) <= length cs.
Proof.
  induction cs as [|c tl IH]; intros s; simpl; [lia|].
  destruct (step s c) as [s' [| |]]; simpl.
  - specialize (IH s'). destruct (run s' tl); simpl in *; lia.
  - specialize (IH s'). destruct (run s' tl); simpl in *; lia.
  - lia.
Qed.

Lemma run_no_panic_full : forall cs s, ~ In RPanic (snd (run s cs)) -> length (snd (run s cs)) = length cs.
Proof.
  induction cs as [|c tl IH]; intros s H; simpl in *; [reflexivity|].
  destruct (step s c) as [s' [| |]]; simpl in *.
  - specialize (IH s'). destruct (run s' tl); simpl in *. rewrite IH; auto.
  - specialize (IH s'). destruct (run s' tl); simpl in *. rewrite IH; auto.
  - exfalso. apply H. left; reflexivity.
Qed.

(* ---------------------------------------------------------------------------------------- *)
(** * Panics need an inconsistent declaration state

    [fn_closed F]: every function and global the typechecker knows has a table. Accepted
    declarations establish it; the rejected declarations of F2 break it (see the replays above).
    Under [fn_closed], a command that only USES declarations (set / union / expression actions,
    check, rule) cannot reach the `self.functions[name]` panic of lib.rs:2700. *)

Definition fn_closed (F : frame) : Prop :=
  (forall n, has (funcs F) n = true -> has (tables F) n = true) /\
  (forall n, has (globals F) n = true -> has (tables F) n = true) /\
  (forall n, global_sort_ok F n = true).

Section ExprInd.
  Variable P : expr -> Prop.
  Hypothesis Hv : forall n, P (EVar n).
  Hypothesis Hi : P EInt.
  Hypothesis Hs : P EStr.
  Hypothesis Hc : forall f args, Forall P args -> P (ECall f args).
  Hypothesis Hp : forall p args, Forall P args -> P (EPrim p args).
  Fixpoint expr_ind' (e : expr) : P e :=
    match e with
    | EVar n => Hv n
    | EInt => Hi
    | EStr => Hs
    | ECall f args =>
        Hc f args ((fix go (l : list expr) : Forall P l :=
                      match l with [] => Forall_nil P | a :: tl => Forall_cons a (expr_ind' a) (go tl) end) args)
    | EPrim p args =>
        Hp p args ((fix go (l : list expr) : Forall P l :=
                      match l with [] => Forall_nil P | a :: tl => Forall_cons a (expr_ind' a) (go tl) end) args)
    end.
End ExprInd.

Lemma tc_tables_ok : forall F, fn_closed F ->
  forall e pat exp env r, tc F pat e exp env = inr r -> expr_tables_ok F e = true.
Proof.
  intros F [Hf [Hg _]]. induction e as [n| | |f0 args IHargs|p args IHargs] using expr_ind'; intros pat exp env r H; simpl in *; auto.
  - destruct (has (globals F) n) eqn:E; auto.
  - destruct (lookup (funcs F) f0) as [sg|] eqn:E; [|discriminate].
    assert (Hh : has (funcs F) f0 = true) by (unfold has; rewrite E; reflexivity).
    rewrite (Hf _ Hh). simpl.
    destruct (Nat.eqb (length args) (length (f_ins sg))) eqn:El; [|discriminate].
    apply Nat.eqb_eq in El.
    match type of H with match ?X with _ => _ end = _ => destruct X as [|env'] eqn:Eg; [discriminate|] end.
    clear H. revert Eg El. generalize (f_ins sg) as ins. revert env env'.
    induction IHargs as [|a tl Ha Htl IH]; intros env env' ins Eg El; [reflexivity|].
    destruct ins as [|i ins]; [simpl in El; discriminate|].
    simpl. destruct (tc F pat a (Some i) env) as [|[t env1]] eqn:Ea; [discriminate|].
    rewrite (Ha _ _ _ _ Ea). simpl. eapply IH; [exact Eg|]. simpl in El. lia.
  - destruct p; try discriminate;
      (destruct (Nat.eqb (length args) 2); [|discriminate];
       match type of H with match ?X with _ => _ end = _ => destruct X as [|env'] eqn:Eg; [discriminate|] end;
       clear H; revert env env' Eg;
       induction IHargs as [|a tl Ha Htl IH]; intros env env' Eg; [reflexivity|];
       simpl; destruct (tc F pat a (Some s_i64) env) as [|[t env1]] eqn:Ea; [discriminate|];
       rewrite (Ha _ _ _ _ Ea); simpl; eapply IH; exact Eg).
Qed.

Lemma tc_args_tables_ok : forall F, fn_closed F -> forall args pat ins env r,
  length args = length ins -> tc_args F pat args ins env = inr r -> forallb (expr_tables_ok F) args = true.
Proof.
  intros F HF. induction args as [|a tl IH]; intros pat ins env r Hl H; [reflexivity|].
  destruct ins as [|i ins]; [discriminate|]. simpl in *.
  destruct (tc F pat a (Some i) env) as [|[t env1]] eqn:Ea; [discriminate|].
  rewrite (tc_tables_ok F HF _ _ _ _ _ Ea). simpl. eapply IH; [|exact H]. lia.
Qed.

Lemma expr_globals_ok_closed : forall F, fn_closed F -> forall e, expr_globals_ok F e = true.
Proof.
  intros F [_ [_ Hs]]. induction e as [n| | |f0 args IHargs|p args IHargs] using expr_ind'; simpl; auto;
    (induction IHargs as [|a tl Ha Htl IH]; simpl; [reflexivity|rewrite Ha, IH; reflexivity]).
Qed.

Lemma tc_fact_tables_ok : forall F, fn_closed F -> forall f env r,
  tc_fact F f env = inr r -> fact_tables_ok F f = true.
Proof.
  intros F HF [a b|e] env r H; simpl in *; rewrite ?(expr_globals_ok_closed F HF); rewrite ?andb_true_r.
  - destruct (tc F true b None env) as [|[t env1]] eqn:Eb.
    + destruct (tc F true a None env) as [|[t env1]] eqn:Ea; [discriminate|].
      destruct (tc F true b (Some t) env1) as [|[? ?]] eqn:Eb2; [discriminate|].
      rewrite (tc_tables_ok F HF _ _ _ _ _ Ea), (tc_tables_ok F HF _ _ _ _ _ Eb2). reflexivity.
    + destruct (tc F true a (Some t) env1) as [|[? ?]] eqn:Ea; [discriminate|].
      rewrite (tc_tables_ok F HF _ _ _ _ _ Ea), (tc_tables_ok F HF _ _ _ _ _ Eb). reflexivity.
  - destruct (tc F true e None env) as [|[? ?]] eqn:Ee; [discriminate|].
    apply (tc_tables_ok F HF _ _ _ _ _ Ee).
Qed.

Lemma tc_facts_tables_ok : forall F, fn_closed F -> forall fs env r,
  tc_facts F fs env = inr r -> forallb (fact_tables_ok F) fs = true.
Proof.
  intros F HF. induction fs as [|f0 tl IH]; intros env r H; [reflexivity|]. simpl in *.
  destruct (tc_fact F f0 env) as [|env1] eqn:E; [discriminate|].
  rewrite (tc_fact_tables_ok F HF _ _ _ E). simpl. eapply IH; exact H.
Qed.

Lemma tc_action_tables_ok : forall F, fn_closed F -> forall rule a env r,
  tc_action F rule a env = inr r -> action_tables_ok F a = true.
Proof.
  intros F HF rule a env r H. destruct a; simpl in *.
  - destruct (tc F false e None env) as [|[t env1]] eqn:E; [discriminate|].
    apply (tc_tables_ok F HF _ _ _ _ _ E).
  - destruct (lookup (funcs F) f0) as [sg|] eqn:E; [|discriminate].
    assert (Hh : has (funcs F) f0 = true) by (unfold has; rewrite E; reflexivity).
    pose proof HF as HF0. destruct HF as [Hf Hg]. rewrite (Hf _ Hh). simpl.
    destruct (f_ctor sg); [discriminate|].
    destruct (Nat.eqb (length args) (length (f_ins sg))) eqn:El; simpl in H; [|discriminate].
    apply Nat.eqb_eq in El.
    destruct (tc_args F false args (f_ins sg) env) as [|env1] eqn:Ea; [discriminate|].
    destruct (tc F false v (Some (f_out sg)) env1) as [|[? ?]] eqn:Ev; [discriminate|].
    rewrite (tc_args_tables_ok F HF0 _ _ _ _ _ El Ea), (tc_tables_ok F HF0 _ _ _ _ _ Ev).
    reflexivity.
  - destruct (tc F false a None env) as [|[t env1]] eqn:Ea; [discriminate|].
    destruct (tc F false b (Some t) env1) as [|[? ?]] eqn:Eb; [discriminate|].
    rewrite (tc_tables_ok F HF _ _ _ _ _ Ea), (tc_tables_ok F HF _ _ _ _ _ Eb). reflexivity.
  - destruct (tc F false e None env) as [|[? ?]] eqn:E; [discriminate|].
    apply (tc_tables_ok F HF _ _ _ _ _ E).
Qed.

Lemma tc_actions_tables_ok : forall F, fn_closed F -> forall rule acts env r,
  tc_actions F rule acts env = inr r -> forallb (action_tables_ok F) acts = true.
Proof.
  intros F HF rule. induction acts as [|a tl IH]; intros env r H; [reflexivity|]. simpl in *.
  destruct (tc_action F rule a env) as [|env1] eqn:E; [discriminate|].
  rewrite (tc_action_tables_ok F HF _ _ _ _ E). simpl. eapply IH; exact H.
Qed.

Definition uses_only (c : cmd) : bool :=
  match c with
  | CRule _ _ _ _ | CCheck _ | CRun _ | CPush | CPop | CPrintSize _ => true
  | CAct (ALet _ _) => false
  | CAct _ => true
  | _ => false
  end.

Lemma step_act : forall F st a, (forall x e, a <> ALet x e) ->
  step (F, st) (CAct a) =
  match tc_action F false a [] with
  | inl e => ((F, st), RReject e)
  | inr _ => if action_tables_ok F a then ((F, st), RAccept) else ((F, st), RPanic)
  end.
Proof.
  intros F st a H. destruct a; [exfalso; eapply H; reflexivity| | |];
    cbv beta iota zeta delta [step desugar tc_program_tagged tc_ncmd tag_err];
    match goal with |- context [tc_action F false ?a []] => destruct (tc_action F false a []) end;
    cbv beta iota zeta delta [shadow_program shadow_ncmd run_program run_ncmd];
    try match goal with |- context [action_tables_ok F ?a] => destruct (action_tables_ok F a) end; reflexivity.
Qed.

Theorem no_panic_when_closed : forall F st c,
  fn_closed F -> uses_only c = true -> snd (step (F, st) c) <> RPanic.
Proof.
  intros F st c HF Hu. destruct c; simpl in Hu; try discriminate.
  - (* rule *)
    unfold step; simpl.
    destruct (tc_facts F body []) as [|env] eqn:Eb; simpl; [discriminate|].
    destruct (tc_actions F true head env) as [|env'] eqn:Eh; simpl; [discriminate|].
    destruct (existsb _ _); simpl; [discriminate|].
    rewrite (tc_facts_tables_ok F HF _ _ _ Eb), (tc_actions_tables_ok F HF _ _ _ _ Eh). simpl.
    destruct (rs_lookup _ _); [|discriminate]. destruct (memn _ _); discriminate.
  - (* action *)
    rewrite step_act; [|intros x e K; subst; discriminate].
    destruct (tc_action F false a []) as [|env] eqn:E; [discriminate|].
    rewrite (tc_action_tables_ok F HF _ _ _ _ E). discriminate.
  - (* run *) unfold step; simpl. destruct (rs_lookup _ _); discriminate.
  - (* check *)
    unfold step; simpl.
    destruct (tc_facts F fs []) as [|env] eqn:Eb; simpl; [discriminate|].
    destruct (existsb _ _); simpl; [discriminate|].
    rewrite (tc_facts_tables_ok F HF _ _ _ Eb). discriminate.
  - (* pop *) unfold step; simpl. destruct st; discriminate.
  - (* print-size *) unfold step; simpl. destruct (lookup (tables F) n) as [[|]|]; discriminate.
Qed.

(** an accepted function declaration keeps the state closed; the rejected one of F2 does not *)
Lemma closed_init : fn_closed init_frame.
Proof. split; [|split]; intros n; try discriminate. reflexivity. Qed.

Lemma f2_breaks_closed : exists s' e, step init w_bad_variant = (s', RReject e) /\ ~ fn_closed (fst s').
Proof.
  eexists; eexists; split; [vm_compute; reflexivity|].
  intros [Hf _]. specialize (Hf va). simpl in Hf. discriminate Hf. reflexivity.
Qed.
