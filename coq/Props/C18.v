(** C18 — Custom schedulers are offered every match, lose none, and keep the DB sound.
    This file only pins statements and prints their assumptions. *)
From Coq Require Import List Arith PeanoNat Bool Permutation ZArith.
Import ListNotations.
Require Import Verif.Base.Res Verif.gen.UFSeq Verif.Egg.Model Verif.Egg.Rules Verif.Egg.CCDefs
  Verif.Egg.CC Verif.Sched.Scheduler Verif.Sched.SchedulerProofs
  Verif.Sched.MatchesPrelude Verif.Sched.MatchesProofs.
Require Verif.gen.MatchesFns.
From Coq Require Import NArith.

(** [Matches::instantiate] (scheduler.rs:114-166), for every vector of matches and every list of
    chosen indices in range (any order, duplicates allowed): it does not panic, the rows inserted
    into the `decided` table are exactly the chosen matches, and the residual vector kept for
    later steps is a permutation of the matches at the indices that were not chosen. *)
Theorem c18_instantiate_perm : forall (A : Type) (d : A) (m : list A) (chosen : list nat),
  Forall (fun c => c < length m) chosen ->
  exists res,
    instantiate m chosen false = Ok (map (fun c => nth c m d) chosen, res)
    /\ Permutation (res ++ map (fun c => nth c m d) (sort_dedup chosen (length m))) m
    /\ Permutation res
         (map (fun c => nth c m d)
              (filter (fun i => negb (existsb (Nat.eqb i) chosen)) (seq 0 (length m)))).
Proof. exact @instantiate_perm. Qed.
Print Assumptions c18_instantiate_perm.

(** duplicates and order of the choices do not matter for what is kept *)
Theorem c18_instantiate_dups : forall (A : Type) (d : A) (m : list A) (c1 c2 : list nat),
  (forall i, In i c1 <-> In i c2) ->
  Forall (fun c => c < length m) c1 ->
  exists res, instantiate m c1 false = Ok (map (fun c => nth c m d) c1, res)
           /\ instantiate m c2 false = Ok (map (fun c => nth c m d) c2, res).
Proof. exact @instantiate_dups. Qed.
Print Assumptions c18_instantiate_dups.

(** [choose_all] inserts everything and keeps nothing *)
Theorem c18_instantiate_all : forall (A : Type) (m : list A) (chosen : list nat),
  instantiate m chosen true = Ok (m, []).
Proof. exact @instantiate_all. Qed.
Print Assumptions c18_instantiate_all.

(** non-vacuity: the swap-remove loop on a concrete vector (indices 3, 0, 3 chosen) *)
Example c18_instantiate_example :
  instantiate [10; 11; 12; 13; 14] [3; 0; 3] false = Ok ([13; 10; 13], [14; 11; 12]).
Proof. vm_compute. reflexivity. Qed.

(** For EVERY scheduler (an arbitrary state machine [filter]), program and state: in one
    [step_rules_with_scheduler] the scheduler's [filter_matches] for rule k is offered exactly the
    rule's residual vector, every id read through the current union-find ([canon_t]), followed — when the scheduler had asked for a new search — by one tuple
    (the values of the head's variables) per match of the rule body ([Rules.match_body], the
    specification matcher, on the database as it is when the step starts). *)
Theorem c18_offered_all : forall (Sst : Type)
    (filter : Sst -> nat -> list tuple -> Sst * (bool * list nat * bool)) sg rules
    (x x' : sstate Sst) e offs,
  step Sst filter sg rules x = Ok (x', e, offs) ->
  length offs = length rules /\
  forall k r, nth_error rules k = Some r ->
    let ri := nth k (ss_infos x) info0 in
    nth_error offs k =
      Some (map (canon_t (ss_db x)) (ri_res ri)
            ++ (if ri_seek ri
                then map (proj (head_vars r)) (match_body (ss_db x) (rbody r) [[]])
                else [])).
Proof. exact offered_all. Qed.
Print Assumptions c18_offered_all.

(** ... and that set of matches is the set of matches over the database with every subsumed row
    removed: no offered match rests on a subsumed row. *)
Theorem c18_offered_not_subsumed : forall s fs es,
  match_body (strip_sub s) fs es = match_body s fs es.
Proof. exact match_body_ignores_subsumed. Qed.
Print Assumptions c18_offered_not_subsumed.

(** A match that was offered and not chosen is kept (the residual is a permutation of the
    unchosen offered tuples; [choose_all] keeps nothing), and WHATEVER happens to the database and
    to the scheduler's state in between, the next step offers it again — modulo the equalities
    that hold then: each id replaced by its current representative — (followed by the new
    matches iff the scheduler asked for a search). *)
Theorem c18_no_loss : forall (Sst : Type)
    (filter : Sst -> nat -> list tuple -> Sst * (bool * list nat * bool)) sg rules
    (x x1 : sstate Sst) e1 offs1,
  step Sst filter sg rules x = Ok (x1, e1, offs1) ->
  forall k r, nth_error rules k = Some r ->
  exists off all chosen,
    nth_error offs1 k = Some off /\
    (exists st st', filter st k off = (st', (all, chosen, ri_seek (nth k (ss_infos x1) info0)))) /\
    (all = true -> ri_res (nth k (ss_infos x1) info0) = []) /\
    (all = false ->
       Forall (fun c => c < length off) chosen /\
       Permutation (ri_res (nth k (ss_infos x1) info0))
         (map (fun i => nth i off [])
              (List.filter (fun i => negb (existsb (Nat.eqb i) chosen)) (seq 0 (length off))))) /\
    forall s2 st2 x2 e2 offs2,
      step Sst filter sg rules (mkSS s2 (ss_infos x1) st2) = Ok (x2, e2, offs2) ->
      exists fr, nth_error offs2 k
                   = Some (map (canon_t s2) (ri_res (nth k (ss_infos x1) info0)) ++ fr) /\
                 (ri_seek (nth k (ss_infos x1) info0) = false -> fr = []).
Proof. exact no_loss. Qed.
Print Assumptions c18_no_loss.

(** A scheduler that always chooses everything is the built-in stepping: on a canonical database
    the step computes exactly [Rules.iteration] (same state, same error), keeps no residual, and
    leaves every rule searching — so n such steps are n built-in iterations. *)
Theorem c18_choose_all_eq_builtin : forall (Sst : Type) sg rules s (st : Sst) infos,
  (forall f r, In r (get_tab (tabs s) f) ->
     canon_val s (rret r) = true /\ Forall (fun v => canon_val s v = true) (rargs r)) ->
  Forall (fun ri => ri = info0) infos ->
  step Sst (fun st k off => (st, (true, [], true))) sg rules (mkSS s infos st)
  = Ok (mkSS (fst (iteration sg rules s)) (map (fun _ => info0) rules) st,
        snd (iteration sg rules s),
        map (fun r => map (proj (head_vars r)) (match_body s (rbody r) [[]])) rules).
Proof. exact choose_all_eq_builtin. Qed.
Print Assumptions c18_choose_all_eq_builtin.

(** The database is canonical after every step, for EVERY scheduler and every content of the side
    vectors (no assumption that held-back ids are still canonical: the step reads them through
    the union-find first), over the constructor fragment of the Egg core (heads made of
    expressions and unions over constructor tables — the fragment [c04_inv_reachable] covers):
    the step keeps the full well-formedness invariant, in particular canonicity. *)
Theorem c18_canonical_after_step : forall (Sst : Type)
    (filter : Sst -> nat -> list tuple -> Sst * (bool * list nat * bool)) sg n U rules
    (x x' : sstate Sst) e offs,
  Forall (fun m => m = MUnionId) sg -> WFs n U (ss_db x) ->
  Forall (fun r => forallb (fun a => match a with AExpr _ | AUnion _ _ => true | _ => false end)
                           (rhead r) = true) rules ->
  step Sst filter sg rules x = Ok (x', e, offs) ->
  (exists U', WFs n U' (ss_db x')) /\
  (forall f r i, In r (get_tab (tabs (ss_db x')) f) ->
     (In (VId i) (rargs r) \/ rret r = VId i) -> rep (uf (ss_db x')) i = i).
Proof. exact canonical_after_step. Qed.
Print Assumptions c18_canonical_after_step.

(** Every tuple any scheduler is offered holds only canonical ids (for every signature and rule
    set): matches are applied "modulo the equalities that hold when they are finally applied". *)
Theorem c18_offered_is_canonical : forall (Sst : Type)
    (filter : Sst -> nat -> list tuple -> Sst * (bool * list nat * bool)) sg n U rules
    (x x' : sstate Sst) e offs,
  WFs n U (ss_db x) -> step Sst filter sg rules x = Ok (x', e, offs) ->
  Forall (Forall (fun t => canon_tuple (ss_db x) t = true)) offs.
Proof. exact offered_is_canonical. Qed.
Print Assumptions c18_offered_is_canonical.

(** The former counterexample F7 (fixed in /repo by c01cd3e), now a regression example: program
    (datatype N (A) (B) (G N)) (relation Seen (N)) (rule ((= x (G y))) ((Seen y))) (A) (G (B)),
    a scheduler that chooses nothing at its first call and everything afterwards, one step, then
    (union (A) (B)), then one more step: the match kept with B's displaced id is offered with the
    representative, the database is canonical and (Seen (A)) holds. *)
Example c18_f7_scenario_now_canonical :
  exists x1 o1 s1 x2,
    step nat f7_filter f7_sg f7_rules f7_x0 = Ok (x1, None, o1) /\
    ri_res (nth 0 (ss_infos x1) info0) = [[Some (VId 1)]] /\
    exec f7_sg (ss_db x1) (CUnion (T 0 []) (T 1 [])) = Ok s1 /\
    step nat f7_filter f7_sg f7_rules (mkSS s1 (ss_infos x1) (ss_sched x1))
      = Ok (x2, None, [[[Some (VId 0)]]]) /\
    canonical (ss_db x2) /\
    eval (ss_db x2) (T 3 [T 0 []]) = Some (VInt 0) /\
    eval (ss_db x2) (T 3 [T 1 []]) = Some (VInt 0).
Proof. exact f7_scenario_now_canonical. Qed.

(** non-vacuity of [c18_canonical_after_step]: a reachable state, a match held back across a
    union that displaces one of its ids, and a step that applies it and changes the database *)
Example c18_canonical_nonvacuous :
  let sg := [MUnionId; MUnionId; MUnionId] in
  let rules := [mkRule [FEq 0 (PApp 2 [PVar 1])] [AUnion (PVar 0) (PVar 1)]] in
  exists s0 x1 s1 x2,
    run sg (init 3) [CAdd (T 0 []); CAdd (T 2 [T 1 []])] = Ok s0 /\
    step nat f7_filter sg rules (mkSS s0 [] 0) = Ok (x1, None, [[[Some (VId 2); Some (VId 1)]]]) /\
    ri_res (nth 0 (ss_infos x1) info0) = [[Some (VId 2); Some (VId 1)]] /\
    run sg (init 3) [CAdd (T 0 []); CAdd (T 2 [T 1 []]); CUnion (T 0 []) (T 1 [])] = Ok s1 /\
    step nat f7_filter sg rules (mkSS s1 (ss_infos x1) (ss_sched x1))
      = Ok (x2, None, [[[Some (VId 2); Some (VId 0)]]]) /\
    uf s1 = [0; 0; 2] /\ uf (ss_db x2) = [0; 0; 0].
Proof.
  cbv zeta. do 4 eexists.
  split; [vm_compute; reflexivity|].
  split; [vm_compute; reflexivity|].
  split; [reflexivity|].
  split; [vm_compute; reflexivity|].
  split; [vm_compute; reflexivity|].
  split; vm_compute; reflexivity.
Qed.

(* ====================================================================================== *)
(** * Tier A: the methods of `impl Matches` REGENERATED from src/scheduler.rs (gen/MatchesFns.v)

    [MatchesFns.instantiate matches chosen vars tuple_width all_chosen unit] is the statement-by-
    statement translation of scheduler.rs:114-165 over the flat [Vec<Value>] ([list N]), usize
    subtraction checked (underflow = Panic), slices / swaps / chunks panicking out of range, the
    rows given to [table_action.insert] collected in order. *)

(** REFINEMENT of the hand model by the regenerated code: for tuples of width [w > 0], at most [w]
    variable columns and in-range choices, the regenerated function returns [Ok], inserts the rows
    the hand model inserts (cut to the variable columns + the unit cell) and keeps the flattening of
    the residual the hand model keeps. So [c18_instantiate_perm/_dups/_all], [c18_no_loss], ...
    speak about the code as it is in the source now: moving [p -= 1] after the comparison,
    truncating to [p] instead of [p * tuple_width], or dropping [.rev()] changes
    [MatchesFns.instantiate] and breaks this proof. *)
Theorem c18_src_instantiate_refines : forall (ms : list (list N)) (chosen : list nat)
    (vars : list N) (w : nat) (all : bool) (u : N),
  0 < w -> Forall (fun t => length t = w) ms -> length vars <= w ->
  (all = false -> Forall (fun c => c < length ms) chosen) ->
  exists ins res,
    Scheduler.instantiate ms chosen all = Ok (ins, res) /\
    MatchesFns.instantiate (concat ms) chosen vars w all u
      = Ok (map (fun t => firstn (length vars) t ++ [u]) ins, concat res).
Proof. exact instantiate_refines. Qed.
Print Assumptions c18_src_instantiate_refines.

(** [c18_instantiate_perm] over the regenerated function *)
Theorem c18_src_instantiate_perm : forall (ms : list (list N)) (chosen : list nat) (vars : list N)
    (w : nat) (u : N),
  0 < w -> Forall (fun t => length t = w) ms -> length vars <= w ->
  Forall (fun c => c < length ms) chosen ->
  exists res,
    MatchesFns.instantiate (concat ms) chosen vars w false u
      = Ok (map (fun c => firstn (length vars) (nth c ms []) ++ [u]) chosen, concat res)
    /\ Permutation res
         (map (fun c => nth c ms [])
              (filter (fun i => negb (existsb (Nat.eqb i) chosen)) (seq 0 (length ms)))).
Proof. exact src_instantiate_perm. Qed.
Print Assumptions c18_src_instantiate_perm.

(** [c18_instantiate_all] over the regenerated function ([all_chosen] branch: [chunks]) *)
Theorem c18_src_instantiate_all : forall (ms : list (list N)) (chosen : list nat) (vars : list N)
    (w : nat) (u : N),
  0 < w -> Forall (fun t => length t = w) ms -> length vars <= w ->
  MatchesFns.instantiate (concat ms) chosen vars w true u
    = Ok (map (fun t => firstn (length vars) t ++ [u]) ms, []).
Proof. exact src_instantiate_all. Qed.
Print Assumptions c18_src_instantiate_all.

(** [Matches::new] (regenerated): [tuple_width = max(vars.len(), 1)], panics iff the length of the
    vector is not a multiple of it *)
Theorem c18_src_new_spec : forall (matches vars : list N),
  let w := Nat.max (length vars) 1 in
  (length matches mod w = 0 -> MatchesFns.new matches vars = Ok (matches, [], vars, w, false)) /\
  (length matches mod w <> 0 -> MatchesFns.new matches vars = Panic).
Proof. exact src_new_spec. Qed.
Print Assumptions c18_src_new_spec.

(** NO PANIC over the flat representation: for every vector [Matches::new] accepts and every list of
    choices below [match_size()] (any order, duplicates allowed), with or without [choose_all]:
    [instantiate] returns [Ok] (no usize underflow of [p], no slice / swap out of bounds, no division
    by zero), and the residual it returns is accepted by [Matches::new] again — the assert of the
    next step cannot fire. *)
Theorem c18_src_instantiate_no_panic : forall (matches vars : list N) (chosen : list nat)
    (all : bool) (u : N) m c v w a,
  MatchesFns.new matches vars = Ok (m, c, v, w, a) ->
  forall n, MatchesFns.match_size m c v w a = Ok n ->
  Forall (fun i => i < n) chosen ->
  exists ins res,
    MatchesFns.instantiate m chosen v w all u = Ok (ins, res) /\
    (exists M', MatchesFns.new res vars = Ok M') /\
    (all = true -> res = [] /\ length ins = n) /\
    (all = false -> length ins = length chosen /\
       length res = (n - length (sort_dedup chosen n)) * w).
Proof. exact src_instantiate_no_panic. Qed.
Print Assumptions c18_src_instantiate_no_panic.

(** [match_size] / [get_match] index arithmetic (regenerated) *)
Theorem c18_src_match_size : forall (ms : list (list N)) chosen vars w all,
  0 < w -> Forall (fun t => length t = w) ms ->
  MatchesFns.match_size (concat ms) chosen vars w all = Ok (length ms).
Proof. exact src_match_size. Qed.
Print Assumptions c18_src_match_size.

Theorem c18_src_get_match : forall (ms : list (list N)) chosen vars w all i,
  Forall (fun t => length t = w) ms -> i < length ms ->
  (length vars = w \/ (length vars = 0 /\ w = 1)) ->
  MatchesFns.get_match (concat ms) chosen vars w all i
    = Ok (firstn (length vars) (nth i ms []), vars).
Proof. exact src_get_match. Qed.
Print Assumptions c18_src_get_match.

(** [choose] appends the index, [choose_all] sets the flag, nothing else changes: the interface the
    scheduler function of the hand model ([filter]) abstracts *)
Theorem c18_src_choose_spec : forall (m : list N) c v w a i,
  MatchesFns.choose m c v w a i = Ok (m, c ++ [i], v, w, a) /\
  MatchesFns.choose_all m c v w a = Ok (m, c, v, w, true).
Proof. exact src_choose_spec. Qed.

(** non-vacuity: the regenerated function on a concrete flat vector, 5 matches of width 2, two
    variable columns, indices 3, 0, 3 chosen (cf. [c18_instantiate_example]); a variable-free rule
    (width 1, no variable column); and an out-of-range choice panics *)
Example c18_src_instantiate_example :
  MatchesFns.instantiate [10; 110; 11; 111; 12; 112; 13; 113; 14; 114]%N [3; 0; 3] [1; 2]%N 2 false 99%N
    = Ok ([[13; 113; 99]; [10; 110; 99]; [13; 113; 99]]%N, [14; 114; 11; 111; 12; 112]%N)
  /\ MatchesFns.instantiate [7; 7; 7]%N [1] [] 1 false 7%N = Ok ([[7%N]], [7; 7]%N)
  /\ MatchesFns.instantiate [7; 7; 7]%N [3] [] 1 false 7%N = Panic.
Proof. vm_compute. auto. Qed.

(** control structure of [step_rules_with_scheduler] the hand model assumes, REGENERATED as facts
    (a fact whose site is no longer recognised is not defined and this file stops compiling):
    phase order query -> re-canonicalise residual -> Matches::new -> filter_matches -> instantiate ->
    flush -> action rules; the residual is re-canonicalised with get_canon_repr before it is offered
    (fix of F7) and the side cell receives what instantiate returns; the compiled-rule cache is keyed
    by (ruleset, rule name) (fix of S2); a query rule runs iff should_seek. The model's [offered]
    is the instance of the generic shape at the regenerated switches. *)
Theorem c18_src_step_structure :
  MatchesFns.sched_step_order = [0; 1; 2; 3; 4; 5; 6] /\ MatchesFns.sched_residual_stored_from_instantiate = true /\
  MatchesFns.sched_cache_key_fields = [0; 1] /\
  forall (s : state) (r : rule) (ri : rinfo),
    offered s r ri
    = map (if MatchesFns.sched_residual_recanon then canon_t s else fun t => t) (ri_res ri)
      ++ (if MatchesFns.sched_query_iff_should_seek then (if ri_seek ri then fresh s r else []) else fresh s r).
Proof. repeat split. Qed.
Print Assumptions c18_src_step_structure.
