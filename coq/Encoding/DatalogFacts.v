(** C11: generic facts about the Datalog semantics of Encoding/Datalog.v: the matcher is sound
    and complete w.r.t. satisfaction of the body atoms, what the staged operations of a ruleset
    are, what applying them does to the tables, and what "the step reported no change" means. *)
From Coq Require Import List Arith ZArith Bool PeanoNat Lia.
Import ListNotations.
Require Import Verif.Base.Res Verif.Egg.Model Verif.Egg.CCDefs Verif.Encoding.Datalog.

(* ------------------------------------------------------------------ environments *)

Definition ext (e0 e : env) : Prop := forall x v, lookup e0 x = Some v -> lookup e x = Some v.

Lemma ext_refl e : ext e e.
Proof. intros x v H. exact H. Qed.

Lemma ext_trans a b c : ext a b -> ext b c -> ext a c.
Proof. intros H1 H2 x v H. apply H2, H1, H. Qed.

Lemma ext_cons e x v : lookup e x = None -> ext e ((x, v) :: e).
Proof.
  intros Hn y w Hy. cbn [lookup]. destruct (Nat.eqb_spec x y) as [->|Ne]; [congruence|exact Hy].
Qed.

Lemma lookup_cons_eq e x v : lookup ((x, v) :: e) x = Some v.
Proof. cbn [lookup]. rewrite Nat.eqb_refl. reflexivity. Qed.

Lemma map_lookup_ext e e' vars vals :
  ext e e' -> map (lookup e) vars = map Some vals -> map (lookup e') vars = map Some vals.
Proof.
  intros He. revert vals. induction vars as [|x xs IH]; intros [|v vs] H; cbn [map] in *; try discriminate; auto.
  injection H as Hx Hxs. f_equal; [apply He; exact Hx|apply IH; exact Hxs].
Qed.

Lemma match_vars_sound : forall vars vals e e',
  match_vars vars vals e = Some e' -> ext e e' /\ map (lookup e') vars = map Some vals.
Proof.
  induction vars as [|x xs IH]; intros [|v vs] e e' H; cbn [match_vars] in H; try discriminate.
  - injection H as <-. split; [apply ext_refl|reflexivity].
  - destruct (lookup e x) as [w|] eqn:El.
    + destruct (val_eqb w v) eqn:Ev; [|discriminate]. apply val_eqb_eq in Ev. subst w.
      destruct (IH _ _ _ H) as [He Hm]. split; [exact He|]. cbn [map]. f_equal; [apply He; exact El|exact Hm].
    + destruct (IH _ _ _ H) as [He Hm]. split.
      * eapply ext_trans; [apply ext_cons; exact El|exact He].
      * cbn [map]. f_equal; [apply He; apply lookup_cons_eq|exact Hm].
Qed.

Lemma match_vars_complete : forall vars vals e E,
  ext e E -> map (lookup E) vars = map Some vals ->
  exists e', match_vars vars vals e = Some e' /\ ext e' E.
Proof.
  induction vars as [|x xs IH]; intros [|v vs] e E He H; cbn [map] in H; try discriminate.
  - exists e. split; [reflexivity|exact He].
  - injection H as Hx Hxs. cbn [match_vars]. destruct (lookup e x) as [w|] eqn:El.
    + pose proof (He _ _ El) as Hw. rewrite Hx in Hw. injection Hw as <-.
      assert (Ev : val_eqb v v = true) by (apply val_eqb_eq; reflexivity). rewrite Ev.
      apply IH; assumption.
    + apply IH; [|exact Hxs]. intros y w Hy. cbn [lookup] in Hy.
      destruct (Nat.eqb_spec x y) as [->|Ne]; [congruence|apply He; exact Hy].
Qed.

(* ------------------------------------------------------------------ bodies *)

Definition atom_sat (d : db) (e : env) (a : atom) : Prop :=
  exists r, In r (gett d (atab a)) /\ map (lookup e) (avars a) = map Some (tuple r).

Lemma atom_sat_ext d e e' a : ext e e' -> atom_sat d e a -> atom_sat d e' a.
Proof. intros He (r & Hr & Hm). exists r. split; [exact Hr|eapply map_lookup_ext; eauto]. Qed.

Lemma match_body_sound d : forall body e0 e,
  In e (match_body d body e0) -> ext e0 e /\ Forall (atom_sat d e) body.
Proof.
  induction body as [|a tl IH]; intros e0 e H; cbn [match_body] in H.
  - destruct H as [<-|[]]. split; [apply ext_refl|constructor].
  - apply in_flat_map in H. destruct H as (r & Hr & H).
    destruct (match_vars (avars a) (tuple r) e0) as [e1|] eqn:Em; [|destruct H].
    apply match_vars_sound in Em. destruct Em as [He1 Hm].
    destruct (IH _ _ H) as [He Hs]. split; [eapply ext_trans; eauto|].
    constructor; [|exact Hs]. exists r. split; [exact Hr|eapply map_lookup_ext; eauto].
Qed.

Lemma match_body_complete d : forall body e0 E,
  ext e0 E -> Forall (atom_sat d E) body ->
  exists e, In e (match_body d body e0) /\ ext e E.
Proof.
  induction body as [|a tl IH]; intros e0 E He Hs; cbn [match_body].
  - exists e0. split; [left; reflexivity|exact He].
  - inversion Hs as [|a' tl' (r & Hr & Hm) Htl]; subst.
    destruct (match_vars_complete _ _ _ _ He Hm) as (e1 & Em & He1).
    destruct (IH _ _ He1 Htl) as (e & Hin & Hee). exists e. split; [|exact Hee].
    apply in_flat_map. exists r. split; [exact Hr|]. rewrite Em. exact Hin.
Qed.

(* ------------------------------------------------------------------ staged operations *)

Lemma collect_ok {A B} (f : A -> Res (list B)) : forall l r, collect f l = Ok r ->
  (forall a, In a l -> exists x, f a = Ok x) /\
  (forall b, In b r <-> exists a x, In a l /\ f a = Ok x /\ In b x).
Proof.
  induction l as [|a tl IH]; intros r H; cbn [collect] in H.
  - injection H as <-. split; [intros a []|]. intros b. split; [intros []|intros (a & x & [] & _)].
  - destruct (f a) as [x| |] eqn:Ef; cbn [bind] in H; try discriminate.
    destruct (collect f tl) as [y| |] eqn:Ec; cbn [bind] in H; try discriminate.
    injection H as <-. destruct (IH _ eq_refl) as [IH1 IH2]. split.
    + intros a' [<-|Hin]; [eauto|apply IH1; exact Hin].
    + intros b. rewrite in_app_iff, IH2. split.
      * intros [Hb|(a' & x' & Hin & Hf & Hb)]; [exists a, x; simpl; auto|exists a', x'; simpl; auto].
      * intros (a' & x' & [<-|Hin] & Hf & Hb); [left; congruence|right; eauto].
Qed.

Lemma env_ops_spec r e os : env_ops r e = Ok os ->
  forall o, In o os <-> (guards_ok e (rguards r) = Some true /\ exists os', inst_acts e (racts r) = Some os' /\ In o os').
Proof.
  unfold env_ops. intros H o. destruct (guards_ok e (rguards r)) as [[|]|]; try discriminate.
  - destruct (inst_acts e (racts r)) as [os'|]; [|discriminate]. injection H as <-.
    split; [intros Ho; split; [reflexivity|eauto]|]. intros (_ & os'' & E & Ho). congruence.
  - injection H as <-. split; [intros []|intros (E & _); discriminate].
Qed.

Lemma rule_ops_spec d r ops : rule_ops d r = Ok ops ->
  forall o, In o ops <->
    exists e os, In e (match_body d (rbody r) []) /\ guards_ok e (rguards r) = Some true /\
                 inst_acts e (racts r) = Some os /\ In o os.
Proof.
  unfold rule_ops. intros H o. apply collect_ok in H. destruct H as [H1 H2]. rewrite H2. split.
  - intros (e & x & He & Hx & Ho). apply (env_ops_spec _ _ _ Hx) in Ho.
    destruct Ho as (Hg & os' & Hi & Ho). exists e, os'. auto.
  - intros (e & os & He & Hg & Hi & Ho). destruct (H1 e He) as (x & Hx). exists e, x.
    split; [exact He|]. split; [exact Hx|]. apply (env_ops_spec _ _ _ Hx). split; [exact Hg|eauto].
Qed.

Lemma rules_ops_spec d rs ops : rules_ops d rs = Ok ops ->
  forall o, In o ops <-> exists r x, In r rs /\ rule_ops d r = Ok x /\ In o x.
Proof. unfold rules_ops. intros H. apply collect_ok in H. apply H. Qed.

(* ------------------------------------------------------------------ tables *)

Lemma sett_set_nth : forall d t x, sett d t x = set_nth d t x.
Proof. induction d as [|h tl IH]; intros [|t] x; cbn [sett set_nth]; auto. rewrite IH. auto. Qed.

Lemma length_sett d t x : length (sett d t x) = length d.
Proof. rewrite sett_set_nth. apply length_set_nth. Qed.

Lemma gett_sett d t x t' :
  gett (sett d t x) t' = if (Nat.eqb t' t && (t <? length d))%bool then x else gett d t'.
Proof.
  unfold gett. rewrite sett_set_nth. destruct (Nat.ltb_spec t (length d)) as [H|H].
  - rewrite andb_true_r. apply nth_set_nth. exact H.
  - rewrite andb_false_r. rewrite set_nth_oob by exact H. reflexivity.
Qed.

Lemma sett_same d t : sett d t (gett d t) = d.
Proof.
  unfold gett. revert t. induction d as [|h tl IH]; intros [|t]; cbn [sett nth]; auto. rewrite IH. auto.
Qed.

(* deletes *)

Lemma tdel_in t k r : In r (fst (tdel t k)) -> In r t.
Proof.
  induction t as [|r0 tl IH]; cbn [tdel]; [auto|].
  destruct (vals_eqb (dkey r0) k); cbn [fst]; [simpl; auto|].
  destruct (tdel tl k) as [tl' c]. cbn [fst] in *. intros [<-|H]; simpl; auto.
Qed.

Lemma tdel_keep t k r : In r t -> dkey r <> k -> In r (fst (tdel t k)).
Proof.
  induction t as [|r0 tl IH]; cbn [tdel]; [auto|]. intros [<-|H] Hk.
  - destruct (vals_eqb (dkey r0) k) eqn:E; [apply vals_eqb_eq in E; contradiction|].
    destruct (tdel tl k). cbn [fst]. simpl. auto.
  - destruct (vals_eqb (dkey r0) k); cbn [fst]; [exact H|].
    destruct (tdel tl k) as [tl' c]. cbn [fst] in *. simpl. auto.
Qed.

Lemma tdel_false t k : snd (tdel t k) = false -> fst (tdel t k) = t /\ forall r, In r t -> dkey r <> k.
Proof.
  induction t as [|r0 tl IH]; cbn [tdel]; [intros _; split; [reflexivity|intros r []]|].
  destruct (vals_eqb (dkey r0) k) eqn:E; cbn [snd fst]; [discriminate|].
  destruct (tdel tl k) as [tl' c]. cbn [snd fst] in *. intros ->. destruct (IH eq_refl) as [-> H2].
  split; [reflexivity|]. intros r [<-|Hr]; [|auto]. intros Hk. rewrite Hk, vals_eqb_refl in E. discriminate.
Qed.

Lemma apply_dels_in : forall ops d t r, In r (gett (fst (apply_dels d ops)) t) -> In r (gett d t).
Proof.
  induction ops as [|[t0 k v|t0 k] tl IH]; intros d t r; cbn [apply_dels]; [auto|apply IH|].
  destruct (tdel (gett d t0) k) as [x c] eqn:Ed.
  destruct (apply_dels (sett d t0 x) tl) as [d' c'] eqn:Ea. cbn [fst]. intros H.
  assert (H' : In r (gett (sett d t0 x) t)). { apply IH. rewrite Ea. exact H. }
  rewrite gett_sett in H'. destruct (Nat.eqb t t0 && (t0 <? length d))%bool eqn:Ec; [|exact H'].
  apply andb_true_iff in Ec. destruct Ec as [Ec _]. apply Nat.eqb_eq in Ec. subst t0.
  apply (tdel_in _ k). rewrite Ed. exact H'.
Qed.

Lemma apply_dels_keep : forall ops d t r, In r (gett d t) ->
  (forall k, In (ODel t k) ops -> dkey r <> k) -> In r (gett (fst (apply_dels d ops)) t).
Proof.
  induction ops as [|[t0 k v|t0 k] tl IH]; intros d t r Hr Hk; cbn [apply_dels]; [exact Hr| |].
  - apply IH; [exact Hr|]. intros k' Hin. apply Hk. right. exact Hin.
  - destruct (tdel (gett d t0) k) as [x c] eqn:Ed.
    destruct (apply_dels (sett d t0 x) tl) as [d' c'] eqn:Ea. cbn [fst].
    replace d' with (fst (apply_dels (sett d t0 x) tl)) by (rewrite Ea; reflexivity).
    apply IH; [|intros k' Hin; apply Hk; right; exact Hin].
    rewrite gett_sett. destruct (Nat.eqb t t0 && (t0 <? length d))%bool eqn:Ec; [|exact Hr].
    apply andb_true_iff in Ec. destruct Ec as [Ec _]. apply Nat.eqb_eq in Ec. subst t0.
    replace x with (fst (tdel (gett d t) k)) by (rewrite Ed; reflexivity).
    apply tdel_keep; [exact Hr|]. apply Hk. left. reflexivity.
Qed.

Lemma apply_dels_false : forall ops d, snd (apply_dels d ops) = false ->
  fst (apply_dels d ops) = d /\ forall t k, In (ODel t k) ops -> forall r, In r (gett d t) -> dkey r <> k.
Proof.
  induction ops as [|[t0 k v|t0 k] tl IH]; intros d; cbn [apply_dels].
  - intros _. split; [reflexivity|intros t k []].
  - intros H. destruct (IH d H) as [H1 H2]. split; [exact H1|]. intros t k' [E|Hin]; [discriminate|eauto].
  - destruct (tdel (gett d t0) k) as [x c] eqn:Ed.
    destruct (apply_dels (sett d t0 x) tl) as [d' c'] eqn:Ea. cbn [fst snd]. intros H.
    apply orb_false_iff in H. destruct H as [-> ->].
    assert (Hd : snd (tdel (gett d t0) k) = false) by (rewrite Ed; reflexivity).
    apply tdel_false in Hd. rewrite Ed in Hd. cbn [fst] in Hd. destruct Hd as [-> Hk].
    rewrite sett_same in Ea. specialize (IH d). rewrite Ea in IH. cbn [fst snd] in IH.
    destruct (IH eq_refl) as [-> H2]. split; [reflexivity|].
    intros t k' [E|Hin]; [injection E as <- <-; exact Hk|eauto].
Qed.

Lemma length_apply_dels : forall ops d, length (fst (apply_dels d ops)) = length d.
Proof.
  induction ops as [|[t0 k v|t0 k] tl IH]; intros d; cbn [apply_dels]; [reflexivity|apply IH|].
  destruct (tdel (gett d t0) k) as [x c]. specialize (IH (sett d t0 x)).
  destruct (apply_dels (sett d t0 x) tl) as [d' c']. cbn [fst] in *. rewrite IH. apply length_sett.
Qed.

(* sets *)

Lemma tset_in m t k v r : In r (fst (tset m t k v)) -> In r t \/ r = mkD k v.
Proof.
  induction t as [|r0 tl IH]; cbn [tset fst]; [intros [<-|[]]; auto|].
  destruct (vals_eqb (dkey r0) k).
  - destruct m; cbn [fst]; [auto|]. intros [<-|H]; simpl; auto.
  - destruct (tset m tl k v) as [tl' c]. cbn [fst] in *. intros [<-|H]; [simpl; auto|].
    destruct (IH H); simpl; auto.
Qed.

Lemma tset_keep m t k v r : In r t ->
  exists r', In r' (fst (tset m t k v)) /\ dkey r' = dkey r /\ (m = DOld \/ dkey r <> k -> r' = r).
Proof.
  induction t as [|r0 tl IH]; cbn [tset]; [intros []|]. intros [<-|H].
  - destruct (vals_eqb (dkey r0) k) eqn:E.
    + destruct m; cbn [fst].
      * exists r0. simpl. auto.
      * apply vals_eqb_eq in E. exists (mkD k v). simpl. split; [auto|]. split; [auto|].
        intros [Hm|Hk]; [discriminate|contradiction].
    + destruct (tset m tl k v). cbn [fst]. exists r0. simpl. auto.
  - destruct (vals_eqb (dkey r0) k) eqn:E.
    + destruct m; cbn [fst]; [exists r; simpl; auto|].
      exists r. simpl. auto.
    + destruct (IH H) as (r' & Hr' & Hk & Hm). destruct (tset m tl k v) as [tl' c]. cbn [fst] in *.
      exists r'. simpl. auto.
Qed.

Lemma tset_added m t k v : exists r', In r' (fst (tset m t k v)) /\ dkey r' = k /\ (m = DNew -> dval r' = v).
Proof.
  induction t as [|r0 tl IH]; cbn [tset].
  - exists (mkD k v). simpl. auto.
  - destruct (vals_eqb (dkey r0) k) eqn:E.
    + apply vals_eqb_eq in E. destruct m; cbn [fst].
      * exists r0. simpl. split; [auto|]. split; [exact E|discriminate].
      * exists (mkD k v). simpl. auto.
    + destruct IH as (r' & Hr' & Hk & Hm). destruct (tset m tl k v) as [tl' c]. cbn [fst] in *.
      exists r'. simpl. auto.
Qed.

Lemma tset_false m t k v : snd (tset m t k v) = false ->
  fst (tset m t k v) = t /\ exists r, In r t /\ dkey r = k /\ (m = DNew -> dval r = v).
Proof.
  induction t as [|r0 tl IH]; cbn [tset snd]; [discriminate|].
  destruct (vals_eqb (dkey r0) k) eqn:E.
  - apply vals_eqb_eq in E. destruct m; cbn [fst snd].
    + intros _. split; [reflexivity|]. exists r0. simpl. split; [auto|]. split; [exact E|discriminate].
    + intros H. apply negb_false_iff in H. apply val_eqb_eq in H. split.
      * destruct r0 as [k0 v0]. cbn [dkey dval] in *. subst. reflexivity.
      * exists r0. simpl. auto.
  - destruct (tset m tl k v) as [tl' c]. cbn [fst snd] in *. intros ->.
    destruct (IH eq_refl) as [-> (r & Hr & Hk & Hm)]. split; [reflexivity|]. exists r. simpl. auto.
Qed.

Lemma apply_sets_in ms : forall ops d t r, In r (gett (fst (apply_sets ms d ops)) t) ->
  In r (gett d t) \/ In (OSet t (dkey r) (dval r)) ops.
Proof.
  induction ops as [|[t0 k v|t0 k] tl IH]; intros d t r; cbn [apply_sets]; [auto| |].
  - destruct (tset (mergeof ms t0) (gett d t0) k v) as [x c] eqn:Es.
    destruct (apply_sets ms (sett d t0 x) tl) as [d' c'] eqn:Ea. cbn [fst]. intros H.
    assert (H' : In r (gett (sett d t0 x) t) \/ In (OSet t (dkey r) (dval r)) tl).
    { apply IH. rewrite Ea. exact H. }
    destruct H' as [H'|H']; [|right; right; exact H'].
    rewrite gett_sett in H'. destruct (Nat.eqb t t0 && (t0 <? length d))%bool eqn:Ec; [|left; exact H'].
    apply andb_true_iff in Ec. destruct Ec as [Ec _]. apply Nat.eqb_eq in Ec. subst t0.
    assert (Hx : In r (fst (tset (mergeof ms t) (gett d t) k v))) by (rewrite Es; exact H').
    apply tset_in in Hx. destruct Hx as [Hx| ->]; [left; exact Hx|right; left; reflexivity].
  - intros H. destruct (IH _ _ _ H); [left|right; right]; assumption.
Qed.

Lemma apply_sets_keep ms : forall ops d t r, In r (gett d t) ->
  exists r', In r' (gett (fst (apply_sets ms d ops)) t) /\ dkey r' = dkey r /\
             (mergeof ms t = DOld -> r' = r).
Proof.
  induction ops as [|[t0 k v|t0 k] tl IH]; intros d t r Hr; cbn [apply_sets]; [exists r; auto| |apply IH; exact Hr].
  destruct (tset (mergeof ms t0) (gett d t0) k v) as [x c] eqn:Es.
  destruct (apply_sets ms (sett d t0 x) tl) as [d' c'] eqn:Ea. cbn [fst].
  replace d' with (fst (apply_sets ms (sett d t0 x) tl)) by (rewrite Ea; reflexivity).
  assert (H1 : exists r1, In r1 (gett (sett d t0 x) t) /\ dkey r1 = dkey r /\ (mergeof ms t = DOld -> r1 = r)).
  { rewrite gett_sett. destruct (Nat.eqb t t0 && (t0 <? length d))%bool eqn:Ec; [|exists r; auto].
    apply andb_true_iff in Ec. destruct Ec as [Ec _]. apply Nat.eqb_eq in Ec. subst t0.
    destruct (tset_keep (mergeof ms t) _ k v r Hr) as (r' & Hr' & Hk & Hm). rewrite Es in Hr'. cbn [fst] in Hr'.
    exists r'. split; [exact Hr'|]. split; [exact Hk|]. intros Hd. apply Hm. left. exact Hd. }
  destruct H1 as (r1 & Hr1 & Hk1 & Hm1). destruct (IH _ _ _ Hr1) as (r' & Hr' & Hk' & Hm').
  exists r'. split; [exact Hr'|]. split; [congruence|]. intros Hd. rewrite Hm', Hm1; auto.
Qed.

Lemma apply_sets_added ms : forall ops d t k v, In (OSet t k v) ops -> t < length d ->
  exists r', In r' (gett (fst (apply_sets ms d ops)) t) /\ dkey r' = k.
Proof.
  induction ops as [|[t0 k0 v0|t0 k0] tl IH]; intros d t k v Hin Ht; cbn [apply_sets]; [destruct Hin| |].
  - destruct (tset (mergeof ms t0) (gett d t0) k0 v0) as [x c] eqn:Es.
    destruct (apply_sets ms (sett d t0 x) tl) as [d' c'] eqn:Ea. cbn [fst].
    replace d' with (fst (apply_sets ms (sett d t0 x) tl)) by (rewrite Ea; reflexivity).
    destruct Hin as [E|Hin].
    + injection E as -> -> ->.
      destruct (tset_added (mergeof ms t) (gett d t) k v) as (r1 & Hr1 & Hk1 & _).
      rewrite Es in Hr1. cbn [fst] in Hr1.
      assert (H1 : In r1 (gett (sett d t x) t)).
      { rewrite gett_sett, Nat.eqb_refl. apply Nat.ltb_lt in Ht. rewrite Ht. exact Hr1. }
      destruct (apply_sets_keep ms tl _ _ _ H1) as (r' & Hr' & Hk' & _). exists r'. split; [exact Hr'|congruence].
    + apply (IH _ _ _ v Hin). rewrite length_sett. exact Ht.
  - destruct Hin as [E|Hin]; [discriminate|]. apply (IH _ _ _ v Hin Ht).
Qed.

Lemma apply_sets_false ms : forall ops d, snd (apply_sets ms d ops) = false ->
  fst (apply_sets ms d ops) = d /\
  forall t k v, In (OSet t k v) ops ->
    exists r, In r (gett d t) /\ dkey r = k /\ (mergeof ms t = DNew -> dval r = v).
Proof.
  induction ops as [|[t0 k0 v0|t0 k0] tl IH]; intros d; cbn [apply_sets].
  - intros _. split; [reflexivity|intros t k v []].
  - destruct (tset (mergeof ms t0) (gett d t0) k0 v0) as [x c] eqn:Es.
    destruct (apply_sets ms (sett d t0 x) tl) as [d' c'] eqn:Ea. cbn [fst snd]. intros H.
    apply orb_false_iff in H. destruct H as [-> ->].
    assert (Hs : snd (tset (mergeof ms t0) (gett d t0) k0 v0) = false) by (rewrite Es; reflexivity).
    apply tset_false in Hs. rewrite Es in Hs. cbn [fst] in Hs. destruct Hs as [-> Hr].
    rewrite sett_same in Ea. specialize (IH d). rewrite Ea in IH. cbn [fst snd] in IH.
    destruct (IH eq_refl) as [-> H2]. split; [reflexivity|].
    intros t k v [E|Hin]; [injection E as <- <- <-; exact Hr|eauto].
  - intros H. destruct (IH d H) as [H1 H2]. split; [exact H1|]. intros t k v [E|Hin]; [discriminate|eauto].
Qed.

Lemma length_apply_sets ms : forall ops d, length (fst (apply_sets ms d ops)) = length d.
Proof.
  induction ops as [|[t0 k v|t0 k] tl IH]; intros d; cbn [apply_sets]; [reflexivity| |apply IH].
  destruct (tset (mergeof ms t0) (gett d t0) k v) as [x c]. specialize (IH (sett d t0 x)).
  destruct (apply_sets ms (sett d t0 x) tl) as [d' c']. cbn [fst] in *. rewrite IH. apply length_sett.
Qed.

(* ------------------------------------------------------------------ one step of a ruleset *)

Section Step.
  Variables (ms : list dmerge) (d : db) (ops : list op).
  Let d' := fst (apply_ops ms d ops).

  Lemma apply_ops_fst : d' = fst (apply_sets ms (fst (apply_dels d ops)) ops).
  Proof.
    unfold d', apply_ops. destruct (apply_dels d ops) as [d1 c1]. cbn [fst].
    destruct (apply_sets ms d1 ops) as [d2 c2]. reflexivity.
  Qed.

  Lemma step_length : length d' = length d.
  Proof. rewrite apply_ops_fst, length_apply_sets, length_apply_dels. reflexivity. Qed.

  (** every row afterwards was there before or was set *)
  Lemma step_in t r : In r (gett d' t) -> In r (gett d t) \/ In (OSet t (dkey r) (dval r)) ops.
  Proof.
    rewrite apply_ops_fst. intros H. apply apply_sets_in in H. destruct H as [H|H]; [left|right; exact H].
    eapply apply_dels_in. exact H.
  Qed.

  (** a row whose key is not deleted keeps its key (and, under [:merge old], its value) *)
  Lemma step_keep t r : In r (gett d t) -> (forall k, In (ODel t k) ops -> dkey r <> k) ->
    exists r', In r' (gett d' t) /\ dkey r' = dkey r /\ (mergeof ms t = DOld -> r' = r).
  Proof.
    intros Hr Hk. rewrite apply_ops_fst. apply apply_sets_keep. apply apply_dels_keep; assumption.
  Qed.

  (** a set key is present afterwards (sets are applied after the deletes) *)
  Lemma step_added t k v : In (OSet t k v) ops -> t < length d -> exists r', In r' (gett d' t) /\ dkey r' = k.
  Proof.
    intros Hin Ht. rewrite apply_ops_fst. apply (apply_sets_added ms ops _ t k v Hin).
    rewrite length_apply_dels. exact Ht.
  Qed.

  (** "no change" means: nothing was deleted, every set was already there *)
  Lemma step_false : snd (apply_ops ms d ops) = false ->
    d' = d /\
    (forall t k, In (ODel t k) ops -> forall r, In r (gett d t) -> dkey r <> k) /\
    (forall t k v, In (OSet t k v) ops ->
       exists r, In r (gett d t) /\ dkey r = k /\ (mergeof ms t = DNew -> dval r = v)).
  Proof.
    unfold d', apply_ops. destruct (apply_dels d ops) as [d1 c1] eqn:Ed.
    destruct (apply_sets ms d1 ops) as [d2 c2] eqn:Es. cbn [fst snd]. intros H.
    apply orb_false_iff in H. destruct H as [-> ->].
    pose proof (apply_dels_false ops d) as Hd. rewrite Ed in Hd. cbn [fst snd] in Hd.
    destruct (Hd eq_refl) as [-> Hd2].
    pose proof (apply_sets_false ms ops d) as Hs. rewrite Es in Hs. cbn [fst snd] in Hs.
    destruct (Hs eq_refl) as [-> Hs2]. auto.
  Qed.
End Step.

(* ------------------------------------------------------------------ schedules *)

Lemma run_sched_inv (P : prog) (I : db -> Prop) :
  (forall rs d d' c, I d -> run_ruleset (pmerges P) (nth rs (prulesets P) []) d = Ok (d', c) -> I d') ->
  forall fuel s d d' c, I d -> run_sched fuel P s d = Ok (d', c) -> I d'.
Proof.
  intros Hstep. induction fuel as [|fuel IH]; intros s d d' c Hi H; cbn [run_sched] in H; [discriminate|].
  destruct s as [rs|l|b].
  - eapply Hstep; eauto.
  - revert d d' c Hi H. induction l as [|x tl IHl]; intros d d' c Hi H.
    + injection H as <- <-. exact Hi.
    + destruct (run_sched fuel P x d) as [[d1 c1]| |] eqn:E1; cbn [bind] in H; try discriminate.
      match type of H with bind ?g _ = _ => destruct g as [[d2 c2]| |] eqn:E2 end; cbn [bind] in H; try discriminate.
      injection H as <- <-. eapply IHl; [eapply IH; eauto|exact E2].
  - destruct (run_sched fuel P b d) as [[d1 c1]| |] eqn:E1; cbn [bind] in H; try discriminate.
    destruct c1.
    + destruct (run_sched fuel P (SSat b) d1) as [[d2 c2]| |] eqn:E2; cbn [bind] in H; try discriminate.
      injection H as <- <-. eapply IH; [eapply IH; eauto|exact E2].
    + injection H as <- <-. eapply IH; eauto.
Qed.

(** a schedule that reports "no change" left the database as it was *)
Lemma run_ruleset_false ms rs d d' : run_ruleset ms rs d = Ok (d', false) -> d' = d.
Proof.
  unfold run_ruleset. destruct (rules_ops d rs) as [ops| |]; cbn [bind]; try discriminate.
  intros H. injection H as H. pose proof (step_false ms d ops) as Hs. rewrite H in Hs. cbn [fst snd] in Hs.
  apply Hs. reflexivity.
Qed.

Lemma run_sched_false P : forall fuel s d d', run_sched fuel P s d = Ok (d', false) -> d' = d.
Proof.
  induction fuel as [|fuel IH]; intros s d d' H; cbn [run_sched] in H; [discriminate|].
  destruct s as [rs|l|b].
  - eapply run_ruleset_false; eauto.
  - revert d d' H. induction l as [|x tl IHl]; intros d d' H.
    + injection H as <-. reflexivity.
    + destruct (run_sched fuel P x d) as [[d1 c1]| |] eqn:E1; cbn [bind] in H; try discriminate.
      match type of H with bind ?g _ = _ => destruct g as [[d2 c2]| |] eqn:E2 end; cbn [bind] in H; try discriminate.
      injection H as <- Hc. apply orb_false_iff in Hc. destruct Hc as [-> ->].
      apply IH in E1. subst d1. apply IHl. exact E2.
  - destruct (run_sched fuel P b d) as [[d1 c1]| |] eqn:E1; cbn [bind] in H; try discriminate.
    destruct c1.
    + destruct (run_sched fuel P (SSat b) d1) as [[d2 c2]| |]; cbn [bind] in H; discriminate.
    + injection H as <-. eapply IH; eauto.
Qed.

(** [quiet P s d]: running [s] on [d] reports no change *)
Definition quiet (P : prog) (s : sched) (d : db) : Prop := exists fuel, run_sched fuel P s d = Ok (d, false).

Lemma quiet_seq P l d : quiet P (SSeq l) d -> forall x, In x l -> quiet P x d.
Proof.
  intros [fuel H]. destruct fuel as [|fuel]; [discriminate|]. cbn [run_sched] in H.
  revert H. induction l as [|y tl IHl]; intros H x Hx; [destruct Hx|].
  destruct (run_sched fuel P y d) as [[d1 c1]| |] eqn:E1; cbn [bind] in H; try discriminate.
  match type of H with bind ?g _ = _ => destruct g as [[d2 c2]| |] eqn:E2 end; cbn [bind] in H; try discriminate.
  injection H as Hd Hc. apply orb_false_iff in Hc. destruct Hc as [-> ->].
  pose proof (run_sched_false _ _ _ _ _ E1) as ->.
  destruct Hx as [<-|Hx]; [exists fuel; exact E1|]. apply IHl; [|exact Hx]. rewrite E2. subst d2. reflexivity.
Qed.

Lemma quiet_sat P b d : quiet P (SSat b) d -> quiet P b d.
Proof.
  intros [fuel H]. destruct fuel as [|fuel]; [discriminate|]. cbn [run_sched] in H.
  destruct (run_sched fuel P b d) as [[d1 c1]| |] eqn:E1; cbn [bind] in H; try discriminate.
  destruct c1.
  - destruct (run_sched fuel P (SSat b) d1) as [[d2 c2]| |]; cbn [bind] in H; discriminate.
  - injection H as ->. exists fuel. exact E1.
Qed.

Lemma quiet_run P rs d : quiet P (SRun rs) d -> run_ruleset (pmerges P) (nth rs (prulesets P) []) d = Ok (d, false).
Proof. intros [fuel H]. destruct fuel as [|fuel]; [discriminate|]. exact H. Qed.

(** a saturation that returns has reached a database on which its body is quiet *)
Lemma run_sat_quiet P b : forall fuel d d' c, run_sched fuel P (SSat b) d = Ok (d', c) -> quiet P b d'.
Proof.
  induction fuel as [|fuel IH]; intros d d' c H; cbn [run_sched] in H; [discriminate|].
  destruct (run_sched fuel P b d) as [[d1 c1]| |] eqn:E1; cbn [bind] in H; try discriminate.
  destruct c1.
  - destruct (run_sched fuel P (SSat b) d1) as [[d2 c2]| |] eqn:E2; cbn [bind] in H; try discriminate.
    injection H as <- <-. eapply IH; eauto.
  - injection H as <- <-. pose proof (run_sched_false _ _ _ _ _ E1) as ->. exists fuel. exact E1.
Qed.

(* ------------------------------------------------------------------ firing rules *)

Definition body_vars (body : list atom) : list nat := flat_map avars body.

Definition extf (e : env) (F : nat -> option val) : Prop := forall x v, lookup e x = Some v -> F x = Some v.

Definition atom_satF (d : db) (F : nat -> option val) (a : atom) : Prop :=
  exists r, In r (gett d (atab a)) /\ map F (avars a) = map Some (tuple r).

Lemma match_vars_completeF : forall vars vals e F,
  extf e F -> map F vars = map Some vals ->
  exists e', match_vars vars vals e = Some e' /\ extf e' F.
Proof.
  induction vars as [|x xs IH]; intros [|v vs] e F He H; cbn [map] in H; try discriminate.
  - exists e. split; [reflexivity|exact He].
  - injection H as Hx Hxs. cbn [match_vars]. destruct (lookup e x) as [w|] eqn:El.
    + pose proof (He _ _ El) as Hw. rewrite Hx in Hw. injection Hw as <-.
      assert (Ev : val_eqb v v = true) by (apply val_eqb_eq; reflexivity). rewrite Ev.
      apply IH; assumption.
    + apply IH; [|exact Hxs]. intros y w Hy. cbn [lookup] in Hy.
      destruct (Nat.eqb_spec x y) as [->|Ne]; [congruence|apply He; exact Hy].
Qed.

Lemma match_body_completeF d F : forall body e0,
  extf e0 F -> Forall (atom_satF d F) body ->
  exists e, In e (match_body d body e0) /\ extf e F.
Proof.
  induction body as [|a tl IH]; intros e0 He Hs; cbn [match_body].
  - exists e0. split; [left; reflexivity|exact He].
  - inversion Hs as [|a' tl' (r & Hr & Hm) Htl]; subst.
    destruct (match_vars_completeF _ _ _ _ He Hm) as (e1 & Em & He1).
    destruct (IH _ He1 Htl) as (e & Hin & Hee). exists e. split; [|exact Hee].
    apply in_flat_map. exists r. split; [exact Hr|]. rewrite Em. exact Hin.
Qed.

Lemma map_lookup_bound e : forall vars vals, map (lookup e) vars = map Some vals ->
  forall x, In x vars -> exists v, lookup e x = Some v.
Proof.
  induction vars as [|y ys IH]; intros [|v vs] H x Hx; cbn [map] in H; try discriminate; [destruct Hx|].
  injection H as Hy Hys. destruct Hx as [<-|Hx]; [eauto|eapply IH; eauto].
Qed.

(** if the body is satisfied under an assignment [F], the rule fires with an environment that
    agrees with [F] on every body variable *)
Lemma rule_fire d r ops F os :
  rule_ops d r = Ok ops -> Forall (atom_satF d F) (rbody r) ->
  (forall e, (forall x, In x (body_vars (rbody r)) -> lookup e x = F x) ->
     guards_ok e (rguards r) = Some true /\ inst_acts e (racts r) = Some os) ->
  forall o, In o os -> In o ops.
Proof.
  intros Hops Hsat Hev o Ho.
  destruct (match_body_completeF d F (rbody r) []) as (e & Hin & Hext); [intros x v H; discriminate|exact Hsat|].
  destruct (match_body_sound _ _ _ _ Hin) as [_ Hs].
  assert (Hl : forall x, In x (body_vars (rbody r)) -> lookup e x = F x).
  { intros x Hx. unfold body_vars in Hx. apply in_flat_map in Hx. destruct Hx as (a & Ha & Hx).
    rewrite Forall_forall in Hs. destruct (Hs a Ha) as (r' & _ & Hm).
    destruct (map_lookup_bound _ _ _ Hm x Hx) as (v & Hv). rewrite Hv. symmetry. apply Hext. exact Hv. }
  destruct (Hev e Hl) as [Hg Hi]. apply (rule_ops_spec _ _ _ Hops). exists e, os. auto.
Qed.

Lemma rule_fire1 d r ops F o :
  rule_ops d r = Ok ops -> Forall (atom_satF d F) (rbody r) ->
  (forall e, (forall x, In x (body_vars (rbody r)) -> lookup e x = F x) ->
     guards_ok e (rguards r) = Some true /\ exists os, inst_acts e (racts r) = Some os /\ In o os) ->
  In o ops.
Proof.
  intros Hops Hsat Hev.
  destruct (match_body_completeF d F (rbody r) []) as (e & Hin & Hext); [intros x v H; discriminate|exact Hsat|].
  destruct (match_body_sound _ _ _ _ Hin) as [_ Hs].
  assert (Hl : forall x, In x (body_vars (rbody r)) -> lookup e x = F x).
  { intros x Hx. unfold body_vars in Hx. apply in_flat_map in Hx. destruct Hx as (a & Ha & Hx).
    rewrite Forall_forall in Hs. destruct (Hs a Ha) as (r' & _ & Hm).
    destruct (map_lookup_bound _ _ _ Hm x Hx) as (v & Hv). rewrite Hv. symmetry. apply Hext. exact Hv. }
  destruct (Hev e Hl) as [Hg (os & Hi & Ho)]. apply (rule_ops_spec _ _ _ Hops). exists e, os. auto.
Qed.

(** every staged operation comes from a match that satisfies the body *)
Lemma rule_fired d r ops o : rule_ops d r = Ok ops -> In o ops ->
  exists e os, Forall (atom_sat d e) (rbody r) /\ guards_ok e (rguards r) = Some true /\
               inst_acts e (racts r) = Some os /\ In o os.
Proof.
  intros Hops Ho. apply (rule_ops_spec _ _ _ Hops) in Ho. destruct Ho as (e & os & Hin & Hg & Hi & Ho).
  exists e, os. split; [|auto]. apply (match_body_sound _ _ _ _ Hin).
Qed.

Lemma eval_exprs_vars e : forall l vs, eval_exprs e (map EVar l) = Some vs <-> map (lookup e) l = map Some vs.
Proof.
  induction l as [|x tl IH]; intros vs; cbn [map eval_exprs eval_expr].
  - split; intros H; [injection H as <-; reflexivity|destruct vs; [reflexivity|discriminate]].
  - split; intros H.
    + destruct (lookup e x) as [v|]; [|discriminate]. destruct (eval_exprs e (map EVar tl)) as [ws|] eqn:E; [|discriminate].
      injection H as <-. cbn [map]. f_equal. apply IH. reflexivity.
    + destruct vs as [|v ws]; [discriminate|]. cbn [map] in H. injection H as Hx Htl. rewrite Hx.
      apply IH in Htl. rewrite Htl. reflexivity.
Qed.

Lemma run_ruleset_single ms r d d' c : run_ruleset ms [r] d = Ok (d', c) ->
  exists ops, rule_ops d r = Ok ops /\ apply_ops ms d ops = (d', c).
Proof.
  unfold run_ruleset, rules_ops. cbn [collect]. destruct (rule_ops d r) as [ops| |]; cbn [bind]; try discriminate.
  rewrite app_nil_r. intros H. injection H as H. eauto.
Qed.

(* ------------------------------------------------------------------ untouched tables *)

Definition op_tab (o : op) : nat := match o with OSet t _ _ => t | ODel t _ => t end.

Lemma apply_dels_untouched : forall ops d t, (forall o, In o ops -> op_tab o <> t) ->
  gett (fst (apply_dels d ops)) t = gett d t.
Proof.
  induction ops as [|[t0 k v|t0 k] tl IH]; intros d t H; cbn [apply_dels]; [reflexivity| |].
  - apply IH. intros o Ho. apply H. right. exact Ho.
  - destruct (tdel (gett d t0) k) as [x c]. specialize (IH (sett d t0 x) t).
    destruct (apply_dels (sett d t0 x) tl) as [d' c']. cbn [fst] in *.
    rewrite IH by (intros o Ho; apply H; right; exact Ho). rewrite gett_sett.
    destruct (Nat.eqb_spec t t0) as [->|Ne]; [|reflexivity].
    exfalso. apply (H (ODel t0 k)); [left; reflexivity|reflexivity].
Qed.

Lemma apply_sets_untouched ms : forall ops d t, (forall o, In o ops -> op_tab o <> t) ->
  gett (fst (apply_sets ms d ops)) t = gett d t.
Proof.
  induction ops as [|[t0 k v|t0 k] tl IH]; intros d t H; cbn [apply_sets]; [reflexivity| |].
  - destruct (tset (mergeof ms t0) (gett d t0) k v) as [x c]. specialize (IH (sett d t0 x) t).
    destruct (apply_sets ms (sett d t0 x) tl) as [d' c']. cbn [fst] in *.
    rewrite IH by (intros o Ho; apply H; right; exact Ho). rewrite gett_sett.
    destruct (Nat.eqb_spec t t0) as [->|Ne]; [|reflexivity].
    exfalso. apply (H (OSet t0 k v)); [left; reflexivity|reflexivity].
  - apply IH. intros o Ho. apply H. right. exact Ho.
Qed.

Lemma step_untouched ms d ops t : (forall o, In o ops -> op_tab o <> t) ->
  gett (fst (apply_ops ms d ops)) t = gett d t.
Proof.
  intros H. rewrite apply_ops_fst, apply_sets_untouched, apply_dels_untouched; auto.
Qed.

Lemma apply_ops_nil ms d : apply_ops ms d [] = (d, false).
Proof. reflexivity. Qed.

Lemma app_eq_length_inv {A} : forall (a c b e : list A), length a = length c -> a ++ b = c ++ e -> a = c /\ b = e.
Proof.
  induction a as [|x a IH]; intros [|y c] b e Hl H; cbn in *; try discriminate; [auto|].
  injection H as -> H. injection Hl as Hl. destruct (IH _ _ _ Hl H) as [-> ->]. auto.
Qed.

Lemma map_Some_inj {A} : forall (l1 l2 : list A), map Some l1 = map Some l2 -> l1 = l2.
Proof.
  induction l1 as [|x l1 IH]; intros [|y l2] H; cbn in *; try discriminate; [reflexivity|].
  injection H as -> H. f_equal. apply IH. exact H.
Qed.

Lemma map_seq_nth {A} (F : nat -> option A) dflt : forall cs k,
  (forall i, i < length cs -> F (k + i) = Some (nth i cs dflt)) -> map F (seq k (length cs)) = map Some cs.
Proof.
  induction cs as [|c cs IH]; intros k H; cbn [length seq map]; [reflexivity|]. f_equal.
  - specialize (H 0). rewrite Nat.add_0_r in H. apply H. cbn. lia.
  - apply IH. intros i Hi. replace (S k + i) with (k + S i) by lia. apply (H (S i)). cbn. lia.
Qed.
