(** C07 — proofs about the extractor model of Extract/Model.v.

    Semantics: [repr g t c] = "term [t], evaluated bottom-up in the e-graph, lies in class [c] and
    every e-node it goes through is an allowed row (extractable constructor, not subsumed, present)".
    [tree_cost] is the tree cost under the :cost annotations with the engine's saturating u64 sum.

    Main results (pinned in Props/C07.v):
    - [extract_member], [extract_cost_exact], [extract_optimal], [extract_none_empty];
    - [bellman_ford_terminates]; [extract_total_unsaturated] (never a panic / always a term when the
      class has a term of cost < 2^64-1); [extract_total_refuted] (the F4 witness: Panic);
    - [variants_ok]. *)
From Coq Require Import List Arith NArith ZArith Bool PeanoNat Lia Permutation.
Import ListNotations.
Require Import Verif.Base.Res Verif.Extract.Model.

Local Open Scope N_scope.

(* ------------------------------------------------------------------------------------------ *)
(** * saturating addition *)

Lemma sat_add_le_max a b : sat_add a b <= MAXC.
Proof. unfold sat_add. lia. Qed.

Lemma sat_add_mono a a' b b' : a <= a' -> b <= b' -> sat_add a b <= sat_add a' b'.
Proof. unfold sat_add. lia. Qed.

Lemma sat_add_ge_l a b : a <= MAXC -> a <= sat_add a b.
Proof. unfold sat_add. lia. Qed.

Lemma sat_add_ge_r a b : b <= MAXC -> b <= sat_add a b.
Proof. unfold sat_add. lia. Qed.

Lemma sat_add_exact a b : sat_add a b < MAXC -> sat_add a b = a + b.
Proof. unfold sat_add. lia. Qed.

(* ------------------------------------------------------------------------------------------ *)
(** * the regenerated arithmetic (gen/ExtractFns.v) is the specified one

    These lemmas are where a change of src/extract.rs surfaces: `saturating_add -> wrapping_add`
    breaks [cost_combine_sat]; dropping the head cost from `TreeAdditiveCostModel::fold` breaks
    [tac_fold_sum]; `<` -> `<=` in the relaxation test breaks [relax_improves_lt]; `>` -> `>=` in the
    rank guard breaks [rank_guard_lt]. *)

Definition sum_fold (cs : list N) (acc : N) : N := fold_left sat_add cs acc.

Lemma u64_max_MAXC : u64_max = MAXC.
Proof. reflexivity. Qed.

Lemma cost_combine_sat a b : cost_combine a b = sat_add a b.
Proof. unfold cost_combine, sat_add. rewrite u64_max_MAXC. reflexivity. Qed.

Lemma cost_identity_0 : cost_identity = 0.
Proof. reflexivity. Qed.

Lemma base_cost_unit : base_value_cost_default = 1.
Proof. reflexivity. Qed.

Lemma fold_combine_sum cs : forall h,
  fold_left (fun s_ c_ => cost_combine s_ c_) cs h = sum_fold cs h.
Proof.
  induction cs as [|c cs IH]; intros h; [reflexivity|].
  cbn [fold_left]. unfold sum_fold. cbn [fold_left]. rewrite cost_combine_sat. apply IH.
Qed.

Lemma tac_fold_sum cs h : tac_fold cs h = sum_fold cs h.
Proof. unfold tac_fold. apply fold_combine_sum. Qed.

Lemma container_cost_sum cs : container_cost_default cs = sum_fold cs 0.
Proof. unfold container_cost_default. rewrite fold_combine_sum. reflexivity. Qed.

Lemma relax_vacant_true : relax_vacant_updates = true.
Proof. reflexivity. Qed.

Lemma relax_improves_lt n o : relax_improves n o = (n <? o).
Proof. reflexivity. Qed.

Lemma parent_cost_matches_eq best oc :
  parent_cost_matches best oc = match oc with Some c => N.eqb best c | None => false end.
Proof. reflexivity. Qed.

Lemma rank_guard_lt t e : rank_guard t e = (e <? t)%nat.
Proof. reflexivity. Qed.

Lemma rank_combine_max a b : rank_combine a b = Nat.max a b.
Proof. reflexivity. Qed.

Lemma rank_init_0 : rank_init = 0%nat.
Proof. reflexivity. Qed.

Lemma rank_prim_0 : rank_prim = 0%nat.
Proof. reflexivity. Qed.

Lemma parent_first_wins_true : parent_first_wins = true.
Proof. reflexivity. Qed.

(** the row cost as one left fold with the head cost as the initial accumulator (proof-side form of
    [row_cost]; `None` if a child has no cost) *)
Fixpoint fold_cost (s : cstate) (acc : N) (args : list child) : option N :=
  match args with
  | [] => Some acc
  | a :: tl => match child_cost s a with
               | None => None
               | Some c => fold_cost s (sat_add acc c) tl
               end
  end.

Lemma children_costs_fold s args : forall acc,
  match children_costs s args with Some cs => Some (sum_fold cs acc) | None => None end
  = fold_cost s acc args.
Proof.
  induction args as [|a args IH]; intros acc; simpl; auto.
  destruct (child_cost s a) as [c|]; auto.
  rewrite <- IH. destruct (children_costs s args); reflexivity.
Qed.

Lemma row_cost_fold g s r : row_cost g s r = fold_cost s (fn_cost g (r_fn r)) (r_args r).
Proof.
  unfold row_cost. rewrite <- children_costs_fold.
  destruct (children_costs s (r_args r)); [|reflexivity]. rewrite tac_fold_sum. reflexivity.
Qed.

Lemma child_cost_prim s z : child_cost s (CPrim z) = Some 1.
Proof. reflexivity. Qed.

Lemma child_rank_prim s z : child_rank s (CPrim z) = Some 0%nat.
Proof. reflexivity. Qed.

Ltac gn := change base_value_cost_default with 1%N in *; change rank_prim with 0%nat in *;
           change rank_init with 0%nat in *; change rank_combine with Nat.max in *.

(* ------------------------------------------------------------------------------------------ *)
(** * terms represented by a class *)

Inductive repr (g : graph) : term -> nat -> Prop :=
| R_app r ts : In r (g_rows g) -> allowed g r = true -> repr_args g ts (r_args r) ->
               repr g (TApp (r_fn r) ts) (r_cls r)
with repr_args (g : graph) : list term -> list child -> Prop :=
| RA_nil : repr_args g [] []
| RA_prim z ts cs : repr_args g ts cs -> repr_args g (TLit z :: ts) (CPrim z :: cs)
| RA_cls t c ts cs : repr g t c -> repr_args g ts cs -> repr_args g (t :: ts) (CClass c :: cs).

Scheme repr_ind2 := Induction for repr Sort Prop
  with repr_args_ind2 := Induction for repr_args Sort Prop.
Combined Scheme repr_mutind from repr_ind2, repr_args_ind2.

Definition tree_fold (g : graph) (ts : list term) (acc : N) : N :=
  fold_left (fun a t' => sat_add a (tree_cost g t')) ts acc.

Lemma tree_cost_app g f ts : tree_cost g (TApp f ts) = tree_fold g ts (fn_cost g f).
Proof. reflexivity. Qed.

Lemma tree_fold_mono g ts : forall a a', a <= a' -> tree_fold g ts a <= tree_fold g ts a'.
Proof.
  induction ts as [|t ts IH]; intros a a' H; (simpl; gn); auto.
  apply IH. apply sat_add_mono; lia.
Qed.

(* ------------------------------------------------------------------------------------------ *)
(** * fixpoint states: a round of relaxation would change nothing *)

Definition stable (g : graph) (s : cstate) : Prop :=
  forall r nc, In r (g_rows g) -> allowed g r = true -> row_cost g s r = Some nc ->
    exists oc k, s (r_cls r) = Some (oc, k) /\ oc <= nc.

(** every allowed term of a class costs at least the class's table entry, and the entry exists *)
Lemma lower_bound g s : stable g s ->
  (forall t c, repr g t c -> exists v k, s c = Some (v, k) /\ v <= tree_cost g t) /\
  (forall ts cs, repr_args g ts cs -> forall a a', a <= a' ->
      exists v, fold_cost s a cs = Some v /\ v <= tree_fold g ts a').
Proof.
  intros St. apply repr_mutind.
  - intros r ts Hin Hal Hargs IH.
    destruct (IH (fn_cost g (r_fn r)) (fn_cost g (r_fn r)) (N.le_refl _)) as (v & Hv & Hle).
    rewrite <- row_cost_fold in Hv.
    destruct (St r v Hin Hal Hv) as (oc & k & Hs & Hoc).
    exists oc, k. split; auto. rewrite tree_cost_app. lia.
  - intros a a' H. exists a. (simpl; gn). split; auto.
  - intros z ts cs Hargs IH a a' H. (simpl; gn).
    apply IH. apply sat_add_mono; lia.
  - intros t c ts cs Hr (v & k & Hs & Hv) Hargs IH a a' H. (simpl; gn). rewrite Hs.
    apply IH. apply sat_add_mono; lia.
Qed.

(* ------------------------------------------------------------------------------------------ *)
(** * one relaxation step *)

(** what [relax_row] can do: nothing, or a strict improvement of the row's class *)
Inductive step_kind (g : graph) (b : bf) (r : row) : bf -> Prop :=
| SK_same : step_kind g b r b
| SK_upd nc : allowed g r = true -> row_cost g (b_cs b) r = Some nc ->
    (b_cs b (r_cls r) = None \/ exists oc k, b_cs b (r_cls r) = Some (oc, k) /\ nc < oc) ->
    step_kind g b r (mkBF (cs_set (b_cs b) (r_cls r) (nc, S (b_cnt b))) (S (b_cnt b)) true).

Lemma relax_row_kind g b r : step_kind g b r (relax_row g b r).
Proof.
  unfold relax_row. destruct (allowed g r) eqn:Hal; [|constructor].
  destruct (row_cost g (b_cs b) r) as [nc|] eqn:Hc; [|constructor].
  rewrite relax_vacant_true.
  destruct (b_cs b (r_cls r)) as [[oc k]|] eqn:Hs.
  - rewrite relax_improves_lt. destruct (N.ltb_spec nc oc); [|constructor].
    apply SK_upd; auto. right. eauto.
  - apply SK_upd; auto.
Qed.

(** when a step leaves the flag false it did nothing and the row was already satisfied *)
Lemma relax_row_noupd g b r : b_upd (relax_row g b r) = false ->
  relax_row g b r = b /\
  (allowed g r = true -> forall nc, row_cost g (b_cs b) r = Some nc ->
     exists oc k, b_cs b (r_cls r) = Some (oc, k) /\ oc <= nc).
Proof.
  unfold relax_row. destruct (allowed g r) eqn:Hal.
  2:{ intros _. split; auto. discriminate. }
  destruct (row_cost g (b_cs b) r) as [nc|] eqn:Hc.
  2:{ intros _. split; auto. discriminate. }
  rewrite relax_vacant_true.
  destruct (b_cs b (r_cls r)) as [[oc k]|] eqn:Hs.
  - rewrite relax_improves_lt. destruct (N.ltb_spec nc oc); (simpl; gn); [discriminate|].
    intros _. split; auto. intros _ nc' E. inversion E; subst. eauto.
  - (simpl; gn). discriminate.
Qed.

Lemma relax_row_flag_mono g b r : b_upd b = true -> b_upd (relax_row g b r) = true.
Proof. intros H. destruct (relax_row_kind g b r); auto. Qed.

Lemma fold_relax_flag_mono g rows : forall b, b_upd b = true ->
  b_upd (fold_left (relax_row g) rows b) = true.
Proof. induction rows; (simpl; gn); auto using relax_row_flag_mono. Qed.

Lemma fold_relax_noupd g rows : forall b, b_upd (fold_left (relax_row g) rows b) = false ->
  fold_left (relax_row g) rows b = b /\
  forall r, In r rows -> allowed g r = true -> forall nc, row_cost g (b_cs b) r = Some nc ->
     exists oc k, b_cs b (r_cls r) = Some (oc, k) /\ oc <= nc.
Proof.
  induction rows as [|r rows IH]; intros b H; (simpl in *; gn).
  - split; auto. intros ? [].
  - destruct (b_upd (relax_row g b r)) eqn:E.
    + rewrite fold_relax_flag_mono in H by auto. discriminate.
    + destruct (relax_row_noupd g b r E) as [Eq Hr]. rewrite Eq in *.
      destruct (IH b H) as [Eq2 Hall]. split; auto.
      intros r' [<-|Hin]; auto.
Qed.

Lemma round_noupd_stable g s cnt : b_upd (round g s cnt) = false ->
  b_cs (round g s cnt) = s /\ b_cnt (round g s cnt) = cnt /\ stable g s.
Proof.
  unfold round. intros H. destruct (fold_relax_noupd g (g_rows g) _ H) as [Eq Hall].
  rewrite Eq. (simpl; gn). repeat split; auto.
  intros r nc Hin Hal Hc. exact (Hall r Hin Hal nc Hc).
Qed.

(* ------------------------------------------------------------------------------------------ *)
(** * invariant of the relaxation loop *)

(** snapshot of a child at the time its parent class was last updated: [vc] is the child's cost
    then; now the child either is untouched since (same cost, older rank) or is strictly cheaper *)
Definition child_snap (s : cstate) (k : nat) (ch : child) (vc : N) : Prop :=
  match ch with
  | CPrim _ => vc = 1
  | CClass d => exists vd kd, s d = Some (vd, kd) /\ ((vd = vc /\ (kd < k)%nat) \/ vd < vc)
  end.

Record Inv (g : graph) (s : cstate) (cnt : nat) : Prop := {
  inv_wit : forall c v k, s c = Some (v, k) -> exists t, repr g t c /\ tree_cost g t = v;
  inv_rank : forall c v k, s c = Some (v, k) -> (1 <= k <= cnt)%nat;
  inv_snap : forall c v k, s c = Some (v, k) ->
      exists r vs, In r (g_rows g) /\ allowed g r = true /\ r_cls r = c /\
        Forall2 (child_snap s k) (r_args r) vs /\ v = sum_fold vs (fn_cost g (r_fn r));
}.

Lemma inv_empty g : Inv g empty_cs 0.
Proof. split; unfold empty_cs; intros; discriminate. Qed.

(** the row's cost under [s], unfolded as: every child has a cost, and the fold of those *)
Lemma fold_cost_snap s (k : nat) args : forall acc v, fold_cost s acc args = Some v ->
  (forall d vd kd, In (CClass d) args -> s d = Some (vd, kd) -> (kd < k)%nat) ->
  exists vs, Forall2 (child_snap s k) args vs /\ v = sum_fold vs acc.
Proof.
  induction args as [|a args IH]; intros acc v H Hk; (simpl in *; gn).
  - inversion H; subst. exists []. split; constructor.
  - destruct (child_cost s a) as [c|] eqn:Hc; [|discriminate].
    assert (Hk' : forall d vd kd, In (CClass d) args -> s d = Some (vd, kd) -> (kd < k)%nat)
      by (intros; eapply Hk; eauto).
    destruct (IH _ _ H Hk') as (vs & HF & Hv).
    exists (c :: vs). split; [|exact Hv]. constructor; auto.
    destruct a as [d|z]; (simpl in *; gn).
    + destruct (s d) as [[vd kd]|] eqn:Hs; [|discriminate]. inversion Hc; subst.
      exists c, kd. split; auto. left. split; auto. eapply Hk; eauto.
    + inversion Hc; auto.
Qed.

Lemma fold_cost_wit g s args : forall acc v, fold_cost s acc args = Some v ->
  (forall c v k, s c = Some (v, k) -> exists t, repr g t c /\ tree_cost g t = v) ->
  exists ts, repr_args g ts args /\ tree_fold g ts acc = v.
Proof.
  induction args as [|a args IH]; intros acc v H W; (simpl in *; gn).
  - inversion H; subst. exists []. split; constructor.
  - destruct (child_cost s a) as [c|] eqn:Hc; [|discriminate].
    destruct (IH _ _ H W) as (ts & Hr & Hv).
    destruct a as [d|z]; (simpl in *; gn).
    + destruct (s d) as [[vd kd]|] eqn:Hs; [|discriminate]. injection Hc as <-.
      destruct (W _ _ _ Hs) as (t & Ht & Htc).
      exists (t :: ts). split; [constructor; auto|]. (simpl; gn). rewrite Htc. exact Hv.
    + injection Hc as <-. exists (TLit z :: ts). split; [constructor; auto|]. exact Hv.
Qed.

Lemma Forall2_imp {A B} (P Q : A -> B -> Prop) l1 l2 :
  (forall a b, P a b -> Q a b) -> Forall2 P l1 l2 -> Forall2 Q l1 l2.
Proof. intros H F. induction F; constructor; auto. Qed.

Lemma child_snap_weaken s s' k ch vc :
  child_snap s k ch vc ->
  (forall d vd kd, s d = Some (vd, kd) ->
     s' d = Some (vd, kd) \/ exists vd' kd', s' d = Some (vd', kd') /\ vd' < vd) ->
  child_snap s' k ch vc.
Proof.
  destruct ch as [d|z]; (simpl; gn); auto.
  intros (vd & kd & Hs & Hor) Hstep.
  destruct (Hstep _ _ _ Hs) as [Hsame|(vd' & kd' & Hs' & Hlt)].
  - exists vd, kd. auto.
  - exists vd', kd'. split; auto. right. destruct Hor as [[-> _]|]; lia.
Qed.

Lemma step_preserves_inv g b r b' : step_kind g b r b' -> In r (g_rows g) ->
  Inv g (b_cs b) (b_cnt b) -> Inv g (b_cs b') (b_cnt b').
Proof.
  intros K Hin I. destruct K as [|nc Hal Hc Hold]; auto.
  set (s := b_cs b) in *. set (cnt := b_cnt b) in *. set (e := r_cls r) in *.
  (simpl; gn).
  (* how entries move from s to the new state *)
  assert (Hstep : forall d vd kd, s d = Some (vd, kd) ->
     cs_set s e (nc, S cnt) d = Some (vd, kd) \/
     exists vd' kd', cs_set s e (nc, S cnt) d = Some (vd', kd') /\ vd' < vd).
  { intros d vd kd Hs. unfold cs_set. destruct (Nat.eqb_spec d e) as [->|]; auto.
    right. destruct Hold as [Hn|(oc & k & Ho & Hlt)].
    - fold s in Hn. congruence.
    - fold s in Ho. rewrite Ho in Hs. inversion Hs; subst. eauto. }
  split.
  - (* witness *)
    intros c v k. unfold cs_set. destruct (Nat.eqb_spec c e) as [->|].
    + intros E. inversion E; subst.
      rewrite row_cost_fold in Hc.
      destruct (fold_cost_wit g s _ _ _ Hc (inv_wit _ _ _ I)) as (ts & Hr & Hv).
      exists (TApp (r_fn r) ts). split; [apply R_app; auto|]. rewrite tree_cost_app. exact Hv.
    + apply (inv_wit _ _ _ I).
  - (* rank *)
    intros c v k. unfold cs_set. destruct (Nat.eqb_spec c e) as [->|].
    + intros E. inversion E; subst. lia.
    + intros Hs. pose proof (inv_rank _ _ _ I _ _ _ Hs). fold cnt in H. lia.
  - (* snapshot *)
    intros c v k. unfold cs_set at 1. destruct (Nat.eqb_spec c e) as [->|].
    + intros E. inversion E; subst.
      assert (Hrk : forall d vd kd, In (CClass d) (r_args r) -> s d = Some (vd, kd) -> (kd < S cnt)%nat).
      { intros d vd kd _ Hs. pose proof (inv_rank _ _ _ I _ _ _ Hs) as Hle. fold cnt in Hle. lia. }
      rewrite row_cost_fold in Hc.
      destruct (fold_cost_snap s (S cnt) _ _ _ Hc Hrk) as (vs & HF & Hv).
      exists r, vs. repeat split; auto.
      eapply Forall2_imp; [|exact HF]. intros ch vc Hsn.
      eapply child_snap_weaken; eauto.
    + intros Hs. destruct (inv_snap _ _ _ I _ _ _ Hs) as (r0 & vs & Hin0 & Hal0 & Hcl & HF & Hv).
      exists r0, vs. repeat split; auto.
      eapply Forall2_imp; [|exact HF]. intros ch vc Hsn.
      eapply child_snap_weaken; eauto.
Qed.

Lemma fold_relax_inv g rows : forall b, incl rows (g_rows g) ->
  Inv g (b_cs b) (b_cnt b) ->
  Inv g (b_cs (fold_left (relax_row g) rows b)) (b_cnt (fold_left (relax_row g) rows b)).
Proof.
  induction rows as [|r rows IH]; intros b Hincl I; (simpl; gn); auto.
  apply IH. { intros x Hx. apply Hincl. right. auto. }
  eapply step_preserves_inv; [apply relax_row_kind| |exact I].
  apply Hincl. left. auto.
Qed.

Lemma round_inv g s cnt : Inv g s cnt ->
  Inv g (b_cs (round g s cnt)) (b_cnt (round g s cnt)).
Proof. intros I. unfold round. apply fold_relax_inv; (simpl; gn); auto. apply incl_refl. Qed.

(** the loop, whenever it returns, returns a stable state satisfying the invariant *)
Lemma bellman_ford_ok g : forall fuel s cnt s' cnt', Inv g s cnt ->
  bellman_ford fuel g s cnt = Ok (s', cnt') -> Inv g s' cnt' /\ stable g s'.
Proof.
  induction fuel as [|fuel IH]; intros s cnt s' cnt' I H; (simpl in H; gn); [discriminate|].
  destruct (b_upd (round g s cnt)) eqn:E.
  - eapply IH; [|exact H]. apply round_inv; auto.
  - inversion H; subst. destruct (round_noupd_stable g s cnt E) as (Es & Ec & St).
    split; [apply round_inv; auto|]. rewrite Es. exact St.
Qed.

(* ------------------------------------------------------------------------------------------ *)
(** * parent edges and reconstruction: soundness *)

Lemma max_rank_spec s args : forall acc mr, max_rank s acc args = Some mr ->
  (acc <= mr)%nat /\
  forall d, In (CClass d) args -> exists vd kd, s d = Some (vd, kd) /\ (kd <= mr)%nat.
Proof.
  induction args as [|a args IH]; intros acc mr H; (simpl in *; gn).
  - inversion H; subst. split; auto. intros ? [].
  - destruct (child_rank s a) as [ka|] eqn:Hr; [|discriminate].
    destruct (IH _ _ H) as [Hle Hall]. split; [lia|].
    intros d [->|Hin]; auto. (simpl in Hr; gn).
    destruct (s d) as [[vd kd]|]; [|discriminate]. inversion Hr; subst.
    exists vd, ka. split; auto. lia.
Qed.

Lemma is_parent_spec g s c r : is_parent g s c r = true ->
  allowed g r = true /\ r_cls r = c /\
  exists best rk mr, s c = Some (best, rk) /\ row_cost g s r = Some best /\
    max_rank s 0 (r_args r) = Some mr /\ (mr < rk)%nat.
Proof.
  unfold is_parent. intros H.
  apply andb_prop in H. destruct H as [H H3]. apply andb_prop in H. destruct H as [H1 H2].
  apply Nat.eqb_eq in H2. split; auto. split; auto.
  gn.
  destruct (s c) as [[best rk]|]; [|discriminate].
  destruct (max_rank s 0 (r_args r)) as [mr|]; [|discriminate].
  apply andb_prop in H3. destruct H3 as [Ha Hb].
  rewrite parent_cost_matches_eq in Ha. rewrite rank_guard_lt in Hb.
  destruct (row_cost g s r) as [rc|]; [|discriminate].
  apply N.eqb_eq in Ha. apply Nat.ltb_lt in Hb. subst rc.
  exists best, rk, mr. auto.
Qed.

Lemma parent_edge_spec g s c r : parent_edge g s c = Some r ->
  In r (g_rows g) /\ is_parent g s c r = true.
Proof. unfold parent_edge. apply find_some. Qed.

Lemma bind_ok {A B} (x : Res A) (k : A -> Res B) b : bind x k = Ok b ->
  exists a, x = Ok a /\ k a = Ok b.
Proof. destruct x; (simpl; gn); try discriminate. eauto. Qed.

Lemma recon_args_ok g s rec args : forall ts acc v,
  recon_args rec args = Ok ts -> fold_cost s acc args = Some v ->
  (forall d t vd kd, In (CClass d) args -> rec d = Ok t -> s d = Some (vd, kd) ->
      repr g t d /\ tree_cost g t = vd) ->
  repr_args g ts args /\ tree_fold g ts acc = v.
Proof.
  induction args as [|a args IH]; intros ts acc v Hr Hc Hrec; (simpl in *; gn).
  - inversion Hr; inversion Hc; subst. split; constructor.
  - destruct a as [d|z]; (simpl in Hc; gn).
    + destruct (s d) as [[vd kd]|] eqn:Hs; [|discriminate].
      apply bind_ok in Hr. destruct Hr as (t & Ht & Hr).
      apply bind_ok in Hr. destruct Hr as (ts' & Hts & Hr). inversion Hr; subst.
      destruct (Hrec d t vd kd (or_introl eq_refl) Ht Hs) as [Hrep Hcost].
      destruct (IH ts' _ _ Hts Hc) as [Hra Hv]. { intros; eapply Hrec; eauto. }
      split; [constructor; auto|]. (simpl; gn). rewrite Hcost. exact Hv.
    + apply bind_ok in Hr. destruct Hr as (ts' & Hts & Hr). inversion Hr; subst.
      destruct (IH ts' _ _ Hts Hc) as [Hra Hv]. { intros; eapply Hrec; eauto. }
      split; [constructor; auto|]. exact Hv.
Qed.

(** any term produced by reconstruction lies in the class, through allowed rows only, and its
    tree cost is the class's table entry *)
Lemma reconstruct_ok g s : forall fuel c t v k, reconstruct fuel g s c = Ok t ->
  s c = Some (v, k) -> repr g t c /\ tree_cost g t = v.
Proof.
  induction fuel as [|fuel IH]; intros c t v k H Hs; (simpl in H; gn); [discriminate|].
  destruct (parent_edge g s c) as [r|] eqn:Hp; [|discriminate].
  apply parent_edge_spec in Hp. destruct Hp as [Hin Hp].
  apply is_parent_spec in Hp.
  destruct Hp as (Hal & Hcl & best & rk & mr & Hs' & Hrc & _ & _).
  rewrite Hs in Hs'. inversion Hs'; subst best rk. clear Hs'.
  apply bind_ok in H. destruct H as (ts & Hts & H). inversion H; subst t. clear H.
  rewrite row_cost_fold in Hrc.
  destruct (recon_args_ok g s _ _ ts _ _ Hts Hrc) as [Hra Hv].
  { intros d t vd kd _ Ht Hd. eapply IH; eauto. }
  subst c. split; [apply R_app; auto|]. rewrite tree_cost_app. exact Hv.
Qed.

(* ------------------------------------------------------------------------------------------ *)
(** * the four statements about [(extract e)] *)

Lemma extract_inv fuel g root res : extract fuel g root = Ok res ->
  exists s cnt, bellman_ford fuel g empty_cs 0 = Ok (s, cnt) /\
                Inv g s cnt /\ stable g s /\ extract_with g (s, cnt) root = Ok res.
Proof.
  unfold extract. intros H. apply bind_ok in H. destruct H as ([s cnt] & Hbf & H).
  exists s, cnt. destruct (bellman_ford_ok g fuel _ _ _ _ (inv_empty g) Hbf). auto.
Qed.

Lemma extract_with_some g s cnt root cost t :
  extract_with g (s, cnt) root = Ok (Some (cost, t)) ->
  exists k, s root = Some (cost, k) /\ reconstruct (S cnt) g s root = Ok t.
Proof.
  unfold extract_with. destruct (s root) as [[c k]|] eqn:Hs; [|discriminate].
  intros H. apply bind_ok in H. destruct H as (t' & Ht & H). inversion H; subst. eauto.
Qed.

Theorem extract_member fuel g root cost t :
  extract fuel g root = Ok (Some (cost, t)) -> repr g t root.
Proof.
  intros H. apply extract_inv in H. destruct H as (s & cnt & _ & _ & _ & H).
  apply extract_with_some in H. destruct H as (k & Hs & Hr).
  eapply reconstruct_ok; eauto.
Qed.

Theorem extract_cost_exact fuel g root cost t :
  extract fuel g root = Ok (Some (cost, t)) -> tree_cost g t = cost.
Proof.
  intros H. apply extract_inv in H. destruct H as (s & cnt & _ & _ & _ & H).
  apply extract_with_some in H. destruct H as (k & Hs & Hr).
  eapply reconstruct_ok; eauto.
Qed.

Theorem extract_optimal fuel g root cost t :
  extract fuel g root = Ok (Some (cost, t)) ->
  forall t', repr g t' root -> cost <= tree_cost g t'.
Proof.
  intros H t' Hr. apply extract_inv in H. destruct H as (s & cnt & _ & _ & St & H).
  apply extract_with_some in H. destruct H as (k & Hs & _).
  destruct (proj1 (lower_bound g s St) t' root Hr) as (v & k' & Hs' & Hle).
  rewrite Hs in Hs'. inversion Hs'; subst. exact Hle.
Qed.

Theorem extract_none_empty fuel g root :
  extract fuel g root = Ok None -> ~ exists t, repr g t root.
Proof.
  intros H [t Hr]. apply extract_inv in H. destruct H as (s & cnt & _ & _ & St & H).
  destruct (proj1 (lower_bound g s St) t root Hr) as (v & k & Hs & _).
  unfold extract_with in H. rewrite Hs in H.
  apply bind_ok in H. destruct H as (? & _ & H). discriminate.
Qed.

(* ------------------------------------------------------------------------------------------ *)
(** * totality below the saturation bound *)

Lemma sum_fold_ge vs : forall b, N.min b MAXC <= sum_fold vs b.
Proof.
  induction vs as [|x vs IH]; intros b; (simpl; gn); [lia|].
  specialize (IH (sat_add b x)). unfold sat_add in *. lia.
Qed.

Lemma fold_cost_ge s args : forall acc v, fold_cost s acc args = Some v -> N.min acc MAXC <= v.
Proof.
  induction args as [|a args IH]; intros acc v H; (simpl in *; gn).
  - inversion H; subst. lia.
  - destruct (child_cost s a) as [c|]; [|discriminate].
    specialize (IH _ _ H). unfold sat_add in *. lia.
Qed.

(** below saturation, every child of a row is cheaper than the row *)
Lemma fold_cost_child_lt s args : forall acc v d vd kd, fold_cost s acc args = Some v ->
  v < MAXC -> In (CClass d) args -> s d = Some (vd, kd) -> vd < MAXC.
Proof.
  induction args as [|a args IH]; intros acc v d vd kd H Hv Hin Hs; (simpl in *; gn); [tauto|].
  destruct (child_cost s a) as [c|] eqn:Hc; [|discriminate].
  destruct Hin as [->|Hin].
  - (simpl in Hc; gn). rewrite Hs in Hc. inversion Hc; subst c.
    pose proof (fold_cost_ge _ _ _ _ H). unfold sat_add in *. lia.
  - eapply IH; eauto.
Qed.

Lemma snap_fold s k args vs : Forall2 (child_snap s k) args vs -> forall acc acc', acc <= acc' ->
  exists rc, fold_cost s acc args = Some rc /\ rc <= sum_fold vs acc'.
Proof.
  induction 1 as [|a vc args vs Ha HF IH]; intros acc acc' Hle; (simpl; gn).
  - eauto.
  - destruct a as [d|z]; (simpl in *; gn).
    + destruct Ha as (vd & kd & Hs & Hor). rewrite Hs.
      apply IH. apply sat_add_mono; auto. destruct Hor as [[-> _]|]; lia.
    + subst vc. apply IH. apply sat_add_mono; lia.
Qed.

(** if the row's current cost did not drop below its (unsaturated) snapshot cost, no child was
    updated since the snapshot: this is where strict monotonicity of [+] is needed, and where
    saturating addition breaks it (finding F4) *)
Lemma snap_tight s k args vs : Forall2 (child_snap s k) args vs -> forall acc acc' rc,
  acc <= acc' -> sum_fold vs acc' < MAXC -> fold_cost s acc args = Some rc ->
  sum_fold vs acc' <= rc ->
  acc = acc' /\ forall d, In (CClass d) args -> exists vd kd, s d = Some (vd, kd) /\ (kd < k)%nat.
Proof.
  induction 1 as [|a vc args vs Ha HF IH]; intros acc acc' rc Hle Hlt Hc Hge; (simpl in *; gn).
  - inversion Hc; subst. split; [lia|]. intros ? [].
  - pose proof (sum_fold_ge vs (sat_add acc' vc)) as Hge'.
    assert (Hns : sat_add acc' vc < MAXC) by lia.
    pose proof (sat_add_exact _ _ Hns) as Hex.
    destruct a as [d|z]; (simpl in *; gn).
    + destruct Ha as (vd & kd & Hs & Hor). rewrite Hs in Hc.
      assert (Hvd : vd <= vc) by (destruct Hor as [[-> _]|]; lia).
      destruct (IH (sat_add acc vd) (sat_add acc' vc) rc) as [Heq Hall]; auto.
      { apply sat_add_mono; auto. }
      assert (acc = acc' /\ vd = vc) as [-> ->] by (unfold sat_add in *; lia).
      split; auto. intros d' [E|Hin]; auto. inversion E; subst d'.
      exists vc, kd. split; auto. destruct Hor as [[_ ?]|]; [auto|lia].
    + subst vc.
      destruct (IH (sat_add acc 1) (sat_add acc' 1) rc) as [Heq Hall]; auto.
      { apply sat_add_mono; lia. }
      split; [unfold sat_add in *; lia|].
      intros d' [E|Hin]; [discriminate|auto].
Qed.

Lemma max_rank_lt s k args : forall acc, (acc < k)%nat ->
  (forall d, In (CClass d) args -> exists vd kd, s d = Some (vd, kd) /\ (kd < k)%nat) ->
  exists mr, max_rank s acc args = Some mr /\ (mr < k)%nat.
Proof.
  induction args as [|a args IH]; intros acc Hacc Hall; (simpl; gn).
  - eauto.
  - destruct a as [d|z]; (simpl; gn).
    + destruct (Hall d (or_introl eq_refl)) as (vd & kd & Hs & Hk). rewrite Hs.
      apply IH; [lia|]. intros; apply Hall; right; auto.
    + apply IH; [lia|]. intros; apply Hall; right; auto.
Qed.

(** every class whose cost is below the saturation bound has a parent edge *)
Lemma parent_exists g s cnt : Inv g s cnt -> stable g s ->
  forall c v k, s c = Some (v, k) -> v < MAXC -> exists r, parent_edge g s c = Some r.
Proof.
  intros I St c v k Hs Hv.
  destruct (inv_snap _ _ _ I _ _ _ Hs) as (r & vs & Hin & Hal & Hcl & HF & Hsum).
  destruct (snap_fold s k _ _ HF (fn_cost g (r_fn r)) _ (N.le_refl _)) as (rc & Hrc & Hle).
  assert (Hrow : row_cost g s r = Some rc) by (rewrite row_cost_fold; exact Hrc).
  destruct (St r rc Hin Hal Hrow) as (oc & k' & Hs' & Hoc).
  rewrite Hcl, Hs in Hs'. inversion Hs'; subst oc k'. clear Hs'.
  assert (rc = v) by lia. subst rc.
  assert (H1 : sum_fold vs (fn_cost g (r_fn r)) < MAXC) by lia.
  assert (H2 : sum_fold vs (fn_cost g (r_fn r)) <= v) by lia.
  destruct (snap_tight s k _ _ HF _ _ _ (N.le_refl (fn_cost g (r_fn r))) H1 Hrc H2) as [_ Hall].
  destruct (max_rank_lt s k (r_args r) 0%nat) as (mr & Hmr & Hlt); auto.
  { pose proof (inv_rank _ _ _ I _ _ _ Hs). lia. }
  assert (Hp : is_parent g s c r = true).
  { unfold is_parent. rewrite Hal, Hcl, Nat.eqb_refl, Hs. gn. rewrite Hrow, Hmr.
    rewrite parent_cost_matches_eq, rank_guard_lt.
    rewrite N.eqb_refl. apply Nat.ltb_lt in Hlt. rewrite Hlt. reflexivity. }
  unfold parent_edge. destruct (find (is_parent g s c) (g_rows g)) eqn:Hf; eauto.
  pose proof (find_none _ _ Hf r Hin). congruence.
Qed.

Lemma recon_args_total rec args :
  (forall d, In (CClass d) args -> exists t, rec d = Ok t) -> exists ts, recon_args rec args = Ok ts.
Proof.
  induction args as [|a args IH]; intros H; (simpl; gn); eauto.
  destruct IH as (ts & Hts). { intros; apply H; right; auto. }
  destruct a as [d|z].
  - destruct (H d (or_introl eq_refl)) as (t & Ht). rewrite Ht, Hts. (simpl; gn). eauto.
  - rewrite Hts. (simpl; gn). eauto.
Qed.

(** reconstruction terminates (ranks strictly decrease along parent edges) and never hits the
    [unwrap] on a missing parent edge, for classes below the saturation bound *)
Lemma reconstruct_total g s cnt : Inv g s cnt -> stable g s ->
  forall fuel c v k, s c = Some (v, k) -> v < MAXC -> (k < fuel)%nat ->
  exists t, reconstruct fuel g s c = Ok t.
Proof.
  intros I St. induction fuel as [|fuel IH]; intros c v k Hs Hv Hk; [lia|]. (simpl; gn).
  destruct (parent_exists g s cnt I St c v k Hs Hv) as (r & Hp). rewrite Hp.
  apply parent_edge_spec in Hp. destruct Hp as [Hin Hp]. apply is_parent_spec in Hp.
  destruct Hp as (Hal & Hcl & best & rk & mr & Hs' & Hrc & Hmr & Hlt).
  rewrite Hs in Hs'. inversion Hs'; subst best rk. clear Hs'. rewrite row_cost_fold in Hrc.
  destruct (recon_args_total (reconstruct fuel g s) (r_args r)) as (ts & Hts).
  { intros d Hd. destruct (proj2 (max_rank_spec _ _ _ _ Hmr) d Hd) as (vd & kd & Hsd & Hkd).
    eapply (IH d vd kd); auto; [|lia].
    eapply fold_cost_child_lt; eauto. }
  rewrite Hts. (simpl; gn). eauto.
Qed.

(* ------------------------------------------------------------------------------------------ *)
(** * termination of the relaxation loop *)

(** weight of a table entry; absent entries weigh more than any cost the loop can write *)
Definition wtop (g : graph) : N := 2 + MAXC + fold_right (fun f a => f_cost f + a) 0 (g_fns g).
Definition wgt (g : graph) (e : option (N * nat)) : N :=
  match e with None => wtop g | Some (v, _) => v end.
Definition mu (g : graph) (rows : list row) (s : cstate) : N :=
  fold_right (fun r a => wgt g (s (r_cls r)) + a) 0 rows.

Lemma nth_cost_le_sum fns : forall f, f_cost (nth f fns (mkF 1 true)) <=
  1 + fold_right (fun f a => f_cost f + a) 0 fns.
Proof.
  induction fns as [|x fns IH]; intros i; destruct i as [|i]; cbn [nth fold_right f_cost]; try lia.
  specialize (IH i). lia.
Qed.

Lemma sum_fold_le vs : forall acc, sum_fold vs acc <= N.max acc MAXC.
Proof.
  induction vs as [|x vs IH]; intros acc; (simpl; gn); [lia|].
  specialize (IH (sat_add acc x)). unfold sat_add in *. lia.
Qed.

Lemma inv_below_top g s cnt : Inv g s cnt -> forall c v k, s c = Some (v, k) -> v < wtop g.
Proof.
  intros I c v k Hs.
  destruct (inv_snap _ _ _ I _ _ _ Hs) as (r & vs & _ & _ & _ & _ & ->).
  pose proof (sum_fold_le vs (fn_cost g (r_fn r))).
  pose proof (nth_cost_le_sum (g_fns g) (r_fn r)).
  unfold wtop, fn_cost, fn_decl in *. lia.
Qed.

Lemma fold_cost_below_top g s cnt r nc : Inv g s cnt -> row_cost g s r = Some nc -> nc < wtop g.
Proof.
  intros I H. rewrite row_cost_fold in H.
  assert (Hk : forall d vd kd, In (CClass d) (r_args r) -> s d = Some (vd, kd) -> (kd < S cnt)%nat).
  { intros d vd kd _ Hs. pose proof (inv_rank _ _ _ I _ _ _ Hs). lia. }
  destruct (fold_cost_snap s (S cnt) _ _ _ H Hk) as (vs & _ & ->).
  pose proof (sum_fold_le vs (fn_cost g (r_fn r))).
  pose proof (nth_cost_le_sum (g_fns g) (r_fn r)).
  unfold wtop, fn_cost, fn_decl in *. lia.
Qed.

Lemma mu_le g rows s s' : (forall c, wgt g (s' c) <= wgt g (s c)) -> mu g rows s' <= mu g rows s.
Proof.
  intros H. induction rows as [|r rows IH]; (simpl; gn); [lia|]. specialize (H (r_cls r)). lia.
Qed.

Lemma mu_lt g rows s s' r : (forall c, wgt g (s' c) <= wgt g (s c)) -> In r rows ->
  wgt g (s' (r_cls r)) < wgt g (s (r_cls r)) -> mu g rows s' < mu g rows s.
Proof.
  intros H Hin Hlt. induction rows as [|x rows IH]; (simpl; gn); [destruct Hin|].
  destruct Hin as [->|Hin].
  - pose proof (mu_le g rows s s' H). lia.
  - specialize (IH Hin). specialize (H (r_cls x)). lia.
Qed.

Lemma step_measure g b r b' : step_kind g b r b' -> In r (g_rows g) ->
  Inv g (b_cs b) (b_cnt b) ->
  (b' = b) \/ (b_upd b' = true /\ mu g (g_rows g) (b_cs b') < mu g (g_rows g) (b_cs b)).
Proof.
  intros K Hin I. destruct K as [|nc Hal Hc Hold]; auto. right. (simpl; gn). split; auto.
  pose proof (fold_cost_below_top _ _ _ _ _ I Hc) as Htop.
  assert (Hr : wgt g (cs_set (b_cs b) (r_cls r) (nc, S (b_cnt b)) (r_cls r)) < wgt g (b_cs b (r_cls r))).
  { unfold cs_set. rewrite Nat.eqb_refl. (simpl; gn).
    destruct Hold as [->|(oc & k & -> & Hlt)]; (simpl; gn); auto. }
  apply mu_lt with (r := r); auto.
  intros c. unfold cs_set. destruct (Nat.eqb_spec c (r_cls r)) as [->|]; [|lia].
  unfold cs_set in Hr. rewrite Nat.eqb_refl in Hr. lia.
Qed.

Lemma fold_relax_measure g rows : forall b, incl rows (g_rows g) -> Inv g (b_cs b) (b_cnt b) ->
  let b' := fold_left (relax_row g) rows b in
  mu g (g_rows g) (b_cs b') <= mu g (g_rows g) (b_cs b) /\
  (b_upd b' = true -> b_upd b = true \/ mu g (g_rows g) (b_cs b') < mu g (g_rows g) (b_cs b)).
Proof.
  induction rows as [|r rows IH]; intros b Hincl I; (simpl; gn).
  - split; [lia|auto].
  - assert (Hin : In r (g_rows g)) by (apply Hincl; left; auto).
    assert (Hincl' : incl rows (g_rows g)) by (intros x Hx; apply Hincl; right; auto).
    pose proof (relax_row_kind g b r) as K.
    pose proof (step_preserves_inv g b r _ K Hin I) as I'.
    destruct (IH (relax_row g b r) Hincl' I') as [Hle Hflag].
    destruct (step_measure g b r _ K Hin I) as [Eq|[Hu Hlt]].
    + rewrite Eq in *. auto.
    + split; [lia|]. intros _. right. lia.
Qed.

Lemma bellman_ford_total g : forall fuel s cnt, Inv g s cnt ->
  (N.to_nat (mu g (g_rows g) s) < fuel)%nat ->
  exists s' cnt', bellman_ford fuel g s cnt = Ok (s', cnt').
Proof.
  induction fuel as [|fuel IH]; intros s cnt I Hm; [lia|]. (simpl; gn).
  destruct (b_upd (round g s cnt)) eqn:E; eauto.
  apply IH; [apply round_inv; auto|].
  destruct (fold_relax_measure g (g_rows g) (mkBF s cnt false) (incl_refl _) I) as [_ Hflag].
  (simpl in Hflag; gn). unfold round in E. destruct (Hflag E) as [|Hlt]; [discriminate|].
  unfold round. lia.
Qed.

Theorem bellman_ford_terminates g : exists fuel s cnt, bellman_ford fuel g empty_cs 0 = Ok (s, cnt).
Proof.
  exists (S (N.to_nat (mu g (g_rows g) empty_cs))).
  destruct (bellman_ford_total g (S (N.to_nat (mu g (g_rows g) empty_cs))) empty_cs 0 (inv_empty g))
    as (s & cnt & H); eauto.
Qed.

Lemma bellman_ford_fuel_mono g : forall fuel fuel' s cnt res, bellman_ford fuel g s cnt = Ok res ->
  (fuel <= fuel')%nat -> bellman_ford fuel' g s cnt = Ok res.
Proof.
  induction fuel as [|fuel IH]; intros fuel' s cnt res H Hle; (simpl in H; gn); [discriminate|].
  destruct fuel' as [|fuel']; [lia|]. (simpl; gn).
  destruct (b_upd (round g s cnt)); auto. apply IH; auto. lia.
Qed.

(** totality: the relaxation loop always terminates, and a class holding an allowed term of
    cost below 2^64-1 is always extracted (no panic, no failure) *)
Theorem extract_total_unsaturated g root t0 : repr g t0 root -> tree_cost g t0 < MAXC ->
  exists fuel, forall fuel', (fuel <= fuel')%nat ->
    exists cost t, extract fuel' g root = Ok (Some (cost, t)).
Proof.
  intros Hr Hc. destruct (bellman_ford_terminates g) as (fuel & s & cnt & Hbf).
  exists fuel. intros fuel' Hle.
  pose proof (bellman_ford_fuel_mono g _ _ _ _ _ Hbf Hle) as Hbf'.
  destruct (bellman_ford_ok g _ _ _ _ _ (inv_empty g) Hbf) as [I St].
  destruct (proj1 (lower_bound g s St) t0 root Hr) as (v & k & Hs & Hle').
  destruct (reconstruct_total g s cnt I St (S cnt) root v k Hs) as (t & Ht); [lia| |].
  { pose proof (inv_rank _ _ _ I _ _ _ Hs). lia. }
  exists v, t. unfold extract. rewrite Hbf'. cbn [bind]. unfold extract_with.
  rewrite Hs, Ht. reflexivity.
Qed.

(** the relaxation loop's final table holds, for every class, the least cost of its allowed
    terms (as an existence statement independent of reconstruction, valid also under saturation) *)
Theorem costs_are_least g fuel s cnt : bellman_ford fuel g empty_cs 0 = Ok (s, cnt) ->
  forall c, match s c with
            | Some (v, _) => (exists t, repr g t c /\ tree_cost g t = v) /\
                             forall t, repr g t c -> v <= tree_cost g t
            | None => forall t, ~ repr g t c
            end.
Proof.
  intros Hbf c. destruct (bellman_ford_ok g _ _ _ _ _ (inv_empty g) Hbf) as [I St].
  destruct (s c) as [[v k]|] eqn:Hs.
  - split; [eapply inv_wit; eauto|].
    intros t Hr. destruct (proj1 (lower_bound g s St) t c Hr) as (v' & k' & Hs' & Hle).
    rewrite Hs in Hs'. inversion Hs'; subst. exact Hle.
  - intros t Hr. destruct (proj1 (lower_bound g s St) t c Hr) as (v' & k' & Hs' & _). congruence.
Qed.

(* ------------------------------------------------------------------------------------------ *)
(** * the F4 witness: a class with a cost but no parent edge *)

Definition f4_big : N := 9223372036854775807.   (* largest :cost the parser accepts (i64::MAX) *)
(** (datatype E (Q :cost M) (P E :cost M) (W E :cost M) (S :cost 1) (Id E :cost M))
    (let t (W (P (Q)))) (union (P (Q)) (Id (S)))   -- classes: 0 = Q, 1 = P(Q) = Id(S), 2 = t, 3 = S *)
Definition f4_graph : graph :=
  mkG [mkF f4_big false; mkF f4_big false; mkF f4_big false; mkF 1 false; mkF f4_big false]
      [mkRow 0 [] 0%nat false; mkRow 1 [CClass 0] 1%nat false; mkRow 2 [CClass 1] 2%nat false;
       mkRow 3 [] 3%nat false; mkRow 4 [CClass 3] 1%nat false].

Lemma f4_has_term : repr f4_graph (TApp 2 [TApp 4 [TApp 3 []]]) 2%nat.
Proof.
  apply (R_app f4_graph (mkRow 2 [CClass 1] 2%nat false)); (simpl; gn); auto.
  constructor; [|constructor].
  apply (R_app f4_graph (mkRow 4 [CClass 3] 1%nat false)); (simpl; gn); auto 10.
  constructor; [|constructor].
  apply (R_app f4_graph (mkRow 3 [] 3%nat false)); (simpl; gn); auto 10.
  constructor.
Qed.

Lemma bellman_ford_no_panic g : forall fuel s cnt, bellman_ford fuel g s cnt <> Panic.
Proof.
  induction fuel as [|fuel IH]; intros s cnt; (simpl; gn); [discriminate|].
  destruct (b_upd (round g s cnt)); [apply IH|discriminate].
Qed.

Theorem extract_total_refuted :
  exists g root, (exists t, repr g t root) /\
    forall fuel, (3 <= fuel)%nat -> extract fuel g root = Panic.
Proof.
  exists f4_graph, 2%nat. split; [eexists; apply f4_has_term|].
  intros fuel Hf.
  assert (H : extract 3 f4_graph 2%nat = Panic) by (vm_compute; reflexivity).
  unfold extract in *.
  destruct (bellman_ford 3 f4_graph empty_cs 0) as [sc| |] eqn:E.
  - rewrite (bellman_ford_fuel_mono _ _ _ _ _ _ E Hf). exact H.
  - exfalso. eapply bellman_ford_no_panic; eauto.
  - discriminate.
Qed.

(* ------------------------------------------------------------------------------------------ *)
(** * variants *)

Lemma root_variants_spec g s root c r : In (c, r) (root_variants g s root) ->
  In r (g_rows g) /\ allowed g r = true /\ r_cls r = root /\ row_cost g s r = Some c.
Proof.
  unfold root_variants. intros H. apply in_flat_map in H. destruct H as (r' & Hin & H).
  destruct (allowed g r') eqn:Hal; (simpl in H; gn); [|tauto].
  destruct (Nat.eqb_spec (r_cls r') root); [|(simpl in H; gn); tauto].
  destruct (row_cost g s r') eqn:Hc; (simpl in H; gn); [|tauto].
  destruct H as [H|[]]. inversion H; subst. auto.
Qed.

Lemma root_variants_nodup g s root : NoDup (g_rows g) -> NoDup (map snd (root_variants g s root)).
Proof.
  unfold root_variants. induction (g_rows g) as [|r rows IH]; intros ND; (simpl; gn); [constructor|].
  inversion ND as [|? ? Hnin ND']; subst. rewrite map_app.
  set (F := fun r0 => if allowed g r0 && Nat.eqb (r_cls r0) root
                      then match row_cost g s r0 with Some c => [(c, r0)] | None => [] end else []) in *.
  assert (Hsnd : forall x, In x (map snd (flat_map F rows)) -> In x rows).
  { intros x Hx. apply in_map_iff in Hx. destruct Hx as ([c x'] & <- & Hx).
    apply in_flat_map in Hx. destruct Hx as (r' & Hin & Hx). unfold F in Hx.
    destruct (allowed g r' && Nat.eqb (r_cls r') root); [|destruct Hx].
    destruct (row_cost g s r'); [|destruct Hx]. destruct Hx as [Hx|[]]. inversion Hx; subst. auto. }
  unfold F at 1.
  destruct (allowed g r && Nat.eqb (r_cls r) root); (simpl; gn); auto.
  destruct (row_cost g s r); (simpl; gn); auto.
  constructor; auto.
Qed.

Lemma insert_by_cost_perm x l : Permutation (insert_by_cost x l) (x :: l).
Proof.
  induction l as [|y l IH]; (simpl; gn); auto.
  destruct (fst x <? fst y); auto.
  eapply perm_trans; [apply perm_skip; exact IH|apply perm_swap].
Qed.

Lemma sort_by_cost_perm l : Permutation (sort_by_cost l) l.
Proof.
  induction l as [|x l IH]; (simpl; gn); auto.
  eapply perm_trans; [apply insert_by_cost_perm|auto].
Qed.

Lemma firstn_in {A} (l : list A) : forall k x, In x (firstn k l) -> In x l.
Proof.
  induction l as [|a l IH]; intros [|k] x H; (simpl in *; gn); try tauto.
  destruct H; auto. right. eauto.
Qed.

Lemma firstn_nodup {A} (l : list A) : forall k, NoDup l -> NoDup (firstn k l).
Proof.
  induction l as [|a l IH]; intros [|k] ND; (simpl; gn); try constructor.
  - inversion ND; subst. intros H. apply firstn_in in H. auto.
  - inversion ND; subst. auto.
Qed.

Lemma variants_terms_spec g s cnt : forall l out, variants_terms g s cnt l = Ok out ->
  Forall2 (fun cr ct => fst ct = fst cr /\ exists ts, snd ct = TApp (r_fn (snd cr)) ts /\
             recon_args (reconstruct (S cnt) g s) (r_args (snd cr)) = Ok ts) l out.
Proof.
  induction l as [|[c r] l IH]; intros out H; (simpl in H; gn).
  - inversion H. constructor.
  - apply bind_ok in H. destruct H as (ts & Hts & H).
    apply bind_ok in H. destruct H as (rest & Hrest & H). inversion H; subst.
    constructor; auto. (simpl; gn). split; auto. eauto.
Qed.

(** each variant of [(extract e k)] is a member of the class (through allowed rows only), its tree
    cost is its reported cost, the variants are rooted at pairwise distinct e-nodes of the class,
    and there are at most k of them *)
Theorem variants_ok fuel g root k out : extract_variants fuel g root k = Ok out ->
  exists rs : list row,
    Forall2 (fun r ct => In r (g_rows g) /\ allowed g r = true /\ r_cls r = root /\
               exists ts, snd ct = TApp (r_fn r) ts /\ repr_args g ts (r_args r) /\
                          repr g (snd ct) root /\ tree_cost g (snd ct) = fst ct) rs out /\
    (NoDup (g_rows g) -> NoDup rs) /\ (length out <= k)%nat.
Proof.
  unfold extract_variants. intros H. apply bind_ok in H. destruct H as ([s cnt] & Hbf & H).
  unfold extract_variants_with in H.
  set (sel := firstn k (sort_by_cost (root_variants g s root))) in *.
  apply variants_terms_spec in H.
  exists (map snd sel). split; [|split].
  - assert (Hsel : forall c r, In (c, r) sel -> In (c, r) (root_variants g s root)).
    { intros c r Hin. apply firstn_in in Hin.
      eapply Permutation_in; [apply sort_by_cost_perm|exact Hin]. }
    clearbody sel. induction H as [|[c r] ct l out' Hh HF IH]; (simpl; gn); constructor.
    + destruct Hh as (Hfst & ts & Hsnd & Hrec). (simpl in *; gn).
      destruct (root_variants_spec g s root c r (Hsel c r (or_introl eq_refl)))
        as (Hin & Hal & Hcl & Hrc).
      rewrite row_cost_fold in Hrc.
      assert (Hrk : forall d t vd kd, In (CClass d) (r_args r) ->
                 reconstruct (S cnt) g s d = Ok t -> s d = Some (vd, kd) ->
                 repr g t d /\ tree_cost g t = vd).
      { intros d t vd kd _ Ht Hd. eapply reconstruct_ok; eauto. }
      destruct (recon_args_ok g s _ _ ts _ _ Hrec Hrc Hrk) as [Hra Hv].
      repeat split; auto. exists ts. repeat split; auto.
      * rewrite Hsnd, <- Hcl. apply R_app; auto.
      * rewrite Hsnd, tree_cost_app, Hfst. exact Hv.
    + apply IH. intros c' r' Hin'. apply Hsel. right. auto.
  - intros ND. unfold sel.
    pose proof (root_variants_nodup g s root ND) as ND1.
    assert (ND2 : NoDup (map snd (sort_by_cost (root_variants g s root)))).
    { eapply Permutation_NoDup; [|exact ND1]. apply Permutation_map. apply Permutation_sym.
      apply sort_by_cost_perm. }
    rewrite <- firstn_map. apply firstn_nodup. exact ND2.
  - assert (Hlen : length out = length sel) by (clear -H; induction H; (simpl; gn); auto).
    rewrite Hlen. unfold sel. rewrite firstn_length. lia.
Qed.

(* ------------------------------------------------------------------------------------------ *)
(** * the function evaluated by the correspondence check is the proved one *)

Lemma check_case_uses_extract g roots vars : check_case (g, roots, vars) = true ->
  (forall root o, In (root, o) roots -> obs_matches (extract (case_fuel g) g root) o = true) /\
  (forall root k o, In (root, k, o) vars ->
      vobs_matches (extract_variants (case_fuel g) g root k) o = true).
Proof.
  unfold check_case, extract, extract_variants.
  destruct (bellman_ford (case_fuel g) g empty_cs 0) as [sc| |]; try discriminate.
  intros H. apply andb_prop in H. destruct H as [H1 H2].
  rewrite forallb_forall in H1, H2. split.
  - intros root o Hin. exact (H1 _ Hin).
  - intros root k o Hin. exact (H2 _ Hin).
Qed.

(* ------------------------------------------------------------------------------------------ *)
(** * source-side statements pinned in Props/C07.v (about gen/ExtractFns.v) *)

Lemma src_combine_saturating a b : cost_combine a b = N.min (a + b) MAXC.
Proof. rewrite cost_combine_sat. reflexivity. Qed.

Lemma src_fold_head_plus_children cs h :
  tac_fold cs h = fold_left (fun s c => N.min (s + c) MAXC) cs h.
Proof. rewrite tac_fold_sum. reflexivity. Qed.

Lemma src_container_cost_sum cs :
  container_cost_default cs = fold_left (fun s c => N.min (s + c) MAXC) cs 0.
Proof. rewrite container_cost_sum. reflexivity. Qed.

Lemma src_relax_strict : relax_vacant_updates = true /\ forall n o, relax_improves n o = true <-> n < o.
Proof. split; [reflexivity|]. intros n o. rewrite relax_improves_lt. apply N.ltb_lt. Qed.

Lemma src_parent_tests :
  (forall best oc, parent_cost_matches best oc = true <-> oc = Some best) /\
  (forall t e, rank_guard t e = true <-> (e < t)%nat) /\ parent_first_wins = true.
Proof.
  split; [|split; [|reflexivity]].
  - intros best oc. rewrite parent_cost_matches_eq. destruct oc as [c|].
    + rewrite N.eqb_eq. split; [intros ->; reflexivity|intros E; inversion E; reflexivity].
    + split; discriminate.
  - intros t e. rewrite rank_guard_lt. apply Nat.ltb_lt.
Qed.

Lemma src_rank : rank_init = 0%nat /\ rank_prim = 0%nat /\ forall a b, rank_combine a b = Nat.max a b.
Proof. repeat split. Qed.

Lemma src_base_value_cost : base_value_cost_default = 1 /\ cost_identity = 0.
Proof. split; reflexivity. Qed.

(** the model's row cost / update test / parent test ARE the regenerated functions *)
Lemma model_uses_regenerated :
  (forall g s r, row_cost g s r =
     match children_costs s (r_args r) with
     | Some cs => Some (tac_fold cs (fn_cost g (r_fn r))) | None => None end) /\
  (forall s z, child_cost s (CPrim z) = Some base_value_cost_default) /\
  (forall g b r nc oc k, allowed g r = true -> row_cost g (b_cs b) r = Some nc ->
     b_cs b (r_cls r) = Some (oc, k) ->
     relax_row g b r = if relax_improves nc oc
                       then mkBF (cs_set (b_cs b) (r_cls r) (nc, S (b_cnt b))) (S (b_cnt b)) true
                       else b) /\
  (forall g s c r best rk mr, allowed g r = true -> r_cls r = c -> s c = Some (best, rk) ->
     max_rank s rank_init (r_args r) = Some mr ->
     is_parent g s c r = parent_cost_matches best (row_cost g s r) && rank_guard rk mr).
Proof.
  split; [reflexivity|]. split; [reflexivity|]. split.
  - intros g b r nc oc k Hal Hc Hs. unfold relax_row. rewrite Hal, Hc, Hs. reflexivity.
  - intros g s c r best rk mr Hal Hcl Hs Hmr. unfold is_parent.
    rewrite Hal, Hcl, Nat.eqb_refl, Hs, Hmr. reflexivity.
Qed.
