//! Extension module (Tier A) for C09. Output: coq/gen/SessionFacts.v
//! Contract: return (text of the .v file, report lines). Each report line is one JSON object
//! {"item":"SessionFacts.<name>","file":"<rust file>","ok":true|false[,"error":"..."]}.
//! Fail closed: when a site is not recognised, OMIT the Gallina definition (so dependent proofs stop
//! compiling) and push an ok:false report line.
//!
//! What is regenerated: for every declaration path of the command pipeline, the ORDERED list of
//! "validation steps" (places that can return an error: `expr?`, `Err(Variant ..)`), "state
//! mutations" (insert/push/remove/.. on a field path rooted at `self`, assignments to such a path,
//! `std::mem::swap(&mut self.., ..)`), backend calls (`self.backend.m(..)`), opaque hand-offs of
//! mutable engine state to code that is not walked (`f(&mut self.x)`, `o.m(self)`), `panic!`s, loops
//! and calls of the two dispatchers (`typecheck_command`, `run_command`), in EVALUATION order
//! (arguments before the call, the tried expression before its `?`, branches in source order).
//! Calls of `&mut self` methods defined in the walked files are INLINED (their field paths prefixed
//! with the receiver's path), so a list is the whole path through the typechecker / runner.
//!
//! Items:
//!   typecheck_function_steps          src/typechecking.rs  TypeInfo::typecheck_function (whole body)
//!   tc_arm_<x>_steps                  src/typechecking.rs  EGraph::typecheck_command, one per `match` arm
//!   typecheck_program_steps           src/typechecking.rs  EGraph::typecheck_program
//!   shadow_arm_<x>_steps              src/ast/check_shadowing.rs  Names::check_shadowing arms
//!   resolve_before_proofs_steps       src/lib.rs  EGraph::resolve_command_before_proofs
//!   process_program_steps             src/lib.rs  EGraph::process_program_internal
//!   run_arm_<x>_steps                 src/lib.rs  EGraph::run_command, one per `match` arm
//!   push_steps / pop_steps            src/lib.rs  EGraph::push / EGraph::pop
use quote::ToTokens;
use std::collections::HashMap;
use std::path::Path;
use syn::visit::Visit;

const TC: &str = "src/typechecking.rs";
const LIB: &str = "src/lib.rs";
const SH: &str = "src/ast/check_shadowing.rs";

fn toks<T: ToTokens>(t: &T) -> String {
    t.to_token_stream().to_string()
}

#[derive(Clone, Debug, PartialEq)]
enum Step {
    Validate(String),
    Mutate(String),
    Backend(String),
    Opaque(String),
    Panics(String),
    Call(String),
    LoopStart,
    LoopEnd,
}

fn coq_str(s: &str) -> String {
    let t: String = s
        .chars()
        .map(|c| if c.is_ascii_alphanumeric() || "_.*:- ".contains(c) { c } else { '_' })
        .collect();
    format!("\"{}\"", t)
}

impl Step {
    fn coq(&self) -> String {
        match self {
            Step::Validate(s) => format!("Validate {}", coq_str(s)),
            Step::Mutate(s) => format!("Mutate {}", coq_str(s)),
            Step::Backend(s) => format!("Backend {}", coq_str(s)),
            Step::Opaque(s) => format!("Opaque {}", coq_str(s)),
            Step::Panics(s) => format!("Panics {}", coq_str(s)),
            Step::Call(s) => format!("Call {}", coq_str(s)),
            Step::LoopStart => "LoopStart".into(),
            Step::LoopEnd => "LoopEnd".into(),
        }
    }
}

/// a method with a receiver, found in one of the walked files
#[derive(Clone)]
struct KnownFn {
    file: &'static str,
    mutable: bool,
    block: syn::Block,
}

struct Known {
    fns: HashMap<String, Vec<KnownFn>>,
}

fn collect_known(files: &[(&'static str, syn::File)]) -> Known {
    struct C {
        file: &'static str,
        out: Vec<(String, KnownFn)>,
    }
    impl<'ast> Visit<'ast> for C {
        fn visit_impl_item_fn(&mut self, f: &'ast syn::ImplItemFn) {
            if let Some(syn::FnArg::Receiver(r)) = f.sig.inputs.first() {
                self.out.push((
                    f.sig.ident.to_string(),
                    KnownFn { file: self.file, mutable: r.mutability.is_some(), block: f.block.clone() },
                ));
            }
        }
        fn visit_item_mod(&mut self, m: &'ast syn::ItemMod) {
            if m.attrs.iter().any(|a| toks(a).contains("test")) {
                return;
            }
            syn::visit::visit_item_mod(self, m);
        }
    }
    let mut fns: HashMap<String, Vec<KnownFn>> = HashMap::new();
    for (name, file) in files {
        let mut c = C { file: name, out: vec![] };
        c.visit_file(file);
        for (n, k) in c.out {
            fns.entry(n).or_default().push(k);
        }
    }
    Known { fns }
}

const MUTATORS: &[&str] = &[
    "insert", "push", "push_back", "push_front", "remove", "clear", "extend", "retain", "pop", "take", "truncate",
    "swap_remove", "shift_remove", "append", "drain", "replace", "union", "get_or_insert_with", "insert_full",
];
/// methods through which a field path is still "the same place"
const THROUGH: &[&str] = &[
    "as_mut", "as_ref", "unwrap", "expect", "get_mut", "entry", "or_default", "or_insert_with", "iter_mut", "values_mut",
    "borrow_mut", "lock", "write", "as_deref_mut", "get", "or_insert",
];
/// dispatchers that are never inlined (their arms are separate items)
const DISPATCH: &[&str] = &["typecheck_command", "run_command", "process_program_internal", "check_shadowing"];

struct Walker<'k> {
    known: &'k Known,
    file: &'static str,
    /// path prefix of `self` in the function being walked ("" at top level)
    prefix: String,
    aliases: HashMap<String, String>,
    steps: Vec<Step>,
    stack: Vec<String>,
    errors: Vec<String>,
    /// when walking a dispatcher arm: skip `if let <Enum>::<Other> .. = ..` statements
    arm_variant: Option<String>,
}

fn join(a: &str, b: &str) -> String {
    if a.is_empty() {
        b.to_string()
    } else if b.is_empty() {
        a.to_string()
    } else {
        format!("{a}.{b}")
    }
}

impl<'k> Walker<'k> {
    /// the field path (relative to the outermost `self`) an expression denotes, if it is rooted at `self`
    fn self_path(&self, e: &syn::Expr) -> Option<String> {
        match e {
            syn::Expr::Reference(r) => self.self_path(&r.expr),
            syn::Expr::Paren(p) => self.self_path(&p.expr),
            syn::Expr::Unary(u) => self.self_path(&u.expr),
            syn::Expr::Try(t) => self.self_path(&t.expr),
            syn::Expr::Path(p) => {
                let id = p.path.get_ident()?.to_string();
                if id == "self" {
                    Some(self.prefix.clone())
                } else {
                    self.aliases.get(&id).cloned()
                }
            }
            syn::Expr::Field(f) => {
                let base = self.self_path(&f.base)?;
                Some(join(&base, &toks(&f.member)))
            }
            syn::Expr::Index(i) => self.self_path(&i.expr),
            syn::Expr::MethodCall(m) => {
                if THROUGH.contains(&m.method.to_string().as_str()) {
                    self.self_path(&m.receiver)
                } else {
                    None
                }
            }
            _ => None,
        }
    }

    fn bind_pattern(&mut self, pat: &syn::Pat, path: &str) {
        struct P(Vec<String>);
        impl<'ast> Visit<'ast> for P {
            fn visit_pat_ident(&mut self, p: &'ast syn::PatIdent) {
                self.0.push(p.ident.to_string());
                syn::visit::visit_pat_ident(self, p);
            }
        }
        let mut p = P(vec![]);
        p.visit_pat(pat);
        for id in p.0 {
            self.aliases.insert(id, path.to_string());
        }
    }

    fn unbind_pattern(&mut self, pat: &syn::Pat) {
        struct P(Vec<String>);
        impl<'ast> Visit<'ast> for P {
            fn visit_pat_ident(&mut self, p: &'ast syn::PatIdent) {
                self.0.push(p.ident.to_string());
            }
        }
        let mut p = P(vec![]);
        p.visit_pat(pat);
        for id in p.0 {
            self.aliases.remove(&id);
        }
    }

    fn lookup_known(&self, name: &str) -> Result<Option<KnownFn>, String> {
        let Some(c) = self.known.fns.get(name) else { return Ok(None) };
        let same: Vec<&KnownFn> = c.iter().filter(|k| k.file == self.file).collect();
        let pick: Vec<&KnownFn> = if same.is_empty() { c.iter().collect() } else { same };
        if pick.len() == 1 {
            Ok(Some(pick[0].clone()))
        } else if pick.iter().all(|k| !k.mutable) {
            Ok(None)
        } else {
            Err(format!("method `{name}` is defined {} times; cannot decide which one is called", pick.len()))
        }
    }

    fn inline(&mut self, name: &str, k: &KnownFn, recv_path: String) {
        if self.stack.iter().any(|s| s == name) {
            self.steps.push(Step::Call(name.to_string()));
            return;
        }
        let mut w = Walker {
            known: self.known,
            file: k.file,
            prefix: recv_path,
            aliases: HashMap::new(),
            steps: vec![],
            stack: self.stack.clone(),
            errors: vec![],
            arm_variant: None,
        };
        w.stack.push(name.to_string());
        w.visit_block(&k.block);
        self.steps.append(&mut w.steps);
        self.errors.append(&mut w.errors);
    }

    /// receivers whose methods are defined in the walked files: the EGraph itself (also the
    /// `original_typechecking` EGraph of proof mode), its TypeInfo, its shadowing record
    fn walked_struct(path: &str) -> bool {
        matches!(path.rsplit('.').next().unwrap_or(""), "" | "type_info" | "names" | "original_typechecking")
    }

    /// sibling branches are exclusive: list the branches that can only reject (or panic) before the
    /// branches that do anything else; every execution path stays a subsequence of the list
    fn emit_branches(&mut self, mut branches: Vec<Vec<Step>>) {
        let only_rejects = |b: &Vec<Step>| b.iter().all(|s| matches!(s, Step::Validate(_) | Step::Panics(_)));
        let (mut first, mut rest): (Vec<Vec<Step>>, Vec<Vec<Step>>) = (vec![], vec![]);
        for b in branches.drain(..) {
            if only_rejects(&b) {
                first.push(b)
            } else {
                rest.push(b)
            }
        }
        for mut b in first.into_iter().chain(rest) {
            self.steps.append(&mut b);
        }
    }

    fn in_branch(&mut self, f: impl FnOnce(&mut Self)) -> Vec<Step> {
        let saved = std::mem::take(&mut self.steps);
        f(self);
        std::mem::replace(&mut self.steps, saved)
    }

    fn arg_hands_off_state(&self, a: &syn::Expr) -> bool {
        match a {
            syn::Expr::Reference(r) if r.mutability.is_some() => self.self_path(&r.expr).is_some(),
            syn::Expr::Path(p) => p.path.is_ident("self"),
            _ => false,
        }
    }

    fn err_label(e: &syn::Expr) -> String {
        fn last(p: &syn::Path) -> String {
            p.segments.last().map(|s| s.ident.to_string()).unwrap_or_else(|| "Err".into())
        }
        match e {
            syn::Expr::Call(c) => {
                if let syn::Expr::Path(p) = &*c.func {
                    let l = last(&p.path);
                    // Error::TypeError(TypeError::X(..)) -> X
                    if (l == "TypeError" || l == "from") && c.args.len() == 1 {
                        return Self::err_label(&c.args[0]);
                    }
                    l
                } else {
                    "Err".into()
                }
            }
            syn::Expr::Struct(s) => last(&s.path),
            syn::Expr::Path(p) => last(&p.path),
            syn::Expr::MethodCall(m) => Self::err_label(&m.receiver),
            _ => "Err".into(),
        }
    }

    fn outer_call_name(e: &syn::Expr) -> String {
        match e {
            syn::Expr::MethodCall(m) => m.method.to_string(),
            syn::Expr::Call(c) => match &*c.func {
                syn::Expr::Path(p) => p.path.segments.last().map(|s| s.ident.to_string()).unwrap_or_default(),
                _ => "call".into(),
            },
            syn::Expr::Paren(p) => Self::outer_call_name(&p.expr),
            syn::Expr::Path(p) => p.path.segments.last().map(|s| s.ident.to_string()).unwrap_or_default(),
            syn::Expr::If(_) | syn::Expr::Match(_) | syn::Expr::Block(_) => "block".into(),
            _ => "expr".into(),
        }
    }

    /// was the call `e` inlined (a known `&mut self` method on a self-rooted receiver)?
    fn is_inlined_call(&self, e: &syn::Expr) -> bool {
        if let syn::Expr::MethodCall(m) = e {
            let name = m.method.to_string();
            if let Some(path) = self.self_path(&m.receiver) {
                if path.rsplit('.').next() == Some("backend") {
                    return false;
                }
                if DISPATCH.contains(&name.as_str()) {
                    return true;
                }
                if Self::walked_struct(&path) {
                    if let Ok(Some(k)) = self.lookup_known(&name) {
                        return k.mutable;
                    }
                }
            }
        }
        false
    }
}

impl<'ast, 'k> Visit<'ast> for Walker<'k> {
    fn visit_expr_try(&mut self, t: &'ast syn::ExprTry) {
        syn::visit::visit_expr_try(self, t);
        if !self.is_inlined_call(&t.expr) {
            self.steps.push(Step::Validate(Self::outer_call_name(&t.expr)));
        }
    }

    fn visit_expr_call(&mut self, c: &'ast syn::ExprCall) {
        syn::visit::visit_expr_call(self, c);
        let fname = match &*c.func {
            syn::Expr::Path(p) => p.path.segments.iter().map(|s| s.ident.to_string()).collect::<Vec<_>>().join("::"),
            _ => "call".to_string(),
        };
        let last = fname.rsplit("::").next().unwrap_or("").to_string();
        if last == "Err" && c.args.len() == 1 {
            self.steps.push(Step::Validate(Self::err_label(&c.args[0])));
            return;
        }
        if fname.contains("mem::") && (last == "swap" || last == "replace" || last == "take") {
            for a in &c.args {
                if let syn::Expr::Reference(r) = a {
                    if r.mutability.is_some() {
                        if let Some(p) = self.self_path(&r.expr) {
                            self.steps.push(Step::Mutate(p));
                        }
                    }
                }
            }
            return;
        }
        if c.args.iter().any(|a| self.arg_hands_off_state(a)) {
            self.steps.push(Step::Opaque(last));
        }
    }

    fn visit_expr_method_call(&mut self, m: &'ast syn::ExprMethodCall) {
        syn::visit::visit_expr_method_call(self, m);
        let name = m.method.to_string();
        let recv = self.self_path(&m.receiver);
        if let Some(path) = &recv {
            // calls on the backend are steps of their own
            let lastseg = path.rsplit('.').next().unwrap_or("");
            if lastseg == "backend" {
                self.steps.push(Step::Backend(join(path, &name)));
                return;
            }
            if DISPATCH.contains(&name.as_str()) {
                self.steps.push(Step::Call(name));
                return;
            }
            if Self::walked_struct(path) {
                match self.lookup_known(&name) {
                    Err(e) => {
                        self.errors.push(e);
                        return;
                    }
                    Ok(Some(k)) if k.mutable => {
                        self.inline(&name, &k, path.clone());
                        return;
                    }
                    Ok(Some(_)) => return, // `&self` method of the walked files: no mutation of self
                    Ok(None) => {}
                }
            }
            if MUTATORS.contains(&name.as_str()) && !path.is_empty() {
                self.steps.push(Step::Mutate(path.clone()));
                return;
            }
        }
        if m.args.iter().any(|a| self.arg_hands_off_state(a)) {
            self.steps.push(Step::Opaque(name));
        }
    }

    fn visit_expr_assign(&mut self, a: &'ast syn::ExprAssign) {
        self.visit_expr(&a.right);
        if let Some(p) = self.self_path(&a.left) {
            self.steps.push(Step::Mutate(if p.is_empty() { "*self".into() } else { p }));
        } else {
            self.visit_expr(&a.left);
        }
    }

    fn visit_expr_binary(&mut self, b: &'ast syn::ExprBinary) {
        syn::visit::visit_expr_binary(self, b);
        use syn::BinOp::*;
        if matches!(
            b.op,
            AddAssign(_) | SubAssign(_) | MulAssign(_) | DivAssign(_) | RemAssign(_) | BitXorAssign(_) | BitAndAssign(_)
                | BitOrAssign(_) | ShlAssign(_) | ShrAssign(_)
        ) {
            if let Some(p) = self.self_path(&b.left) {
                self.steps.push(Step::Mutate(p));
            }
        }
    }

    fn visit_local(&mut self, l: &'ast syn::Local) {
        if let Some(init) = &l.init {
            self.visit_expr(&init.expr);
            if let Some((_, d)) = &init.diverge {
                self.visit_expr(d);
            }
            match self.self_path(&init.expr) {
                Some(p) => self.bind_pattern(&l.pat, &p),
                None => self.unbind_pattern(&l.pat),
            }
        }
    }

    fn visit_expr_let(&mut self, l: &'ast syn::ExprLet) {
        self.visit_expr(&l.expr);
        match self.self_path(&l.expr) {
            Some(p) => self.bind_pattern(&l.pat, &p),
            None => self.unbind_pattern(&l.pat),
        }
    }

    fn visit_expr_if(&mut self, i: &'ast syn::ExprIf) {
        if let (Some(v), syn::Expr::Let(l)) = (&self.arm_variant, &*i.cond) {
            let pat = toks(&l.pat);
            if pat.contains("NCommand ::") && !pat.contains(&format!(":: {v}")) {
                return; // applies to another arm's command only
            }
        }
        self.visit_expr(&i.cond);
        let mut branches = vec![self.in_branch(|w| w.visit_block(&i.then_branch))];
        if let Some((_, e)) = &i.else_branch {
            branches.push(self.in_branch(|w| w.visit_expr(e)));
        }
        self.emit_branches(branches);
    }

    fn visit_expr_match(&mut self, m: &'ast syn::ExprMatch) {
        self.visit_expr(&m.expr);
        let sp = self.self_path(&m.expr);
        let mut branches = vec![];
        for arm in &m.arms {
            match &sp {
                Some(p) => self.bind_pattern(&arm.pat, p),
                None => self.unbind_pattern(&arm.pat),
            }
            branches.push(self.in_branch(|w| {
                if let Some((_, g)) = &arm.guard {
                    w.visit_expr(g);
                }
                w.visit_expr(&arm.body);
            }));
        }
        self.emit_branches(branches);
    }

    fn visit_expr_for_loop(&mut self, f: &'ast syn::ExprForLoop) {
        self.visit_expr(&f.expr);
        self.unbind_pattern(&f.pat);
        self.steps.push(Step::LoopStart);
        self.visit_block(&f.body);
        self.steps.push(Step::LoopEnd);
    }

    fn visit_expr_while(&mut self, w: &'ast syn::ExprWhile) {
        self.steps.push(Step::LoopStart);
        self.visit_expr(&w.cond);
        self.visit_block(&w.body);
        self.steps.push(Step::LoopEnd);
    }

    fn visit_macro(&mut self, m: &'ast syn::Macro) {
        let name = m.path.segments.last().map(|s| s.ident.to_string()).unwrap_or_default();
        if name == "panic" || name == "unimplemented" || name == "todo" {
            let t = m.tokens.to_string();
            let lit: String = t.chars().skip_while(|c| *c != '"').skip(1).take_while(|c| *c != '"' && *c != '{').collect();
            self.steps.push(Step::Panics(lit.trim().chars().take(40).collect()));
        }
    }

    fn visit_item(&mut self, _i: &'ast syn::Item) {
        // nested items (fn inside fn) are only walked when called; they have no `self`
    }
}

fn find_method(file: &syn::File, name: &str) -> Result<syn::Block, String> {
    struct F<'n> {
        name: &'n str,
        found: Vec<syn::Block>,
    }
    impl<'ast, 'n> Visit<'ast> for F<'n> {
        fn visit_impl_item_fn(&mut self, f: &'ast syn::ImplItemFn) {
            if f.sig.ident == self.name {
                self.found.push(f.block.clone());
            }
        }
        fn visit_item_mod(&mut self, m: &'ast syn::ItemMod) {
            if m.attrs.iter().any(|a| toks(a).contains("test")) {
                return;
            }
            syn::visit::visit_item_mod(self, m);
        }
    }
    let mut v = F { name, found: vec![] };
    v.visit_file(file);
    match v.found.len() {
        1 => Ok(v.found.remove(0)),
        n => Err(format!("expected exactly one method `{name}`, found {n}")),
    }
}

fn walk_block(known: &Known, file: &'static str, fname: &str, b: &syn::Block) -> Result<Vec<Step>, String> {
    let mut w = Walker {
        known,
        file,
        prefix: String::new(),
        aliases: HashMap::new(),
        steps: vec![],
        stack: vec![fname.to_string()],
        errors: vec![],
        arm_variant: None,
    };
    w.visit_block(b);
    if let Some(e) = w.errors.first() {
        return Err(e.clone());
    }
    Ok(w.steps)
}

/// the statement index and the `match` over the command enum in a dispatcher's body
fn dispatcher_match<'a>(b: &'a syn::Block, enum_name: &str) -> Result<(usize, &'a syn::ExprMatch), String> {
    fn as_match(e: &syn::Expr) -> Option<&syn::ExprMatch> {
        match e {
            syn::Expr::Match(m) => Some(m),
            _ => None,
        }
    }
    for (i, s) in b.stmts.iter().enumerate() {
        let m = match s {
            syn::Stmt::Expr(e, _) => as_match(e),
            syn::Stmt::Local(l) => l.init.as_ref().and_then(|i| as_match(&i.expr)),
            _ => None,
        };
        if let Some(m) = m {
            let key = format!("{enum_name} ::");
            if m.arms.iter().filter(|a| toks(&a.pat).starts_with(&key)).count() >= 10 {
                return Ok((i, m));
            }
        }
    }
    Err(format!("no `match` over {enum_name} found among the statements of the body"))
}

/// steps of one arm of a dispatcher: statements before the match, the arm, statements after it
fn walk_arm(
    known: &Known,
    file: &'static str,
    fname: &str,
    b: &syn::Block,
    enum_name: &str,
    variant: &str,
    pat_has: Option<&str>,
    pat_lacks: Option<&str>,
) -> Result<Vec<Step>, String> {
    let (idx, m) = dispatcher_match(b, enum_name)?;
    let key = format!("{enum_name} :: {variant}");
    let arms: Vec<&syn::Arm> = m
        .arms
        .iter()
        .filter(|a| {
            let p = toks(&a.pat);
            let after = p.strip_prefix(&key);
            let exact = matches!(after, Some(r) if r.is_empty() || r.starts_with(' ') || r.starts_with('(') || r.starts_with('{'));
            exact && pat_has.map_or(true, |h| p.contains(h)) && pat_lacks.map_or(true, |h| !p.contains(h))
        })
        .collect();
    if arms.len() != 1 {
        return Err(format!("expected exactly one arm `{key}` (has {pat_has:?}, lacks {pat_lacks:?}) in {fname}, found {}", arms.len()));
    }
    let mut w = Walker {
        known,
        file,
        prefix: String::new(),
        aliases: HashMap::new(),
        steps: vec![],
        stack: vec![fname.to_string()],
        errors: vec![],
        arm_variant: Some(variant.to_string()),
    };
    for s in &b.stmts[..idx] {
        w.visit_stmt(s);
    }
    // scrutinee, then the chosen arm
    w.visit_expr(&m.expr);
    if let Some((_, g)) = &arms[0].guard {
        w.visit_expr(g);
    }
    w.visit_expr(&arms[0].body);
    for s in &b.stmts[idx + 1..] {
        w.visit_stmt(s);
    }
    if let Some(e) = w.errors.first() {
        return Err(e.clone());
    }
    Ok(w.steps)
}

pub fn generate(repo: &Path) -> (String, Vec<String>) {
    let mut out = String::new();
    let mut report = Vec::new();
    out.push_str("(* GENERATED by /verif/translator (x_session.rs) from src/typechecking.rs, src/lib.rs,\n");
    out.push_str("   src/ast/check_shadowing.rs: ordered validation / mutation steps of every declaration path. *)\n");
    out.push_str("From Coq Require Import List String.\nImport ListNotations.\nOpen Scope string_scope.\n\n");
    out.push_str("Inductive sstep :=\n| Validate (label : string)   (* can return Err here: `e?` or `Err(Variant ..)` *)\n");
    out.push_str("| Mutate (field : string)     (* insert / push / remove / assignment on a field path rooted at self *)\n");
    out.push_str("| Backend (call : string)     (* method call on self.backend *)\n");
    out.push_str("| Opaque (callee : string)    (* mutable engine state handed to code that is not walked *)\n");
    out.push_str("| Panics (msg : string)       (* panic! site *)\n");
    out.push_str("| Call (dispatcher : string)  (* typecheck_command / run_command / check_shadowing / recursion *)\n");
    out.push_str("| LoopStart | LoopEnd.\n\n");

    let mut files: Vec<(&'static str, syn::File)> = vec![];
    for rel in [TC, LIB, SH] {
        let parsed = std::fs::read_to_string(repo.join(rel))
            .map_err(|e| format!("{rel}: {e}"))
            .and_then(|s| syn::parse_file(&s).map_err(|e| format!("{rel}: {e}")));
        match parsed {
            Ok(f) => files.push((rel, f)),
            Err(e) => {
                report.push(format!("{{\"item\":\"SessionFacts\",\"file\":\"{rel}\",\"ok\":false,\"error\":{:?}}}", e));
                return (out, report);
            }
        }
    }
    let known = collect_known(&files);
    let file_of = |rel: &str| -> &syn::File { &files.iter().find(|(n, _)| *n == rel).unwrap().1 };

    let mut emit = |name: &str, rel: &str, r: Result<Vec<Step>, String>| match r {
        Ok(steps) => {
            let body: Vec<String> = steps.iter().map(|s| s.coq()).collect();
            out.push_str(&format!("Definition {name} : list sstep :=\n  [{}].\n\n", body.join(";\n   ")));
            report.push(format!("{{\"item\":\"SessionFacts.{name}\",\"file\":\"{rel}\",\"ok\":true}}"));
        }
        Err(e) => {
            out.push_str(&format!("(* {name}: NOT EXTRACTED: {} *)\n\n", e.replace("*)", "* )")));
            report.push(format!("{{\"item\":\"SessionFacts.{name}\",\"file\":\"{rel}\",\"ok\":false,\"error\":{:?}}}", e));
        }
    };

    // whole functions
    let whole: &[(&str, &'static str, &str)] = &[
        ("typecheck_function_steps", TC, "typecheck_function"),
        ("typecheck_program_steps", TC, "typecheck_program"),
        ("resolve_before_proofs_steps", LIB, "resolve_command_before_proofs"),
        ("process_program_steps", LIB, "process_program_internal"),
        ("push_steps", LIB, "push"),
        ("pop_steps", LIB, "pop"),
    ];
    for (item, rel, f) in whole {
        let r = find_method(file_of(rel), f).and_then(|b| walk_block(&known, rel, f, &b));
        emit(item, rel, r);
    }

    // dispatcher arms: (item, file, fn, enum, variant, pattern must contain, pattern must not contain)
    type Arm = (&'static str, &'static str, &'static str, &'static str, &'static str, Option<&'static str>, Option<&'static str>);
    let arms: &[Arm] = &[
        ("tc_arm_function_steps", TC, "typecheck_command", "NCommand", "Function", None, None),
        ("tc_arm_sort_steps", TC, "typecheck_command", "NCommand", "Sort", None, None),
        ("tc_arm_let_steps", TC, "typecheck_command", "NCommand", "CoreAction", Some("Action :: Let"), None),
        ("tc_arm_action_steps", TC, "typecheck_command", "NCommand", "CoreAction", None, Some("Action :: Let")),
        ("tc_arm_rule_steps", TC, "typecheck_command", "NCommand", "NormRule", None, None),
        ("tc_arm_check_steps", TC, "typecheck_command", "NCommand", "Check", None, None),
        ("tc_arm_schedule_steps", TC, "typecheck_command", "NCommand", "RunSchedule", None, None),
        ("tc_arm_ruleset_steps", TC, "typecheck_command", "NCommand", "AddRuleset", None, None),
        ("tc_arm_combined_steps", TC, "typecheck_command", "NCommand", "UnstableCombinedRuleset", None, None),
        ("tc_arm_push_steps", TC, "typecheck_command", "NCommand", "Push", None, None),
        ("tc_arm_pop_steps", TC, "typecheck_command", "NCommand", "Pop", None, None),
        ("tc_arm_printsize_steps", TC, "typecheck_command", "NCommand", "PrintSize", None, None),
        ("tc_arm_fail_steps", TC, "typecheck_command", "NCommand", "Fail", None, None),
        ("shadow_arm_sort_steps", SH, "check_shadowing", "ResolvedNCommand", "Sort", None, None),
        ("shadow_arm_function_steps", SH, "check_shadowing", "ResolvedNCommand", "Function", None, None),
        ("shadow_arm_ruleset_steps", SH, "check_shadowing", "ResolvedNCommand", "AddRuleset", None, None),
        ("shadow_arm_combined_steps", SH, "check_shadowing", "ResolvedNCommand", "UnstableCombinedRuleset", None, None),
        ("shadow_arm_rule_steps", SH, "check_shadowing", "ResolvedNCommand", "NormRule", None, None),
        ("shadow_arm_action_steps", SH, "check_shadowing", "ResolvedNCommand", "CoreAction", None, None),
        ("shadow_arm_fail_steps", SH, "check_shadowing", "ResolvedNCommand", "Fail", None, None),
        ("run_arm_sort_steps", LIB, "run_command", "ResolvedNCommand", "Sort", None, None),
        ("run_arm_function_steps", LIB, "run_command", "ResolvedNCommand", "Function", None, None),
        ("run_arm_ruleset_steps", LIB, "run_command", "ResolvedNCommand", "AddRuleset", None, None),
        ("run_arm_combined_steps", LIB, "run_command", "ResolvedNCommand", "UnstableCombinedRuleset", None, None),
        ("run_arm_rule_steps", LIB, "run_command", "ResolvedNCommand", "NormRule", None, None),
        ("run_arm_action_steps", LIB, "run_command", "ResolvedNCommand", "CoreAction", None, None),
        ("run_arm_check_steps", LIB, "run_command", "ResolvedNCommand", "Check", None, None),
        ("run_arm_push_steps", LIB, "run_command", "ResolvedNCommand", "Push", None, None),
        ("run_arm_pop_steps", LIB, "run_command", "ResolvedNCommand", "Pop", None, None),
        ("run_arm_fail_steps", LIB, "run_command", "ResolvedNCommand", "Fail", None, None),
    ];
    for (item, rel, f, en, var, has, lacks) in arms {
        let r = find_method(file_of(rel), f).and_then(|b| walk_arm(&known, rel, f, &b, en, var, *has, *lacks));
        emit(item, rel, r);
    }
    (out, report)
}
