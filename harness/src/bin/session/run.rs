//! Running sessions on the real engine: one EGraph per session, command by command (REPL-style),
//! `catch_unwind` around every call, canonical observations.
use egglog::{CommandOutput, EGraph, Error};
use std::cell::RefCell;
use std::panic::{catch_unwind, AssertUnwindSafe};

#[derive(Clone, Copy, Debug, PartialEq, Eq, Hash, PartialOrd, Ord)]
pub enum Mode {
    Plain,
    Term,
    Proofs,
}
impl Mode {
    pub fn name(&self) -> &'static str {
        match self {
            Mode::Plain => "plain",
            Mode::Term => "term-encoding",
            Mode::Proofs => "proofs",
        }
    }
    pub fn parse(s: &str) -> Mode {
        match s {
            "term-encoding" => Mode::Term,
            "proofs" => Mode::Proofs,
            _ => Mode::Plain,
        }
    }
    pub fn new_egraph(&self) -> EGraph {
        match self {
            Mode::Plain => EGraph::default(),
            Mode::Term => EGraph::new_with_term_encoding(),
            Mode::Proofs => EGraph::new_with_proofs(),
        }
    }
}

thread_local! {
    pub static LAST_PANIC: RefCell<Option<String>> = const { RefCell::new(None) };
}

pub fn install_panic_hook() {
    std::panic::set_hook(Box::new(|info| {
        let loc = info.location().map(|l| format!("{}:{}", l.file(), l.line())).unwrap_or_default();
        let msg = if let Some(s) = info.payload().downcast_ref::<&str>() {
            s.to_string()
        } else if let Some(s) = info.payload().downcast_ref::<String>() {
            s.clone()
        } else {
            "<non-string panic>".into()
        };
        let mut m: String = msg.chars().take(160).collect();
        m = m.replace('\n', " ");
        LAST_PANIC.with(|p| *p.borrow_mut() = Some(format!("{loc}: {m}")));
    }));
}

/// small error enum (never compare raw error strings: they embed spans, fresh names, ids)
pub fn err_class(e: &Error) -> &'static str {
    use egglog::TypeError as T;
    match e {
        Error::ParseError(_) => "parse",
        Error::NotFoundError(_) => "not-found",
        Error::TypeError(t) => match t {
            T::Arity { .. } => "type/arity",
            T::Mismatch { .. } => "type/mismatch",
            T::Unbound(..) => "type/unbound",
            T::Ungrounded(..) => "type/ungrounded",
            T::UndefinedSort(..) => "type/undefined-sort",
            T::UnboundFunction(..) => "type/unbound-function",
            T::FunctionAlreadyBound(..) => "type/function-already-bound",
            T::SortAlreadyBound(..) => "type/sort-already-bound",
            T::PrimitiveAlreadyBound(..) => "type/primitive-already-bound",
            T::PresortNotFound(..) => "type/presort-not-found",
            T::BadPresortArguments(..) => "type/bad-presort-args",
            T::InferenceFailure(..) => "type/inference",
            T::AlreadyDefined(..) => "type/already-defined",
            T::ConstructorOutputNotSort(..) => "type/ctor-output-not-sort",
            T::LookupInRuleDisallowed(..) => "type/lookup-in-rule",
            T::SetConstructorDisallowed(..) => "type/set-constructor",
            T::AllAlternativeFailed(..) => "type/all-alternatives-failed",
            T::NonEqsortUnion(..) => "type/non-eqsort-union",
            T::NonUnionableSort(..) => "type/non-unionable",
            _ => "type/other",
        },
        Error::ApiError(_) => "api",
        Error::TypeErrors(_) => "type/many",
        Error::CheckError(..) => "x/check-failed",
        Error::NoSuchRuleset(..) => "no-such-ruleset",
        Error::CombinedRulesetError(..) => "combined-ruleset",
        Error::BackendError(_) => "x/backend",
        Error::Pop(_) => "pop",
        Error::ExpectFail(_) => "x/expect-fail",
        Error::IoError(..) => "x/io",
        Error::SubsumeMergeError(..) => "subsume-merge",
        Error::ExtractError(_) => "x/extract",
        Error::ProofError { .. } => "x/proof",
        Error::Shadowing(..) => "shadowing",
        Error::CommandAlreadyExists(..) => "command-exists",
        Error::RuleAlreadyExists(..) => "rule-exists",
        Error::UnsupportedInputType(..) => "x/input-type",
        Error::DesugarError(..) => "desugar",
        Error::InputFileFormatError(_) => "x/input-format",
        Error::UnsupportedProofCommand { .. } => "unsupported-proof",
        Error::ProofsIncompatibleApi { .. } => "proofs-api",
    }
}

/// classes starting with "x/" are failures DURING execution; all others are rejections before it
pub fn is_pre_exec(class: &str) -> bool {
    !class.starts_with("x/")
}

#[derive(Clone, Debug, PartialEq, Eq)]
pub enum Outcome {
    Ok(String),
    Err(&'static str),
    Panic(String),
}
impl Outcome {
    pub fn short(&self) -> String {
        match self {
            Outcome::Ok(s) => format!("ok[{}]", s.trim()),
            Outcome::Err(c) => format!("err[{c}]"),
            Outcome::Panic(m) => format!("PANIC[{m}]"),
        }
    }
}

fn canon_outputs(outs: &[CommandOutput]) -> String {
    let mut s = String::new();
    for o in outs {
        match o {
            CommandOutput::PrintFunctionSize(n) => s.push_str(&format!("size={n};")),
            CommandOutput::RunSchedule(r) => s.push_str(&format!("run(updated={});", r.updated)),
            CommandOutput::PrintFunction(..) => {
                // rows as text, sorted (row order is not part of the property)
                let txt = o.to_string();
                let mut rows: Vec<&str> = txt.lines().map(|l| l.trim()).filter(|l| !l.is_empty() && *l != "(" && *l != ")").collect();
                rows.sort();
                s.push_str(&format!("rows={};", rows.join("|")));
            }
            CommandOutput::ExtractBest(_, cost, _) => s.push_str(&format!("extract(cost={cost});")),
            other => {
                let t = other.to_string();
                s.push_str(&format!("out={};", t.trim()));
            }
        }
    }
    s
}

pub fn run_text(eg: &mut EGraph, text: &str) -> Outcome {
    LAST_PANIC.with(|p| *p.borrow_mut() = None);
    let r = catch_unwind(AssertUnwindSafe(|| eg.parse_and_run_program(None, text)));
    match r {
        Ok(Ok(outs)) => Outcome::Ok(canon_outputs(&outs)),
        Ok(Err(e)) => Outcome::Err(err_class(&e)),
        Err(_) => Outcome::Panic(LAST_PANIC.with(|p| p.borrow().clone()).unwrap_or_else(|| "?".into())),
    }
}

/// canonical dump at the end of a session: size and rows of every named table
pub fn dump(eg: &mut EGraph, names: &[String]) -> Vec<String> {
    let mut out = Vec::new();
    for n in names {
        let a = run_text(eg, &format!("(print-size {n})"));
        out.push(format!("{n}: {}", a.short()));
        if matches!(a, Outcome::Panic(_)) {
            break;
        }
        let b = run_text(eg, &format!("(print-function {n} 200)"));
        out.push(format!("{n}: {}", b.short()));
        if matches!(b, Outcome::Panic(_)) {
            break;
        }
    }
    out
}

pub struct SessionRun {
    pub outcomes: Vec<Outcome>,
    pub dump: Vec<String>,
    pub panicked: bool,
}

/// run texts one by one on a single EGraph; stops at the first panic
pub fn run_session(mode: Mode, texts: &[String], dump_names: &[String]) -> SessionRun {
    let mut eg = mode.new_egraph();
    let mut outcomes = Vec::new();
    let mut panicked = false;
    for t in texts {
        let o = run_text(&mut eg, t);
        let p = matches!(o, Outcome::Panic(_));
        outcomes.push(o);
        if p {
            panicked = true;
            break;
        }
    }
    let dump = if panicked { vec![] } else { dump(&mut eg, dump_names) };
    if panicked {
        // locks may be poisoned: do not run destructors that could panic again
        std::mem::forget(eg);
    }
    SessionRun { outcomes, dump, panicked }
}

/// observation of the declaration state for one name (plain mode): what TypeInfo and the table map say
#[derive(Clone, Debug, PartialEq, Eq)]
pub struct NameObs {
    pub is_sort: bool,
    /// (is_constructor, input sort names, output sort name)
    pub sig: Option<(bool, Vec<String>, String)>,
    pub is_global: bool,
    pub has_table: bool,
}

pub fn observe(eg: &mut EGraph, name: &str) -> NameObs {
    let has_table = eg.get_function(name).is_some();
    let ti = eg.type_info();
    let is_sort = ti.get_sort_by_name(name).is_some();
    let sig = ti.get_func_type(name).map(|ft| {
        (
            ft.subtype == egglog::ast::FunctionSubtype::Constructor,
            ft.input.iter().map(|s| s.name().to_string()).collect(),
            ft.output.name().to_string(),
        )
    });
    let is_global = ti.is_global(name);
    NameObs { is_sort, sig, is_global, has_table }
}
