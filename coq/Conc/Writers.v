(** C19 / ParallelVecWriter, ConcurrentVec: proofs over WritersModel.v *)
From Coq Require Import List Arith Bool Lia.
Import ListNotations.
Require Import Verif.Base.Cases Verif.Conc.WritersModel.

Section W.
Variable items : nat -> list nat.
Variable init : list nat.
Notation len c := (length (items c)).
Notation st := WritersModel.st.

(** the reservations, oldest last, tile [length init, e) *)
Inductive tiles : list (nat * nat) -> nat -> Prop :=
| tiles_nil : tiles [] (length init)
| tiles_cons rs e c : tiles rs e -> tiles ((c, e) :: rs) (e + len c).

Lemma tiles_ge rs e : tiles rs e -> length init <= e.
Proof. induction 1; lia. Qed.

Lemma tiles_in rs e : tiles rs e -> forall c st, In (c, st) rs -> length init <= st /\ st + len c <= e.
Proof.
  induction 1; intros c0 st0 Hin; [destruct Hin|].
  destruct Hin as [E|Hin].
  - injection E as <- <-. pose proof (tiles_ge _ _ H). lia.
  - destruct (IHtiles _ _ Hin). lia.
Qed.

(** two different reservations never overlap *)
Lemma tiles_disjoint rs e : tiles rs e -> NoDup (map fst rs) ->
  forall c1 s1 c2 s2, In (c1, s1) rs -> In (c2, s2) rs -> c1 <> c2 ->
  s1 + len c1 <= s2 \/ s2 + len c2 <= s1.
Proof.
  induction 1; intros ND c1 s1 c2 s2 H1 H2 Hne; [destruct H1|].
  simpl in ND. inversion ND; subst.
  destruct H1 as [E1|H1]; destruct H2 as [E2|H2].
  - congruence.
  - injection E1 as <- <-. destruct (tiles_in _ _ H _ _ H2). right. lia.
  - injection E2 as <- <-. destruct (tiles_in _ _ H _ _ H1). left. lia.
  - eapply IHtiles; eauto.
Qed.

(** every index of [length init, e) lies in some reservation *)
Lemma tiles_cover rs e : tiles rs e -> forall idx, length init <= idx < e ->
  exists c st, In (c, st) rs /\ st <= idx < st + len c.
Proof.
  induction 1; intros idx Hi; [lia|].
  destruct (Nat.lt_ge_cases idx e) as [Hlt|Hge].
  - destruct (IHtiles idx) as (c0 & st0 & Hin & Hr); [lia|]. exists c0, st0. split; [right|]; auto.
  - exists c, e. split; [left; auto|lia].
Qed.

Definition written (s : st) (c start n : nat) : Prop :=
  forall j, j < n -> mem s (start + j) = nth j (items c) 0.

Record Inv (s : st) : Prop := {
  i_tiles : tiles (resv s) (end_len s);
  i_nodup : NoDup (map fst (resv s));
  i_idle : forall c, pcs s c = CIdle -> ~ In c (map fst (resv s));
  i_res : forall c start i, pcs s c = CRes start i ->
            In (c, start) (resv s) /\ i <= len c /\ written s c start i;
  i_done : forall c start, pcs s c = CDone start -> In (c, start) (resv s) /\ written s c start (len c);
  i_prefix : forall i, i < length init -> mem s i = nth i init 0
}.

Lemma inv_init : Inv (init_st init).
Proof.
  constructor; simpl; intros; try discriminate; auto.
  - constructor.
  - constructor.
Qed.

Lemma updf_eq {A} (f : nat -> A) i v : updf f i v i = v.
Proof. unfold updf. rewrite Nat.eqb_refl. auto. Qed.
Lemma updf_neq {A} (f : nat -> A) i v x : x <> i -> updf f i v x = f x.
Proof. unfold updf. intro. destruct (Nat.eqb_spec x i); congruence. Qed.

Lemma in_fst {A B} (a : A) (b : B) l : In (a, b) l -> In a (map fst l).
Proof. intro H. change a with (fst (a, b)). apply in_map. auto. Qed.

Lemma nodup_same_start s c s1 s2 : Inv s -> In (c, s1) (resv s) -> In (c, s2) (resv s) -> s1 = s2.
Proof.
  intros I. pose proof (i_nodup s I) as ND. induction (resv s) as [|[c0 st0] rs IH]; intros H1 H2; [destruct H1|].
  simpl in ND. inversion ND; subst.
  destruct H1 as [E1|H1]; destruct H2 as [E2|H2].
  - congruence.
  - injection E1 as <- <-. exfalso. apply H3. eapply in_fst; eauto.
  - injection E2 as <- <-. exfalso. apply H3. eapply in_fst; eauto.
  - apply IH; auto.
Qed.

Theorem inv_step s s' : Inv s -> step items s s' -> Inv s'.
Proof.
  intros I St. inversion St; subst; clear St.
  - (* reserve *)
    constructor; simpl.
    + constructor. apply I.
    + constructor; [apply (i_idle s I); auto|apply I].
    + intros c0 Hc0. destruct (Nat.eq_dec c0 c) as [->|N]; [rewrite updf_eq in Hc0; discriminate|].
      rewrite updf_neq in Hc0 by auto. intros [E|Hin]; [congruence|]. eapply (i_idle s I); eauto.
    + intros c0 start i Hc0. destruct (Nat.eq_dec c0 c) as [->|N].
      * rewrite updf_eq in Hc0. injection Hc0 as <- <-. split; [left; auto|]. split; [lia|].
        intros j Hj. lia.
      * rewrite updf_neq in Hc0 by auto. destruct (i_res s I _ _ _ Hc0) as (A & B & C).
        split; [right; auto|]. split; auto.
    + intros c0 start Hc0. destruct (Nat.eq_dec c0 c) as [->|N]; [rewrite updf_eq in Hc0; discriminate|].
      rewrite updf_neq in Hc0 by auto. destruct (i_done s I _ _ Hc0). split; [right|]; auto.
    + apply I.
  - (* write *)
    rename H into Hc. rename H0 into Hv.
    destruct (i_res s I _ _ _ Hc) as (Hin & Hle & Hw).
    assert (Hi : i < len c) by (apply nth_error_Some; congruence).
    destruct (tiles_in _ _ (i_tiles s I) _ _ Hin) as [Hlo Hhi].
    (* a cell of another call's range is not the one written *)
    assert (Hother : forall c0 st0 j, c0 <> c -> In (c0, st0) (resv s) -> j < len c0 -> st0 + j <> start + i).
    { intros c0 st0 j Hne Hin0 Hj.
      destruct (tiles_disjoint _ _ (i_tiles s I) (i_nodup s I) c0 st0 c start Hin0 Hin Hne); lia. }
    constructor; simpl; try apply I.
    + intros c0 Hc0. destruct (Nat.eq_dec c0 c) as [->|N]; [rewrite updf_eq in Hc0; discriminate|].
      rewrite updf_neq in Hc0 by auto. apply (i_idle s I); auto.
    + intros c0 start0 i0 Hc0. destruct (Nat.eq_dec c0 c) as [->|N].
      * rewrite updf_eq in Hc0. injection Hc0 as <- <-. split; auto. split; [lia|].
        intros j Hj; simpl. destruct (Nat.eq_dec j i) as [->|Nj].
        -- rewrite updf_eq. symmetry. apply nth_error_nth. auto.
        -- rewrite updf_neq by lia. apply Hw. lia.
      * rewrite updf_neq in Hc0 by auto. destruct (i_res s I _ _ _ Hc0) as (A & B & C).
        split; auto. split; auto. intros j Hj; simpl. rewrite updf_neq; [apply C; auto|].
        apply (Hother c0); auto. lia.
    + intros c0 start0 Hc0. destruct (Nat.eq_dec c0 c) as [->|N]; [rewrite updf_eq in Hc0; discriminate|].
      rewrite updf_neq in Hc0 by auto. destruct (i_done s I _ _ Hc0) as (A & C).
      split; auto. intros j Hj; simpl. rewrite updf_neq; [apply C; auto|]. apply (Hother c0); auto.
    + intros i0 Hi0. rewrite updf_neq by lia. apply I; auto.
  - (* finish *)
    rename H into Hc. destruct (i_res s I _ _ _ Hc) as (Hin & Hle & Hw).
    constructor; simpl; try apply I.
    + intros c0 Hc0. destruct (Nat.eq_dec c0 c) as [->|N]; [rewrite updf_eq in Hc0; discriminate|].
      rewrite updf_neq in Hc0 by auto. apply (i_idle s I); auto.
    + intros c0 start0 i0 Hc0. destruct (Nat.eq_dec c0 c) as [->|N]; [rewrite updf_eq in Hc0; discriminate|].
      rewrite updf_neq in Hc0 by auto. apply (i_res s I); auto.
    + intros c0 start0 Hc0. destruct (Nat.eq_dec c0 c) as [->|N].
      * rewrite updf_eq in Hc0. injection Hc0 as <-. auto.
      * rewrite updf_neq in Hc0 by auto. apply (i_done s I); auto.
Qed.

Theorem reachable_inv s : reachable items init s -> Inv s.
Proof. induction 1; [apply inv_init|eapply inv_step; eauto]. Qed.

(** ranges handed out by fetch_add: pairwise disjoint, inside [len init, end_len), and they cover
    it (every index belongs to exactly one call) *)
Theorem ranges_disjoint s : reachable items init s ->
  (forall c st, In (c, st) (resv s) -> length init <= st /\ st + len c <= end_len s) /\
  (forall c1 s1 c2 s2, In (c1, s1) (resv s) -> In (c2, s2) (resv s) -> c1 <> c2 ->
     s1 + len c1 <= s2 \/ s2 + len c2 <= s1) /\
  (forall c s1 s2, In (c, s1) (resv s) -> In (c, s2) (resv s) -> s1 = s2) /\
  (forall idx, length init <= idx < end_len s ->
     exists c st, In (c, st) (resv s) /\ st <= idx < st + len c).
Proof.
  intros R. pose proof (reachable_inv s R) as I. repeat split.
  - eapply tiles_in; eauto; apply I.
  - eapply tiles_in; eauto; apply I.
  - apply (tiles_disjoint _ _ (i_tiles s I) (i_nodup s I)).
  - intros. eapply nodup_same_start; eauto.
  - apply (tiles_cover _ _ (i_tiles s I)).
Qed.

Lemma map_seq_items (f : nat -> nat) : forall (l : list nat) e,
  (forall j, j < length l -> f (e + j) = nth j l 0) -> map f (seq e (length l)) = l.
Proof.
  induction l as [|a l IH]; intros e H; simpl; auto.
  f_equal.
  - specialize (H 0). simpl in H. rewrite Nat.add_0_r in H. apply H. lia.
  - apply IH. intros j Hj. specialize (H (S j)). simpl in H. rewrite <- Nat.add_succ_comm in H.
    apply H. lia.
Qed.

Lemma tiles_snapshot (m : nat -> nat) rs e : tiles rs e ->
  (forall c st, In (c, st) rs -> forall j, j < len c -> m (st + j) = nth j (items c) 0) ->
  map m (seq (length init) (e - length init)) = concat (map (fun cs => items (fst cs)) (rev rs)).
Proof.
  induction 1; intros Hw.
  - rewrite Nat.sub_diag. reflexivity.
  - pose proof (tiles_ge _ _ H) as Hge.
    replace (e + len c - length init) with ((e - length init) + len c) by lia.
    rewrite seq_app, map_app. simpl rev. rewrite map_app, concat_app. simpl.
    rewrite app_nil_r. f_equal.
    + apply IHtiles. intros c0 st0 Hin. apply Hw. right. auto.
    + replace (length init + (e - length init)) with e by lia.
      apply map_seq_items. apply Hw. left. auto.
Qed.

(** once every call that reserved has finished, the vector is: the initial contents, untouched,
    followed by every call's items, complete and in place, in fetch_add order - every written item
    is present exactly once and intact, and nothing else is there *)
Theorem all_present_intact s : reachable items init s ->
  (forall c st, In (c, st) (resv s) -> pcs s c = CDone st) ->
  snapshot s = expected_vec items init s /\ length (snapshot s) = end_len s.
Proof.
  intros R Hd. pose proof (reachable_inv s R) as I. split.
  - unfold snapshot, expected_vec.
    pose proof (tiles_ge _ _ (i_tiles s I)) as Hge.
    replace (end_len s) with (length init + (end_len s - length init)) by lia.
    rewrite seq_app, map_app. f_equal.
    + apply map_seq_items. intros j Hj. simpl. apply (i_prefix s I). auto.
    + simpl. apply tiles_snapshot; [apply I|].
      intros c st Hin. destruct (i_done s I c st (Hd c st Hin)) as [_ W]. apply W.
  - unfold snapshot. rewrite map_length, seq_length. auto.
Qed.

(** during the run: whatever a call has written so far is intact, whoever else is writing *)
Theorem partial_intact s : reachable items init s ->
  (forall c start i, pcs s c = CRes start i -> forall j, j < i -> mem s (start + j) = nth j (items c) 0) /\
  (forall c start, pcs s c = CDone start -> forall j, j < len c -> mem s (start + j) = nth j (items c) 0) /\
  (forall i, i < length init -> mem s i = nth i init 0).
Proof.
  intros R. pose proof (reachable_inv s R) as I. repeat split.
  - intros c start i H. destruct (i_res s I _ _ _ H) as (_ & _ & W). apply W.
  - intros c start H. destruct (i_done s I _ _ H) as (_ & W). apply W.
  - apply I.
Qed.
End W.

(* ------------------------------------------------------------------------------------------ *)
(** ConcurrentVec: every cell below [head] has been written (with the value of the push that owns
    it) before [head] was moved past it, so a reader that loads [head] and then reads the prefix
    only sees complete elements; pushes are serialised *)
Section CVP.
Variable val : nat -> nat.

Record CInv (s : cvst) : Prop := {
  c_len : length (pushed s) = head s;
  c_cells : forall idx c, nth_error (pushed s) idx = Some c -> cell s idx = Some (val c);
  c_hold : forall c, (vpcs s c = VLocked \/ exists i, vpcs s c = VWritten i) <-> holder s = Some c;
  c_written : forall c i, vpcs s c = VWritten i -> i = head s /\ cell s i = Some (val c);
  c_done : forall c i, vpcs s c = VDone i -> nth_error (pushed s) i = Some c
}.

Lemma cinv_init : CInv cvinit.
Proof.
  constructor; simpl; intros; try discriminate; auto.
  - destruct idx; discriminate.
  - split; [intros [?|[? ?]]; discriminate|discriminate].
Qed.

Lemma cinv_step s s' : CInv s -> cvstep val s s' -> CInv s'.
Proof.
  intros I St. inversion St; subst; clear St; constructor; simpl; try apply I.
  - (* acquire: hold *)
    intros c0. unfold updf. destruct (Nat.eqb_spec c0 c) as [->|N].
    + split; auto.
    + rewrite (c_hold s I c0). rewrite H0. split; [discriminate|intro E; injection E; congruence].
  - intros c0 i. unfold updf. destruct (Nat.eqb_spec c0 c); [discriminate|apply I].
  - intros c0 i. unfold updf. destruct (Nat.eqb_spec c0 c); [discriminate|apply I].
  - (* write: cells *)
    intros idx c0 Hn. unfold updf. destruct (Nat.eqb_spec idx (head s)) as [->|N]; [|apply I; auto].
    exfalso. assert (head s < length (pushed s)) by (apply nth_error_Some; congruence).
    rewrite (c_len s I) in H0. lia.
  - intros c0. unfold updf. destruct (Nat.eqb_spec c0 c) as [->|N].
    + rewrite <- (c_hold s I c). split; intros _; [left; auto|right; eauto].
    + apply I.
  - intros c0 i. unfold updf at 1. destruct (Nat.eqb_spec c0 c) as [->|N].
    + intro E. injection E as <-. split; auto. unfold updf. rewrite Nat.eqb_refl. auto.
    + intro Hc0. exfalso.
      assert (holder s = Some c0) by (apply (c_hold s I); right; eauto).
      assert (holder s = Some c) by (apply (c_hold s I); left; auto). congruence.
  - intros c0 i. unfold updf. destruct (Nat.eqb_spec c0 c); [discriminate|apply I].
  - (* publish *)
    destruct (c_written s I _ _ H) as [-> Hcell]. rewrite app_length. simpl. rewrite (c_len s I). lia.
  - destruct (c_written s I _ _ H) as [-> Hcell].
    intros i c0 Hn. destruct (Nat.lt_ge_cases i (length (pushed s))).
    + rewrite nth_error_app1 in Hn by auto. apply I; auto.
    + rewrite nth_error_app2 in Hn by auto. rewrite (c_len s I) in *.
      destruct (i - head s) eqn:E; simpl in Hn; [|destruct n; discriminate].
      injection Hn as <-. replace i with (head s) by lia. auto.
  - intros c0. unfold updf. destruct (Nat.eqb_spec c0 c) as [->|N].
    + split; [intros [?|[? ?]]; discriminate|discriminate].
    + rewrite (c_hold s I c0).
      assert (holder s = Some c) by (apply (c_hold s I); right; eauto).
      rewrite H0. split; [intro E; injection E; congruence|discriminate].
  - intros c0 i. unfold updf. destruct (Nat.eqb_spec c0 c) as [->|N]; [discriminate|].
    intro Hc0. exfalso.
    assert (holder s = Some c0) by (apply (c_hold s I); right; eauto).
    assert (holder s = Some c) by (apply (c_hold s I); right; eauto). congruence.
  - destruct (c_written s I _ _ H) as [-> Hcell].
    intros c0 i. unfold updf. destruct (Nat.eqb_spec c0 c) as [->|N].
    + intro E. injection E as <-. rewrite nth_error_app2 by (rewrite (c_len s I); lia).
      rewrite (c_len s I), Nat.sub_diag. reflexivity.
    + intro Hc0. rewrite nth_error_app1; [apply I; auto|].
      apply nth_error_Some. rewrite (c_done s I _ _ Hc0). discriminate.
Qed.

Theorem cv_prefix_complete s : cvreach val s ->
  length (pushed s) = head s /\
  (forall idx, idx < head s -> exists c, nth_error (pushed s) idx = Some c /\ cell s idx = Some (val c)) /\
  (forall c i, vpcs s c = VDone i -> i < head s /\ cell s i = Some (val c)) /\
  (forall c1 c2, (vpcs s c1 = VLocked \/ exists i, vpcs s c1 = VWritten i) ->
                 (vpcs s c2 = VLocked \/ exists i, vpcs s c2 = VWritten i) -> c1 = c2).
Proof.
  intros R. assert (I : CInv s) by (induction R; [apply cinv_init|eapply cinv_step; eauto]).
  repeat split.
  - apply I.
  - intros idx Hlt. rewrite <- (c_len s I) in Hlt.
    destruct (nth_error (pushed s) idx) eqn:E; [|apply nth_error_None in E; lia].
    exists n. split; auto. apply I; auto.
  - rewrite <- (c_len s I). apply nth_error_Some. rewrite (c_done s I _ _ H). discriminate.
  - apply (c_cells s I). apply (c_done s I); auto.
  - intros c1 c2 H1 H2. apply (c_hold s I) in H1, H2. congruence.
Qed.
End CVP.


(* ------------------------------------------------------------------------------------------ *)
(** NotificationList: no notification is lost, none is recorded twice *)
Section NL.
Definition isp (k : nat) (p : npc) : nat := match p with NPush k' => if Nat.eqb k k' then 1 else 0 | _ => 0 end.
Fixpoint pushing (k : nat) (l : list npc) : nat :=
  match l with [] => 0 | p :: tl => isp k p + pushing k tl end.

Lemma pushing_set k : forall l t x, t < length l ->
  pushing k (nset l t x) + isp k (nth t l NIdle) = pushing k l + isp k x.
Proof.
  induction l as [|h tl IH]; intros t x Ht; simpl in Ht; [lia|].
  destruct t; simpl; [lia|]. specialize (IH t x). unfold nset in IH. lia.
Qed.

Lemma nth_nset l t x c : t < length l -> nth c (nset l t x) NIdle = if Nat.eqb c t then x else nth c l NIdle.
Proof. intros. unfold nset. apply Verif.Base.Res.nth_set_nth. auto. Qed.

Lemma nth_lt (l : list npc) c : nth c l NIdle <> NIdle -> c < length l.
Proof.
  intro H. destruct (Nat.lt_ge_cases c (length l)); auto. rewrite nth_overflow in H by auto. congruence.
Qed.

Definition waiting (k : nat) (p : npc) : Prop := p = NChk k \/ p = NSwap k.

Record NLInv (s : nst) : Prop := {
  nl_cnt : forall k, (if flag s k then 1 else 0) = count_occ Nat.eq_dec (nlist s) k + pushing k (npcs s);
  nl_called : forall k, In k (called s) -> flag s k = true \/ exists c, waiting k (nth c (npcs s) NIdle);
  nl_pcs : forall c k, (waiting k (nth c (npcs s) NIdle) \/ nth c (npcs s) NIdle = NPush k) -> In k (called s);
  nl_flag : forall k, flag s k = true -> In k (called s)
}.

Lemma pushing_repeat k n : pushing k (repeat NIdle n) = 0.
Proof. induction n; simpl; auto. Qed.
Lemma nth_repeat_idle n c : nth c (repeat NIdle n) NIdle = NIdle.
Proof. revert c. induction n; destruct c; simpl; auto. Qed.

Lemma nlinv_init n : NLInv (ninit n).
Proof.
  constructor; simpl; intros.
  - rewrite pushing_repeat. auto.
  - destruct H.
  - rewrite nth_repeat_idle in H. destruct H as [[H|H]|H]; discriminate.
  - discriminate.
Qed.

Lemma nlinv_step s s' : NLInv s -> nstep s s' -> NLInv s'.
Proof.
  intros I St. inversion St; subst; clear St.
  - (* call *)
    rename H into Hlt. rename H0 into Hc.
    constructor; simpl.
    + intro k0. pose proof (pushing_set k0 (npcs s) c (NChk k) Hlt) as P. rewrite Hc in P. simpl in P.
      rewrite (nl_cnt s I k0). lia.
    + intros k0 [<-|Hin].
      * right. exists c. rewrite nth_nset by auto. rewrite Nat.eqb_refl. left. auto.
      * destruct (nl_called s I k0 Hin) as [?|(c' & Hw)]; auto. right. exists c'.
        rewrite nth_nset by auto. destruct (Nat.eqb_spec c' c) as [->|]; auto.
        rewrite Hc in Hw. destruct Hw; discriminate.
    + intros c' k0 H. rewrite nth_nset in H by auto. destruct (Nat.eqb_spec c' c) as [->|].
      * destruct H as [[H|H]|H]; try discriminate. injection H as <-. left. auto.
      * right. apply (nl_pcs s I c'); auto.
    + intros k0 Hf. right. apply (nl_flag s I); auto.
  - (* load *)
    rename H into Hc. assert (Hlt : c < length (npcs s)) by (apply nth_lt; congruence).
    constructor; simpl.
    + intro k0. pose proof (pushing_set k0 (npcs s) c (if flag s k then NIdle else NSwap k) Hlt) as P.
      rewrite Hc in P. rewrite (nl_cnt s I k0). destruct (flag s k); simpl in P; lia.
    + intros k0 Hin. destruct (nl_called s I k0 Hin) as [?|(c' & Hw)]; auto.
      destruct (Nat.eq_dec c' c) as [->|N].
      * rewrite Hc in Hw. destruct Hw as [Hw|Hw]; [|discriminate]. injection Hw as <-.
        destruct (flag s k) eqn:Ef; auto. right. exists c. rewrite nth_nset by auto.
        rewrite Nat.eqb_refl. right. auto.
      * right. exists c'. rewrite nth_nset by auto. destruct (Nat.eqb_spec c' c); [congruence|auto].
    + intros c' k0 H. rewrite nth_nset in H by auto. destruct (Nat.eqb_spec c' c) as [->|].
      * assert (k0 = k)
          by (destruct (flag s k); destruct H as [[H|H]|H]; try discriminate; injection H; auto).
        subst k0. apply (nl_pcs s I c k). left. left. auto.
      * apply (nl_pcs s I c'); auto.
    + apply (nl_flag s I).
  - (* swap *)
    rename H into Hc. assert (Hlt : c < length (npcs s)) by (apply nth_lt; congruence).
    assert (Hk : In k (called s)) by (apply (nl_pcs s I c k); left; right; auto).
    constructor; simpl.
    + intro k0. pose proof (pushing_set k0 (npcs s) c (if flag s k then NIdle else NPush k) Hlt) as P.
      rewrite Hc in P. pose proof (nl_cnt s I k0) as C. unfold updf.
      destruct (Nat.eqb_spec k0 k) as [->|N].
      * destruct (flag s k); simpl in P; try rewrite Nat.eqb_refl in P; lia.
      * destruct (flag s k); simpl in P; try (destruct (Nat.eqb_spec k0 k); [congruence|]); lia.
    + intros k0 Hin. unfold updf. destruct (Nat.eqb_spec k0 k) as [->|N]; auto.
      destruct (nl_called s I k0 Hin) as [?|(c' & Hw)]; auto.
      right. exists c'. rewrite nth_nset by auto. destruct (Nat.eqb_spec c' c) as [->|]; auto.
      rewrite Hc in Hw. destruct Hw as [Hw|Hw]; [discriminate|]. injection Hw as <-. congruence.
    + intros c' k0 H. rewrite nth_nset in H by auto. destruct (Nat.eqb_spec c' c) as [->|].
      * assert (k0 = k)
          by (destruct (flag s k); destruct H as [[H|H]|H]; try discriminate; injection H; auto).
        subst k0. auto.
      * apply (nl_pcs s I c'); auto.
    + intros k0. unfold updf. destruct (Nat.eqb_spec k0 k) as [->|N]; auto. apply (nl_flag s I).
  - (* push *)
    rename H into Hc. assert (Hlt : c < length (npcs s)) by (apply nth_lt; congruence).
    constructor; simpl.
    + intro k0. pose proof (pushing_set k0 (npcs s) c NIdle Hlt) as P. rewrite Hc in P. simpl in P.
      pose proof (nl_cnt s I k0) as C.
      destruct (Nat.eq_dec k k0) as [->|N].
      * rewrite Nat.eqb_refl in P. lia.
      * destruct (Nat.eqb_spec k0 k); [congruence|]. lia.
    + intros k0 Hin. destruct (nl_called s I k0 Hin) as [?|(c' & Hw)]; auto.
      right. exists c'. rewrite nth_nset by auto. destruct (Nat.eqb_spec c' c) as [->|]; auto.
      rewrite Hc in Hw. destruct Hw; discriminate.
    + intros c' k0 H. rewrite nth_nset in H by auto. destruct (Nat.eqb_spec c' c) as [->|].
      * destruct H as [[H|H]|H]; discriminate.
      * apply (nl_pcs s I c'); auto.
    + apply (nl_flag s I).
Qed.

Lemma pushing_idle k l : (forall c, nth c l NIdle = NIdle) -> pushing k l = 0.
Proof.
  induction l as [|p tl IH]; intros H; simpl; auto.
  pose proof (H 0) as H0. simpl in H0. subst p. simpl. apply IH. intro c. apply (H (S c)).
Qed.

(** at quiescence (all notify calls returned, no reset in between) the list holds exactly the ids
    that were notified, each once: no notification lost, none duplicated *)
Theorem notification_none_lost n s : nreach n s -> (forall c, nth c (npcs s) NIdle = NIdle) ->
  forall k, (In k (nlist s) <-> In k (called s)) /\ count_occ Nat.eq_dec (nlist s) k <= 1.
Proof.
  intros R Q k. assert (I : NLInv s).
  { clear Q. induction R; [apply nlinv_init|eapply nlinv_step; eauto]. }
  pose proof (nl_cnt s I k) as C. rewrite (pushing_idle k _ Q) in C.
  split; [|destruct (flag s k); lia]. split.
  - intro Hin. apply (count_occ_In Nat.eq_dec) in Hin. apply (nl_flag s I).
    destruct (flag s k); auto. lia.
  - intro Hin. apply (count_occ_In Nat.eq_dec).
    destruct (nl_called s I k Hin) as [E|(c & Hw)]; [rewrite E in C; lia|].
    rewrite Q in Hw. destruct Hw; discriminate.
Qed.
End NL.

(* ------------------------------------------------------------------------------------------ *)
(** an accepted writer log is a run of the fetch_add system: the calls reserve in the order of
    their observed starts, write, finish; the final snapshot is the observed final vector *)
Section Replay.
Variable init : list nat.
Variable ws : list (nat * list nat).
Definition items_of (c : nat) : list nat := snd (nth c ws (0, [])).

Lemma write_loop c e : forall r s i, i + r = length (items_of c) ->
  reachable items_of init s -> pcs s c = CRes e i ->
  exists s', reachable items_of init s' /\ pcs s' c = CRes e (length (items_of c)) /\
             end_len s' = end_len s /\ resv s' = resv s /\ (forall c', c' <> c -> pcs s' c' = pcs s c').
Proof.
  induction r as [|r IH]; intros s i Hi R Hc.
  - exists s. replace (length (items_of c)) with i by lia. auto.
  - destruct (nth_error (items_of c) i) as [v|] eqn:Ev; [|apply nth_error_None in Ev; lia].
    destruct (IH (mk (end_len s) (updf (mem s) (e + i) v) (updf (pcs s) c (CRes e (S i))) (resv s)) (S i))
      as (s' & R' & A & B & C & D); [lia| |simpl; apply updf_eq|].
    + apply (reach_step items_of init s); auto. apply (SWrite items_of s c e i v); auto.
    + exists s'. simpl in *. repeat split; auto. intros c' N. rewrite D by auto. apply updf_neq; auto.
Qed.

Lemma run_call c s : reachable items_of init s -> pcs s c = CIdle ->
  exists s', reachable items_of init s' /\ end_len s' = end_len s + length (items_of c) /\
             resv s' = (c, end_len s) :: resv s /\ pcs s' c = CDone (end_len s) /\
             (forall c', c' <> c -> pcs s' c' = pcs s c').
Proof.
  intros R Hc.
  set (s1 := mk (end_len s + length (items_of c)) (mem s) (updf (pcs s) c (CRes (end_len s) 0))
                ((c, end_len s) :: resv s)).
  assert (R1 : reachable items_of init s1).
  { unfold s1. apply (reach_step items_of init s); auto. apply (SReserve items_of s c Hc). }
  destruct (write_loop c (end_len s) (length (items_of c)) s1 0) as (s2 & R2 & A & B & C & D); auto.
  { simpl. apply updf_eq. }
  exists (mk (end_len s2) (mem s2) (updf (pcs s2) c (CDone (end_len s))) (resv s2)).
  split; [apply (reach_step items_of init s2); auto; apply (SFinish items_of s2 c (end_len s)); auto|]. simpl.
  rewrite B, C. simpl. repeat split; auto.
  - apply updf_eq.
  - intros c' N. rewrite updf_neq by auto. rewrite D by auto. simpl. apply updf_neq. auto.
Qed.

(** run the calls 0 .. k-1 one after the other *)
Lemma run_prefix : forall k, k <= length ws ->
  exists s, reachable items_of init s /\
    resv s = rev (map (fun c => (c, length init + length (concat (map snd (firstn c ws))))) (seq 0 k)) /\
    end_len s = length init + length (concat (map snd (firstn k ws))) /\
    (forall c, c < k -> exists st, pcs s c = CDone st) /\ (forall c, k <= c -> pcs s c = CIdle).
Proof.
  induction k as [|k IH]; intros Hk.
  - exists (init_st init). split; [apply reach_init|]. simpl. repeat split; auto; try lia; intros; lia.
  - destruct IH as (s & R & Hr & He & Hd & Hi); [lia|].
    destruct (run_call k s R (Hi k (le_n k))) as (s' & R' & E' & V' & D' & O').
    exists s'. split; auto.
    assert (Hf : firstn (S k) ws = firstn k ws ++ [nth k ws (0, [])]).
    { clear -Hk. revert ws Hk. induction k; intros [|w tl] H; simpl in *; try lia; auto.
      f_equal. apply IHk. lia. }
    repeat split.
    + rewrite V', Hr, He. rewrite seq_S, map_app, rev_app_distr. simpl. reflexivity.
    + rewrite E', He, Hf. rewrite map_app, concat_app, app_length. simpl. rewrite app_nil_r.
      unfold items_of. lia.
    + intros c Hc. destruct (Nat.eq_dec c k) as [->|N]; [eauto|]. rewrite O' by auto. apply Hd. lia.
    + intros c Hc. rewrite O' by lia. apply Hi. lia.
Qed.

Lemma tiles_from_starts : forall l cur, tiles_from cur l = true ->
  forall c, c < length l -> fst (nth c l (0, [])) = cur + length (concat (map snd (firstn c l))).
Proof.
  induction l as [|[st its] tl IH]; intros cur H c Hc; simpl in Hc; [lia|].
  simpl in H. apply andb_prop in H. destruct H as [H1 H2]. apply Nat.eqb_eq in H1. subst st.
  destruct c; simpl; [lia|]. rewrite (IH _ H2 c) by lia. rewrite app_length. lia.
Qed.

Theorem writer_replay_sound final : check_case (init, ws, final) = true ->
  exists s, reachable items_of init s /\
    (forall c st, In (c, st) (resv s) -> pcs s c = CDone st /\ st = fst (nth c ws (0, []))) /\
    snapshot s = final.
Proof.
  unfold check_case. intro H. apply andb_prop in H. destruct H as [Ht Hf].
  destruct (run_prefix (length ws) (le_n _)) as (s & R & Hr & He & Hd & _).
  exists s. split; auto.
  assert (Hres : forall c st, In (c, st) (resv s) -> pcs s c = CDone st /\ st = fst (nth c ws (0, []))).
  { intros c st Hin. rewrite Hr in Hin. apply in_rev in Hin. apply in_map_iff in Hin.
    destruct Hin as (c0 & E & Hc0). injection E as -> <-. apply in_seq in Hc0.
    rewrite (tiles_from_starts ws _ Ht c) by lia. split; auto.
    destruct (Hd c) as (st & Hst); [lia|].
    destruct (i_done items_of init s (reachable_inv items_of init s R) _ _ Hst) as [Hin' _].
    rewrite Hr in Hin'. apply in_rev in Hin'. apply in_map_iff in Hin'.
    destruct Hin' as (c1 & E1 & _). injection E1 as -> <-. auto. }
  split; auto.
  destruct (all_present_intact items_of init s R) as [Hs _]; [intros; apply Hres; auto|].
  rewrite Hs. unfold expected_vec. rewrite Hr, rev_involutive, map_map. simpl.
  assert (E : map (fun x : nat => items_of x) (seq 0 (length ws)) = map snd ws).
  { unfold items_of. clear. induction ws as [|w tl IH]; simpl; auto. f_equal.
    rewrite <- seq_shift, map_map. auto. }
  rewrite E.
  clear -Hf. revert Hf. generalize (init ++ concat (map snd ws)). intros l.
  revert l. induction final as [|a f IH]; intros [|b l] H; simpl in H; try discriminate; auto.
  apply andb_prop in H. destruct H as [H1 H2]. apply Nat.eqb_eq in H1. subst. f_equal. apply IH. auto.
Qed.
End Replay.
