(** C11: the encoded session layer. Evaluation of ground terms through the view tables
    ([enc_eval], what an instrumented [check] does) is sound w.r.t. the congruence closure of the
    asserted unions and, on the canonical databases the maintenance schedule returns, complete. *)
From Coq Require Import List Arith ZArith Bool PeanoNat Lia.
Import ListNotations.
Require Import Verif.Base.Res Verif.Egg.Model Verif.Egg.CmdOk Verif.Egg.CCDefs Verif.Egg.CC
  Verif.Encoding.Datalog Verif.Encoding.DatalogFacts Verif.Encoding.Templates Verif.Encoding.Maint
  Verif.Encoding.MaintInv Verif.Encoding.MaintFix Verif.Encoding.Compl Verif.Encoding.Main.

(* ------------------------------------------------------------------ unfolding [enc_eval] *)

Fixpoint enc_evals (d : db) (l : list term) : option (list val) :=
  match l with
  | [] => Some []
  | x :: tl => match enc_eval d x, enc_evals d tl with
               | Some v, Some vs => Some (v :: vs)
               | _, _ => None
               end
  end.

Lemma enc_evals_eq d : forall l, enc_evals d l =
  (fix evals (l : list term) : option (list val) :=
     match l with
     | [] => Some []
     | x :: tl => match enc_eval d x, evals tl with
                  | Some v, Some vs => Some (v :: vs)
                  | _, _ => None
                  end
     end) l.
Proof. induction l as [|x tl IH]; [reflexivity|]. cbn [enc_evals]. rewrite IH. reflexivity. Qed.

Lemma enc_eval_T d f ts : enc_eval d (T f ts) =
  match enc_evals d ts with
  | Some vs => view_lookup (gett d (tView f)) vs
  | None => None
  end.
Proof. rewrite enc_evals_eq. reflexivity. Qed.

Lemma enc_evals_Forall2 d : forall l vs,
  enc_evals d l = Some vs <-> Forall2 (fun x v => enc_eval d x = Some v) l vs.
Proof.
  induction l as [|x tl IH]; intros vs; cbn [enc_evals]; split; intros H.
  - injection H as <-. constructor.
  - inversion H. reflexivity.
  - destruct (enc_eval d x) as [v|] eqn:Ex; [|discriminate].
    destruct (enc_evals d tl) as [vs'|] eqn:Etl; [|discriminate].
    injection H as <-. constructor; auto. apply IH. reflexivity.
  - inversion H as [|x' v tl' vs' Hx Htl]; subst. rewrite Hx. apply IH in Htl. rewrite Htl. reflexivity.
Qed.

Lemma view_lookup_some t vs v : view_lookup t vs = Some v ->
  exists r, In r t /\ removelast (dkey r) = vs /\ last (dkey r) unitv = v.
Proof.
  unfold view_lookup. destruct (find _ t) as [r|] eqn:E; [|discriminate]. intros H. injection H as <-.
  apply find_some in E. destruct E as [Hr He]. apply vals_eqb_eq in He. eauto.
Qed.

Lemma view_lookup_found t vs r : In r t -> removelast (dkey r) = vs ->
  exists r', In r' t /\ removelast (dkey r') = vs /\ view_lookup t vs = Some (last (dkey r') unitv).
Proof.
  intros Hr Hk. unfold view_lookup. destruct (find _ t) as [r'|] eqn:E.
  - apply find_some in E. destruct E as [Hr' He]. apply vals_eqb_eq in He. eauto.
  - exfalso. pose proof (find_none _ _ E r Hr) as Hn. cbv beta in Hn. rewrite Hk, vals_eqb_refl in Hn. discriminate.
Qed.

(* ------------------------------------------------------------------ evaluation respects CC *)

Lemma enc_evals_congr d : forall l1 l2,
  Forall2 (fun a b => enc_eval d a = enc_eval d b) l1 l2 -> enc_evals d l1 = enc_evals d l2.
Proof. induction 1 as [|a b l1 l2 Hab Hl IH]; cbn [enc_evals]; [reflexivity|]. rewrite Hab, IH. reflexivity. Qed.

Theorem enc_eval_respects_CC U d :
  (forall a b, In (a, b) U -> enc_eval d a = enc_eval d b) ->
  forall a b, CC U a b -> enc_eval d a = enc_eval d b.
Proof.
  intros Hc a b H. induction H using CC_ind'.
  - apply Hc. assumption.
  - reflexivity.
  - symmetry. assumption.
  - congruence.
  - rewrite !enc_eval_T. rewrite (enc_evals_congr d l1 l2); [reflexivity|assumption].
Qed.

Section Session.
  Variable sg : sigT.

  (* ---------------------------------------------------------------- soundness of evaluation *)

  Lemma enc_eval_sound U w d : Inv sg U w d -> forall t v, enc_eval d t = Some v -> CC U t (witv w v).
  Proof.
    intros HI t. induction t as [z|f l IH] using term_ind'; intros v Hev.
    - cbn in Hev. injection Hev as <-. apply cc_refl.
    - rewrite enc_eval_T in Hev. destruct (enc_evals d l) as [vs|] eqn:El; [|discriminate].
      apply view_lookup_some in Hev. destruct Hev as (r & Hr & Hrl & Hlast).
      destruct (nth_error sg f) as [kinds|] eqn:Hn.
      + destruct (iv_view _ _ _ _ HI f kinds r Hn Hr) as (cs & o & Hk & _).
        rewrite Hk, removelast_last in Hrl. rewrite Hk, last_last in Hlast. subst cs v.
        eapply cc_trans; [|eapply (iv_s_view _ _ _ _ HI f kinds vs (VId o) Hn); exists r; auto].
        apply cc_cong. apply Forall2_map_r. apply enc_evals_Forall2 in El.
        eapply Forall_Forall2_impl; [exact IH|exact El|]. intros x v Hx Hv. apply Hx. exact Hv.
      + (* no such constructor: its view table is outside the database *)
        exfalso. assert (Hge : length sg <= f) by (apply nth_error_None; exact Hn).
        unfold gett in Hr. rewrite nth_overflow in Hr; [destruct Hr|].
        rewrite (iv_len _ _ _ _ HI). unfold tView. lia.
  Qed.

  (* ---------------------------------------------------------------- representation modulo the partition *)

  Inductive Evq (d : db) : term -> val -> Prop :=
  | evq_int z : Evq d (TI z) (VInt z)
  | evq_app f kinds ts cs cs' o' v : nth_error sg f = Some kinds -> Evqs d ts cs ->
      Forall2 (eqv d) cs cs' -> viewE d f (cs' ++ [o']) -> eqv d o' v -> Evq d (T f ts) v
  with Evqs (d : db) : list term -> list val -> Prop :=
  | evqs_nil : Evqs d [] []
  | evqs_cons t v ts vs : Evq d t v -> Evqs d ts vs -> Evqs d (t :: ts) (v :: vs).

  Scheme Evq_mind := Minimality for Evq Sort Prop
    with Evqs_mind := Minimality for Evqs Sort Prop.
  Combined Scheme Evq_mutind from Evq_mind, Evqs_mind.

  Lemma Evq_mono d d' :
    (forall a b, eqv d a b -> eqv d' a b) ->
    (forall f kinds k, nth_error sg f = Some kinds -> viewE d f k -> exists k', viewE d' f k' /\ Forall2 (eqv d') k k') ->
    (forall t v, Evq d t v -> Evq d' t v) /\ (forall ts vs, Evqs d ts vs -> Evqs d' ts vs).
  Proof.
    intros He Hv. apply Evq_mutind.
    - constructor.
    - intros f kinds ts cs cs' o' v Hn _ IH HF Hk Ho.
      destruct (Hv f kinds _ Hn Hk) as (k' & Hk' & HF').
      apply Forall2_app_inv_l in HF'. destruct HF' as (cs'' & l & H1 & H2 & ->).
      inversion H2 as [|x o'' l1 l2 Ho'' Hnil]; subst. inversion Hnil; subst.
      eapply (evq_app d' f kinds ts cs cs'' o''); [exact Hn|exact IH| |exact Hk'|].
      + eapply Forall2_eqv_trans; [|exact H1]. eapply Forall2_impl2; [|exact HF]. exact He.
      + eapply ev_trans; [apply ev_sym; exact Ho''|apply He; exact Ho].
    - constructor.
    - intros t v ts vs _ IH1 _ IH2. constructor; assumption.
  Qed.

  Lemma Evq_eqv d t v v' : Evq d t v -> eqv d v v' -> is_T t = true -> Evq d t v'.
  Proof.
    intros H E Ht. destruct H as [z|f kinds ts cs cs' o' v Hn Hs HF Hk Ho]; [discriminate|].
    econstructor; eauto. eapply ev_trans; eauto.
  Qed.

  (** values of the partition: either an id of the UF domain or untouched *)
  Lemma eqv_dom U w d a b : Inv sg U w d -> eqv d a b -> a = b \/ (in_dom d a /\ in_dom d b).
  Proof.
    intros HI E. induction E as [a b Hab|a|a b E IH|a b c E1 IH1 E2 IH2].
    - right. split; [exists b; exact Hab|eapply (iv_dom_uf _ _ _ _ HI); eauto].
    - left. reflexivity.
    - destruct IH as [->|[H1 H2]]; auto.
    - destruct IH1 as [->|[H1 H2]]; [exact IH2|]. destruct IH2 as [<-|[H3 H4]]; auto.
  Qed.

  Lemma eqv_nonid U w d a b : Inv sg U w d -> eqv d a b -> ~ is_id a -> a = b.
  Proof.
    intros HI E Hn. destruct (eqv_dom U w d a b HI E) as [H|[(p & Hp) _]]; [exact H|].
    destruct (ufE_ids _ _ _ _ _ _ HI Hp) as (i & j & -> & _). exfalso. apply Hn. exact I.
  Qed.

  Definition cval (d : db) (v : val) : Prop := is_id v -> root d v.

  (** on a canonical database, a represented term evaluates, to the root of its class *)
  Lemma Evq_eval U w d : Inv sg U w d -> Canonical sg d ->
    (forall t v, Evq d t v -> exists v', enc_eval d t = Some v' /\ eqv d v v' /\ cval d v') /\
    (forall ts vs, Evqs d ts vs -> exists vs', enc_evals d ts = Some vs' /\ Forall2 (eqv d) vs vs' /\ Forall (cval d) vs').
  Proof.
    intros HI HC. apply Evq_mutind.
    - intros z. exists (VInt z). split; [reflexivity|]. split; [apply ev_refl|intros []].
    - intros f kinds ts cs cs' o' v Hn _ (vs' & Hev & HF' & Hc) HF Hk Ho.
      (* the row's children are the values the arguments evaluate to *)
      pose proof Hk as (r & Hr & Hkr).
      destruct (iv_view _ _ _ _ HI f kinds r Hn Hr) as (cs0 & o0 & Hsh & Hcols). rewrite Hkr in Hsh.
      apply app_inj_tail in Hsh. destruct Hsh as [<- ->].
      assert (Hl : length cs' = length kinds) by (apply Forall2_len in Hcols; lia).
      assert (E : cs' = vs').
      { apply (nth_ext _ _ unitv unitv).
        - apply Forall2_len in HF. apply Forall2_len in HF'. lia.
        - intros i Hi.
          assert (Ei : eqv d (nth i cs' unitv) (nth i vs' unitv)).
          { assert (HF2 : Forall2 (eqv d) cs' vs').
            { eapply Forall2_eqv_trans; [|exact HF']. clear - HF. induction HF; constructor; [apply ev_sym; assumption|assumption]. }
            clear - HF2 Hi. revert i Hi. induction HF2 as [|a b l1 l2 Hab Hl IH]; intros [|i] Hi; cbn [length nth] in *; try lia; [exact Hab|apply IH; lia]. }
          destruct (nth i kinds false) eqn:Ek.
          + assert (Hin : In i (eq_cols (kinds ++ [true]) 0)).
            { apply (eq_cols_nth (kinds ++ [true]) 0 i); [rewrite app_length; cbn [length]; lia|rewrite app_nth1 by lia; exact Ek]. }
            pose proof (cn_canon _ _ HC f kinds _ i Hn Hk Hin) as R1. rewrite app_nth1 in R1 by lia.
            assert (Hid : is_id (nth i cs' unitv)).
            { pose proof (eq_cols_is_id (kinds ++ [true]) (cs' ++ [VId o0]) 0 i) as Hx. rewrite Nat.sub_0_r, app_nth1 in Hx by lia.
              apply Hx; [apply Forall2_app; [exact Hcols|constructor; [exact I|constructor]]|exact Hin]. }
            assert (R2 : root d (nth i vs' unitv)).
            { rewrite Forall_forall in Hc. apply Hc.
              - apply nth_In. apply Forall2_len in HF. apply Forall2_len in HF'. lia.
              - destruct (eqv_dom U w d _ _ HI Ei) as [<-|[_ (p & Hp)]]; [exact Hid|].
                destruct (ufE_ids _ _ _ _ _ _ HI Hp) as (a & b & -> & _). exact I. }
            eapply roots_eq; eauto.
          + apply (eqv_nonid U w d _ _ HI Ei).
            assert (Hcol : col_ok false (nth i cs' unitv)).
            { clear - Hcols Ek Hi Hl. rewrite <- Ek. revert i Hi Ek. rewrite Hl. clear Hl.
              induction Hcols as [|b v l1 l2 Hb Hl IH]; intros [|i] Hi Ek; cbn [length nth] in *; try lia; [exact Hb|apply IH; [lia|exact Ek]]. }
            exact Hcol. }
      subst vs'. rewrite enc_eval_T, Hev.
      destruct (view_lookup_found (gett d (tView f)) cs' r Hr) as (r' & Hr' & Hrl' & Hlk).
      { rewrite Hkr. apply removelast_last. }
      rewrite Hlk. destruct (iv_view _ _ _ _ HI f kinds r' Hn Hr') as (cs1 & o1 & Hsh1 & _).
      rewrite Hsh1, removelast_last in Hrl'. subst cs1. rewrite Hsh1, last_last.
      assert (Eo : o1 = o0).
      { eapply (cn_func _ _ HC f kinds cs'); [exact Hn|exists r'; auto|exact Hk]. }
      subst o1. exists (VId o0). split; [reflexivity|]. split; [apply ev_sym; exact Ho|].
      intros _. pose proof (cn_canon _ _ HC f kinds _ (length kinds) Hn Hk (eq_cols_last kinds 0)) as R.
      rewrite <- Hl in R. rewrite app_nth2, Nat.sub_diag in R by lia. exact R.
    - exists []. split; [reflexivity|]. split; constructor.
    - intros t v ts vs _ (v' & Hv & He & Hc) _ (vs' & Hvs & Hes & Hcs).
      exists (v' :: vs'). cbn [enc_evals]. rewrite Hv, Hvs. split; [reflexivity|]. split; constructor; assumption.
  Qed.
End Session.

(* ================================================================== *)
(** * commands: term insertion, union, maintenance *)

Lemma length_dbset d t k v : length (dbset d t k v) = length d.
Proof. unfold dbset. apply length_sett. Qed.

Lemma dbset_other d t k v t' : t' <> t -> gett (dbset d t k v) t' = gett d t'.
Proof.
  intros H. unfold dbset. rewrite gett_sett. destruct (Nat.eqb_spec t' t); [contradiction|reflexivity].
Qed.

Lemma dbset_in d t k v t' r : In r (gett (dbset d t k v) t') -> In r (gett d t') \/ (t' = t /\ r = mkD k v).
Proof.
  unfold dbset. rewrite gett_sett. destruct (Nat.eqb t' t && (t <? length d))%bool eqn:E; [|auto].
  apply andb_true_iff in E. destruct E as [E _]. apply Nat.eqb_eq in E. subst t'.
  intros H. apply tset_in in H. destruct H; auto.
Qed.

Lemma dbset_keep d t k v t' r : mergeof enc_merges t = DOld -> In r (gett d t') -> In r (gett (dbset d t k v) t').
Proof.
  intros Hm Hr. unfold dbset. rewrite gett_sett. destruct (Nat.eqb t' t && (t <? length d))%bool eqn:E; [|exact Hr].
  apply andb_true_iff in E. destruct E as [E _]. apply Nat.eqb_eq in E. subst t'.
  destruct (tset_keep (mergeof enc_merges t) (gett d t) k v r Hr) as (r' & Hr' & _ & Hs). rewrite Hs in Hr'; auto.
Qed.

Lemma dbset_added d t k v : t < length d -> exists r', In r' (gett (dbset d t k v) t) /\ dkey r' = k.
Proof.
  intros Ht. unfold dbset. rewrite gett_sett, Nat.eqb_refl. apply Nat.ltb_lt in Ht. rewrite Ht. cbn [andb].
  destruct (tset_added (mergeof enc_merges t) (gett d t) k v) as (r' & Hr' & Hk & _). eauto.
Qed.

Lemma find_term_spec : forall ts f vs k i, find_term ts f vs k = Some i ->
  k <= i /\ nth_error ts (i - k) = Some (f, vs).
Proof.
  induction ts as [|[g ws] tl IH]; intros f vs k i H; cbn [find_term] in H; [discriminate|].
  destruct (Nat.eqb g f && vals_eqb ws vs)%bool eqn:E.
  - injection H as <-. apply andb_true_iff in E. destruct E as [E1 E2]. apply Nat.eqb_eq in E1. apply vals_eqb_eq in E2.
    subst. rewrite Nat.sub_diag. split; [lia|reflexivity].
  - apply IH in H. destruct H as [Hle Hn]. split; [lia|]. replace (i - k) with (S (i - S k)) by lia. exact Hn.
Qed.

Lemma find_term_lt ts f vs i : find_term ts f vs 0 = Some i -> nth_error ts i = Some (f, vs).
Proof. intros H. apply find_term_spec in H. rewrite Nat.sub_0_r in H. apply H. Qed.

Section Session2.
  Variable sg : sigT.
  Notation Evq := (Evq sg).
  Notation Evqs := (Evqs sg).

  Definition wit_ok (ts : list (nat * list val)) (w : list term) : Prop :=
    length w = length ts /\
    forall i f cs, nth_error ts i = Some (f, cs) ->
      nth i w (TI 0) = T f (map (witv w) cs) /\ Forall (vlt (length w)) cs.

  Record SMid (U : list (term * term)) (s : estate) (w : list term) : Prop := {
    sm_wit : wit_ok (eterms s) w;
    sm_inv : Inv sg U w (edb s);
    sm_uff : UffEqv (edb s)
  }.

  Definition Grows (d d' : db) : Prop :=
    (forall a b, ufE d a b -> ufE d' a b) /\ (forall g k, viewE d g k -> viewE d' g k).

  Lemma grows_refl d : Grows d d.
  Proof. split; auto. Qed.

  Lemma grows_trans d1 d2 d3 : Grows d1 d2 -> Grows d2 d3 -> Grows d1 d3.
  Proof. intros [A1 A2] [B1 B2]. split; auto. Qed.

  Lemma grows_dom d d' v : Grows d d' -> in_dom d v -> in_dom d' v.
  Proof. intros [G _] (p & Hp). exists p. auto. Qed.

  Lemma grows_eqv d d' : Grows d d' -> forall a b, eqv d a b -> eqv d' a b.
  Proof. intros [G _]. apply eqv_mono. intros a b H. apply ev_edge. auto. Qed.

  Lemma grows_evq d d' : Grows d d' ->
    (forall t v, Evq d t v -> Evq d' t v) /\ (forall ts vs, Evqs d ts vs -> Evqs d' ts vs).
  Proof.
    intros G. apply Evq_mono; [apply grows_eqv; exact G|].
    intros f kinds k _ Hk. exists k. split; [apply G; exact Hk|apply Forall2_eqv_refl].
  Qed.

  Lemma bounded U w d v : Inv sg U w d -> (is_id v -> in_dom d v) -> vlt (length w) v.
  Proof.
    intros HI H. destruct v as [j|z]; [|exact I]. destruct (iv_bound _ _ _ _ HI (VId j) (H I)) as (j' & E & Hlt).
    injection E as <-. exact Hlt.
  Qed.

  (** adding the rows of one [add_term_and_view]: a view row for (f vs) with leader [id] and the
      self-loop of [id] *)
  Lemma inv_add U w w' d d' f kinds vs id :
    Inv sg U w d -> nth_error sg f = Some kinds ->
    length d' = length d ->
    (forall r, In r (gett d' tUF) -> In r (gett d tUF) \/ dkey r = [VId id; VId id]) ->
    gett d' tUFf = gett d tUFf ->
    (forall g r, In r (gett d' (tView g)) -> In r (gett d (tView g)) \/ (g = f /\ dkey r = vs ++ [VId id])) ->
    (forall g, gett d' (tDel g) = []) ->
    (forall a b, ufE d a b -> ufE d' a b) ->
    ufE d' (VId id) (VId id) ->
    (forall v, vlt (length w) v -> witv w' v = witv w v) -> length w <= length w' -> id < length w' ->
    Forall2 col_ok kinds vs -> (forall v, In v vs -> is_id v -> in_dom d v) ->
    CC U (T f (map (witv w') vs)) (witv w' (VId id)) ->
    Inv sg U w' d'.
  Proof.
    intros HI Hn Hlen Huf Huff Hview Hdel Hkeep Hself Hw Hwl Hid Hcols Hvs Hcc.
    assert (Hdom : forall v, in_dom d v -> in_dom d' v) by (intros v (p & Hp); exists p; auto).
    assert (Huf' : forall a b, ufE d' a b -> ufE d a b \/ (a = VId id /\ b = VId id)).
    { intros a b (r & Hr & Hk). destruct (Huf r Hr) as [Ho|Hnew]; [left; exists r; auto|].
      rewrite Hk in Hnew. injection Hnew as -> ->. auto. }
    assert (Huff' : forall a b, uffE d' a b <-> uffE d a b) by (intros a b; unfold uffE; rewrite Huff; reflexivity).
    assert (Hview' : forall g k, viewE d' g k -> viewE d g k \/ (g = f /\ k = vs ++ [VId id])).
    { intros g k (r & Hr & Hk). destruct (Hview g r Hr) as [Ho|[-> Hnew]]; [left; exists r; auto|]. right. split; congruence. }
    assert (Hb : forall v, (is_id v -> in_dom d v) -> witv w' v = witv w v).
    { intros v Hv. apply Hw. eapply bounded; eauto. }
    constructor.
    - rewrite Hlen. apply (iv_len _ _ _ _ HI).
    - intros r Hr. destruct (Huf r Hr) as [Ho|Hnew]; [apply (iv_uf _ _ _ _ HI); exact Ho|]. exists id, id. auto.
    - intros r Hr. rewrite Huff in Hr. apply (iv_uff _ _ _ _ HI); exact Hr.
    - intros g kinds' r Hg Hr. destruct (Hview g r Hr) as [Ho|[-> Hnew]]; [eapply (iv_view _ _ _ _ HI); eauto|].
      rewrite Hn in Hg. injection Hg as <-. exists vs, id. auto.
    - exact Hdel.
    - intros a b Hu. destruct (Huf' a b Hu) as [Ho|[-> ->]]; [apply Hdom; eapply (iv_dom_uf _ _ _ _ HI); eauto|exists (VId id); exact Hself].
    - intros a b Hu. apply Hdom. apply Huff' in Hu. eapply (iv_dom_uff _ _ _ _ HI); eauto.
    - intros a b Hu. apply Hdom. apply Huff' in Hu. eapply (iv_dom_uffk _ _ _ _ HI); eauto.
    - intros g kinds' k v Hg Hk Hv Hiv. destruct (Hview' g k Hk) as [Ho|[-> ->]]; [apply Hdom; eapply (iv_dom_view _ _ _ _ HI); eauto|].
      apply in_app_or in Hv. destruct Hv as [Hv|[<-|[]]]; [apply Hdom; apply Hvs; assumption|exists (VId id); exact Hself].
    - intros v (p & Hp). destruct (Huf' v p Hp) as [Ho|[-> ->]]; [|exists id; auto].
      destruct (iv_bound _ _ _ _ HI v) as (j & -> & Hlt); [exists p; exact Ho|]. exists j. split; [reflexivity|lia].
    - intros a b Hu. destruct (Huf' a b Hu) as [Ho|[-> ->]]; [|apply cc_refl].
      rewrite (Hb a), (Hb b); [apply (iv_s_uf _ _ _ _ HI); exact Ho| |].
      + intros _. eapply (iv_dom_uf _ _ _ _ HI); eauto.
      + intros _. exists b. exact Ho.
    - intros a b Hu. apply Huff' in Hu. rewrite (Hb a), (Hb b); [apply (iv_s_uff _ _ _ _ HI); exact Hu| |].
      + intros _. eapply (iv_dom_uff _ _ _ _ HI); eauto.
      + intros _. eapply (iv_dom_uffk _ _ _ _ HI); eauto.
    - intros g kinds' cs o Hg Hk. destruct (Hview' g _ Hk) as [Ho|[-> E]].
      + rewrite (Hb o); [|intros Hi; eapply (iv_dom_view _ _ _ _ HI); eauto; apply in_or_app; right; simpl; auto].
        replace (map (witv w') cs) with (map (witv w) cs); [eapply (iv_s_view _ _ _ _ HI); eauto|].
        apply map_ext_in. intros v Hv. symmetry. apply Hb. intros Hi. eapply (iv_dom_view _ _ _ _ HI); eauto.
        apply in_or_app. left. exact Hv.
      + apply app_inj_tail in E. destruct E as [-> ->]. exact Hcc.
  Qed.

  Definition argv (d : db) (b : bool) (v : val) : Prop :=
    if b then is_id v /\ in_dom d v else ~ is_id v.

  Lemma argv_cols d kinds vs : Forall2 (argv d) kinds vs -> Forall2 col_ok kinds vs.
  Proof. induction 1 as [|b v l1 l2 H Hl IH]; constructor; [|exact IH]. destruct b; [apply H|exact H]. Qed.

  Lemma argv_dom d kinds vs : Forall2 (argv d) kinds vs -> forall v, In v vs -> is_id v -> in_dom d v.
  Proof.
    induction 1 as [|b v l1 l2 H Hl IH]; intros x Hx Hid; [destruct Hx|]. destruct Hx as [<-|Hx]; [|auto].
    destruct b; [apply H|]. exfalso. apply H. exact Hid.
  Qed.

  Lemma argv_grows d d' kinds vs : Grows d d' -> Forall2 (argv d) kinds vs -> Forall2 (argv d') kinds vs.
  Proof.
    intros G. induction 1 as [|b v l1 l2 H Hl IH]; constructor; [|exact IH].
    destruct b; [split; [apply H|eapply grows_dom; [exact G|apply H]]|exact H].
  Qed.

  Lemma tView_lt f kinds d U w : Inv sg U w d -> nth_error sg f = Some kinds -> tView f < length d.
  Proof.
    intros HI Hn. rewrite (iv_len _ _ _ _ HI). assert (f < length sg) by (apply nth_error_Some; congruence). unfold tView. lia.
  Qed.

  Lemma add_node_ok2 U s w f kinds vs : SMid U s w -> nth_error sg f = Some kinds -> Forall2 (argv (edb s)) kinds vs ->
    exists w' id, snd (enc_add_node s f vs) = VId id /\ SMid U (fst (enc_add_node s f vs)) w' /\
      Grows (edb s) (edb (fst (enc_add_node s f vs))) /\
      in_dom (edb (fst (enc_add_node s f vs))) (VId id) /\
      viewE (edb (fst (enc_add_node s f vs))) f (vs ++ [VId id]) /\
      (forall v, vlt (length w) v -> witv w' v = witv w v) /\ length w <= length w' /\
      witv w' (VId id) = T f (map (witv w') vs).
  Proof.
    intros [[Hwl Hwt] HI Hu] Hn Hargs. unfold enc_add_node.
    set (d := edb s) in *. set (ts := eterms s) in *.
    (* the id and the extended witness list *)
    assert (Hchoice : exists id ts' w',
      (match find_term ts f vs 0 with Some i => (i, ts) | None => (length ts, ts ++ [(f, vs)]) end) = (id, ts') /\
      wit_ok ts' w' /\ nth_error ts' id = Some (f, vs) /\
      (forall v, vlt (length w) v -> witv w' v = witv w v) /\ length w <= length w').
    { assert (Hvs_lt : Forall (vlt (length w)) vs).
      { apply Forall_forall. intros v Hv. eapply bounded; [exact HI|]. intros Hi. eapply argv_dom; eauto. }
      destruct (find_term ts f vs 0) as [i|] eqn:Ef.
      - apply find_term_lt in Ef. exists i, ts, w. split; [reflexivity|]. split; [split; assumption|]. split; [exact Ef|]. split; [intros v _; reflexivity|lia].
      - exists (length ts), (ts ++ [(f, vs)]), (w ++ [T f (map (witv w) vs)]).
        split; [reflexivity|]. split; [|split; [|split]].
        + split; [rewrite !app_length; cbn [length]; lia|]. intros i g cs Hi.
          rewrite app_length. cbn [length].
          destruct (Nat.lt_ge_cases i (length ts)) as [Hlt|Hge].
          * rewrite nth_error_app1 in Hi by exact Hlt. destruct (Hwt i g cs Hi) as [H1 H2].
            rewrite app_nth1 by lia. rewrite map_witv_app by exact H2. split; [exact H1|].
            eapply Forall_impl; [|exact H2]. intros v. apply vlt_mono. lia.
          * rewrite nth_error_app2 in Hi by exact Hge. destruct (i - length ts) as [|k] eqn:Ek; [|destruct k; discriminate].
            cbn [nth_error] in Hi. injection Hi as <- <-. assert (i = length w) by lia. subst i.
            rewrite app_nth2, Nat.sub_diag by lia. cbn [nth]. rewrite map_witv_app by exact Hvs_lt. split; [reflexivity|].
            eapply Forall_impl; [|exact Hvs_lt]. intros v. apply vlt_mono. lia.
        + rewrite nth_error_app2, Nat.sub_diag by lia. reflexivity.
        + intros v Hv. apply witv_app. exact Hv.
        + rewrite app_length. lia. }
    destruct Hchoice as (id & ts' & w' & Ech & Hwok & Hnth & Hwv & Hwle). rewrite Ech.
    cbn [fst snd edb eterms].
    set (d1 := dbset d (tView f) (vs ++ [VId id]) unitv). set (d2 := dbset d1 tUF [VId id; VId id] unitv).
    destruct (tabs_distinct f f) as (D1 & D2 & D3 & D4 & D5 & D6 & _).
    assert (Hlt1 : tView f < length d) by (eapply tView_lt; eauto).
    assert (Hself : ufE d2 (VId id) (VId id)).
    { destruct (dbset_added d1 tUF [VId id; VId id] unitv) as (r' & Hr' & Hk').
      - unfold d1. rewrite length_dbset. eapply tUF_lt; eauto.
      - exists r'. auto. }
    assert (Hrow : viewE d2 f (vs ++ [VId id])).
    { destruct (dbset_added d (tView f) (vs ++ [VId id]) unitv Hlt1) as (r' & Hr' & Hk').
      exists r'. split; [|exact Hk']. unfold d2. rewrite dbset_other by exact D2. exact Hr'. }
    assert (HG : Grows d d2).
    { split.
      - intros a b (r & Hr & Hk). exists r. split; [|exact Hk]. unfold d2. apply dbset_keep; [reflexivity|].
        unfold d1. rewrite dbset_other by auto. exact Hr.
      - intros g k (r & Hr & Hk). exists r. split; [|exact Hk]. unfold d2.
        rewrite dbset_other by apply (tabs_distinct g 0). unfold d1. apply dbset_keep; [apply mergeof_view|exact Hr]. }
    assert (Hidlt : id < length w').
    { destruct Hwok as [Hl _]. rewrite Hl. apply nth_error_Some. congruence. }
    assert (HI2 : Inv sg U w' d2).
    { apply (inv_add U w w' d d2 f kinds vs id HI Hn).
      - unfold d2, d1. rewrite !length_dbset. reflexivity.
      - intros r Hr. unfold d2 in Hr. apply dbset_in in Hr. destruct Hr as [Hr|[_ ->]]; [|right; reflexivity].
        left. unfold d1 in Hr. rewrite dbset_other in Hr by auto. exact Hr.
      - unfold d2, d1. rewrite !dbset_other; auto.
      - intros g r Hr. unfold d2 in Hr. rewrite dbset_other in Hr by apply (tabs_distinct g 0).
        unfold d1 in Hr. apply dbset_in in Hr. destruct Hr as [Hr|[Et ->]]; [left; exact Hr|right].
        split; [|reflexivity]. unfold tView in Et. lia.
      - intros g. unfold d2, d1. rewrite !dbset_other; [apply (iv_del _ _ _ _ HI)| |]; unfold tDel, tView, tUF; lia.
      - apply HG.
      - exact Hself.
      - exact Hwv.
      - exact Hwle.
      - exact Hidlt.
      - eapply argv_cols; eauto.
      - eapply argv_dom; eauto.
      - destruct Hwok as [_ Hw2]. destruct (Hw2 id f vs Hnth) as [Hw3 _]. cbn [witv]. rewrite Hw3. apply cc_refl. }
    exists w', id. split; [reflexivity|]. split; [|split; [exact HG|split; [exists (VId id); exact Hself|split; [exact Hrow|split; [exact Hwv|split; [exact Hwle|]]]]]].
    - constructor; cbn [edb eterms].
      + exact Hwok.
      + exact HI2.
      + intros a b Hab. apply (grows_eqv d d2 HG). apply Hu. unfold uffE in *. unfold d2, d1 in Hab.
        rewrite !dbset_other in Hab; auto.
    - destruct Hwok as [_ Hw2]. destruct (Hw2 id f vs Hnth) as [Hw3 _]. cbn [witv]. exact Hw3.
  Qed.

  Lemma add_node_ok U s w f kinds vs : SMid U s w -> nth_error sg f = Some kinds -> Forall2 (argv (edb s)) kinds vs ->
    exists w' id, snd (enc_add_node s f vs) = VId id /\ SMid U (fst (enc_add_node s f vs)) w' /\
      Grows (edb s) (edb (fst (enc_add_node s f vs))) /\
      in_dom (edb (fst (enc_add_node s f vs))) (VId id) /\
      viewE (edb (fst (enc_add_node s f vs))) f (vs ++ [VId id]).
  Proof.
    intros HS Hn Ha. destruct (add_node_ok2 U s w f kinds vs HS Hn Ha) as (w' & id & H1 & H2 & H3 & H4 & H5 & _).
    exists w', id. auto.
  Qed.
End Session2.

(* ================================================================== *)
(** * whole commands and runs *)

Fixpoint enc_adds (s : estate) (l : list term) : estate * list val :=
  match l with
  | [] => (s, [])
  | x :: tl => let '(s1, v) := enc_add_term s x in
               let '(s2, vs) := enc_adds s1 tl in (s2, v :: vs)
  end.

Lemma enc_adds_eq : forall l s, enc_adds s l =
  (fix adds (s : estate) (l : list term) : estate * list val :=
     match l with
     | [] => (s, [])
     | x :: tl => let '(s1, v) := enc_add_term s x in
                  let '(s2, vs) := adds s1 tl in (s2, v :: vs)
     end) s l.
Proof.
  induction l as [|x tl IH]; intros s; [reflexivity|]. cbn [enc_adds].
  destruct (enc_add_term s x) as [s1 v]. rewrite IH. reflexivity.
Qed.

Lemma enc_add_term_T s f ts : enc_add_term s (T f ts) =
  let '(s', vs) := enc_adds s ts in enc_add_node s' f vs.
Proof. rewrite enc_adds_eq. reflexivity. Qed.

Lemma term_ty_T sg f ts : term_ty sg (T f ts) =
  match nth_error sg f with Some kinds => args_ty (term_ty sg) kinds ts | None => false end.
Proof.
  cbn [term_ty]. destruct (nth_error sg f) as [kinds|]; [|reflexivity].
  revert kinds. induction ts as [|x tl IH]; intros [|b ks]; cbn [args_ty]; try reflexivity; try (destruct x; reflexivity).
  destruct b; [rewrite IH; reflexivity|]. destruct x; [reflexivity|apply IH].
Qed.

Lemma args_ty_cons rec b ks x tl : args_ty rec (b :: ks) (x :: tl) =
  if b then rec x && args_ty rec ks tl else match x with TI _ => args_ty rec ks tl | T _ _ => false end.
Proof. destruct x, b; reflexivity. Qed.

Lemma args_ty_nil_ks rec x tl : args_ty rec [] (x :: tl) = false.
Proof. destruct x; reflexivity. Qed.

Lemma gett_repeat_nil k t : gett (repeat [] k) t = [].
Proof.
  unfold gett. destruct (Nat.lt_ge_cases t k); [apply nth_repeat|apply nth_overflow; rewrite repeat_length; auto].
Qed.

Section Runs.
  Variable sg : sigT.
  Notation Evq := (Evq sg).
  Notation Evqs := (Evqs sg).
  Notation SMid := (SMid sg).

  Definition add_ok (U : list (term * term)) (t : term) : Prop :=
    forall s w, SMid U s w -> term_ty sg t = true ->
    exists w' id, snd (enc_add_term s t) = VId id /\ SMid U (fst (enc_add_term s t)) w' /\
      Grows (edb s) (edb (fst (enc_add_term s t))) /\
      in_dom (edb (fst (enc_add_term s t))) (VId id) /\
      Evq (edb (fst (enc_add_term s t))) t (VId id).

  Lemma adds_ok U : forall ts, Forall (add_ok U) ts -> forall kinds s w, SMid U s w ->
    args_ty (term_ty sg) kinds ts = true ->
    exists w', SMid U (fst (enc_adds s ts)) w' /\ Grows (edb s) (edb (fst (enc_adds s ts))) /\
      Forall2 (argv (edb (fst (enc_adds s ts)))) kinds (snd (enc_adds s ts)) /\
      Evqs (edb (fst (enc_adds s ts))) ts (snd (enc_adds s ts)).
  Proof.
    induction ts as [|x tl IH]; intros HF kinds s w HS Hty.
    - destruct kinds; [|discriminate]. cbn [enc_adds fst snd]. exists w. split; [exact HS|]. split; [apply grows_refl|].
      split; constructor.
    - inversion HF as [|x' tl' Hx Htl]; subst. destruct kinds as [|b ks]; [rewrite args_ty_nil_ks in Hty; discriminate|].
      rewrite args_ty_cons in Hty. destruct b.
      + apply andb_true_iff in Hty. destruct Hty as [Hxty Htlty].
        destruct (Hx s w HS Hxty) as (w1 & id & Hv & HS1 & G1 & Hd1 & He1).
        cbn [enc_adds]. destruct (enc_add_term s x) as [s1 v]. cbn [fst snd] in *. subst v.
        destruct (IH Htl ks s1 w1 HS1 Htlty) as (w2 & HS2 & G2 & Ha2 & Hes2).
        destruct (enc_adds s1 tl) as [s2 vs]. cbn [fst snd] in *.
        exists w2. split; [exact HS2|]. split; [eapply grows_trans; eauto|]. split.
        * constructor; [|exact Ha2]. split; [exact I|eapply grows_dom; eauto].
        * constructor; [|exact Hes2]. apply (grows_evq sg _ _ G2). exact He1.
      + destruct x as [f l|z]; [discriminate|]. cbn [enc_adds enc_add_term].
        destruct (IH Htl ks s w HS Hty) as (w2 & HS2 & G2 & Ha2 & Hes2).
        destruct (enc_adds s tl) as [s2 vs]. cbn [fst snd] in *.
        exists w2. split; [exact HS2|]. split; [exact G2|]. split.
        * constructor; [|exact Ha2]. intros [].
        * constructor; [constructor|exact Hes2].
  Qed.

  Lemma add_term_all U : forall t, add_ok U t.
  Proof.
    induction t as [z|f l IH] using term_ind'; intros s w HS Hty; [discriminate|].
    rewrite term_ty_T in Hty. destruct (nth_error sg f) as [kinds|] eqn:Hn; [|discriminate].
    rewrite enc_add_term_T. destruct (adds_ok U l IH kinds s w HS Hty) as (w1 & HS1 & G1 & Ha1 & He1).
    destruct (enc_adds s l) as [s1 vs]. cbn [fst snd] in *.
    destruct (add_node_ok sg U s1 w1 f kinds vs HS1 Hn Ha1) as (w2 & id & Hv & HS2 & G2 & Hd2 & Hrow).
    exists w2, id. split; [exact Hv|]. split; [exact HS2|]. split; [eapply grows_trans; eauto|]. split; [exact Hd2|].
    eapply (evq_app sg _ f kinds l vs vs (VId id)); [exact Hn| |apply Forall2_eqv_refl|exact Hrow|apply ev_refl].
    apply (grows_evq sg _ _ G2). exact He1.
  Qed.

  (* ---------------------------------------------------------------- soundness of [Evq] *)

  Lemma eqv_sound U w d : Inv sg U w d -> forall a b, eqv d a b -> CC U (witv w a) (witv w b).
  Proof.
    intros HI a b E. induction E; [apply (iv_s_uf _ _ _ _ HI); assumption|apply cc_refl|apply cc_sym; assumption|eapply cc_trans; eassumption].
  Qed.

  Lemma Evq_sound U w d : Inv sg U w d ->
    (forall t v, Evq d t v -> CC U t (witv w v)) /\
    (forall ts vs, Evqs d ts vs -> Forall2 (fun t v => CC U t (witv w v)) ts vs).
  Proof.
    intros HI. apply Evq_mutind.
    - intros z. apply cc_refl.
    - intros f kinds ts cs cs' o' v Hn _ IH HF Hk Ho.
      eapply cc_trans; [|eapply eqv_sound; eauto]. eapply cc_trans; [|eapply (iv_s_view _ _ _ _ HI); eauto].
      apply cc_cong. apply Forall2_map_r. eapply Forall2_comp; [|exact IH|exact HF].
      intros a b c Hab Hbc. eapply cc_trans; [exact Hab|eapply eqv_sound; eauto].
    - constructor.
    - intros t v ts vs _ H1 _ H2. constructor; assumption.
  Qed.

  Lemma Inv_mono U U' w d : incl U U' -> Inv sg U w d -> Inv sg U' w d.
  Proof.
    intros Hi [H1 H2 H3 H4 H5 H6 H7 H7' H8 H8' H9 H10 H11]. constructor; auto.
    - intros a b H. eapply CC_mono; [exact Hi|]. auto.
    - intros a b H. eapply CC_mono; [exact Hi|]. auto.
    - intros f kinds cs o Hn H. eapply CC_mono; [exact Hi|]. eauto.
  Qed.

  (** adding one UF edge between two ids of the domain *)
  Lemma inv_add_edge U w d a b : Inv sg U w d -> in_dom d (VId a) -> in_dom d (VId b) -> b <= a ->
    CC U (witv w (VId a)) (witv w (VId b)) ->
    Inv sg U w (dbset d tUF [VId a; VId b] unitv) /\ Grows d (dbset d tUF [VId a; VId b] unitv) /\
    ufE (dbset d tUF [VId a; VId b] unitv) (VId a) (VId b).
  Proof.
    intros HI Ha Hb Hle Hcc. set (d' := dbset d tUF [VId a; VId b] unitv).
    assert (HG : Grows d d').
    { split.
      - intros x y (r & Hr & Hk). exists r. split; [|exact Hk]. apply dbset_keep; [reflexivity|exact Hr].
      - intros g k (r & Hr & Hk). exists r. split; [|exact Hk]. unfold d'. rewrite dbset_other by apply (tabs_distinct g 0). exact Hr. }
    split; [|split; [exact HG|]].
    - apply (inv_step sg U w d d' HI).
      + apply length_dbset.
      + intros r Hr. apply dbset_in in Hr. destruct Hr as [Hr|[_ ->]]; [left; exact Hr|right].
        exists (VId a), (VId b). split; [reflexivity|]. split; [exists a, b; auto|]. auto.
      + intros r Hr. left. unfold d' in Hr. rewrite dbset_other in Hr; [exact Hr|unfold tUF, tUFf; lia].
      + intros f r Hr. left. unfold d' in Hr. rewrite dbset_other in Hr by apply (tabs_distinct f 0). exact Hr.
      + intros f. unfold d'. rewrite dbset_other by apply (tabs_distinct f 0). apply (iv_del _ _ _ _ HI).
      + intros v Hv. eapply grows_dom; eauto.
    - destruct (dbset_added d tUF [VId a; VId b] unitv (tUF_lt sg U w d HI)) as (r' & Hr' & Hk'). exists r'. auto.
  Qed.

  (* ---------------------------------------------------------------- the session invariant *)

  Definition Asr (U : list (term * term)) (d : db) : Prop :=
    forall a b, In (a, b) U -> exists va vb, Evq d a va /\ Evq d b vb /\ eqv d va vb.

  Definition SInv (U : list (term * term)) (s : estate) : Prop :=
    exists w, SMid U s w /\ Canonical sg (edb s) /\ Asr U (edb s).

  Lemma asr_mono U d d' : (forall a b, eqv d a b -> eqv d' a b) -> (forall t v, Evq d t v -> Evq d' t v) -> Asr U d -> Asr U d'.
  Proof. intros He Hv H a b Hab. destruct (H a b Hab) as (va & vb & H1 & H2 & H3). exists va, vb. auto. Qed.

  Lemma maint_ok U s w fuel s' : SMid U s w -> enc_maint fuel sg s = Ok s' ->
    SMid U s' w /\ Canonical sg (edb s') /\
    (forall a b, eqv (edb s) a b -> eqv (edb s') a b) /\ (forall t v, Evq (edb s) t v -> Evq (edb s') t v).
  Proof.
    intros [Hw HI Hu] H. unfold enc_maint in H.
    destruct (run_sched fuel (enc_prog sg) maint_sched (edb s)) as [[d' c]| |] eqn:E; cbn [bind] in H; try discriminate.
    injection H as <-. cbn [edb eterms].
    destruct (maint_canonical sg U w fuel _ _ _ HI E) as [HI' HC].
    destruct (kept_sched sg U w fuel _ _ _ _ HI Hu E) as [_ Hu' He Hv].
    split; [constructor; assumption|]. split; [exact HC|]. split; [exact He|].
    apply (Evq_mono sg _ _ He Hv).
  Qed.

  Lemma SMid_mono U U' s w : incl U U' -> SMid U s w -> SMid U' s w.
  Proof. intros Hi [H1 H2 H3]. constructor; auto. eapply Inv_mono; eauto. Qed.

  Lemma exec_ok U U' s c fuel s' : SInv U s -> cmd_ty sg c = true ->
    (forall p, In p U' <-> In p U \/ In p (cmd_unions c)) ->
    enc_exec fuel sg s c = Ok s' -> SInv U' s'.
  Proof.
    intros (w & HS & _ & HA) Hty HU H.
    assert (Hincl : incl U U') by (intros p Hp; apply HU; auto).
    apply (SMid_mono U U' s w Hincl) in HS.
    destruct c as [t|t1 t2]; cbn [enc_exec cmd_ty cmd_unions] in *.
    - destruct (add_term_all U' t s w HS Hty) as (w1 & id & _ & HS1 & G1 & _ & _).
      destruct (maint_ok U' _ w1 fuel s' HS1 H) as (HS' & HC & He & Hv).
      exists w1. split; [exact HS'|]. split; [exact HC|].
      intros a b Hab. apply HU in Hab. destruct Hab as [Hab|[]].
      destruct (HA a b Hab) as (va & vb & H1 & H2 & H3). exists va, vb.
      split; [apply Hv, (grows_evq sg _ _ G1), H1|]. split; [apply Hv, (grows_evq sg _ _ G1), H2|].
      apply He, (grows_eqv _ _ G1), H3.
    - apply andb_true_iff in Hty. destruct Hty as [Hty1 Hty2].
      destruct (add_term_all U' t1 s w HS Hty1) as (w1 & a & Hv1 & HS1 & G1 & Hd1 & He1).
      destruct (enc_add_term s t1) as [s1 v1]. cbn [fst snd] in *. subst v1.
      destruct (add_term_all U' t2 s1 w1 HS1 Hty2) as (w2 & b & Hv2 & HS2 & G2 & Hd2 & He2).
      destruct (enc_add_term s1 t2) as [s2 v2]. cbn [fst snd] in *. subst v2.
      destruct HS2 as [Hw2 HI2 Hu2].
      assert (Ea : Evq (edb s2) t1 (VId a)) by (apply (grows_evq sg _ _ G2); exact He1).
      assert (Da : in_dom (edb s2) (VId a)) by (eapply grows_dom; eauto).
      assert (Hcc : CC U' (witv w2 (VId a)) (witv w2 (VId b))).
      { destruct (Evq_sound U' w2 _ HI2) as [Hs _].
        eapply cc_trans; [apply cc_sym; apply Hs; exact Ea|]. eapply cc_trans; [|apply Hs; exact He2].
        apply cc_ax. apply HU. right. simpl. auto. }
      set (mx := Nat.max a b) in *. set (mn := Nat.min a b) in *.
      assert (Hcc' : CC U' (witv w2 (VId mx)) (witv w2 (VId mn))).
      { unfold mx, mn. destruct (Nat.le_ge_cases a b) as [Hle|Hle].
        - rewrite Nat.max_r, Nat.min_l by lia. apply cc_sym. exact Hcc.
        - rewrite Nat.max_l, Nat.min_r by lia. exact Hcc. }
      assert (Dmx : in_dom (edb s2) (VId mx)) by (unfold mx; destruct (Nat.max_spec a b) as [[_ ->]|[_ ->]]; assumption).
      assert (Dmn : in_dom (edb s2) (VId mn)) by (unfold mn; destruct (Nat.min_spec a b) as [[_ ->]|[_ ->]]; assumption).
      destruct (inv_add_edge U' w2 (edb s2) mx mn HI2 Dmx Dmn) as (HI3 & G3 & Hedge); [unfold mx, mn; lia|exact Hcc'|].
      set (d3 := dbset (edb s2) tUF [VId mx; VId mn] unitv) in *.
      assert (HS3 : SMid U' (mkE d3 (eterms s2)) w2).
      { constructor; cbn [edb eterms]; [exact Hw2|exact HI3|].
        intros x y Hxy. apply (grows_eqv _ _ G3). apply Hu2. unfold uffE, d3 in *. rewrite dbset_other in Hxy; [exact Hxy|unfold tUF, tUFf; lia]. }
      destruct (maint_ok U' _ w2 fuel s' HS3 H) as (HS' & HC & He & Hv). cbn [edb] in He, Hv.
      exists w2. split; [exact HS'|]. split; [exact HC|].
      assert (Eab : eqv d3 (VId a) (VId b)).
      { assert (Em : eqv d3 (VId mx) (VId mn)) by (apply ev_edge; exact Hedge).
        unfold mx, mn in Em. destruct (Nat.le_ge_cases a b) as [Hle|Hle].
        - rewrite Nat.max_r, Nat.min_l in Em by lia. apply ev_sym. exact Em.
        - rewrite Nat.max_l, Nat.min_r in Em by lia. exact Em. }
      intros x y Hxy. apply HU in Hxy. destruct Hxy as [Hxy|[E|[]]].
      + destruct (HA x y Hxy) as (va & vb & H1 & H2 & H3). exists va, vb.
        assert (G : Grows (edb s) d3) by (eapply grows_trans; [exact G1|eapply grows_trans; [exact G2|exact G3]]).
        split; [apply Hv, (grows_evq sg _ _ G), H1|]. split; [apply Hv, (grows_evq sg _ _ G), H2|].
        apply He, (grows_eqv _ _ G), H3.
      + injection E as <- <-. exists (VId a), (VId b).
        split; [apply Hv, (grows_evq sg _ _ G3), Ea|]. split; [apply Hv, (grows_evq sg _ _ G3), He2|]. apply He, Eab.
  Qed.

  Lemma run_ok fuel : forall cs U s s', SInv U s -> cmds_ty sg cs = true ->
    enc_run fuel sg s cs = Ok s' -> SInv (U ++ unions_of cs) s'.
  Proof.
    induction cs as [|c tl IH]; intros U s s' HS Hty H; cbn [enc_run] in H.
    - injection H as <-. cbn [unions_of flat_map]. rewrite app_nil_r. exact HS.
    - cbn [cmds_ty forallb] in Hty. apply andb_true_iff in Hty. destruct Hty as [Hc Htl].
      destruct (enc_exec fuel sg s c) as [s1| |] eqn:E; cbn [bind] in H; try discriminate.
      assert (HS1 : SInv (U ++ cmd_unions c) s1).
      { eapply exec_ok; [exact HS|exact Hc| |exact E]. intros p. apply in_app_iff. }
      pose proof (IH _ _ _ HS1 Htl H) as HF. rewrite CC.unions_of_cons, app_assoc. exact HF.
  Qed.

  Lemma SInv_init : SInv [] (einit (length sg)).
  Proof.
    exists []. unfold einit. remember (repeat [] (2 + 2 * length sg)) as d0 eqn:Ed0. cbn [edb eterms].
    assert (Hg : forall t, gett d0 t = []) by (intros t; subst d0; apply gett_repeat_nil).
    assert (Hl0 : length d0 = 2 + 2 * length sg) by (subst d0; apply repeat_length).
    assert (Hu : forall a b, ~ ufE d0 a b).
    { intros a b (r & Hr & _). rewrite Hg in Hr. exact Hr. }
    assert (Hf : forall a b, ~ uffE d0 a b).
    { intros a b (r & Hr & _). rewrite Hg in Hr. exact Hr. }
    assert (Hv : forall f k, ~ viewE d0 f k).
    { intros f k (r & Hr & _). rewrite Hg in Hr. exact Hr. }
    split; [|split].
    - constructor; cbn [edb eterms].
      + split; [reflexivity|]. intros i f cs Hi. destruct i; discriminate.
      + constructor; try (intros; exfalso; eauto; fail).
        * exact Hl0.
        * intros r Hr. rewrite Hg in Hr. destruct Hr.
        * intros r Hr. rewrite Hg in Hr. destruct Hr.
        * intros f kinds r _ Hr. rewrite Hg in Hr. destruct Hr.
        * intros f. apply Hg.
        * intros a b H. exfalso. eapply Hu; eauto.
        * intros a b H. exfalso. eapply Hf; eauto.
        * intros a b H. exfalso. eapply Hf; eauto.
        * intros f kinds k v _ H. exfalso. eapply Hv; eauto.
        * intros v (p & H). exfalso. eapply Hu; eauto.
        * intros a b H. exfalso. eapply Hu; eauto.
        * intros a b H. exfalso. eapply Hf; eauto.
        * intros f kinds cs o _ H. exfalso. eapply Hv; eauto.
      + intros a b H. exfalso. eapply Hf; eauto.
    - constructor.
      + intros a b c H. exfalso. eapply Hu; eauto.
      + intros a b H. exfalso. eapply Hu; eauto.
      + intros a b H. exfalso. eapply Hu; eauto.
      + intros f kinds k i _ H. exfalso. eapply Hv; eauto.
      + intros f kinds cs o1 o2 _ H. exfalso. eapply Hv; eauto.
    - intros a b [].
  Qed.

  (* ---------------------------------------------------------------- the session theorems *)

  Theorem session_inv fuel cs s : cmds_ty sg cs = true -> enc_run fuel sg (einit (length sg)) cs = Ok s ->
    SInv (unions_of cs) s.
  Proof. intros Hty H. apply (run_ok fuel cs [] _ _ SInv_init Hty H). Qed.

  Theorem session_sound fuel cs s t1 t2 v : cmds_ty sg cs = true ->
    enc_run fuel sg (einit (length sg)) cs = Ok s ->
    enc_eval (edb s) t1 = Some v -> enc_eval (edb s) t2 = Some v -> CC (unions_of cs) t1 t2.
  Proof.
    intros Hty H H1 H2. destruct (session_inv fuel cs s Hty H) as (w & [_ HI _] & _ & _).
    eapply cc_trans; [eapply enc_eval_sound; eauto|apply cc_sym; eapply enc_eval_sound; eauto].
  Qed.

  Lemma session_cert fuel cs s : cmds_ty sg cs = true -> enc_run fuel sg (einit (length sg)) cs = Ok s ->
    forall a b, In (a, b) (unions_of cs) -> enc_eval (edb s) a = enc_eval (edb s) b.
  Proof.
    intros Hty H a b Hab. destruct (session_inv fuel cs s Hty H) as (w & [_ HI _] & HC & HA).
    destruct (HA a b Hab) as (va & vb & Ea & Eb & Eab).
    destruct (Evq_eval sg _ w _ HI HC) as [Hev _].
    destruct (Hev _ _ Ea) as (va' & Ha & Ea' & Ca). destruct (Hev _ _ Eb) as (vb' & Hb & Eb' & Cb).
    rewrite Ha, Hb. f_equal.
    assert (E : eqv (edb s) va' vb').
    { eapply ev_trans; [apply ev_sym; exact Ea'|]. eapply ev_trans; [exact Eab|exact Eb']. }
    destruct (eqv_dom sg _ w _ _ _ HI E) as [Heq|[(p & Hp) (q & Hq)]]; [exact Heq|].
    destruct (ufE_ids _ _ _ _ _ _ HI Hp) as (i & j & -> & _). destruct (ufE_ids _ _ _ _ _ _ HI Hq) as (i' & j' & -> & _).
    eapply roots_eq; [exact HC|exact E|apply Ca; exact I|apply Cb; exact I].
  Qed.

  Theorem session_complete fuel cs s t1 t2 v1 v2 : cmds_ty sg cs = true ->
    enc_run fuel sg (einit (length sg)) cs = Ok s ->
    CC (unions_of cs) t1 t2 -> enc_eval (edb s) t1 = Some v1 -> enc_eval (edb s) t2 = Some v2 -> v1 = v2.
  Proof.
    intros Hty H Hcc H1 H2.
    pose proof (enc_eval_respects_CC (unions_of cs) (edb s) (session_cert fuel cs s Hty H) t1 t2 Hcc) as E.
    congruence.
  Qed.

  (* ---------------------------------------------------------------- encoded = native *)

  Lemma term_ty_okb : forall t, term_ty sg t = true -> term_okb (length sg) t = true /\ is_T t = true.
  Proof.
    induction t as [z|f l IH] using term_ind'; intros Hty; [discriminate|]. split; [|reflexivity].
    rewrite term_ty_T in Hty. destruct (nth_error sg f) as [kinds|] eqn:Hn; [|discriminate].
    cbn [term_okb]. apply andb_true_iff. split; [apply Nat.ltb_lt; apply nth_error_Some; congruence|].
    clear Hn. revert kinds Hty. induction l as [|x tl IHl]; intros kinds Hty; [reflexivity|].
    inversion IH as [|x' tl' Hx Htl]; subst. cbn [forallb]. destruct kinds as [|b ks]; [rewrite args_ty_nil_ks in Hty; discriminate|].
    rewrite args_ty_cons in Hty. destruct b.
    - apply andb_true_iff in Hty. destruct Hty as [H1 H2]. apply andb_true_iff. split; [apply Hx; exact H1|eapply IHl; eauto].
    - destruct x as [g l'|z]; [discriminate|]. cbn [term_okb andb]. eapply IHl; eauto.
  Qed.

  Lemma cmds_ty_okb cs : cmds_ty sg cs = true -> cmds_okb (length sg) cs = true.
  Proof.
    unfold cmds_ty, cmds_okb. induction cs as [|c tl IH]; [reflexivity|]. cbn [forallb]. intros H.
    apply andb_true_iff in H. destruct H as [Hc Htl]. apply andb_true_iff. split; [|apply IH; exact Htl].
    destruct c as [t|a b]; cbn [cmd_ty cmd_okb] in *.
    - apply term_ty_okb. exact Hc.
    - apply andb_true_iff in Hc. destruct Hc as [Ha Hb]. destruct (term_ty_okb a Ha) as [A1 A2]. destruct (term_ty_okb b Hb) as [B1 B2].
      rewrite A1, A2, B1, B2. reflexivity.
  Qed.

  (** the encoded engine model and the native engine model put every pair of terms that both
      represent into the same class or into different classes alike *)
  Theorem encoded_equiv_native fuel cs s sn t1 t2 v1 v2 u1 u2 : cmds_ty sg cs = true ->
    enc_run fuel sg (einit (length sg)) cs = Ok s ->
    run (repeat MUnionId (length sg)) (init (length sg)) cs = Ok sn ->
    enc_eval (edb s) t1 = Some v1 -> enc_eval (edb s) t2 = Some v2 ->
    eval sn t1 = Some u1 -> eval sn t2 = Some u2 ->
    (v1 = v2 <-> u1 = u2).
  Proof.
    intros Hty He Hn E1 E2 N1 N2.
    assert (Hsg : Forall (fun m => m = MUnionId) (repeat MUnionId (length sg))).
    { apply Forall_forall. intros m Hm. apply repeat_spec in Hm. exact Hm. }
    pose proof (CC.c01_iff (length sg) _ cs sn t1 t2 u1 u2 Hsg (cmds_ty_okb cs Hty) Hn N1 N2) as Hnat.
    rewrite Hnat. split.
    - intros ->. eapply session_sound; eauto.
    - intros Hcc. eapply session_complete; eauto.
  Qed.
End Runs.
