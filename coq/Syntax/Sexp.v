(** C15 — s-expression level of the egglog surface syntax (definitions only; proofs are in
    SexpProofs.v so the model still runs when a proof breaks).

    Text is a list of Unicode scalar values ([char := N]), exactly what the Rust lexer iterates
    over (`str::chars`).  Modelled from /repo/src/ast/parse.rs:
      - [skip_ws]      = SexpParser::advance_past_whitespace (whitespace = char::is_whitespace,
                         `;` comments to end of line)
      - [next_token]   = SexpParser::next (Open / Close / String with the escape table
                         backslash-n, backslash-t, backslash-backslash, backslash-quote / Other = maximal run of non-delimiters)
      - [classify]     = the `Token::Other` arm of `sexp` (true, false, i64, NaN, inf, -inf, f64, atom
                         — in that order)
      - [read_loop]    = the explicit-stack loop of `sexp`; [read_all] = `all_sexps`
    and from /repo/egglog-ast/src/generic_ast_helpers.rs:744-776:
      - [print_lit]    = `Display for Literal` (string escaping of backslash and quote only, the
                         `.0` rule for floats whose shortest form parses as an i64).
    Rust's f64 formatting/parsing is not modelled: [fmt_f64]/[parse_f64] are parameters (Section
    variables); the case files instantiate them with tables of the real functions' observed
    behaviour. *)
From Coq Require Import List NArith ZArith Bool Ascii String.
From Coq Require Decimal DecimalZ DecimalN.
Import ListNotations.
Require Import Verif.Base.Cases.

Definition char := N.
Definition str := list N.

Definition str_eqb : str -> str -> bool := list_eqb N.eqb.

(** ASCII literal -> code points (for keywords) *)
Definition s_ (x : string) : str := List.map N_of_ascii (list_ascii_of_string x).

Local Open Scope N_scope.

Definition c_lp : N := 40.
Definition c_rp : N := 41.
Definition c_semi : N := 59.
Definition c_quote : N := 34.
Definition c_bs : N := 92.
Definition c_nl : N := 10.
Definition c_tab : N := 9.
Definition c_n : N := 110.
Definition c_t : N := 116.
Definition c_minus : N := 45.
Definition c_plus : N := 43.
Definition c_dot : N := 46.
Definition c_colon : N := 58.
Definition c_sp : N := 32.

(** char::is_whitespace (Unicode White_Space) *)
Definition is_ws (c : N) : bool :=
  ((9 <=? c) && (c <=? 13)) || (c =? 32) || (c =? 133) || (c =? 160) || (c =? 5760)
  || ((8192 <=? c) && (c <=? 8202)) || (c =? 8232) || (c =? 8233) || (c =? 8239)
  || (c =? 8287) || (c =? 12288).

(** the characters that end a `Token::Other` *)
Definition is_delim (c : N) : bool := is_ws c || (c =? c_semi) || (c =? c_lp) || (c =? c_rp).

Inductive perr := EEof | ENoEndQuote | EBadEscape | EUnexpectedClose | EGrammar.

Inductive pres (A : Type) := POk (a : A) | PErr (e : perr) | PFuel.
Arguments POk {A} a.
Arguments PErr {A} e.
Arguments PFuel {A}.

Definition pbind {A B} (r : pres A) (k : A -> pres B) : pres B :=
  match r with POk a => k a | PErr e => PErr e | PFuel => PFuel end.

Definition perr_eqb (a b : perr) : bool :=
  match a, b with
  | EEof, EEof | ENoEndQuote, ENoEndQuote | EBadEscape, EBadEscape
  | EUnexpectedClose, EUnexpectedClose | EGrammar, EGrammar => true
  | _, _ => false
  end.

(** advance_past_whitespace; [inc] = in_comment *)
Fixpoint skip_ws (inc : bool) (s : str) : str :=
  match s with
  | [] => []
  | c :: tl =>
      if c =? c_semi then skip_ws true tl
      else if c =? c_nl then skip_ws false tl
      else if is_ws c then skip_ws inc tl
      else if inc then skip_ws true tl
      else s
  end.

Definition unescape (c : N) : option N :=
  if c =? c_n then Some c_nl
  else if c =? c_t then Some c_tab
  else if c =? c_bs then Some c_bs
  else if c =? c_quote then Some c_quote
  else None.

(** body of a string literal, after the opening quote: (contents, rest after the closing quote) *)
Fixpoint lex_string (esc : bool) (s : str) : pres (str * str) :=
  match s with
  | [] => PErr ENoEndQuote
  | c :: tl =>
      if esc then
        match unescape c with
        | Some d => pbind (lex_string false tl) (fun '(x, r) => POk (d :: x, r))
        | None => PErr EBadEscape
        end
      else if c =? c_quote then POk ([], tl)
      else if c =? c_bs then lex_string true tl
      else pbind (lex_string false tl) (fun '(x, r) => POk (c :: x, r))
  end.

(** maximal run of non-delimiters *)
Fixpoint span_other (s : str) : str * str :=
  match s with
  | [] => ([], [])
  | c :: tl => if is_delim c then ([], s) else let '(a, r) := span_other tl in (c :: a, r)
  end.

Inductive token := TOpen | TClose | TString (s : str) | TOther (s : str).

(** SexpParser::next: whitespace is skipped before and after the token *)
Definition next_token (s : str) : pres (token * str) :=
  match skip_ws false s with
  | [] => PErr EEof
  | c :: tl =>
      if c =? c_lp then POk (TOpen, skip_ws false tl)
      else if c =? c_rp then POk (TClose, skip_ws false tl)
      else if c =? c_quote then
        pbind (lex_string false tl) (fun '(x, r) => POk (TString x, skip_ws false r))
      else let '(a, r) := span_other tl in POk (TOther (c :: a), skip_ws false r)
  end.

(** * literals *)

(** a float literal: NaN (all NaNs are one literal, as under OrderedFloat), the two infinities,
    or a finite value identified by its IEEE bit pattern *)
Inductive fl := FNaN | FInf | FNInf | FFin (bits : Z).

Inductive lit := LInt (z : Z) | LFloat (f : fl) | LStr (s : str) | LBool (b : bool) | LUnit.

Definition fl_eqb (a b : fl) : bool :=
  match a, b with
  | FNaN, FNaN | FInf, FInf | FNInf, FNInf => true
  | FFin x, FFin y => Z.eqb x y
  | _, _ => false
  end.

Definition lit_eqb (a b : lit) : bool :=
  match a, b with
  | LInt x, LInt y => Z.eqb x y
  | LFloat x, LFloat y => fl_eqb x y
  | LStr x, LStr y => str_eqb x y
  | LBool x, LBool y => Bool.eqb x y
  | LUnit, LUnit => true
  | _, _ => false
  end.

(** decimal digits *)
Fixpoint uint_chars (u : Decimal.uint) : str :=
  match u with
  | Decimal.Nil => []
  | Decimal.D0 u => 48 :: uint_chars u
  | Decimal.D1 u => 49 :: uint_chars u
  | Decimal.D2 u => 50 :: uint_chars u
  | Decimal.D3 u => 51 :: uint_chars u
  | Decimal.D4 u => 52 :: uint_chars u
  | Decimal.D5 u => 53 :: uint_chars u
  | Decimal.D6 u => 54 :: uint_chars u
  | Decimal.D7 u => 55 :: uint_chars u
  | Decimal.D8 u => 56 :: uint_chars u
  | Decimal.D9 u => 57 :: uint_chars u
  end.

Fixpoint chars_uint (s : str) : option Decimal.uint :=
  match s with
  | [] => Some Decimal.Nil
  | c :: tl =>
      match chars_uint tl with
      | None => None
      | Some u =>
          if c =? 48 then Some (Decimal.D0 u) else if c =? 49 then Some (Decimal.D1 u)
          else if c =? 50 then Some (Decimal.D2 u) else if c =? 51 then Some (Decimal.D3 u)
          else if c =? 52 then Some (Decimal.D4 u) else if c =? 53 then Some (Decimal.D5 u)
          else if c =? 54 then Some (Decimal.D6 u) else if c =? 55 then Some (Decimal.D7 u)
          else if c =? 56 then Some (Decimal.D8 u) else if c =? 57 then Some (Decimal.D9 u)
          else None
      end
  end.

(** `Display for i64` *)
Definition print_int (z : Z) : str :=
  match Z.to_int z with
  | Decimal.Pos u => uint_chars u
  | Decimal.Neg u => c_minus :: uint_chars u
  end.

Definition print_N (n : N) : str := print_int (Z.of_N n).

Definition i64_min : Z := (- 9223372036854775808)%Z.
Definition i64_max : Z := 9223372036854775807%Z.
Definition in_i64 (z : Z) : bool := (Z.leb i64_min z && Z.leb z i64_max)%bool.

(** `str::parse::<i64>`: optional sign, at least one ASCII digit, no overflow *)
Definition parse_i64 (s : str) : option Z :=
  let digits (neg : bool) (d : str) :=
    match d with
    | [] => None
    | _ => match chars_uint d with
           | None => None
           | Some u =>
               let v := Z.of_N (N.of_uint u) in
               let z := if neg then Z.opp v else v in
               if in_i64 z then Some z else None
           end
    end in
  match s with
  | [] => None
  | c :: tl => if c =? c_minus then digits true tl
               else if c =? c_plus then digits false tl
               else digits false s
  end.

Fixpoint escape (s : str) : str :=
  match s with
  | [] => []
  | c :: tl => if (c =? c_bs) || (c =? c_quote) then c_bs :: c :: escape tl else c :: escape tl
  end.

Definition k_true := Eval compute in s_ "true".
Definition k_false := Eval compute in s_ "false".
Definition k_NaN := Eval compute in s_ "NaN".
Definition k_inf := Eval compute in s_ "inf".
Definition k_ninf := Eval compute in s_ "-inf".
Definition k_dot0 := Eval compute in s_ ".0".

Inductive sexp := SLit (l : lit) | SAtom (a : str) | SList (l : list sexp).

Fixpoint sexp_eqb (a b : sexp) {struct a} : bool :=
  match a, b with
  | SLit x, SLit y => lit_eqb x y
  | SAtom x, SAtom y => str_eqb x y
  | SList x, SList y =>
      (fix go (x y : list sexp) {struct x} : bool :=
         match x, y with
         | [], [] => true
         | a :: x', b :: y' => sexp_eqb a b && go x' y'
         | _, _ => false
         end) x y
  | _, _ => false
  end.

(** layout-decorated s-expressions: what a printer emits.  [text] is the emitted string, [strip]
    the tree the printer means. *)
Inductive lsexp :=
| LLit (l : lit)
| LAtom (a : str)
| LList (items : list (str * lsexp)) (close_ws : str).

Section WithFloatOracle.
  (** `f64::to_string` on a finite value (given by its bits) and `str::parse::<f64>` *)
  Variable fmt_f64 : Z -> str.
  Variable parse_f64 : str -> option fl.

  Definition print_float (f : fl) : str :=
    match f with
    | FNaN => k_NaN
    | FInf => k_inf
    | FNInf => k_ninf
    | FFin x => let s := fmt_f64 x in
                match parse_i64 s with Some _ => s ++ k_dot0 | None => s end
    end.

  (** `Display for Literal` *)
  Definition print_lit (l : lit) : str :=
    match l with
    | LInt z => print_int z
    | LFloat f => print_float f
    | LStr s => c_quote :: escape s ++ [c_quote]
    | LBool true => k_true
    | LBool false => k_false
    | LUnit => [c_lp; c_rp]
    end.

  (** the `Token::Other` arm of `sexp` *)
  Definition classify (s : str) : sexp :=
    if str_eqb s k_true then SLit (LBool true)
    else if str_eqb s k_false then SLit (LBool false)
    else match parse_i64 s with
         | Some z => SLit (LInt z)
         | None =>
             if str_eqb s k_NaN then SLit (LFloat FNaN)
             else if str_eqb s k_inf then SLit (LFloat FInf)
             else if str_eqb s k_ninf then SLit (LFloat FNInf)
             else match parse_f64 s with
                  | Some (FFin x) => SLit (LFloat (FFin x))
                  | _ => SAtom s
                  end
         end.

  (** the stack loop of `sexp`.  Every iteration consumes one token, hence one unit of fuel;
      [read_sexp] supplies |input|+1, proved sufficient in SexpProofs.v (never [PFuel]). *)
  Fixpoint read_loop (fuel : nat) (stack : list (list sexp)) (s : str) : pres (sexp * str) :=
    match fuel with
    | O => PFuel
    | S f =>
        match next_token s with
        | PErr e => PErr e
        | PFuel => PFuel
        | POk (tok, rest) =>
            let push (v : sexp) :=
              match stack with
              | [] => POk (v, rest)
              | l :: st => read_loop f ((v :: l) :: st) rest
              end in
            match tok with
            | TOpen => read_loop f ([] :: stack) rest
            | TClose =>
                match stack with
                | [] => PErr EUnexpectedClose
                | l :: st =>
                    let v := SList (List.rev l) in
                    match st with
                    | [] => POk (v, rest)
                    | l' :: st' => read_loop f ((v :: l') :: st') rest
                    end
                end
            | TString x => push (SLit (LStr x))
            | TOther x => push (classify x)
            end
        end
    end.

  Definition read_sexp (s : str) : pres (sexp * str) := read_loop (S (List.length s)) [] s.

  (** `all_sexps` *)
  Fixpoint read_all_loop (fuel : nat) (s : str) : pres (list sexp) :=
    match fuel with
    | O => PFuel
    | S f =>
        match s with
        | [] => POk []
        | _ => pbind (read_sexp s) (fun '(v, rest) =>
               pbind (read_all_loop f rest) (fun vs => POk (v :: vs)))
        end
    end.

  Definition read_all (s : str) : pres (list sexp) :=
    let s' := skip_ws false s in read_all_loop (S (List.length s')) s'.

  (** printers *)
  Fixpoint text (l : lsexp) : str :=
    match l with
    | LLit x => print_lit x
    | LAtom a => a
    | LList items cw =>
        c_lp :: (fix go (items : list (str * lsexp)) : str :=
                   match items with
                   | [] => []
                   | (w, x) :: tl => w ++ text x ++ go tl
                   end) items ++ cw ++ [c_rp]
    end.

  Fixpoint strip (l : lsexp) : sexp :=
    match l with
    | LLit x => SLit x
    | LAtom a => SAtom a
    | LList items _ => SList (List.map (fun p => strip (snd p)) items)
    end.

  (** canonical layout of a tree: single spaces *)
  Fixpoint canon (s : sexp) : lsexp :=
    match s with
    | SLit x => LLit x
    | SAtom a => LAtom a
    | SList l =>
        LList (match l with
               | [] => []
               | x :: tl => ([], canon x) :: List.map (fun y => ([c_sp], canon y)) tl
               end) []
    end.

  Definition print_sexp (s : sexp) : str := text (canon s).

End WithFloatOracle.

(** table oracles used by the case files: association lists recorded from the real functions *)
Fixpoint lookup_fmt (t : list (Z * str)) (x : Z) : str :=
  match t with
  | [] => []
  | (y, s) :: tl => if Z.eqb x y then s else lookup_fmt tl x
  end.

Fixpoint lookup_parse (t : list (str * option fl)) (s : str) : option fl :=
  match t with
  | [] => None
  | (k, v) :: tl => if str_eqb k s then v else lookup_parse tl s
  end.
