(** Correctness of [SortedOffsetSlice::scan_for_offset] and [binary_search_from] as regenerated
    from the source (gen/PureFns.v), for EVERY function [bs] meeting the documented contract of
    the standard library's [[T]::binary_search]. *)
From Coq Require Import List NArith Bool Lia Sorted Permutation.
Import ListNotations.
Require Import Verif.Base.Res Verif.Index.Prelude Verif.gen.PureFns Verif.Index.SearchModel Verif.Index.SortFacts.
Local Open Scope N_scope.

Definition nthN (l : list N) (i : N) : N := nth (N.to_nat i) l 0.

(** the documented contract of [[T]::binary_search] on a sorted slice: [Ok i] with [s[i] = t]
    for SOME such [i] if the target is present, otherwise [Err] of the insertion point *)
Definition bs_contract (bs : list N -> N -> UResult) : Prop :=
  forall s t, Sorted N.le s ->
    match bs s t with
    | ROk i => i < ulen s /\ nthN s i = t
    | RErr i => i <= ulen s /\ (forall j, j < i -> nthN s j < t) /\
                (forall j, i <= j -> j < ulen s -> t < nthN s j)
    end.

(** [Ok i]: i is the FIRST index >= start holding the target;
    [Err i]: i is the first index >= start whose element is greater than the target (or len),
    and the target does not occur at or after start *)
Definition scan_spec (l : list N) (start t : N) (r : UResult) : Prop :=
  match r with
  | ROk i => start <= i /\ i < ulen l /\ nthN l i = t /\ (forall j, start <= j -> j < i -> nthN l j < t)
  | RErr i => start <= i /\ i <= ulen l /\ (forall j, start <= j -> j < i -> nthN l j < t) /\
              (forall j, i <= j -> j < ulen l -> t < nthN l j)
  end.

(** [binary_search_from(start, t)] = r *)
Definition bsf_spec (l : list N) (start t r : N) : Prop :=
  r <= ulen l /\
  (forall j, r <= j -> j < ulen l -> t <= nthN l j) /\
  (forall j, start <= j -> j < r -> nthN l j < t) /\
  ((exists j, start <= j /\ j < ulen l /\ nthN l j = t) -> forall j, j < r -> nthN l j < t) /\
  ((forall j, start <= j -> j < ulen l -> nthN l j <> t) -> start <= r).

(* ---- slices -------------------------------------------------------------------------------- *)

Lemma sl_get_ok l i : i < ulen l -> sl_get l i = Ok (nthN l i).
Proof.
  intros H. unfold sl_get, nthN, ulen in *.
  destruct (nth_error l (N.to_nat i)) eqn:E.
  - f_equal. symmetry. apply nth_error_nth. exact E.
  - apply nth_error_None in E. lia.
Qed.

Lemma uadd_ok a b : a + b <= usize_max -> uadd a b = Ok (a + b).
Proof. intros H. unfold uadd. apply N.leb_le in H. rewrite H. reflexivity. Qed.

Lemma usub_ok a b : b <= a -> usub a b = Ok (a - b).
Proof. intros H. unfold usub. apply N.leb_le in H. rewrite H. reflexivity. Qed.

Definition sub (l : list N) (a b : N) : list N := firstn (N.to_nat (b - a)) (skipn (N.to_nat a) l).

Lemma sl_range_ok l a b : a <= b -> b <= ulen l -> sl_range l a b = Ok (sub l a b).
Proof.
  intros H1 H2. unfold sl_range. apply N.leb_le in H1, H2. rewrite H1, H2. reflexivity.
Qed.

Lemma ulen_sub l a b : a <= b -> b <= ulen l -> ulen (sub l a b) = b - a.
Proof.
  intros H1 H2. unfold ulen, sub in *. rewrite firstn_length, skipn_length. lia.
Qed.

Lemma nth_firstn_lt {A} (l : list A) d : forall n i, (i < n)%nat -> nth i (firstn n l) d = nth i l d.
Proof.
  induction l as [|x l IH]; intros n i H; destruct n; simpl; auto; try lia.
  destruct i; simpl; auto. apply IH. lia.
Qed.

Lemma nth_skipn_add {A} (l : list A) d : forall n i, nth i (skipn n l) d = nth (n + i) l d.
Proof.
  induction l as [|x l IH]; intros n i; destruct n; simpl; auto.
  destruct i; auto.
Qed.

Lemma nthN_sub l a b j : a <= b -> b <= ulen l -> j < b - a -> nthN (sub l a b) j = nthN l (a + j).
Proof.
  intros H1 H2 H3. unfold nthN, sub, ulen in *.
  rewrite nth_firstn_lt by lia. rewrite nth_skipn_add. f_equal. lia.
Qed.

Lemma SS_firstn {A} (R : A -> A -> Prop) n l : StronglySorted R l -> StronglySorted R (firstn n l).
Proof. intros H. rewrite <- (firstn_skipn n l) in H. apply SS_app_inv in H. tauto. Qed.

Lemma SS_skipn {A} (R : A -> A -> Prop) n l : StronglySorted R l -> StronglySorted R (skipn n l).
Proof. intros H. rewrite <- (firstn_skipn n l) in H. apply SS_app_inv in H. tauto. Qed.

Lemma sorted_SS l : Sorted N.le l -> StronglySorted N.le l.
Proof. apply Sorted_StronglySorted. intros a b c. apply N.le_trans. Qed.

Lemma sorted_sub l a b : Sorted N.le l -> Sorted N.le (sub l a b).
Proof.
  intros H. apply StronglySorted_Sorted. unfold sub. apply SS_firstn, SS_skipn, sorted_SS, H.
Qed.

Lemma sorted_nthN l : Sorted N.le l -> forall i j, i <= j -> j < ulen l -> nthN l i <= nthN l j.
Proof.
  intros H i j Hij Hj. apply sorted_SS in H. unfold nthN, ulen in *.
  destruct (N.eq_dec i j) as [->|Hne]; [lia|].
  apply (SS_nth N.le l 0 H); lia.
Qed.

(* ---- the walk back to the first of a run of equal offsets ------------------------------------ *)

(** the three [while found > start && slice[found - 1] == target { found -= 1 }] loops of the
    source are instances of this function (lemmas [loop2_walk], [loop3_walk], [bsf_loop1_walk]) *)
Fixpoint walk (fuel : nat) (slice : list N) (start target found : N) : Res N :=
  match fuel with
  | O => OutOfFuel
  | S fuel =>
      if start <? found then
        bind (usub found 1) (fun i => bind (sl_get slice i) (fun v =>
        if v =? target then bind (usub found 1) (fun f => walk fuel slice start target f) else Ok found))
      else Ok found
  end.

Lemma loop2_walk fuel : forall self_ start target slice len lo step hi found,
  scan_for_offset_loop2 fuel self_ start target slice len lo step hi found =
  bind (walk fuel slice start target found) (fun f => Ok (ROk f)).
Proof.
  induction fuel as [|fuel IH]; intros; cbn [scan_for_offset_loop2 walk]; auto.
  destruct (start <? found); [|reflexivity].
  destruct (usub found 1); cbn [bind]; auto.
  destruct (sl_get slice a); cbn [bind]; auto.
  destruct (a0 =? target); cbn [bind]; auto.
Qed.

Lemma loop3_walk fuel : forall self_ start target slice len lo step probe found,
  scan_for_offset_loop3 fuel self_ start target slice len lo step probe found =
  bind (walk fuel slice start target found) (fun f => Ok (ROk f)).
Proof.
  induction fuel as [|fuel IH]; intros; cbn [scan_for_offset_loop3 walk]; auto.
  destruct (start <? found); [|reflexivity].
  destruct (usub found 1); cbn [bind]; auto.
  destruct (sl_get slice a); cbn [bind]; auto.
  destruct (a0 =? target); cbn [bind]; auto.
Qed.

Lemma bsf_loop1_walk fuel : forall self_ start target found,
  binary_search_from_loop1 fuel self_ start target found = walk fuel self_ 0 target found.
Proof.
  induction fuel as [|fuel IH]; intros; cbn [binary_search_from_loop1 walk]; auto.
  destruct (0 <? found); [|reflexivity].
  destruct (usub found 1); cbn [bind]; auto.
  destruct (sl_get self_ a); cbn [bind]; auto.
  destruct (a0 =? target); cbn [bind]; auto.
Qed.

Lemma walk_spec l start t : Sorted N.le l ->
  forall fuel found, start <= found -> found < ulen l -> nthN l found = t ->
    (N.to_nat (found - start) + 1 <= fuel)%nat ->
    exists f, walk fuel l start t found = Ok f /\ start <= f /\ f <= found /\ nthN l f = t /\
              (forall j, start <= j -> j < f -> nthN l j < t).
Proof.
  intros Hs. induction fuel as [|fuel IH]; intros found H1 H2 H3 Hf; [lia|].
  cbn [walk]. destruct (start <? found) eqn:E.
  - apply N.ltb_lt in E. rewrite usub_ok by lia. cbn [bind].
    rewrite sl_get_ok by lia. cbn [bind].
    destruct (nthN l (found - 1) =? t) eqn:E2.
    + apply N.eqb_eq in E2. destruct (IH (found - 1)) as (f & F1 & F2 & F3 & F4 & F5); try lia; auto.
      exists f. repeat split; auto. lia.
    + apply N.eqb_neq in E2. exists found. repeat split; auto; try lia.
      intros j J1 J2. pose proof (sorted_nthN l Hs j (found - 1) ltac:(lia) ltac:(lia)).
      pose proof (sorted_nthN l Hs (found - 1) found ltac:(lia) ltac:(lia)). lia.
  - apply N.ltb_ge in E. exists found. repeat split; auto; try lia.
Qed.

(** run the checked operations whose side conditions [lia] can discharge *)
Ltac ok_steps :=
  repeat (first [rewrite uadd_ok by lia | rewrite usub_ok by lia | rewrite sl_get_ok by lia
                | rewrite sl_range_ok by lia]; cbn [bind]).

(* ---- scan_for_offset ----------------------------------------------------------------------------- *)

Section Search.
Variable bs : list N -> N -> UResult.
Hypothesis bs_ok : bs_contract bs.

Lemma after1_spec l start t : Sorted N.le l -> 2 * ulen l <= usize_max ->
  forall fuel lo step hi,
    start <= lo -> lo < hi -> hi <= ulen l -> nthN l lo < t ->
    (forall j, hi <= j -> j < ulen l -> t < nthN l j) ->
    (N.to_nat (hi - start) + 1 <= fuel)%nat ->
    exists r, scan_for_offset_after1 bs fuel l start t l (ulen l) lo step hi = Ok r /\ scan_spec l start t r.
Proof.
  intros Hs Hmax fuel lo step hi H1 H2 H3 H4 H5 Hf.
  unfold scan_for_offset_after1.
  ok_steps.
  pose proof (bs_ok (sub l (lo + 1) hi) t (sorted_sub l _ _ Hs)) as C.
  assert (HL : ulen (sub l (lo + 1) hi) = hi - (lo + 1)) by (apply ulen_sub; lia).
  destruct (bs (sub l (lo + 1) hi) t) as [f0|x].
  - destruct C as [C1 C2]. rewrite HL in C1. rewrite nthN_sub in C2 by lia.
    ok_steps.
    rewrite loop2_walk.
    destruct (walk_spec l start t Hs fuel (f0 + (lo + 1))) as (f & F1 & F2 & F3 & F4 & F5); try lia.
    { rewrite <- C2. f_equal. lia. }
    rewrite F1. cbn [bind]. eexists; split; [reflexivity|]. cbn [scan_spec].
    repeat split; auto; lia.
  - destruct C as (C1 & C2 & C3). rewrite HL in C1, C3.
    ok_steps.
    eexists; split; [reflexivity|]. cbn [scan_spec]. repeat split; try lia.
    + intros j J1 J2. destruct (N.le_gt_cases j lo) as [J|J].
      * pose proof (sorted_nthN l Hs j lo J ltac:(lia)). lia.
      * specialize (C2 (j - (lo + 1)) ltac:(lia)). rewrite nthN_sub in C2 by lia.
        replace (lo + 1 + (j - (lo + 1))) with j in C2 by lia. exact C2.
    + intros j J1 J2. destruct (N.lt_ge_cases j hi) as [J|J].
      * specialize (C3 (j - (lo + 1)) ltac:(lia) ltac:(lia)). rewrite nthN_sub in C3 by lia.
        replace (lo + 1 + (j - (lo + 1))) with j in C3 by lia. exact C3.
      * apply H5; auto.
Qed.

Lemma loop1_spec l start t : Sorted N.le l -> 2 * ulen l <= usize_max ->
  forall fuel lo step,
    start <= lo -> lo < ulen l -> nthN l lo < t -> 1 <= step -> step <= lo - start + 1 ->
    (N.to_nat (ulen l - lo) + N.to_nat (ulen l - start) + 2 <= fuel)%nat ->
    exists r, scan_for_offset_loop1 bs fuel l start t l (ulen l) lo step = Ok r /\ scan_spec l start t r.
Proof.
  intros Hs Hmax. induction fuel as [|fuel IH]; intros lo step H1 H2 H3 H4 H5 Hf; [lia|].
  cbn [scan_for_offset_loop1].
  rewrite uadd_ok by lia. cbn [bind]. cbv zeta.
  destruct (ulen l <=? lo + step) eqn:E.
  - apply N.leb_le in E. apply after1_spec; auto; try lia.
  - apply N.leb_gt in E. rewrite sl_get_ok by lia. cbn [bind].
    destruct (nthN l (lo + step) ?= t) eqn:C.
    + (* Equal: walk back to the first *)
      apply N.compare_eq_iff in C. rewrite loop3_walk.
      destruct (walk_spec l start t Hs fuel (lo + step)) as (f & F1 & F2 & F3 & F4 & F5); try lia; auto.
      rewrite F1. cbn [bind]. eexists; split; [reflexivity|]. cbn [scan_spec]. repeat split; auto; lia.
    + (* Less: gallop on *)
      apply N.compare_lt_iff in C. apply IH; auto; try lia.
      * unfold usat_mul. lia.
      * unfold usat_mul. lia.
    + (* Greater: narrowed to (lo, probe) *)
      apply N.compare_gt_iff in C. apply after1_spec; auto; try lia.
      intros j J1 J2. pose proof (sorted_nthN l Hs (lo + step) j J1 J2). lia.
Qed.

(** THE theorem about [scan_for_offset] *)
Theorem scan_for_offset_correct l start t fuel :
  Sorted N.le l -> 2 * ulen l <= usize_max -> start <= ulen l ->
  (2 * length l + 2 <= fuel)%nat ->
  exists r, scan_for_offset bs fuel l start t = Ok r /\ scan_spec l start t r.
Proof.
  intros Hs Hmax Hst Hf. unfold scan_for_offset. cbv zeta.
  destruct (ulen l <=? start) eqn:E.
  - apply N.leb_le in E. eexists; split; [reflexivity|]. cbn [scan_spec].
    repeat split; try lia; intros; lia.
  - apply N.leb_gt in E. rewrite sl_get_ok by lia. cbn [bind].
    destruct (nthN l start =? t) eqn:E2.
    + apply N.eqb_eq in E2. eexists; split; [reflexivity|]. cbn [scan_spec].
      repeat split; auto; try lia; intros; lia.
    + apply N.eqb_neq in E2. destruct (t <? nthN l start) eqn:E3.
      * apply N.ltb_lt in E3. eexists; split; [reflexivity|]. cbn [scan_spec].
        split; [lia|]. split; [lia|]. split; [intros; lia|].
        intros j J1 J2. pose proof (sorted_nthN l Hs start j J1 J2). lia.
      * apply N.ltb_ge in E3. apply loop1_spec; auto; try lia.
        unfold ulen in *. lia.
Qed.

(* ---- binary_search_from ----------------------------------------------------------------------------- *)

Theorem binary_search_from_correct l start t fuel :
  Sorted N.le l -> ulen l <= usize_max -> start <= ulen l ->
  (length l + 1 <= fuel)%nat ->
  exists r, binary_search_from bs fuel l start t = Ok r /\ bsf_spec l start t r.
Proof.
  intros Hs Hmax Hst Hf. unfold binary_search_from.
  rewrite sl_range_ok by lia. cbn [bind].
  pose proof (bs_ok (sub l start (ulen l)) t (sorted_sub l _ _ Hs)) as C.
  assert (HL : ulen (sub l start (ulen l)) = ulen l - start) by (apply ulen_sub; lia).
  destruct (bs (sub l start (ulen l)) t) as [f0|x].
  - destruct C as [C1 C2]. rewrite HL in C1. rewrite nthN_sub in C2 by lia.
    rewrite uadd_ok by lia. cbn [bind]. cbv zeta. rewrite bsf_loop1_walk.
    destruct (walk_spec l 0 t Hs fuel (f0 + start)) as (f & F1 & F2 & F3 & F4 & F5); try lia.
    { rewrite <- C2. f_equal. lia. }
    { unfold ulen in *. lia. }
    rewrite F1. eexists; split; [reflexivity|]. unfold bsf_spec. repeat split; try lia.
    + intros j J1 J2. pose proof (sorted_nthN l Hs f j J1 J2). lia.
    + intros j J1 J2. apply F5; lia.
    + intros _ j J. apply F5; lia.
    + intros Habs. exfalso. apply (Habs (f0 + start)); try lia. rewrite <- C2. f_equal. lia.
  - destruct C as (C1 & C2 & C3). rewrite HL in C1, C3.
    rewrite uadd_ok by lia. cbn [bind].
    eexists; split; [reflexivity|]. unfold bsf_spec. repeat split; try lia.
    + intros j J1 J2. specialize (C3 (j - start) ltac:(lia) ltac:(lia)). rewrite nthN_sub in C3 by lia.
      replace (start + (j - start)) with j in C3 by lia. lia.
    + intros j J1 J2. specialize (C2 (j - start) ltac:(lia)). rewrite nthN_sub in C2 by lia.
      replace (start + (j - start)) with j in C2 by lia. exact C2.
    + intros (j & J1 & J2 & J3). exfalso. destruct (N.lt_ge_cases (j - start) x) as [J|J].
      * specialize (C2 (j - start) J). rewrite nthN_sub in C2 by lia.
        replace (start + (j - start)) with j in C2 by lia. lia.
      * specialize (C3 (j - start) J ltac:(lia)). rewrite nthN_sub in C3 by lia.
        replace (start + (j - start)) with j in C3 by lia. lia.
Qed.

End Search.

(** the specification determines the result: any two functions meeting the contract give the
    same answers (so the choice the real standard library makes among equal elements is
    irrelevant) *)
Lemma scan_spec_unique l start t r1 r2 : scan_spec l start t r1 -> scan_spec l start t r2 -> r1 = r2.
Proof.
  destruct r1 as [i|i], r2 as [j|j]; cbn [scan_spec]; intros (A1 & A2 & A3 & A4) (B1 & B2 & B3 & B4).
  - f_equal. destruct (N.lt_trichotomy i j) as [H|[H|H]]; auto.
    + specialize (B4 i A1 H). lia.
    + specialize (A4 j B1 H). lia.
  - exfalso. destruct (N.lt_ge_cases i j) as [H|H].
    + specialize (B3 i A1 H). lia.
    + specialize (B4 i H A2). lia.
  - exfalso. destruct (N.lt_ge_cases j i) as [H|H].
    + specialize (A3 j B1 H). lia.
    + specialize (A4 j H B2). lia.
  - f_equal. destruct (N.lt_trichotomy i j) as [H|[H|H]]; auto.
    + specialize (B3 i A1 H). specialize (A4 i ltac:(lia) ltac:(lia)). lia.
    + specialize (A3 j B1 H). specialize (B4 j ltac:(lia) ltac:(lia)). lia.
Qed.

(* ---- the contract is satisfiable: both executable instances meet it -------------------------------- *)

Lemma bs_first_from_spec s : forall t i, Sorted N.le s ->
  match bs_first_from s t i with
  | ROk r => i <= r /\ r - i < ulen s /\ nthN s (r - i) = t
  | RErr r => i <= r /\ r - i <= ulen s /\ (forall j, j < r - i -> nthN s j < t) /\
              (forall j, r - i <= j -> j < ulen s -> t < nthN s j)
  end.
Proof.
  induction s as [|x s IH]; intros t i Hs; cbn [bs_first_from].
  - unfold ulen; simpl. repeat split; try lia; intros; lia.
  - assert (Hs' : Sorted N.le s) by (inversion Hs; auto).
    destruct (x ?= t) eqn:C.
    + apply N.compare_eq_iff in C. replace (i - i) with 0 by lia. unfold ulen, nthN; simpl.
      repeat split; try lia; try exact C.
    + apply N.compare_lt_iff in C. specialize (IH t (i + 1) Hs').
      destruct (bs_first_from s t (i + 1)) as [r|r].
      * destruct IH as (I1 & I2 & I3). unfold ulen, nthN in *. simpl length.
        repeat split; try lia.
        replace (N.to_nat (r - i)) with (S (N.to_nat (r - (i + 1)))) by lia. simpl. exact I3.
      * destruct IH as (I1 & I2 & I3 & I4). unfold ulen, nthN in *. simpl length.
        repeat split; try lia.
        -- intros j J. destruct (N.eq_dec j 0) as [->|Hj]; [simpl; exact C|].
           replace (N.to_nat j) with (S (N.to_nat (j - 1))) by lia. simpl. apply I3. lia.
        -- intros j J1 J2. replace (N.to_nat j) with (S (N.to_nat (j - 1))) by lia. simpl. apply I4; lia.
    + apply N.compare_gt_iff in C. replace (i - i) with 0 by lia.
      repeat split; try lia; try (intros; lia).
      intros j _ J2. pose proof (sorted_nthN (x :: s) Hs 0 j ltac:(lia) J2) as H.
      unfold nthN in H at 1. simpl in H. lia.
Qed.

Lemma bs_first_contract : bs_contract bs_first.
Proof.
  intros s t Hs. unfold bs_first. pose proof (bs_first_from_spec s t 0 Hs) as H.
  destruct (bs_first_from s t 0) as [r|r]; rewrite N.sub_0_r in H; tauto.
Qed.

Lemma bs_last_from_spec s : forall t i found, Sorted N.le s ->
  match bs_last_from s t i found with
  | ROk r => Some r = found \/ (i <= r /\ r - i < ulen s /\ nthN s (r - i) = t)
  | RErr r => found = None /\ i <= r /\ r - i <= ulen s /\ (forall j, j < r - i -> nthN s j < t) /\
              (forall j, r - i <= j -> j < ulen s -> t < nthN s j)
  end.
Proof.
  induction s as [|x s IH]; intros t i found Hs; cbn [bs_last_from].
  - destruct found; auto. unfold ulen; simpl. repeat split; try lia; intros; lia.
  - assert (Hs' : Sorted N.le s) by (inversion Hs; auto).
    destruct (x ?= t) eqn:C.
    + apply N.compare_eq_iff in C. specialize (IH t (i + 1) (Some i) Hs').
      destruct (bs_last_from s t (i + 1) (Some i)) as [r|r].
      * right. destruct IH as [I|(I1 & I2 & I3)].
        -- inversion I; subst. replace (i - i) with 0 by lia. unfold ulen, nthN; simpl. repeat split; try lia; try reflexivity; try exact C.
        -- unfold ulen, nthN in *. simpl length. repeat split; try lia.
           replace (N.to_nat (r - i)) with (S (N.to_nat (r - (i + 1)))) by lia. simpl. exact I3.
      * destruct IH as [I _]. discriminate.
    + apply N.compare_lt_iff in C. specialize (IH t (i + 1) found Hs').
      destruct (bs_last_from s t (i + 1) found) as [r|r].
      * destruct IH as [I|(I1 & I2 & I3)]; [left; auto|right].
        unfold ulen, nthN in *. simpl length. repeat split; try lia.
        replace (N.to_nat (r - i)) with (S (N.to_nat (r - (i + 1)))) by lia. simpl. exact I3.
      * destruct IH as (I0 & I1 & I2 & I3 & I4). unfold ulen, nthN in *. simpl length.
        repeat split; auto; try lia.
        -- intros j J. destruct (N.eq_dec j 0) as [->|Hj]; [simpl; exact C|].
           replace (N.to_nat j) with (S (N.to_nat (j - 1))) by lia. simpl. apply I3. lia.
        -- intros j J1 J2. replace (N.to_nat j) with (S (N.to_nat (j - 1))) by lia. simpl. apply I4; lia.
    + apply N.compare_gt_iff in C. destruct found as [f|]; [left; auto|].
      replace (i - i) with 0 by lia. repeat split; try lia; try (intros; lia).
      intros j _ J2. pose proof (sorted_nthN (x :: s) Hs 0 j ltac:(lia) J2) as H.
      unfold nthN in H at 1. simpl in H. lia.
Qed.

Lemma bs_last_contract : bs_contract bs_last.
Proof.
  intros s t Hs. unfold bs_last. pose proof (bs_last_from_spec s t 0 None Hs) as H.
  destruct (bs_last_from s t 0 None) as [r|r]; rewrite N.sub_0_r in H.
  - destruct H as [H|H]; [discriminate | tauto].
  - tauto.
Qed.

(* ---- corollaries pinned in Props/C16idx.v ----------------------------------------------------------- *)

Lemma scan_for_offset_choice_free : forall bs1 bs2, bs_contract bs1 -> bs_contract bs2 ->
  forall (l : list N) (start t : N),
  Sorted N.le l -> 2 * ulen l <= usize_max -> start <= ulen l ->
  scan_for_offset bs1 (2 * length l + 2) l start t = scan_for_offset bs2 (2 * length l + 2) l start t.
Proof.
  intros bs1 bs2 H1 H2 l start t Hs Hm Hst.
  destruct (scan_for_offset_correct bs1 H1 l start t _ Hs Hm Hst (le_n _)) as (r1 & E1 & S1).
  destruct (scan_for_offset_correct bs2 H2 l start t _ Hs Hm Hst (le_n _)) as (r2 & E2 & S2).
  rewrite E1, E2. f_equal. eapply scan_spec_unique; eauto.
Qed.

Lemma binary_search_lower_bound : forall bs, bs_contract bs ->
  forall (l : list N) (start t : N),
  Sorted N.le l -> ulen l <= usize_max -> start <= ulen l ->
  (forall j, j < start -> nthN l j < t) ->
  exists r, binary_search_from bs (length l + 1) l start t = Ok r /\
    start <= r /\ r <= ulen l /\ (forall j, j < r -> nthN l j < t) /\
    (forall j, r <= j -> j < ulen l -> t <= nthN l j).
Proof.
  intros bs Hb l start t Hs Hm Hst Hlow.
  destruct (binary_search_from_correct bs Hb l start t _ Hs Hm Hst (le_n _)) as (r & E & B1 & B2 & B3 & B4 & B5).
  exists r. split; [exact E|].
  assert (Hsr : start <= r).
  { destruct (N.le_gt_cases start r) as [H|H]; auto. exfalso.
    (* r < start: then l[r] < t by the hypothesis, but everything from r on is >= t *)
    specialize (Hlow r H). specialize (B2 r (N.le_refl _) ltac:(apply N.lt_le_trans with start; auto)).
    apply N.lt_nge in Hlow. contradiction. }
  repeat split; auto.
  intros j Hj. destruct (N.lt_ge_cases j start) as [J|J]; [apply Hlow; exact J | apply B3; auto].
Qed.

