//! C10: the schedule interpreter -> Gallina (gen/SchedFns.v).
//!
//! Translates, from the current source,
//!   egglog-reports/src/lib.rs : `impl Default for RunReport`, `RunReport::union`, `RunReport::singleton`
//!   src/lib.rs                : `EGraph::run_rules`, `EGraph::run_schedule`, and the nested
//!                               `collect_rule_ids` of `EGraph::step_rules`
//! over the data types of coq/Sched/Syntax.v.  `&mut self` becomes a threaded state `self : St`;
//! `self.step_rules(r)?` and `self.check_facts(span, f).is_ok()` become the Section variables
//! `step_rules` / `check_facts`; `for`/`loop` become nested `fix`es (structural on the counter /
//! the list / the fuel) so that `run_schedule` stays structurally recursive on the schedule;
//! `break` duplicates the continuation.  Only the three `RunReport` fields that drive control
//! flow are modelled; a statement is dropped only when it is a `log::` macro, or touches nothing
//! but the unmodelled timing/count fields.  Anything else that is not recognised is an error
//! (the item stops regenerating and the proofs stop compiling): never a silently stale model.
use quote::ToTokens;
use std::collections::BTreeSet;
use syn::{spanned::Spanned, Block, Expr, ImplItem, Item as SynItem, Pat, Stmt};

type R<T> = Result<T, String>;

const MODELLED_FIELDS: &[&str] = &["iterations", "updated", "can_stop"];
const SKIPPED_FIELDS: &[&str] = &[
    "search_and_apply_time_per_rule",
    "num_matches_per_rule",
    "search_and_apply_time_per_ruleset",
    "merge_time_per_ruleset",
    "rebuild_time_per_ruleset",
];

fn err<T, S: Spanned>(s: &S, msg: &str) -> R<T> {
    Err(format!("line {}: {}", s.span().start().line, msg))
}

fn idents(ts: proc_macro2::TokenStream, acc: &mut BTreeSet<String>) {
    for t in ts {
        match t {
            proc_macro2::TokenTree::Ident(i) => {
                acc.insert(i.to_string());
            }
            proc_macro2::TokenTree::Group(g) => idents(g.stream(), acc),
            proc_macro2::TokenTree::Punct(p) if p.as_char() == '?' => {
                acc.insert("?".into());
            }
            _ => {}
        }
    }
}
fn idents_of<T: ToTokens>(t: &T) -> BTreeSet<String> {
    let mut s = BTreeSet::new();
    idents(t.to_token_stream(), &mut s);
    s
}

fn find_method(file: &syn::File, ty: &str, trait_name: Option<&str>, name: &str) -> R<syn::ImplItemFn> {
    for it in &file.items {
        if let SynItem::Impl(im) = it {
            let tyname = match &*im.self_ty {
                syn::Type::Path(p) => p.path.segments.last().map(|s| s.ident.to_string()),
                _ => None,
            };
            let tr = im.trait_.as_ref().and_then(|(_, p, _)| p.segments.last().map(|s| s.ident.to_string()));
            if tyname.as_deref() != Some(ty) || tr.as_deref() != trait_name {
                continue;
            }
            for ii in &im.items {
                if let ImplItem::Fn(f) = ii {
                    if f.sig.ident == name {
                        return Ok(f.clone());
                    }
                }
            }
        }
    }
    Err(format!("method {ty}::{name} not found"))
}

fn ind(n: usize) -> String {
    "  ".repeat(n)
}

fn last_seg(p: &syn::Path) -> String {
    p.segments.last().map(|s| s.ident.to_string()).unwrap_or_default()
}

fn path_str(p: &syn::Path) -> String {
    p.segments.iter().map(|s| s.ident.to_string()).collect::<Vec<_>>().join("::")
}

fn is_log_macro(m: &syn::Macro) -> bool {
    m.path.segments.first().map(|s| s.ident == "log").unwrap_or(false)
}

// ------------------------------------------------------------------------------------------
// RunReport: default / union / singleton

/// a pure expression over modelled things
fn rexpr(e: &Expr) -> R<String> {
    match e {
        Expr::Paren(p) => rexpr(&p.expr),
        Expr::Reference(r) => rexpr(&r.expr),
        Expr::Lit(l) => match &l.lit {
            syn::Lit::Bool(b) => Ok(b.value.to_string()),
            _ => err(e, "unsupported literal"),
        },
        Expr::Path(p) if p.path.get_ident().is_some() => Ok(p.path.get_ident().unwrap().to_string()),
        Expr::Unary(u) if matches!(u.op, syn::UnOp::Not(_)) => Ok(format!("negb ({})", rexpr(&u.expr)?)),
        Expr::Unary(u) if matches!(u.op, syn::UnOp::Deref(_)) => rexpr(&u.expr),
        Expr::Field(f) => {
            let fld = match &f.member {
                syn::Member::Named(n) => n.to_string(),
                _ => return err(e, "tuple field"),
            };
            if !MODELLED_FIELDS.contains(&fld.as_str()) {
                return err(e, &format!("field {fld} is not modelled"));
            }
            Ok(format!("{} {}", fld, rexpr(&f.base)?))
        }
        Expr::Call(c) => {
            let f = match &*c.func {
                Expr::Path(p) => path_str(&p.path),
                _ => return err(e, "unsupported call"),
            };
            match (f.as_str(), c.args.len()) {
                ("Vec::new", 0) => Ok("[]".into()),
                ("RunReport::default", 0) | ("Default::default", 0) => Ok("RunReport_default".into()),
                ("Arc::new", 1) => rexpr(&c.args[0]),
                _ => err(e, &format!("unsupported call {f}")),
            }
        }
        Expr::MethodCall(mc) if mc.method == "changed" && mc.args.is_empty() => Ok(format!("changed {}", rexpr(&mc.receiver)?)),
        _ => err(e, "unsupported expression"),
    }
}

fn report_default(file: &syn::File) -> R<String> {
    let f = find_method(file, "RunReport", Some("Default"), "default")?;
    let lit = match f.block.stmts.as_slice() {
        [Stmt::Expr(Expr::Struct(s), None)] => s,
        _ => return err(&f.block, "RunReport::default is not a single struct literal"),
    };
    let mut vals = std::collections::HashMap::new();
    for fv in &lit.fields {
        let n = match &fv.member {
            syn::Member::Named(n) => n.to_string(),
            _ => return err(fv, "unnamed field"),
        };
        if MODELLED_FIELDS.contains(&n.as_str()) {
            vals.insert(n, rexpr(&fv.expr)?);
        } else if !SKIPPED_FIELDS.contains(&n.as_str()) {
            return err(fv, &format!("RunReport has a field {n} that is neither modelled nor known to be bookkeeping"));
        }
    }
    let get = |k: &str| vals.get(k).cloned().ok_or_else(|| format!("RunReport::default does not set {k}"));
    Ok(format!(
        "Definition RunReport_default : RunReport I :=\n  mkReport {} {} {}.\n",
        get("iterations")?,
        get("updated")?,
        get("can_stop")?
    ))
}

/// statements that update one record variable in place
fn record_stmts(stmts: &[Stmt], var: &mut Option<String>, out: &mut Vec<String>) -> R<Option<String>> {
    let mut tail = None;
    for (i, s) in stmts.iter().enumerate() {
        let ids = idents_of(s);
        let mentions_modelled = MODELLED_FIELDS.iter().any(|f| ids.contains(*f));
        let escapes = ["return", "break", "continue", "?"].iter().any(|k| ids.contains(*k));
        match s {
            Stmt::Local(l) => {
                let (name, init) = match (&l.pat, &l.init) {
                    (Pat::Ident(pi), Some(init)) => (pi.ident.to_string(), init),
                    (Pat::Type(pt), Some(init)) => match &*pt.pat {
                        Pat::Ident(pi) => (pi.ident.to_string(), init),
                        _ => return err(l, "unsupported let pattern"),
                    },
                    _ => return err(l, "unsupported let"),
                };
                match rexpr(&init.expr) {
                    Ok(v) if v == "RunReport_default" => {
                        *var = Some(name.clone());
                        out.push(format!("let {name} := {v} in"));
                    }
                    _ if !mentions_modelled && !escapes => out.push(format!("(* bookkeeping dropped: let {name} = .. *)")),
                    _ => return err(l, "unsupported let initialiser"),
                }
            }
            Stmt::Expr(e, semi) => {
                if semi.is_none() && i + 1 == stmts.len() {
                    tail = Some(rexpr(e)?);
                    continue;
                }
                if !mentions_modelled && !escapes {
                    out.push("(* bookkeeping on unmodelled fields dropped *)".into());
                    continue;
                }
                out.push(record_update(e)?);
            }
            Stmt::Macro(m) if is_log_macro(&m.mac) => {}
            _ => return err(s, "unsupported statement"),
        }
    }
    Ok(tail)
}

/// `x.f = e` / `x.f |= e` / `x.f &= e` / `x.f.extend(e)` / `x.f.push(e)`
fn record_update(e: &Expr) -> R<String> {
    fn target(e: &Expr) -> R<(String, String)> {
        if let Expr::Field(f) = e {
            if let (Expr::Path(p), syn::Member::Named(n)) = (&*f.base, &f.member) {
                if let Some(id) = p.path.get_ident() {
                    let n = n.to_string();
                    if MODELLED_FIELDS.contains(&n.as_str()) {
                        return Ok((id.to_string(), n));
                    }
                }
            }
        }
        err(e, "unsupported update target")
    }
    match e {
        Expr::Assign(a) => {
            let (x, f) = target(&a.left)?;
            Ok(format!("let {x} := set_{f} {x} ({}) in", rexpr(&a.right)?))
        }
        Expr::Binary(b) => {
            let (x, f) = target(&b.left)?;
            let op = match b.op {
                syn::BinOp::BitOrAssign(_) => "||",
                syn::BinOp::BitAndAssign(_) => "&&",
                _ => return err(e, "unsupported compound assignment"),
            };
            Ok(format!("let {x} := set_{f} {x} ({f} {x} {op} {}) in", rexpr(&b.right)?))
        }
        Expr::MethodCall(mc) if mc.args.len() == 1 => {
            let (x, f) = target(&mc.receiver)?;
            let arg = rexpr(&mc.args[0])?;
            match mc.method.to_string().as_str() {
                "extend" => Ok(format!("let {x} := set_{f} {x} ({f} {x} ++ {arg}) in")),
                "push" => Ok(format!("let {x} := set_{f} {x} ({f} {x} ++ [{arg}]) in")),
                m => err(e, &format!("unsupported method {m}")),
            }
        }
        _ => err(e, "unsupported statement on a modelled field"),
    }
}

fn report_fns(src: &str) -> R<String> {
    let file = syn::parse_file(src).map_err(|e| format!("parse error: {e}"))?;
    let mut out = String::new();
    out.push_str("Section ReportFns.\nContext {I : Type}.\n\n");
    out.push_str(&report_default(&file)?);
    // union
    let f = find_method(&file, "RunReport", None, "union")?;
    let params: Vec<String> = f.sig.inputs.iter().filter_map(|a| match a {
        syn::FnArg::Typed(pt) => match &*pt.pat {
            Pat::Ident(pi) => Some(pi.ident.to_string()),
            _ => None,
        },
        _ => None,
    }).collect();
    if params.len() != 1 || !matches!(f.sig.inputs.first(), Some(syn::FnArg::Receiver(r)) if r.mutability.is_some()) {
        return err(&f.sig, "RunReport::union is not (&mut self, other)");
    }
    let mut lines = vec![];
    let mut var = Some("self".to_string());
    let tail = record_stmts(&f.block.stmts, &mut var, &mut lines)?;
    if tail.is_some() {
        return err(&f.block, "RunReport::union returns a value");
    }
    out.push_str(&format!(
        "\nDefinition RunReport_union (self : RunReport I) ({} : RunReport I) : RunReport I :=\n{}\n  self.\n",
        params[0],
        lines.iter().map(|l| format!("  {l}")).collect::<Vec<_>>().join("\n")
    ));
    // singleton
    let f = find_method(&file, "RunReport", None, "singleton")?;
    let mut lines = vec![];
    let mut var = None;
    let tail = record_stmts(&f.block.stmts, &mut var, &mut lines)?;
    let iter_param = f.sig.inputs.iter().filter_map(|a| match a {
        syn::FnArg::Typed(pt) if pt.ty.to_token_stream().to_string().contains("IterationReport") => match &*pt.pat {
            Pat::Ident(pi) => Some(pi.ident.to_string()),
            _ => None,
        },
        _ => None,
    }).next().ok_or("RunReport::singleton has no IterationReport parameter")?;
    let tail = tail.ok_or("RunReport::singleton has no tail expression")?;
    if Some(&tail) != var.as_ref() {
        return err(&f.block, "RunReport::singleton does not return the report it builds");
    }
    out.push_str(&format!(
        "\nVariable changed : I -> bool.\n\nDefinition RunReport_singleton ({iter_param} : I) : RunReport I :=\n{}\n  {tail}.\nEnd ReportFns.\n\n",
        lines.iter().map(|l| format!("  {l}")).collect::<Vec<_>>().join("\n")
    ));
    Ok(out)
}

// ------------------------------------------------------------------------------------------
// run_rules / run_schedule / collect_rule_ids

#[derive(Clone)]
enum Frame<'a> {
    Rest(&'a [Stmt]),
    LoopBack(String),
    FnEnd,
}

struct Cx {
    /// the function being translated
    me: &'static str,
    /// loop-carried / returned state, in order: ["self", "report"] or ["ids"]
    state: Vec<(&'static str, &'static str)>,
    /// locals that only feed log output
    log_only: Vec<&'static str>,
    ret_ty: &'static str,
    tmp: usize,
}

impl Cx {
    fn state_tuple(&self) -> String {
        let v: Vec<&str> = self.state.iter().map(|(n, _)| *n).collect();
        if v.len() == 1 { v[0].to_string() } else { format!("({})", v.join(", ")) }
    }
    fn state_args(&self) -> String {
        self.state.iter().map(|(n, _)| *n).collect::<Vec<_>>().join(" ")
    }
    fn state_params(&self) -> String {
        self.state.iter().map(|(n, t)| format!("({n} : {t})")).collect::<Vec<_>>().join(" ")
    }

    fn finish(&mut self, frames: &[Frame<'_>], d: usize) -> R<String> {
        match frames.first() {
            None => Err("internal: empty frames".into()),
            Some(Frame::Rest(st)) => {
                let st: &[Stmt] = st;
                self.stmts(st, &frames[1..], d)
            }
            Some(Frame::LoopBack(call)) => Ok(format!("{}{}", ind(d), call)),
            Some(Frame::FnEnd) => Ok(format!("{}Ok {}", ind(d), self.state_tuple())),
        }
    }

    fn stmts(&mut self, stmts: &[Stmt], frames: &[Frame<'_>], d: usize) -> R<String> {
        let Some((s, rest)) = stmts.split_first() else {
            return self.finish(frames, d);
        };
        match s {
            Stmt::Macro(m) if is_log_macro(&m.mac) => self.stmts(rest, frames, d),
            Stmt::Local(l) => self.local(l, rest, frames, d),
            Stmt::Expr(e, semi) => self.expr_stmt(e, semi.is_some(), rest, frames, d),
            _ => err(s, "unsupported statement"),
        }
    }

    fn with_rest<'a>(rest: &'a [Stmt], frames: &[Frame<'a>]) -> Vec<Frame<'a>> {
        let mut fr = vec![];
        if !rest.is_empty() {
            fr.push(Frame::Rest(rest));
        }
        fr.extend_from_slice(frames);
        fr
    }

    /// `self.run_schedule(x)?` / `self.run_rules(span, x)` / `self.step_rules(x)?` / `collect_rule_ids(..)`
    fn stateful_call(&mut self, e: &Expr) -> R<Option<(String, bool)>> {
        let inner = match e {
            Expr::Try(t) => &*t.expr,
            other => other,
        };
        if let Expr::MethodCall(mc) = inner {
            if matches!(&*mc.receiver, Expr::Path(p) if p.path.is_ident("self")) {
                let args: R<Vec<String>> = mc.args.iter().filter(|a| !matches!(a, Expr::Path(p) if p.path.is_ident("span"))).map(|a| self.pure(a)).collect();
                let args = args?.join(" ");
                return Ok(match mc.method.to_string().as_str() {
                    "run_schedule" => Some((format!("run_schedule fuel self {args}"), true)),
                    "run_rules" => Some((format!("run_rules self {args}"), true)),
                    "step_rules" => Some((format!("step_rules self {args}"), false)),
                    _ => None,
                });
            }
        }
        Ok(None)
    }

    fn pure(&mut self, e: &Expr) -> R<String> {
        match e {
            Expr::Paren(p) => self.pure(&p.expr),
            Expr::Reference(r) => self.pure(&r.expr),
            Expr::Unary(u) if matches!(u.op, syn::UnOp::Deref(_)) => self.pure(&u.expr),
            Expr::Unary(u) if matches!(u.op, syn::UnOp::Not(_)) => Ok(format!("negb {}", self.pure(&u.expr)?)),
            Expr::Path(p) if p.path.get_ident().is_some() => Ok(p.path.get_ident().unwrap().to_string()),
            Expr::Field(f) => match &f.member {
                syn::Member::Named(n) if MODELLED_FIELDS.contains(&n.to_string().as_str()) => Ok(format!("{} {}", n, self.pure(&f.base)?)),
                _ => err(e, "unsupported field"),
            },
            Expr::Call(c) => match &*c.func {
                Expr::Path(p) if ["RunReport::default", "Default::default"].contains(&path_str(&p.path).as_str()) && c.args.is_empty() => Ok("RunReport_default".into()),
                _ => err(e, "unsupported call"),
            },
            _ => err(e, "unsupported expression"),
        }
    }

    fn local(&mut self, l: &syn::Local, rest: &[Stmt], frames: &[Frame<'_>], d: usize) -> R<String> {
        let init = l.init.as_ref().ok_or("let without initialiser")?;
        // let GenericRunConfig { ruleset, until } = config;
        if let Pat::Struct(ps) = &l.pat {
            let base = self.pure(&init.expr)?;
            let mut s = String::new();
            for fp in &ps.fields {
                let n = match &fp.member {
                    syn::Member::Named(n) => n.to_string(),
                    _ => return err(l, "unsupported struct pattern"),
                };
                s.push_str(&format!("{}let {n} := {n} {base} in\n", ind(d)));
            }
            return Ok(format!("{}{}", s, self.stmts(rest, frames, d)?));
        }
        let name = match &l.pat {
            Pat::Ident(pi) => pi.ident.to_string(),
            Pat::Type(pt) => match &*pt.pat {
                Pat::Ident(pi) => pi.ident.to_string(),
                _ => return err(l, "unsupported let pattern"),
            },
            _ => return err(l, "unsupported let pattern"),
        };
        if self.log_only.contains(&name.as_str()) {
            return self.stmts(rest, frames, d);
        }
        if let Some((call, is_res)) = self.stateful_call(&init.expr)? {
            let k = self.stmts(rest, frames, d)?;
            return Ok(if is_res {
                format!("{}bind ({call}) (fun '(self, {name}) =>\n{k})", ind(d))
            } else {
                format!("{}let '(self, {name}) := {call} in\n{k}", ind(d))
            });
        }
        let v = self.pure(&init.expr)?;
        let k = self.stmts(rest, frames, d)?;
        Ok(format!("{}let {name} := {v} in\n{k}", ind(d)))
    }

    fn cond(&mut self, e: &Expr) -> R<String> {
        // `let Some(x) = opt && self.check_facts(span, x).is_ok()`
        if let Expr::Binary(b) = e {
            if let (syn::BinOp::And(_), Expr::Let(l)) = (&b.op, &*b.left) {
                if let Pat::TupleStruct(ts) = &*l.pat {
                    if last_seg(&ts.path) == "Some" && ts.elems.len() == 1 {
                        if let Pat::Ident(x) = &ts.elems[0] {
                            let opt = self.pure(&l.expr)?;
                            let inner = self.cond(&b.right)?;
                            return Ok(format!("(match {opt} with Some {} => {inner} | None => false end)", x.ident));
                        }
                    }
                }
            }
        }
        if let Expr::MethodCall(ok) = e {
            if ok.method == "is_ok" {
                if let Expr::MethodCall(mc) = &*ok.receiver {
                    if mc.method == "check_facts" && matches!(&*mc.receiver, Expr::Path(p) if p.path.is_ident("self")) {
                        let args: R<Vec<String>> = mc.args.iter().filter(|a| !matches!(a, Expr::Path(p) if p.path.is_ident("span"))).map(|a| self.pure(a)).collect();
                        return Ok(format!("check_facts self {}", args?.join(" ")));
                    }
                }
            }
        }
        self.pure(e)
    }

    fn expr_stmt(&mut self, e: &Expr, has_semi: bool, rest: &[Stmt], frames: &[Frame<'_>], d: usize) -> R<String> {
        match e {
            Expr::Macro(m) if is_log_macro(&m.mac) => self.stmts(rest, frames, d),
            // i += 1 on a log-only counter
            Expr::Binary(b) if matches!(b.op, syn::BinOp::AddAssign(_)) && matches!(&*b.left, Expr::Path(p) if p.path.get_ident().map(|i| self.log_only.contains(&i.to_string().as_str())).unwrap_or(false)) => {
                self.stmts(rest, frames, d)
            }
            Expr::If(ife) => {
                // `if log_enabled!(..) { log.. }` and the NoSuchRuleset guard
                if let Expr::Macro(m) = &*ife.cond {
                    if last_seg(&m.mac.path) == "log_enabled" && ife.else_branch.is_none() && ife.then_branch.stmts.iter().all(|s| matches!(s, Stmt::Macro(m) if is_log_macro(&m.mac)) || matches!(s, Stmt::Expr(Expr::Macro(m), _) if is_log_macro(&m.mac))) {
                        return self.stmts(rest, frames, d);
                    }
                }
                let ct = ife.cond.to_token_stream().to_string().replace(' ', "");
                if ct.starts_with("!self.rulesets.contains_key(") && ife.else_branch.is_none() {
                    let bt = ife.then_branch.to_token_stream().to_string().replace(' ', "");
                    if bt.starts_with("{returnErr(Error::NoSuchRuleset(") {
                        let k = self.stmts(rest, frames, d)?;
                        return Ok(format!("{}(* error guard dropped: NoSuchRuleset (schedules are typechecked against the declared rulesets) *)\n{k}", ind(d)));
                    }
                }
                if ife.else_branch.is_some() {
                    return err(e, "if/else unsupported here");
                }
                let c = self.cond(&ife.cond)?;
                let fr = Self::with_rest(rest, frames);
                let t = self.stmts(&ife.then_branch.stmts, &fr, d + 1)?;
                let el = self.finish(&fr, d + 1)?;
                Ok(format!("{}if {c} then\n{t}\n{}else\n{el}", ind(d), ind(d)))
            }
            Expr::Break(b) if b.expr.is_none() && b.label.is_none() => {
                let pos = frames.iter().position(|f| matches!(f, Frame::LoopBack(_))).ok_or("break outside loop")?;
                self.finish(&frames[pos + 1..], d)
            }
            Expr::Return(r) => match &r.expr {
                Some(x) => self.ret_value(x, d),
                None => err(e, "bare return"),
            },
            Expr::Loop(l) => self.do_loop(LoopKind::Fuel, &l.body, rest, frames, d),
            Expr::ForLoop(fl) => {
                // for _i in 0..*limit
                if let Expr::Range(r) = &*fl.expr {
                    if let (Some(lo), Some(hi), syn::RangeLimits::HalfOpen(_)) = (&r.start, &r.end, &r.limits) {
                        if lo.to_token_stream().to_string() == "0" {
                            let hi = self.pure(hi)?;
                            let used = idents_of(&fl.body);
                            if let Pat::Ident(pi) = &*fl.pat {
                                if used.contains(&pi.ident.to_string()) {
                                    return err(fl, "the loop index is used in the body");
                                }
                            }
                            return self.do_loop(LoopKind::Range(hi), &fl.body, rest, frames, d);
                        }
                    }
                    return err(fl, "unsupported range");
                }
                // for x in xs / for (_, x) in xs.values()
                let var = match &*fl.pat {
                    Pat::Ident(pi) => pi.ident.to_string(),
                    Pat::Tuple(t) if t.elems.len() == 2 && matches!(t.elems[0], Pat::Wild(_)) => match &t.elems[1] {
                        Pat::Ident(pi) => pi.ident.to_string(),
                        _ => return err(fl, "unsupported for pattern"),
                    },
                    _ => return err(fl, "unsupported for pattern"),
                };
                let coll = match &*fl.expr {
                    Expr::MethodCall(mc) if mc.method == "values" && mc.args.is_empty() => self.pure(&mc.receiver)?,
                    other => self.pure(other)?,
                };
                self.do_loop(LoopKind::Each(var, coll), &fl.body, rest, frames, d)
            }
            Expr::Match(m) => {
                if !rest.is_empty() || !matches!(frames.first(), Some(Frame::FnEnd)) {
                    return err(e, "match is only supported in tail position");
                }
                self.do_match(m, d)
            }
            Expr::Block(b) => {
                let fr = Self::with_rest(rest, frames);
                self.stmts(&b.block.stmts, &fr, d)
            }
            // report.union(X);   ids.push(*id);   collect_rule_ids(a, b, ids);
            Expr::MethodCall(mc) if has_semi && mc.method == "union" && mc.args.len() == 1 => {
                let x = self.pure(&mc.receiver)?;
                if let Some((call, is_res)) = self.stateful_call(&mc.args[0])? {
                    self.tmp += 1;
                    let k = self.stmts(rest, frames, d)?;
                    return Ok(if is_res {
                        format!("{}bind ({call}) (fun '(self, tmp) =>\n{}let {x} := RunReport_union {x} tmp in\n{k})", ind(d), ind(d))
                    } else {
                        format!("{}let '(self, tmp) := {call} in\n{}let {x} := RunReport_union {x} tmp in\n{k}", ind(d), ind(d))
                    });
                }
                let a = self.pure(&mc.args[0])?;
                let k = self.stmts(rest, frames, d)?;
                Ok(format!("{}let {x} := RunReport_union {x} {a} in\n{k}", ind(d)))
            }
            Expr::MethodCall(mc) if has_semi && mc.method == "push" && mc.args.len() == 1 => {
                let x = self.pure(&mc.receiver)?;
                let a = self.pure(&mc.args[0])?;
                let k = self.stmts(rest, frames, d)?;
                Ok(format!("{}let {x} := {x} ++ [{a}] in\n{k}", ind(d)))
            }
            Expr::Call(c) if has_semi && matches!(&*c.func, Expr::Path(p) if p.path.is_ident(self.me)) => {
                let args: R<Vec<String>> = c.args.iter().map(|a| self.pure(a)).collect();
                let k = self.stmts(rest, frames, d)?;
                Ok(format!("{}bind ({} fuel {}) (fun {} =>\n{k})", ind(d), self.me, args?.join(" "), self.state_tuple()))
            }
            _ => {
                if !has_semi && rest.is_empty() && matches!(frames.first(), Some(Frame::FnEnd)) {
                    return self.ret_value(e, d);
                }
                err(e, "unsupported statement")
            }
        }
    }

    /// tail `Ok(report)` / `self.run_rules(span, config)`
    fn ret_value(&mut self, e: &Expr, d: usize) -> R<String> {
        if let Some((call, true)) = self.stateful_call(e)? {
            return Ok(format!("{}{call}", ind(d)));
        }
        if let Expr::Call(c) = e {
            if matches!(&*c.func, Expr::Path(p) if p.path.is_ident("Ok")) && c.args.len() == 1 {
                let v = self.pure(&c.args[0])?;
                if self.state.len() == 2 && v == self.state[1].0 {
                    return Ok(format!("{}Ok {}", ind(d), self.state_tuple()));
                }
            }
        }
        err(e, "unsupported return value")
    }

    fn do_loop(&mut self, kind: LoopKind, body: &Block, rest: &[Stmt], frames: &[Frame<'_>], d: usize) -> R<String> {
        let (fname, ctr, ctr_ty, init) = match &kind {
            LoopKind::Range(hi) => ("for_range", "n".to_string(), "nat".to_string(), hi.clone()),
            LoopKind::Fuel => ("loop", "gas".to_string(), "nat".to_string(), "fuel".to_string()),
            LoopKind::Each(_, coll) => ("for_each", "items".to_string(), "list _".to_string(), coll.clone()),
        };
        let call = format!("{fname} {ctr} {}", self.state_args());
        let mut fr = vec![Frame::LoopBack(call)];
        fr.extend(Self::with_rest(rest, frames));
        let body_txt = self.stmts(&body.stmts, &fr, d + 3)?;
        let after = self.finish(&fr[1..], 0)?;
        let (zero_pat, zero_val, succ_pat) = match &kind {
            LoopKind::Range(_) => ("O", after.trim().to_string(), format!("S {ctr}")),
            LoopKind::Fuel => ("O", "OutOfFuel".to_string(), format!("S {ctr}")),
            LoopKind::Each(x, _) => ("[]", after.trim().to_string(), format!("{x} :: {ctr}")),
        };
        Ok(format!(
            "{i}(fix {fname} ({ctr} : {ctr_ty}) {ps} {{struct {ctr}}} : {ret} :=\n{i}  match {ctr} with\n{i}  | {zero_pat} => {zero_val}\n{i}  | {succ_pat} =>\n{body_txt}\n{i}  end) {init} {args}",
            i = ind(d),
            ps = self.state_params(),
            ret = self.ret_ty,
            args = self.state_args()
        ))
    }

    fn do_match(&mut self, m: &syn::ExprMatch, d: usize) -> R<String> {
        // scrutinee: `sched` or `&rulesets[ruleset]`
        let (scrut, indexed) = match &*m.expr {
            Expr::Reference(r) => match &*r.expr {
                Expr::Index(ix) => (format!("assoc_get {} {}", self.pure(&ix.expr)?, self.pure(&ix.index)?), true),
                other => (self.pure(other)?, false),
            },
            other => (self.pure(other)?, false),
        };
        let mut s = format!("{}match {scrut} with\n", ind(d));
        if indexed {
            s.push_str(&format!("{}| None => Panic\n", ind(d)));
        }
        for arm in &m.arms {
            let (ctor, vars) = match &arm.pat {
                Pat::TupleStruct(ts) => {
                    let vars: Vec<String> = ts
                        .elems
                        .iter()
                        .filter_map(|p| match p {
                            Pat::Ident(pi) => Some(pi.ident.to_string()),
                            _ => None,
                        })
                        .filter(|v| v != "span" && v != "_span")
                        .collect();
                    (last_seg(&ts.path), vars)
                }
                _ => return err(arm, "unsupported match pattern"),
            };
            if arm.guard.is_some() {
                return err(arm, "match guard");
            }
            let pat = if indexed { format!("Some ({ctor} {})", vars.join(" ")) } else { format!("{ctor} {}", vars.join(" ")) };
            let body: Vec<Stmt> = match &*arm.body {
                Expr::Block(b) => b.block.stmts.clone(),
                other => vec![Stmt::Expr(other.clone(), None)],
            };
            let txt = self.stmts(&body, &[Frame::FnEnd], d + 1)?;
            s.push_str(&format!("{}| {pat} =>\n{txt}\n", ind(d)));
        }
        s.push_str(&format!("{}end", ind(d)));
        Ok(s)
    }
}

enum LoopKind {
    Range(String),
    Fuel,
    Each(String, String),
}

/// locals listed as log-only must not be read by anything but log macros and their own updates
fn check_log_only(f: &syn::ImplItemFn, names: &[&str]) -> R<()> {
    struct V<'n> {
        names: &'n [&'n str],
        bad: Option<String>,
    }
    impl<'ast, 'n> syn::visit::Visit<'ast> for V<'n> {
        fn visit_macro(&mut self, _m: &'ast syn::Macro) {}
        fn visit_local(&mut self, l: &'ast syn::Local) {
            if let Pat::Ident(pi) = &l.pat {
                if self.names.contains(&pi.ident.to_string().as_str()) {
                    return;
                }
            }
            syn::visit::visit_local(self, l);
        }
        fn visit_expr_binary(&mut self, b: &'ast syn::ExprBinary) {
            if matches!(b.op, syn::BinOp::AddAssign(_)) {
                if let Expr::Path(p) = &*b.left {
                    if p.path.get_ident().map(|i| self.names.contains(&i.to_string().as_str())).unwrap_or(false) {
                        return;
                    }
                }
            }
            syn::visit::visit_expr_binary(self, b);
        }
        fn visit_path(&mut self, p: &'ast syn::Path) {
            if let Some(i) = p.get_ident() {
                if self.names.contains(&i.to_string().as_str()) {
                    self.bad = Some(i.to_string());
                }
            }
        }
    }
    let mut v = V { names, bad: None };
    syn::visit::Visit::visit_block(&mut v, &f.block);
    match v.bad {
        Some(n) => Err(format!("local `{n}` was assumed to feed only log output but is read elsewhere")),
        None => Ok(()),
    }
}

fn sched_fns(src: &str) -> R<String> {
    let file = syn::parse_file(src).map_err(|e| format!("parse error: {e}"))?;
    let mut out = String::new();
    out.push_str("Section SchedFns.\nContext {St R F I : Type}.\nVariable step_rules : St -> R -> St * RunReport I.\nVariable check_facts : St -> F -> bool.\n\n");
    let res = "Res (St * RunReport I)";
    // run_rules
    let f = find_method(&file, "EGraph", None, "run_rules")?;
    let mut cx = Cx { me: "run_rules", state: vec![("self", "St"), ("report", "RunReport I")], log_only: vec![], ret_ty: res, tmp: 0 };
    let body = cx.stmts(&f.block.stmts, &[Frame::FnEnd], 1)?;
    out.push_str(&format!("Definition run_rules (self : St) (config : run_config R F) : {res} :=\n{body}.\n\n"));
    // run_schedule
    let f = find_method(&file, "EGraph", None, "run_schedule")?;
    check_log_only(&f, &["i"])?;
    let mut cx = Cx { me: "run_schedule", state: vec![("self", "St"), ("report", "RunReport I")], log_only: vec!["i"], ret_ty: res, tmp: 0 };
    let body = cx.stmts(&f.block.stmts, &[Frame::FnEnd], 1)?;
    out.push_str(&format!(
        "Fixpoint run_schedule (fuel : nat) (self : St) (sched : schedule R F) {{struct sched}} : {res} :=\n{body}.\nEnd SchedFns.\n\n"
    ));
    // collect_rule_ids (nested in step_rules)
    let f = find_method(&file, "EGraph", None, "step_rules")?;
    let inner = f
        .block
        .stmts
        .iter()
        .find_map(|s| match s {
            Stmt::Item(SynItem::Fn(g)) if g.sig.ident == "collect_rule_ids" => Some(g.clone()),
            _ => None,
        })
        .ok_or("collect_rule_ids not found in step_rules")?;
    let params: Vec<String> = inner.sig.inputs.iter().filter_map(|a| match a {
        syn::FnArg::Typed(pt) => match &*pt.pat {
            Pat::Ident(pi) => Some(pi.ident.to_string()),
            _ => None,
        },
        _ => None,
    }).collect();
    if params != ["ruleset", "rulesets", "ids"] {
        return Err(format!("collect_rule_ids has parameters {params:?}"));
    }
    // step_rules must call it on its own argument and the current table, then run exactly those ids
    let st = f.block.to_token_stream().to_string().replace(' ', "");
    if !st.contains("collect_rule_ids(ruleset,&self.rulesets,&mutrule_ids);") || !st.contains(".run_rules(&rule_ids,") {
        return Err("step_rules no longer resolves the ruleset through collect_rule_ids(ruleset, &self.rulesets, ..) at run time".into());
    }
    let mut cx = Cx { me: "collect_rule_ids", state: vec![("ids", "list nat")], log_only: vec![], ret_ty: "Res (list nat)", tmp: 0 };
    let body = cx.stmts(&inner.block.stmts, &[Frame::FnEnd], 2)?;
    out.push_str(&format!(
        "Fixpoint collect_rule_ids (fuel : nat) (ruleset : nat) (rulesets : list (nat * ruleset_def)) (ids : list nat) {{struct fuel}} : Res (list nat) :=\n  match fuel with\n  | O => OutOfFuel\n  | S fuel =>\n{body}\n  end.\n"
    ));
    Ok(out)
}

pub fn generate(repo: &std::path::Path) -> R<String> {
    let rep = std::fs::read_to_string(repo.join("egglog-reports/src/lib.rs")).map_err(|e| format!("egglog-reports/src/lib.rs: {e}"))?;
    let lib = std::fs::read_to_string(repo.join("src/lib.rs")).map_err(|e| format!("src/lib.rs: {e}"))?;
    let mut out = String::new();
    out.push_str("(* GENERATED by /verif/translator (sched.rs) from /repo/src/lib.rs and /repo/egglog-reports/src/lib.rs -- do not edit *)\n");
    out.push_str("From Coq Require Import List Arith PeanoNat Bool.\nImport ListNotations.\nRequire Import Verif.Base.Res Verif.Sched.Syntax.\n\n");
    out.push_str(&report_fns(&rep)?);
    out.push_str(&sched_fns(&lib)?);
    Ok(out)
}
