(** Result monad used by translated (Tier-A) code.
    [Ok v]      : normal return
    [Panic]     : the Rust code would panic here (index out of bounds, unwrap on None, ...)
    [OutOfFuel] : the explicit recursion fuel ran out (only loops consume fuel)
    Theorems about translated code state [= Ok _], so neither a panic nor fuel exhaustion can
    make them true by accident. *)
From Coq Require Import List Arith Lia PeanoNat.
Import ListNotations.

Inductive Res (A : Type) : Type :=
| Ok (a : A)
| Panic
| OutOfFuel.
Arguments Ok {A} a.
Arguments Panic {A}.
Arguments OutOfFuel {A}.

Definition bind {A B} (r : Res A) (k : A -> Res B) : Res B :=
  match r with
  | Ok a => k a
  | Panic => Panic
  | OutOfFuel => OutOfFuel
  end.

(** [v[i]] : panics when out of bounds *)
Definition idx {A} (l : list A) (i : nat) : Res A :=
  match nth_error l i with
  | Some a => Ok a
  | None => Panic
  end.

Fixpoint set_nth {A} (l : list A) (i : nat) (v : A) : list A :=
  match l, i with
  | [], _ => []
  | _ :: tl, O => v :: tl
  | h :: tl, S i' => h :: set_nth tl i' v
  end.

(** [v[i] = x] : panics when out of bounds *)
Definition upd {A} (l : list A) (i : nat) (v : A) : Res (list A) :=
  if i <? length l then Ok (set_nth l i v) else Panic.

(** [a..=b] *)
Definition range_incl (a b : nat) : list nat := seq a (S b - a).
(** [a..b] *)
Definition range_excl (a b : nat) : list nat := seq a (b - a).

Fixpoint mapi_from {A B} (f : nat -> A -> B) (i : nat) (l : list A) : list B :=
  match l with
  | [] => []
  | a :: tl => f i a :: mapi_from f (S i) tl
  end.
Definition mapi {A B} (f : nat -> A -> B) (l : list A) : list B := mapi_from f 0 l.

(* ---- basic facts ---- *)

Lemma length_set_nth {A} (l : list A) : forall i v, length (set_nth l i v) = length l.
Proof. induction l as [|h tl IH]; intros [|i] v; simpl; auto. Qed.

Lemma nth_set_nth {A} (l : list A) : forall i v x d, i < length l ->
  nth x (set_nth l i v) d = if Nat.eqb x i then v else nth x l d.
Proof.
  induction l as [|h tl IH]; intros i v x d Hi; simpl in Hi; [lia|].
  destruct i as [|i]; destruct x as [|x]; simpl; auto.
  apply IH; lia.
Qed.

Lemma idx_ok {A} (l : list A) i d : i < length l -> idx l i = Ok (nth i l d).
Proof.
  intros H. unfold idx. destruct (nth_error l i) eqn:E.
  - f_equal. symmetry. apply nth_error_nth. exact E.
  - apply nth_error_None in E. lia.
Qed.

Lemma idx_panic {A} (l : list A) i : length l <= i -> idx l i = Panic.
Proof. intros H. unfold idx. apply nth_error_None in H. rewrite H. reflexivity. Qed.

Lemma upd_ok {A} (l : list A) i v : i < length l -> upd l i v = Ok (set_nth l i v).
Proof. intros H. unfold upd. apply Nat.ltb_lt in H. rewrite H. reflexivity. Qed.

Lemma length_mapi_from {A B} (f : nat -> A -> B) l : forall i, length (mapi_from f i l) = length l.
Proof. induction l; simpl; auto. Qed.

Lemma nth_mapi_from {A B} (f : nat -> A -> B) l : forall i x d d', x < length l ->
  nth x (mapi_from f i l) d = f (i + x) (nth x l d').
Proof.
  induction l as [|a tl IH]; intros i x d d' Hx; simpl in Hx; [lia|].
  destruct x as [|x]; simpl.
  - f_equal; lia.
  - rewrite (IH (S i) x d d') by lia. f_equal; lia.
Qed.
