"""C04 configuration for bin/check."""

CFG = {'assumptions': ['containers are not modelled here (C14): container canonicity / hash-consing and the children of '
                 'container primitive nodes in serialize are outside the Egg model',
                 'serialize model abstracts the id strings (class "sort-rep", node "function-off-name" / '
                 '"primitive-class" / "dummy-class") into constructors; let-bindings (internal_let functions, the '
                 '"let" class data), costs and root_eclasses are not modelled',
                 'relations are constructors of a hidden eq-sort in the engine (their nodes sit in eq-classes of that '
                 'sort); the Egg session model keeps relation outputs as VInt 0, so the serialize model is tied on the '
                 'REAL dump (h_serialize), not through the session model'],
 'corr_is_violation': True,
 'harness': [{'bin': 'h_egg', 'extra': ['--prop', 'C04'], 'name': 'h_egg', 'prefix': 'cases_egg'},
             {'bin': 'h_serialize', 'extra': [], 'name': 'h_serialize', 'prefix': 'cases_ser'}],
 'link_only': "the same invariant evaluated on the REAL engine's dump after every command including failed ones (rule "
              'panic, :no-merge conflict, failing primitive) via hook H0 (canonical id accessor); h_serialize: after '
              'every command of generated sessions (all generator biases, failing commands included) the real '
              'EGraph::serialize output (default config, and random max_functions / max_calls_per_function for a third '
              'of the states) is compared by the kernel with the Gallina model run on the real read-API dump + H0 '
              'canonical map (whole node map in IndexMap order incl. rotation-chosen child ids and dummy nodes, class '
              'data, truncated / discarded lists), plus the predicate twin on the implementation (nodes = rows, class '
              '= canonical class of output, children exist and sit in the canonical class of the argument, subsumed '
              'flags, one class <-> one output value, class data present); NOT checked anywhere: which commands of '
              'run_command flush/rebuild before returning is only observed through the twin (no Tier-A inventory of '
              'the command glue yet); container values inside serialize',
 'model_targets': ['Egg/Rules.vo', 'Egg/Serialize.vo'],
 'proof_targets': ['Props/C04.vo'],
 'theorem_backed': 'c04_inv_reachable: after every command of every history the model state is canonical (all stored '
                   'ids are union-find roots), functional (keys distinct), has no two congruent rows; eval is '
                   'evaluation modulo the union-find; c04_x_inv_reachable: for EVERY program of the rule interpreter '
                   'over ANY signature (lattice functions, relations, :no-merge, subsume, delete, panic, ungrounded '
                   'actions) every state visited - error point included - is canonical and functional; '
                   'c04_x_no_model_error (rebuild fuel suffices on mixed signatures); c04_serialize_agrees: at every '
                   'visited state (error points included) the model of EGraph::serialize (default config) applied to '
                   'the state has exactly the live rows as function nodes, each with the op / subsumed flag of its row '
                   'and the e-class of its output, every child is a node present in the graph whose e-class is the '
                   'canonical class of the argument, canonicalisation is the identity on stored ids (class ids = '
                   'stored ids), and two nodes share an e-class iff plain key lookups (the read API) return the same '
                   'value; c04_serialize_nodes_are_rows / c04_serialize_rows_are_nodes / c04_serialize_leaf_class hold '
                   'for the serialisation of ANY dump (no invariant needed), dummy nodes and node rotation included',
 'tier_a': ['UFSeq', 'MergeArms', 'BridgeFns'],
 'trusted': ['translator /verif/translator: gen/UFSeq.v (union-find), gen/MergeArms.v (UnionId=min, Old, New), '
             'gen/BridgeFns.v (combine_subsumed) are regenerated from the source on every run and used by Egg/Model.v',
             'hand-written model coq/Egg/Model.v + Egg/Rules.v (naive matching, term-level commands) tied to the '
             'engine by the correspondence check h_egg (observations after every command: class vector of probe terms '
             'up to depth 3, table sizes, subsumed counts, int-valued probes)',
             'hand-written model coq/Egg/Serialize.v of src/serialize.rs:125-398 tied to the engine by h_serialize '
             '(kernel-evaluated cases_ser_*.v on real dumps)']}
