(** C15 — proofs about the lexer / reader / literal printer of Sexp.v. *)
From Coq Require Import List NArith ZArith Bool Lia.
From Coq Require Decimal DecimalZ DecimalPos.
Import ListNotations.
Require Import Verif.Base.Cases Verif.Syntax.Sexp.
Local Open Scope N_scope.

(** * strings *)
Lemma str_eqb_eq : forall a b, str_eqb a b = true <-> a = b.
Proof.
  unfold str_eqb. induction a as [|x a IH]; destruct b as [|y b]; simpl; split; intro H; try discriminate; auto.
  - apply andb_true_iff in H. destruct H as [H1 H2]. apply N.eqb_eq in H1. apply IH in H2. congruence.
  - inversion H; subst. rewrite N.eqb_refl. simpl. apply IH. reflexivity.
Qed.
Lemma str_eqb_refl : forall a, str_eqb a a = true.
Proof. intro a. apply str_eqb_eq. reflexivity. Qed.
Lemma str_eqb_neq : forall a b, a <> b -> str_eqb a b = false.
Proof. intros a b H. destruct (str_eqb a b) eqn:E; auto. apply str_eqb_eq in E. contradiction. Qed.

(** * character classes *)
Definition ws_str (w : str) : Prop := forallb is_ws w = true.
Definition tokchars (a : str) : Prop := forallb (fun c => negb (is_delim c)) a = true.
(** what may follow a `Token::Other` so that it ends where we think it ends *)
Definition follow_ok (rest : str) : Prop :=
  match rest with [] => True | c :: _ => is_delim c = true end.
(** digits, minus, dot: all that `Display` for i64 and (finite) f64 ever emits *)
Definition is_num_char (c : N) : bool := ((48 <=? c) && (c <=? 57)) || (c =? 45) || (c =? 46).
Definition numchars (a : str) : Prop := forall c, In c a -> is_num_char c = true.
(** a string that is lexed as one `Token::Other` *)
Definition tok_ok (a : str) : Prop := a <> [] /\ tokchars a /\ hd 0 a <> c_quote.

Lemma is_ws_spec : forall c, is_ws c = true -> (9 <= c <= 13) \/ c = 32 \/ 133 <= c.
Proof.
  intros c H. unfold is_ws in H.
  rewrite ?orb_true_iff, ?andb_true_iff, ?N.eqb_eq, ?N.leb_le in H. lia.
Qed.
Lemma is_delim_spec : forall c, is_delim c = true -> (9 <= c <= 13) \/ c = 32 \/ 133 <= c \/ c = 59 \/ c = 40 \/ c = 41.
Proof.
  intros c H. unfold is_delim, c_semi, c_lp, c_rp in H.
  rewrite ?orb_true_iff, ?N.eqb_eq in H.
  destruct H as [[[H|H]|H]|H]; try lia. apply is_ws_spec in H. lia.
Qed.
Lemma is_ws_delim : forall c, is_ws c = true -> is_delim c = true.
Proof. intros c H. unfold is_delim. rewrite H. reflexivity. Qed.
Lemma num_char_not_delim : forall c, is_num_char c = true -> is_delim c = false.
Proof.
  intros c H. destruct (is_delim c) eqn:E; auto. apply is_delim_spec in E.
  unfold is_num_char in H. rewrite ?orb_true_iff, ?andb_true_iff, ?N.eqb_eq, ?N.leb_le in H. lia.
Qed.
Lemma num_char_spec : forall c, is_num_char c = true -> (48 <= c <= 57) \/ c = 45 \/ c = 46.
Proof.
  intros c H. unfold is_num_char in H. rewrite ?orb_true_iff, ?andb_true_iff, ?N.eqb_eq, ?N.leb_le in H. lia.
Qed.

Lemma numchars_tok_ok : forall a, a <> [] -> numchars a -> tok_ok a.
Proof.
  intros a Hne Hn. split; [assumption|]. split.
  - unfold tokchars. apply forallb_forall. intros c Hc. rewrite (num_char_not_delim c (Hn c Hc)). reflexivity.
  - destruct a as [|c a]; [congruence|]. simpl. intro E. specialize (Hn c (or_introl eq_refl)).
    apply num_char_spec in Hn. unfold c_quote in E. lia.
Qed.

(** a string all of whose characters satisfy [is_num_char] differs from any string with a letter *)
Lemma numchars_neq : forall a k c, numchars a -> In c k -> is_num_char c = false -> a <> k.
Proof. intros a k c Hn Hin Hc E. subst. rewrite (Hn c Hin) in Hc. discriminate. Qed.

(** * whitespace skipping *)
Lemma skip_ws_idem : forall s inc, skip_ws false (skip_ws inc s) = skip_ws inc s.
Proof.
  induction s as [|c tl IH]; intro inc; simpl; auto.
  destruct (c =? c_semi) eqn:E1; auto.
  destruct (c =? c_nl) eqn:E2; auto.
  destruct (is_ws c) eqn:E3; auto.
  destruct inc; auto.
  simpl. rewrite E1, E2, E3. reflexivity.
Qed.

Lemma skip_ws_ws : forall w s, ws_str w -> skip_ws false (w ++ s) = skip_ws false s.
Proof.
  induction w as [|c w IH]; intros s H; simpl; auto.
  unfold ws_str in H. simpl in H. apply andb_true_iff in H. destruct H as [Hc Hw].
  assert (c =? c_semi = false) as E1.
  { apply N.eqb_neq. intro E. subst. discriminate. }
  rewrite E1, Hc. destruct (c =? c_nl); apply IH; assumption.
Qed.

Lemma skip_ws_tok : forall c tl, is_delim c = false -> skip_ws false (c :: tl) = c :: tl.
Proof.
  intros c tl H. unfold is_delim in H. rewrite !orb_false_iff in H.
  destruct H as [[[Hw Hs] _] _]. simpl. rewrite Hs.
  destruct (c =? c_nl) eqn:E.
  - apply N.eqb_eq in E. subst. discriminate.
  - rewrite Hw. reflexivity.
Qed.

(** * tokens *)
Lemma span_other_app : forall a rest, tokchars a -> follow_ok rest -> span_other (a ++ rest) = (a, rest).
Proof.
  induction a as [|c a IH]; intros rest Ha Hr.
  - simpl. destruct rest as [|c r]; simpl; auto. simpl in Hr. rewrite Hr. reflexivity.
  - unfold tokchars in Ha. simpl in Ha. apply andb_true_iff in Ha. destruct Ha as [Hc Ha].
    apply negb_true_iff in Hc. simpl. rewrite Hc. rewrite (IH rest Ha Hr). reflexivity.
Qed.

(** the core string lemma: lexing the escaped text of ANY sequence of characters gives it back *)
Lemma lex_string_escape : forall s rest, lex_string false (escape s ++ c_quote :: rest) = POk (s, rest).
Proof.
  induction s as [|c s IH]; intro rest.
  - reflexivity.
  - simpl. destruct (c =? c_bs) eqn:E1; [|destruct (c =? c_quote) eqn:E2]; simpl.
    + apply N.eqb_eq in E1. subst c. simpl. rewrite IH. reflexivity.
    + apply N.eqb_eq in E2. subst c. simpl. rewrite IH. reflexivity.
    + rewrite E2, E1. rewrite IH. reflexivity.
Qed.

Definition no_special (m : str) : Prop :=
  forallb (fun c => negb ((c =? c_bs) || (c =? c_quote))) m = true.
Lemma escape_no_special : forall m, no_special m -> escape m = m.
Proof.
  induction m as [|c m IH]; intro H; auto.
  unfold no_special in H. simpl in H. apply andb_true_iff in H. destruct H as [Hc Hm].
  apply negb_true_iff in Hc. simpl. rewrite Hc. rewrite (IH Hm). reflexivity.
Qed.

Lemma nt_open : forall s, next_token (c_lp :: s) = POk (TOpen, skip_ws false s).
Proof. reflexivity. Qed.
Lemma nt_close : forall s, next_token (c_rp :: s) = POk (TClose, skip_ws false s).
Proof. reflexivity. Qed.
Lemma nt_string : forall m rest,
  next_token (c_quote :: escape m ++ c_quote :: rest) = POk (TString m, skip_ws false rest).
Proof.
  intros. unfold next_token. change (skip_ws false (c_quote :: escape m ++ c_quote :: rest))
    with (c_quote :: escape m ++ c_quote :: rest).
  cbv beta iota. change (c_quote =? c_lp) with false. change (c_quote =? c_rp) with false.
  change (c_quote =? c_quote) with true. cbv iota. rewrite lex_string_escape. reflexivity.
Qed.
Lemma nt_other : forall a rest, tok_ok a -> follow_ok rest ->
  next_token (a ++ rest) = POk (TOther a, skip_ws false rest).
Proof.
  intros a rest (Hne & Ht & Hq) Hr. destruct a as [|c a]; [congruence|].
  unfold tokchars in Ht. simpl in Ht. apply andb_true_iff in Ht. destruct Ht as [Hc Ha].
  apply negb_true_iff in Hc. simpl in Hq.
  unfold next_token. simpl app. rewrite (skip_ws_tok c _ Hc).
  assert (c =? c_lp = false) as E1.
  { unfold is_delim in Hc. rewrite !orb_false_iff in Hc. tauto. }
  assert (c =? c_rp = false) as E2.
  { unfold is_delim in Hc. rewrite !orb_false_iff in Hc. tauto. }
  assert (c =? c_quote = false) as E3 by (apply N.eqb_neq; assumption).
  rewrite E1, E2, E3. rewrite (span_other_app a rest Ha Hr). reflexivity.
Qed.

(** * integers *)
Lemma uint_chars_num : forall u, numchars (uint_chars u).
Proof.
  induction u; intros c Hc; simpl in Hc; try contradiction;
    (destruct Hc as [Hc|Hc]; [subst; reflexivity | apply IHu; assumption]).
Qed.
Lemma chars_uint_chars : forall u, chars_uint (uint_chars u) = Some u.
Proof. induction u; simpl; try rewrite IHu; reflexivity. Qed.
Lemma uint_chars_nonnil : forall u, u <> Decimal.Nil -> exists c tl, uint_chars u = c :: tl /\ 48 <= c <= 57.
Proof. intros u H. destruct u; try congruence; simpl; eexists; eexists; split; try reflexivity; lia. Qed.

Lemma print_int_num : forall z, numchars (print_int z).
Proof.
  intros z c Hc. unfold print_int in Hc. destruct (Z.to_int z).
  - apply uint_chars_num in Hc. assumption.
  - destruct Hc as [Hc|Hc]; [subst; reflexivity | apply uint_chars_num in Hc; assumption].
Qed.
Lemma print_int_nonempty : forall z, print_int z <> [].
Proof.
  intros z. unfold print_int. destruct z; simpl; try discriminate.
  destruct (uint_chars_nonnil _ (DecimalPos.Unsigned.to_uint_nonnil p)) as (c & tl & E & _).
  rewrite E. discriminate.
Qed.

Lemma parse_i64_digits : forall u, u <> Decimal.Nil ->
  in_i64 (Z.of_N (N.of_uint u)) = true ->
  parse_i64 (uint_chars u) = Some (Z.of_N (N.of_uint u)).
Proof.
  intros u Hu Hr. destruct (uint_chars_nonnil u Hu) as (c & tl & E & Hc).
  unfold parse_i64. rewrite E.
  assert (c =? c_minus = false) as E1 by (apply N.eqb_neq; unfold c_minus; lia).
  assert (c =? c_plus = false) as E2 by (apply N.eqb_neq; unfold c_plus; lia).
  rewrite E1, E2. rewrite <- E. rewrite chars_uint_chars. rewrite Hr. reflexivity.
Qed.

Lemma parse_print_int : forall z, in_i64 z = true -> parse_i64 (print_int z) = Some z.
Proof.
  intros z Hz. unfold print_int. destruct z as [|p|p]; simpl Z.to_int; cbv iota.
  - reflexivity.
  - pose proof (DecimalPos.Unsigned.of_to p) as E.
    assert (Z.of_N (N.of_uint (Pos.to_uint p)) = Z.pos p) as E'.
    { unfold N.of_uint. rewrite E. reflexivity. }
    rewrite parse_i64_digits; [rewrite E'; reflexivity | apply DecimalPos.Unsigned.to_uint_nonnil | rewrite E'; assumption].
  - pose proof (DecimalPos.Unsigned.of_to p) as E.
    assert (Z.of_N (N.of_uint (Pos.to_uint p)) = Z.pos p) as E'.
    { unfold N.of_uint. rewrite E. reflexivity. }
    destruct (uint_chars_nonnil _ (DecimalPos.Unsigned.to_uint_nonnil p)) as (c & tl & Ec & Hc).
    unfold parse_i64. change (c_minus =? c_minus) with true. cbv iota.
    rewrite Ec. rewrite <- Ec. rewrite chars_uint_chars. rewrite E'.
    change (- Z.pos p)%Z with (Z.neg p). rewrite Hz. reflexivity.
Qed.

(** a string ending in ".0" never parses as an i64 *)
Lemma chars_uint_dot : forall a, chars_uint (a ++ k_dot0) = None.
Proof. induction a as [|c a IH]; simpl; [reflexivity | rewrite IH; reflexivity]. Qed.
Lemma parse_i64_dot0 : forall s, parse_i64 (s ++ k_dot0) = None.
Proof.
  intro s. unfold parse_i64. destruct s as [|c s].
  - reflexivity.
  - change ((c :: s) ++ k_dot0) with (c :: (s ++ k_dot0)). cbv iota beta.
    change (chars_uint (c :: s ++ k_dot0)) with (chars_uint ((c :: s) ++ k_dot0)).
    rewrite !chars_uint_dot.
    destruct (c =? c_minus); [|destruct (c =? c_plus)]; try reflexivity;
      destruct (s ++ k_dot0); reflexivity.
Qed.

(** * literals and the reader, relative to the f64 oracle *)

(** bit pattern of a finite f64 *)
Definition finite_bits (x : Z) : Prop :=
  (0 <= x < 2 ^ 64)%Z /\ Z.land (Z.shiftr x 52) 2047 <> 2047%Z.

(** induction principle for layouts (nested through the item list) *)
Section LsexpInd.
  Variable P : lsexp -> Prop.
  Hypothesis HLit : forall l, P (LLit l).
  Hypothesis HAtom : forall a, P (LAtom a).
  Hypothesis HList : forall items cw, Forall (fun p => P (snd p)) items -> P (LList items cw).
  Fixpoint lsexp_ind2 (l : lsexp) : P l :=
    match l with
    | LLit x => HLit x
    | LAtom a => HAtom a
    | LList items cw =>
        HList items cw
          ((fix go (items : list (str * lsexp)) : Forall (fun p => P (snd p)) items :=
              match items with
              | [] => Forall_nil _
              | p :: tl => Forall_cons p (lsexp_ind2 (snd p)) (go tl)
              end) items)
    end.
End LsexpInd.

Fixpoint items_text (fmt_f64 : Z -> str) (items : list (str * lsexp)) : str :=
  match items with
  | [] => []
  | (w, x) :: tl => w ++ text fmt_f64 x ++ items_text fmt_f64 tl
  end.
Lemma text_list : forall fmt items cw,
  text fmt (LList items cw) = c_lp :: items_text fmt items ++ cw ++ [c_rp].
Proof.
  intros. simpl. f_equal. f_equal.
  induction items as [|[w x] tl IH]; simpl; auto. rewrite IH. reflexivity.
Qed.

Fixpoint ntok (l : lsexp) : nat :=
  match l with
  | LList items _ => S ((fix go (items : list (str * lsexp)) : nat :=
                           match items with [] => O | p :: tl => (ntok (snd p) + go tl)%nat end) items + 1)%nat
  | _ => 1%nat
  end.
Fixpoint items_ntok (items : list (str * lsexp)) : nat :=
  match items with [] => O | p :: tl => (ntok (snd p) + items_ntok tl)%nat end.
Lemma ntok_list : forall items cw, ntok (LList items cw) = S (items_ntok items + 1)%nat.
Proof.
  intros. simpl. induction items as [|p tl IH]; simpl; [reflexivity|]. simpl in IH. lia.
Qed.

Section WithOracle.
  Variable fmt_f64 : Z -> str.
  Variable parse_f64 : str -> option fl.

  (** The hypotheses on Rust's shortest-round-trip f64 formatting and its parser (tested on the
      real functions by the harness: all exponents, special values, 10^5..10^6 random patterns):
      `to_string` of a finite value is a non-empty string of digits, '-' and '.', and the
      literal printed for it parses back to the same bits. *)
  Hypothesis fmt_chars : forall x, finite_bits x -> numchars (fmt_f64 x).
  Hypothesis fmt_nonempty : forall x, finite_bits x -> fmt_f64 x <> [].
  Hypothesis parse_fmt : forall x, finite_bits x ->
    parse_f64 (print_float fmt_f64 (FFin x)) = Some (FFin x).

  Notation classify := (classify parse_f64).
  Notation read_loop := (read_loop parse_f64).
  Notation text := (text fmt_f64).
  Notation print_lit := (print_lit fmt_f64).

  (** well-formed literals: the ones the lexer can produce *)
  Definition wf_lit (l : lit) : Prop :=
    match l with
    | LInt z => in_i64 z = true
    | LFloat (FFin x) => finite_bits x
    | LUnit => False   (* the reader yields the empty list for "()" *)
    | _ => True
    end.

  (** well-formed symbols: non-empty, no delimiter, no leading quote, and not lexed as a literal.
      [read_atoms_wf] below shows every atom the reader returns satisfies this. *)
  Definition wf_atom (a : str) : Prop := tok_ok a /\ classify a = SAtom a.

  Lemma numchars_not_kw : forall a, numchars a ->
    str_eqb a k_true = false /\ str_eqb a k_false = false /\ str_eqb a k_NaN = false
    /\ str_eqb a k_inf = false /\ str_eqb a k_ninf = false.
  Proof.
    intros a H. repeat split; apply str_eqb_neq.
    - apply (numchars_neq a k_true 116 H); [simpl; tauto | reflexivity].
    - apply (numchars_neq a k_false 102 H); [simpl; tauto | reflexivity].
    - apply (numchars_neq a k_NaN 78 H); [simpl; tauto | reflexivity].
    - apply (numchars_neq a k_inf 105 H); [simpl; tauto | reflexivity].
    - apply (numchars_neq a k_ninf 105 H); [simpl; tauto | reflexivity].
  Qed.

  Lemma classify_int : forall z, in_i64 z = true -> classify (print_int z) = SLit (LInt z).
  Proof.
    intros z Hz. unfold Sexp.classify.
    destruct (numchars_not_kw _ (print_int_num z)) as (E1 & E2 & _).
    rewrite E1, E2, (parse_print_int z Hz). reflexivity.
  Qed.

  Lemma print_float_num : forall x, finite_bits x -> numchars (print_float fmt_f64 (FFin x)).
  Proof.
    intros x Hx c Hc. simpl in Hc. destruct (parse_i64 (fmt_f64 x)).
    - apply in_app_or in Hc. destruct Hc as [Hc|Hc]; [apply (fmt_chars x Hx c Hc)|].
      simpl in Hc. destruct Hc as [Hc|[Hc|Hc]]; subst; try reflexivity; contradiction.
    - apply (fmt_chars x Hx c Hc).
  Qed.
  Lemma print_float_nonempty : forall x, finite_bits x -> print_float fmt_f64 (FFin x) <> [].
  Proof.
    intros x Hx. simpl. pose proof (fmt_nonempty x Hx). destruct (fmt_f64 x); [congruence|].
    destruct (parse_i64 (n :: s)); discriminate.
  Qed.
  Lemma print_float_not_int : forall x, parse_i64 (print_float fmt_f64 (FFin x)) = None.
  Proof.
    intros x. simpl. destruct (parse_i64 (fmt_f64 x)) eqn:E; [apply parse_i64_dot0 | assumption].
  Qed.

  Lemma classify_float : forall x, finite_bits x ->
    classify (print_float fmt_f64 (FFin x)) = SLit (LFloat (FFin x)).
  Proof.
    intros x Hx. unfold Sexp.classify.
    destruct (numchars_not_kw _ (print_float_num x Hx)) as (E1 & E2 & E3 & E4 & E5).
    rewrite E1, E2, (print_float_not_int x), E3, E4, E5, (parse_fmt x Hx). reflexivity.
  Qed.

  (** every non-string, non-unit literal prints as one `Token::Other` that classifies back *)
  Lemma lit_other : forall l, wf_lit l -> (forall s, l <> LStr s) ->
    tok_ok (print_lit l) /\ classify (print_lit l) = SLit l.
  Proof.
    intros l Hwf Hs. destruct l as [z|f|s|b|]; simpl in Hwf.
    - split; [apply numchars_tok_ok; [apply print_int_nonempty | apply print_int_num] | apply classify_int; assumption].
    - destruct f as [| | |x].
      + split; [repeat split; try discriminate | reflexivity].
      + split; [repeat split; try discriminate | reflexivity].
      + split; [repeat split; try discriminate | reflexivity].
      + split; [apply numchars_tok_ok; [apply print_float_nonempty | apply print_float_num]; assumption
               | apply classify_float; assumption].
    - exfalso. apply (Hs s). reflexivity.
    - destruct b; (split; [repeat split; try discriminate | reflexivity]).
    - contradiction.
  Qed.

  (** well-formed layouts: blanks are blanks, consecutive items are separated *)
  Fixpoint wf_l (l : lsexp) : Prop :=
    match l with
    | LLit x => wf_lit x
    | LAtom a => wf_atom a
    | LList items cw =>
        ws_str cw /\
        (fix go (first : bool) (items : list (str * lsexp)) : Prop :=
           match items with
           | [] => True
           | (w, x) :: tl => ws_str w /\ (if first then True else w <> []) /\ wf_l x /\ go false tl
           end) true items
    end.
  Fixpoint wf_items (first : bool) (items : list (str * lsexp)) : Prop :=
    match items with
    | [] => True
    | (w, x) :: tl => ws_str w /\ (if first then True else w <> []) /\ wf_l x /\ wf_items false tl
    end.
  Lemma wf_l_list : forall items cw, wf_l (LList items cw) <-> ws_str cw /\ wf_items true items.
  Proof.
    intros. simpl. apply and_iff_compat_l. generalize true.
    induction items as [|[w x] tl IH]; intro b; simpl; [tauto|]. rewrite (IH false). tauto.
  Qed.

  Definition push_k (fuel : nat) (v : sexp) (stack : list (list sexp)) (rest : str) : pres (sexp * str) :=
    match stack with
    | [] => POk (v, rest)
    | l :: st => read_loop fuel ((v :: l) :: st) rest
    end.

  Lemma read_loop_skip : forall fuel stack s, read_loop fuel stack (skip_ws false s) = read_loop fuel stack s.
  Proof.
    intros. destruct fuel; [reflexivity|]. simpl. unfold next_token. rewrite skip_ws_idem. reflexivity.
  Qed.

  Lemma read_other : forall a v fuel stack rest, tok_ok a -> classify a = v -> follow_ok rest ->
    read_loop (S fuel) stack (a ++ rest) = push_k fuel v stack (skip_ws false rest).
  Proof.
    intros a v fuel stack rest Ha Hc Hr. simpl. rewrite (nt_other a rest Ha Hr). rewrite Hc.
    destruct stack; reflexivity.
  Qed.
  Lemma read_string : forall m fuel stack rest,
    read_loop (S fuel) stack (c_quote :: escape m ++ c_quote :: rest)
    = push_k fuel (SLit (LStr m)) stack (skip_ws false rest).
  Proof. intros. simpl. rewrite nt_string. destruct stack; reflexivity. Qed.

  Lemma follow_ws : forall w s, ws_str w -> w <> [] -> follow_ok (w ++ s).
  Proof.
    intros w s Hw Hne. destruct w as [|c w]; [congruence|]. simpl.
    unfold ws_str in Hw. simpl in Hw. apply andb_true_iff in Hw. apply is_ws_delim. tauto.
  Qed.
  Lemma follow_close : forall cw s, ws_str cw -> follow_ok (cw ++ c_rp :: s).
  Proof.
    intros cw s H. destruct cw as [|c w]; [reflexivity|]. apply follow_ws; [assumption|discriminate].
  Qed.

  (** the text of a well-formed layout starts with a non-blank, non-comment character *)
  Lemma text_nonempty : forall l, wf_l l -> (ntok l <= List.length (text l))%nat.
  Proof.
    induction l as [l|a|items cw IHitems] using lsexp_ind2; intro Hwf.
    - simpl in Hwf. destruct l as [z|f|s|b|]; try contradiction.
      + pose proof (print_int_nonempty z). simpl. destruct (print_int z); [congruence|simpl; lia].
      + destruct f as [| | |x]; try (simpl; lia).
        pose proof (print_float_nonempty x Hwf) as Hne.
        change (text (LLit (LFloat (FFin x)))) with (print_float fmt_f64 (FFin x)).
        destruct (print_float fmt_f64 (FFin x)); [congruence|simpl; lia].
      + simpl. lia.
      + destruct b; simpl; lia.
    - destruct Hwf as ((Hne & _) & _). simpl. destruct a; [congruence|simpl; lia].
    - rewrite ntok_list, text_list. apply wf_l_list in Hwf. destruct Hwf as [_ Hi].
      simpl. rewrite app_length, app_length. simpl.
      assert (items_ntok items <= List.length (items_text fmt_f64 items))%nat; [|lia].
      revert Hi. generalize true. induction IHitems as [|[w x] tl Hx Htl IH]; intros b Hi; simpl; [lia|].
      simpl in Hi. destruct Hi as (_ & _ & Hwx & Htl').
      rewrite !app_length. specialize (IH _ Htl'). specialize (Hx Hwx). simpl in Hx. lia.
  Qed.

  (** MAIN LEMMA: the stack machine reads the text of a layout as its tree, whatever the
      stack, consuming exactly one unit of fuel per token *)
  Lemma read_layout : forall l, wf_l l -> forall fuel stack rest, follow_ok rest ->
    read_loop (ntok l + fuel) stack (text l ++ rest) = push_k fuel (strip l) stack (skip_ws false rest).
  Proof.
    induction l as [l|a|items cw H] using lsexp_ind2; intros Hwf fuel stack rest Hr.
    - (* literal *)
      destruct l as [z|f|s|b|].
      + destruct (lit_other (LInt z) Hwf) as [Ht Hc]; [discriminate|]. apply read_other; assumption.
      + destruct (lit_other (LFloat f) Hwf) as [Ht Hc]; [discriminate|]. apply read_other; assumption.
      + change (text (LLit (LStr s)) ++ rest) with (c_quote :: (escape s ++ [c_quote]) ++ rest).
        rewrite <- app_assoc. apply (read_string s fuel stack rest).
      + destruct (lit_other (LBool b) Hwf) as [Ht Hc]; [discriminate|]. apply read_other; assumption.
      + contradiction.
    - destruct Hwf as [Ht Hc]. apply read_other; assumption.
    - apply wf_l_list in Hwf. destruct Hwf as [Hcw Hitems].
      rewrite ntok_list, text_list.
      change ((c_lp :: items_text fmt_f64 items ++ cw ++ [c_rp]) ++ rest)
        with (c_lp :: (items_text fmt_f64 items ++ cw ++ [c_rp]) ++ rest).
      rewrite <- !app_assoc. simpl app.
      replace (S (items_ntok items + 1) + fuel)%nat with (S (items_ntok items + S fuel)) by lia.
      change (read_loop (S (items_ntok items + S fuel)) stack (c_lp :: items_text fmt_f64 items ++ cw ++ c_rp :: rest))
        with (read_loop (items_ntok items + S fuel) ([] :: stack)
                (skip_ws false (items_text fmt_f64 items ++ cw ++ c_rp :: rest))).
      rewrite read_loop_skip.
      (* the items, accumulating *)
      assert (forall acc first, wf_items first items ->
                read_loop (items_ntok items + S fuel) (acc :: stack) (items_text fmt_f64 items ++ cw ++ c_rp :: rest)
                = read_loop (S fuel) ((List.rev (List.map (fun p => strip (snd p)) items) ++ acc) :: stack)
                    (cw ++ c_rp :: rest)) as Hloop.
      { clear Hitems. induction H as [|[w x] tl Hx Htl IH]; intros acc first Hi.
        - reflexivity.
        - simpl in Hi. destruct Hi as (Hw & _ & Hwx & Htl').
          simpl items_text. simpl items_ntok. rewrite <- !app_assoc.
          rewrite <- read_loop_skip. rewrite (skip_ws_ws w _ Hw). rewrite read_loop_skip.
          rewrite <- Nat.add_assoc. simpl snd in Hx.
          rewrite (Hx Hwx).
          + unfold push_k. rewrite read_loop_skip. rewrite (IH (strip x :: acc) false Htl').
            simpl. rewrite <- app_assoc. reflexivity.
          + destruct tl as [|[w' x'] tl'].
            * simpl. apply follow_close. assumption.
            * simpl in Htl'. destruct Htl' as (Hw' & Hne & _).
              simpl items_text. rewrite <- app_assoc. apply follow_ws; assumption. }
      rewrite (Hloop [] true Hitems). rewrite app_nil_r.
      rewrite <- read_loop_skip. rewrite (skip_ws_ws cw _ Hcw). rewrite read_loop_skip.
      simpl. rewrite rev_involutive. destruct stack; reflexivity.
  Qed.

  (** reading the text of a well-formed layout (followed by anything that starts with a
      delimiter) yields its tree and the remaining text with leading blanks removed *)
  Theorem read_sexp_layout : forall l rest, wf_l l -> follow_ok rest ->
    read_sexp parse_f64 (text l ++ rest) = POk (strip l, skip_ws false rest).
  Proof.
    intros l rest Hwf Hr. unfold read_sexp.
    pose proof (text_nonempty l Hwf) as Hlen.
    replace (S (List.length (text l ++ rest))) with (ntok l + (S (List.length (text l ++ rest)) - ntok l))%nat
      by (rewrite app_length; lia).
    rewrite (read_layout l Hwf _ [] rest Hr). reflexivity.
  Qed.

  Corollary read_sexp_text : forall l, wf_l l -> read_sexp parse_f64 (text l) = POk (strip l, []).
  Proof.
    intros l H. rewrite <- (app_nil_r (text l)). rewrite (read_sexp_layout l [] H I). reflexivity.
  Qed.

  (** * trees *)
  Fixpoint wf_sexp (s : sexp) : Prop :=
    match s with
    | SLit x => wf_lit x
    | SAtom a => wf_atom a
    | SList l => (fix go (l : list sexp) : Prop := match l with [] => True | x :: tl => wf_sexp x /\ go tl end) l
    end.

  Section SexpInd.
    Variable P : sexp -> Prop.
    Hypothesis HLit : forall l, P (SLit l).
    Hypothesis HAtom : forall a, P (SAtom a).
    Hypothesis HList : forall l, Forall P l -> P (SList l).
    Fixpoint sexp_ind2 (s : sexp) : P s :=
      match s with
      | SLit x => HLit x
      | SAtom a => HAtom a
      | SList l => HList l ((fix go (l : list sexp) : Forall P l :=
                               match l with [] => Forall_nil _ | x :: tl => Forall_cons x (sexp_ind2 x) (go tl) end) l)
      end.
  End SexpInd.

  Lemma wf_sexp_list : forall l, wf_sexp (SList l) <-> Forall wf_sexp l.
  Proof.
    intro l. simpl. induction l as [|x tl IH]; split; intro H; auto.
    - destruct H. constructor; [assumption | apply IH; assumption].
    - inversion H; subst. split; [assumption | apply IH; assumption].
  Qed.

  Lemma canon_ok : forall s, wf_sexp s -> wf_l (canon s) /\ strip (canon s) = s.
  Proof.
    induction s as [l|a|l IH] using sexp_ind2; intro Hwf.
    - split; [exact Hwf | reflexivity].
    - split; [exact Hwf | reflexivity].
    - apply wf_sexp_list in Hwf.
      assert (forall l', Forall (fun s => wf_sexp s -> wf_l (canon s) /\ strip (canon s) = s) l' ->
                Forall wf_sexp l' ->
                wf_items false (List.map (fun y => ([c_sp], canon y)) l')
                /\ List.map (fun p => strip (snd p)) (List.map (fun y => ([c_sp], canon y)) l') = l') as Htl.
      { induction 1 as [|y tl' Hy _ IHtl]; intro Hw; [split; reflexivity|].
        inversion Hw as [|? ? Hwy Hwtl]; subst. destruct (Hy Hwy) as [A B]. destruct (IHtl Hwtl) as [C D].
        split; simpl; [repeat split; try assumption; discriminate | rewrite B, D; reflexivity]. }
      simpl canon. destruct l as [|x tl].
      + split; [apply wf_l_list; split; reflexivity | reflexivity].
      + inversion IH as [|? ? Hx Htl']; subst. inversion Hwf as [|? ? Hwx Hwtl]; subst.
        destruct (Hx Hwx) as [A B]. destruct (Htl tl Htl' Hwtl) as [C D]. split.
        * apply wf_l_list. split; [reflexivity|]. simpl. repeat split; assumption.
        * simpl. rewrite B. f_equal. f_equal. exact D.
  Qed.

  (** c15_sexp_roundtrip: every well-formed tree prints (canonically) to a text that reads back
      as itself *)
  Theorem sexp_roundtrip : forall s, wf_sexp s ->
    read_sexp parse_f64 (print_sexp fmt_f64 s) = POk (s, []).
  Proof.
    intros s H. destruct (canon_ok s H) as [Hw Hs]. unfold print_sexp.
    rewrite (read_sexp_text _ Hw). rewrite Hs. reflexivity.
  Qed.

  (** non-vacuity of [wf_atom]: every atom the lexer itself produces is well-formed *)
  Lemma skip_ws_head : forall s inc c tl, skip_ws inc s = c :: tl -> is_ws c = false /\ c <> c_semi.
  Proof.
    induction s as [|d s IH]; intros inc c tl H; simpl in H; [discriminate|].
    destruct (d =? c_semi) eqn:E1; [apply (IH _ _ _ H)|].
    destruct (d =? c_nl) eqn:E2; [apply (IH _ _ _ H)|].
    destruct (is_ws d) eqn:E3; [apply (IH _ _ _ H)|].
    destruct inc; [apply (IH _ _ _ H)|].
    inversion H; subst. split; [assumption | apply N.eqb_neq; assumption].
  Qed.
  Lemma span_other_tokchars : forall s a r, span_other s = (a, r) -> tokchars a.
  Proof.
    induction s as [|c s IH]; intros a r H; simpl in H.
    - inversion H; reflexivity.
    - destruct (is_delim c) eqn:E; [inversion H; reflexivity|].
      destruct (span_other s) as [a' r'] eqn:E'. inversion H; subst.
      unfold tokchars. simpl. rewrite E. simpl. apply (IH a' _ eq_refl).
  Qed.
  Theorem lexer_atoms_wf : forall s x r a,
    next_token s = POk (TOther x, r) -> classify x = SAtom a -> wf_atom a.
  Proof.
    intros s x r a Hn Hc. unfold next_token in Hn.
    destruct (skip_ws false s) as [|c tl] eqn:Es; [discriminate|].
    destruct (skip_ws_head _ _ _ _ Es) as [Hw Hs].
    destruct (c =? c_lp) eqn:E1; [discriminate|].
    destruct (c =? c_rp) eqn:E2; [discriminate|].
    destruct (c =? c_quote) eqn:E3.
    { destruct (lex_string false tl) as [[y r']|e|]; discriminate. }
    destruct (span_other tl) as [b r'] eqn:Eb. injection Hn as Hx Hr. subst x.
    assert (tok_ok (c :: b)) as Ht.
    { split; [discriminate|]. split.
      - unfold tokchars. simpl. apply andb_true_iff. split; [|apply (span_other_tokchars _ _ _ Eb)].
        apply negb_true_iff. unfold is_delim. rewrite Hw, E1, E2.
        apply N.eqb_neq in Hs. rewrite Hs. reflexivity.
      - simpl. apply N.eqb_neq. assumption. }
    assert (a = c :: b) as ->.
    { unfold Sexp.classify in Hc.
      destruct (str_eqb (c :: b) k_true); [discriminate|].
      destruct (str_eqb (c :: b) k_false); [discriminate|].
      destruct (parse_i64 (c :: b)); [discriminate|].
      destruct (str_eqb (c :: b) k_NaN); [discriminate|].
      destruct (str_eqb (c :: b) k_inf); [discriminate|].
      destruct (str_eqb (c :: b) k_ninf); [discriminate|].
      destruct (parse_f64 (c :: b)) as [[| | |y]|]; inversion Hc; reflexivity. }
    split; assumption.
  Qed.

  (** c15_lit_roundtrip *)
  Theorem lit_roundtrip : forall l, wf_lit l ->
    read_sexp parse_f64 (print_lit l) = POk (SLit l, []).
  Proof. intros l H. apply (read_sexp_text (LLit l) H). Qed.
  Theorem unit_roundtrip : read_sexp parse_f64 (print_lit LUnit) = POk (SList [], []).
  Proof. reflexivity. Qed.

End WithOracle.

(** * the reader never runs out of the fuel it is given (so [= POk _] statements are not about
      an artefact of the fuel) *)
Lemma skip_ws_len : forall s inc, (List.length (skip_ws inc s) <= List.length s)%nat.
Proof.
  induction s as [|c s IH]; intro inc; simpl; [lia|].
  destruct (c =? c_semi); [specialize (IH true); lia|].
  destruct (c =? c_nl); [specialize (IH false); lia|].
  destruct (is_ws c); [specialize (IH inc); lia|].
  destruct inc; [specialize (IH true); lia | simpl; lia].
Qed.
Lemma lex_string_len : forall s esc x r, lex_string esc s = POk (x, r) -> (List.length r < List.length s)%nat.
Proof.
  induction s as [|c s IH]; intros esc x r H; simpl in H; [discriminate|].
  destruct esc.
  - destruct (unescape c); [|discriminate].
    destruct (lex_string false s) as [[y r']|e|] eqn:E; simpl in H; try discriminate.
    inversion H; subst. specialize (IH _ _ _ E). simpl. lia.
  - destruct (c =? c_quote); [inversion H; subst; simpl; lia|].
    destruct (c =? c_bs).
    + specialize (IH _ _ _ H). simpl. lia.
    + destruct (lex_string false s) as [[y r']|e|] eqn:E; simpl in H; try discriminate.
      inversion H; subst. specialize (IH _ _ _ E). simpl. lia.
Qed.
Lemma span_other_len : forall s a r, span_other s = (a, r) -> (List.length r <= List.length s)%nat.
Proof.
  induction s as [|c s IH]; intros a r H; simpl in H; [inversion H; simpl; lia|].
  destruct (is_delim c); [inversion H; subst; simpl; lia|].
  destruct (span_other s) as [a' r'] eqn:E. inversion H; subst. specialize (IH _ _ eq_refl). simpl. lia.
Qed.
Lemma next_token_len : forall s t r, next_token s = POk (t, r) -> (List.length r < List.length s)%nat.
Proof.
  intros s t r H. unfold next_token in H. pose proof (skip_ws_len s false) as L0.
  destruct (skip_ws false s) as [|c tl]; [discriminate|]. simpl in L0.
  destruct (c =? c_lp); [inversion H; subst; pose proof (skip_ws_len tl false); lia|].
  destruct (c =? c_rp); [inversion H; subst; pose proof (skip_ws_len tl false); lia|].
  destruct (c =? c_quote).
  - destruct (lex_string false tl) as [[y r']|e|] eqn:E; simpl in H; try discriminate.
    inversion H; subst. pose proof (lex_string_len _ _ _ _ E). pose proof (skip_ws_len r' false). lia.
  - destruct (span_other tl) as [a r'] eqn:E. inversion H; subst.
    pose proof (span_other_len _ _ _ E). pose proof (skip_ws_len r' false). lia.
Qed.

Theorem read_loop_fuel : forall parse_f64 fuel stack s, (List.length s < fuel)%nat ->
  read_loop parse_f64 fuel stack s <> PFuel.
Proof.
  intros p fuel. induction fuel as [|f IH]; intros stack s Hlen; [lia|].
  simpl. destruct (next_token s) as [[tok rest]|e|] eqn:E; try discriminate.
  - pose proof (next_token_len _ _ _ E) as L. assert (List.length rest < f)%nat as L' by lia.
    destruct tok.
    + apply IH; assumption.
    + destruct stack as [|l st]; [discriminate|]. destruct st; [discriminate | apply IH; assumption].
    + destruct stack; [discriminate | apply IH; assumption].
    + destruct stack; [discriminate | apply IH; assumption].
  - unfold next_token in E. destruct (skip_ws false s) as [|c tl]; [discriminate|].
    destruct (c =? c_lp); [discriminate|]. destruct (c =? c_rp); [discriminate|].
    destruct (c =? c_quote).
    + exfalso. assert (forall s esc, lex_string esc s <> PFuel) as Hl.
      { induction s0 as [|d s0 IHs]; intro esc; simpl; [discriminate|].
        destruct esc.
        - destruct (unescape d); [|discriminate].
          specialize (IHs false). destruct (lex_string false s0) as [[y r']|e'|]; simpl; try discriminate. congruence.
        - destruct (d =? c_quote); [discriminate|]. destruct (d =? c_bs); [apply IHs|].
          specialize (IHs false). destruct (lex_string false s0) as [[y r']|e'|]; simpl; try discriminate. congruence. }
      specialize (Hl tl false). destruct (lex_string false tl) as [[y r']|e'|]; simpl in E; try discriminate. congruence.
    + destruct (span_other tl); discriminate.
Qed.
Corollary read_sexp_total : forall parse_f64 s, read_sexp parse_f64 s <> PFuel.
Proof. intros. unfold read_sexp. apply read_loop_fuel. lia. Qed.
