"""C11 configuration for bin/check."""

CFG = {
    "tier_a": [],
    "model_targets": ["Encoding/Templates.vo", "Encoding/EncOk.vo", "Encoding/URules.vo"],
    "proof_targets": ["Props/C11.vo"],
    "harness": [{"bin": "h_modes", "prefix": "cases_modes", "timeout": 3000}],
    # the compared observation (class partition of probe terms) is what the property constrains and the
    # model is proved to satisfy it (c11_session_sound/complete, c11_encoded_equiv_native)
    "corr_is_violation": True,
    "trusted": [
        "hand-written model coq/Encoding/Datalog.v (Datalog-with-functions semantics: all matches of a ruleset, then "
        "the staged deletes, then the staged sets, as core-relations merges pending removals before pending rows) and "
        "coq/Encoding/Templates.v (maintenance rule templates + between-commands schedule + session layer, "
        "transcribed from src/proofs/proof_encoding.rs and the doc_example_add_function1 snapshot), tied to the engine "
        "by the correspondence check h_modes: class partition of probe terms of the REAL term-encoding engine vs the "
        "encoded Gallina model vs the native Egg model on generated constructor-only sessions",
        "the native model coq/Egg/Model.v and its C01 theorems (Egg/CC.v), used by c11_encoded_equiv_native",
        "the rule templates are tied to the encoder by coq/Encoding/EncOk.v enc_rules_ok: for every model case the harness "
        "translates the text of the maintenance rules that the REAL encoder emits for the case's signature "
        "(resolve_program in term-encoding mode) into Gallina rule values and the kernel checks that, ruleset by "
        "ruleset, they equal the template instances enc_prog sg up to variable names; the rules that re-key pending "
        "__to_subsume_f requests are compared with their own template (EncOk.sub_rules, also for constructors mixing "
        "primitive and eq-sort inputs); only __delete_rule_subsume is left out; trusted there: the "
        "s-expression-to-Gallina translation in h_modes (encoded_rules_coq)",
    ],
    "theorem_backed": (
        "for every constructor-only signature with one eq-sort: (1) every ruleset / schedule of the maintenance "
        "program preserves the encoding invariant, in particular soundness (every UF pair, index entry and view row "
        "is in the congruence closure of the asserted unions) and the self-loop/domain-closure invariant "
        "(c11_maint_sound); (2) if the between-commands schedule returns, the result is canonical (single parent, "
        "path-compressed, index mirrors UF, all eq-sort view columns are roots) and the view tables are functional, "
        "no equality and no view row is lost, and the partition is closed under congruence over the view tables "
        "(c11_maint_computes_cc); (3) for every well-sorted history of insertions and unions of ground terms on the "
        "encoded session model: two terms evaluate through the view tables to the same leader iff they are in the "
        "congruence closure of the unions performed (c11_session_sound, c11_session_complete), hence the same class "
        "partition as the native model of C01 (c11_encoded_equiv_native); the invariant is reachable "
        "(c11_invariant_reachable); (4) USER RULES (constructor patterns in the body, insertions and unions in the head): "
        "one (run) of the encoded program = all matches of the instrumented rules over the frozen view tables, their "
        "add_term_and_view triples and union requests, then the maintenance schedule: for every signature, rule list and "
        "state satisfying the session invariant, the result satisfies the invariant again, is canonical, and the unions "
        "grew only by ground readings of head union requests under matches of the instrumented body "
        "(c11_user_rules_step), and observed equalities are in the congruence closure of those unions "
        "(c11_user_rules_eval_sound); the instrumented rules are tied to the encoder per run: h_modes translates the "
        "user rules the REAL encoder emits (resolve_program) to Gallina urule values and the kernel checks them equal to "
        "the template enc_user_rule of the source rule up to variable names (enc_user_rule_ok)"
    ),
    "link_only": (
        "termination of the saturate loops (all theorems are conditional on the run returning Ok; the model cases "
        "run with explicit fuel); for user rules: that the encoded matches coincide with the native matches and "
        "completeness across rule runs (kernel-evaluated per case only: class vector of the encoded model running the "
        "EMITTED rules = native rule interpreter Egg/Rules.v = real term-encoding engine, check_rcase; the model panics "
        "on an ill-sorted node / dead id instead of assuming typing), int literals in rules, rewrites with :subsume, rulesets/schedules, run :until, merge functions "
        "(merge rule, cleanup rules, Current table), relations, delete/subsume (to_delete/to_subsume requests, "
        "delete_rule_subsume), globals via let, push/pop, extraction costs, print-size, proof mode "
        "(Proof-valued UF/view columns, Trans/Sym/Congr terms), containers, several eq-sorts, the reprint variant, "
        "Ok/Err agreement: all by running the three real engines (h_modes)"
    ),
    "assumptions": [
        "term ids are unbounded nat allocated in insertion order; ordering-max/min is the order of ids",
        "one eq-sort; term mode (every UF/view output is ()); proof columns are link-only",
        "a ruleset iteration applies all staged deletes before all staged sets (core-relations table merge order)",
        "saturate stops when one iteration reports no change, where change = some delete hit a row or some set "
        "added a row / changed a value",
    ],
}
