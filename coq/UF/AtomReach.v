(** C17 (concurrent half): consequences of the simulation UF/AtomSim.v - every run of the
    interpreter of the regenerated atomic programs is a run of the hand model UF/ConcModel.v, hence
    the invariants proved in UF/Conc.v hold for the regenerated programs. *)
From Coq Require Import List String Arith Bool Lia.
Import ListNotations.
Require Import Verif.UF.ConcModel Verif.UF.Conc Verif.UF.AtomProg Verif.gen.UFConcFacts Verif.UF.AtomSim.
Open Scope string_scope.

(* ------------------------------------------------------------------------------------------ *)
(** * every run of the interpreter of the regenerated program is a run of the hand model *)

Definition trel (o : option (opcall * list frame)) (hc : tpc) : Prop :=
  match o with None => hc = Idle | Some (c, stk) => rel c stk hc end.

Definition hand_label (t : nat) (c : opcall) : label :=
  match c with OFind x => LFind t x | OMerge l r => LMerge t l r | OSame l r => LSame t l r end.

Lemma hand_invoke s t c : thr s t = Idle ->
  exec s (hand_label t c) = Some (mk (parent s) (upd (thr s) t (hand_start c)) (merged s) (hist s)).
Proof. intros H. destruct c; simpl; rewrite H; reflexivity. Qed.

Lemma trel_upd (ct : nat -> option (opcall * list frame)) (ht : nat -> tpc) t v hv :
  (forall t', trel (ct t') (ht t')) -> trel v hv ->
  forall t', trel (upd ct t v t') (upd ht t hv t').
Proof.
  intros H Hv t'. unfold upd. destruct (Nat.eqb t' t); auto.
Qed.

Theorem sim_reachable cs : creachable uf_prog cs ->
  exists s, reachable s /\ parent s = c_par cs /\ hist s = c_hist cs /\
            forall t, trel (c_thr cs t) (thr s t).
Proof.
  induction 1 as [|cs lb cs' _ IH Hex].
  - exists init. repeat split; try constructor. 
  - destruct IH as (s & Hr & Hp & Hh & Ht).
    destruct lb as [t c|t]; simpl in Hex.
    + destruct (c_thr cs t) eqn:Ect; [discriminate|].
      destruct (sim_start c) as (stk & Hs & Hrel). rewrite Hs in Hex. inversion Hex; subst; clear Hex.
      pose proof (Ht t) as Hti. rewrite Ect in Hti. simpl in Hti.
      eexists. split; [eapply reach_step; [exact Hr| unfold step; apply (hand_invoke s t c); exact Hti]|].
      simpl. repeat split; auto.
      apply trel_upd; auto.
    + destruct (c_thr cs t) as [[c stk]|] eqn:Ect; [|discriminate].
      pose proof (Ht t) as Hti. rewrite Ect in Hti. simpl in Hti.
      pose proof (sim_step (c_par cs) c stk _ Hti) as Hst.
      destruct (astep uf_prog (c_par cs) stk) as [[p' [stk'|vs]]|]; [| |contradiction].
      * destruct Hst as (o & Hts & Hpo & Hro & Hrel). inversion Hex; subst; clear Hex.
        exists (mk (o_par o) (upd (thr s) t (o_pc o)) (opt_cons (o_merged o) (merged s))
                   (opt_cons (o_res o) (hist s))).
        split; [apply (reach_step s (LRun t)); [exact Hr|]; unfold step; simpl; rewrite Hp, Hts; reflexivity|].
        simpl. rewrite Hro. simpl. repeat split; auto.
        apply trel_upd; auto.
      * destruct Hst as (o & Hts & Hpo & Hpc & r & Hresp & Hro). rewrite Hresp in Hex.
        inversion Hex; subst; clear Hex.
        exists (mk (o_par o) (upd (thr s) t (o_pc o)) (opt_cons (o_merged o) (merged s))
                   (opt_cons (o_res o) (hist s))).
        split; [apply (reach_step s (LRun t)); [exact Hr|]; unfold step; simpl; rewrite Hp, Hts; reflexivity|].
        simpl. rewrite Hro. simpl. rewrite Hh. repeat split; auto.
        apply trel_upd; auto.
Qed.

(** ghost bookkeeping of the hand model: [merged] = arguments of the merges that returned *)
Lemma tstep_ghost p c o : tstep p c = Some o ->
  opt_cons (o_merged o) [] = merges_of (opt_cons (o_res o) []).
Proof.
  destruct c; simpl; try discriminate;
  repeat match goal with
  | |- context [fstep ?p ?f] => destruct (fstep p f) as [? [?|?]]
  | |- context [Nat.eqb ?a ?b] => destruct (Nat.eqb a b)
  end; intros E; inversion E; subst; reflexivity.
Qed.

Lemma merges_of_opt_cons o h :
  merges_of (opt_cons o h) = (merges_of (opt_cons o []) ++ merges_of h)%list.
Proof. destruct o as [[]|]; reflexivity. Qed.

Lemma hand_merged_hist s : reachable s -> merged s = merges_of (hist s).
Proof.
  induction 1 as [|s lb s' _ IH Hst]; [reflexivity|].
  unfold step in Hst. destruct lb; simpl in Hst.
  1-3: destruct (thr s t); inversion Hst; subst; simpl; exact IH.
  destruct (tstep (parent s) (thr s t)) as [o|] eqn:E; [|discriminate].
  inversion Hst; subst; simpl.
  rewrite merges_of_opt_cons, <- (tstep_ghost _ _ _ E), <- IH.
  destruct (o_merged o); reflexivity.
Qed.

(** the invariants of UF/Conc.v, for the interpreter of the regenerated program *)
Theorem prog_inv cs : creachable uf_prog cs ->
  (forall i, c_par cs i <= i) /\
  (forall x y, eqv (c_par cs) x y <-> conn (merges_of (c_hist cs)) x y).
Proof.
  intros H. destruct (sim_reachable _ H) as (s & Hr & Hp & Hh & _).
  rewrite <- Hp, <- Hh, <- (hand_merged_hist _ Hr). apply conc_inv; exact Hr.
Qed.

Theorem prog_rep_min cs : creachable uf_prog cs -> forall x,
  exists r, root_of (c_par cs) x r /\ conn (merges_of (c_hist cs)) x r /\
            forall y, conn (merges_of (c_hist cs)) x y -> r <= y.
Proof.
  intros H. destruct (sim_reachable _ H) as (s & Hr & Hp & Hh & _).
  rewrite <- Hp, <- Hh, <- (hand_merged_hist _ Hr). apply conc_rep_min; exact Hr.
Qed.

(** responses of the regenerated program at their linearization step (cf. [conc_response_ok]) *)
Theorem prog_response_ok cs t c stk p' vs : creachable uf_prog cs ->
  c_thr cs t = Some (c, stk) -> astep uf_prog (c_par cs) stk = Some (p', Returned vs) ->
  exists r, resp c vs = Some r /\ resp_ok (c_par cs) p' r.
Proof.
  intros H Et Ea. destruct (sim_reachable _ H) as (s & Hr & Hp & Hh & Ht).
  pose proof (Ht t) as Hti. rewrite Et in Hti. simpl in Hti.
  pose proof (sim_step (c_par cs) c stk _ Hti) as Hst. rewrite Ea in Hst.
  destruct Hst as (o & Hts & Hpo & Hpc & r & Hresp & Hro).
  exists r. split; [exact Hresp|]. rewrite <- Hpo, <- Hp.
  eapply conc_response_ok; eauto. rewrite Hp. exact Hts.
Qed.

Lemma cexec_all_reach : forall ls s s', creachable uf_prog s -> cexec_all uf_prog s ls = Some s' ->
  creachable uf_prog s'.
Proof.
  induction ls as [|l ls IH]; intros s s' Hr E; simpl in E.
  - inversion E; subst; exact Hr.
  - destruct (cexec uf_prog s l) as [s1|] eqn:E1; [|discriminate].
    eapply IH; [|exact E]. eapply creach_step; eauto.
Qed.

(** the schedule of [Conc.stale_schedule] on the regenerated program *)
Definition prog_stale_schedule : list clabel :=
  [CInvoke 1 (OMerge 5 7); CRun 1; CRun 1; CRun 1; CRun 1;
   CInvoke 2 (OMerge 5 3); CRun 2; CRun 2; CRun 2; CRun 2; CRun 2;
   CRun 1].

Theorem prog_union_parent_stale :
  exists cs, creachable uf_prog cs /\
    c_hist cs = [RMerge 5 7 5 7; RMerge 5 3 3 5] /\ c_par cs 5 = 3 /\ c_par cs 7 = 5.
Proof.
  destruct (cexec_all uf_prog cinit prog_stale_schedule) as [cs|] eqn:E;
    [|vm_compute in E; discriminate].
  exists cs. split; [eapply cexec_all_reach; [constructor|exact E]|].
  vm_compute in E. injection E as <-. simpl. repeat split.
Qed.

Definition prog_example_schedule : list clabel :=
  [CInvoke 0 (OMerge 1 2); CRun 0; CRun 0; CInvoke 1 (OFind 2); CRun 0; CRun 0; CRun 0;
   CRun 1; CRun 1].

Theorem prog_orderings :
  uf_load_ordering = Acquire /\ uf_store_ordering = Release /\
  uf_cas_success_ordering = AcqRel /\ uf_cas_failure_ordering = Acquire.
Proof. repeat split. Qed.

Theorem prog_need : forall l r e,
  e "l" = l -> e "r" = r ->
  option_map (eval e) (a_need uf_merge_fn) = Some (Nat.max l r) /\
  option_map (eval (eset e "max_elt" (Nat.max l r))) (a_need uf_same_set_fn) = Some (Nat.max l r) /\
  option_map (eval e) (a_need uf_find_fn) = Some (e "elt") /\
  nth_error (a_code uf_same_set_fn) 0 = Some (ISet "max_elt" (EMax (EVar "l") (EVar "r")) 1).
Proof. intros l r e <- <-. repeat split. Qed.
