(** C01 — Equality is exactly the congruence closure of what was asserted.
    This file only pins statements and prints their assumptions.

    Model: Egg/Model.v (term-level commands over constructor tables; the union-find is the one
    translated from union-find/src/lib.rs, the merge value the translated MergeFn::UnionId arm).
    Scope: signatures whose tables are all constructors. Termination/no-panic and soundness hold
    for EVERY command list; completeness for the well-formed ones ([cmds_okb], executable:
    function ids in range, unions between constructor terms — i.e. well-typed programs). *)
From Coq Require Import List Arith PeanoNat ZArith.
Import ListNotations.
Require Import Verif.Base.Res Verif.gen.UFSeq Verif.gen.MergeArms Verif.UF.Seq
  Verif.Egg.Model Verif.Egg.CmdOk Verif.Egg.CCDefs Verif.Egg.CC.

(** [CC U] is the least relation containing the asserted pairs [U] that is reflexive, symmetric,
    transitive and a congruence for every function symbol (this pins the meaning of [CC]). *)
Theorem c01_CC_is_least_congruence : forall U,
  (forall a b, In (a, b) U -> CC U a b) /\
  (forall t, CC U t t) /\
  (forall a b, CC U a b -> CC U b a) /\
  (forall a b c, CC U a b -> CC U b c -> CC U a c) /\
  (forall f l1 l2, Forall2 (CC U) l1 l2 -> CC U (T f l1) (T f l2)) /\
  (forall P : term -> term -> Prop,
     (forall a b, In (a, b) U -> P a b) -> (forall t, P t t) ->
     (forall a b, P a b -> P b a) -> (forall a b c, P a b -> P b c -> P a c) ->
     (forall f l1 l2, Forall2 P l1 l2 -> P (T f l1) (T f l2)) ->
     forall a b, CC U a b -> P a b).
Proof.
  intros U. repeat split.
  - exact (cc_ax U). - exact (cc_refl U). - exact (cc_sym U). - exact (cc_trans U).
  - exact (cc_cong U).
  - intros P H1 H2 H3 H4 H5. apply CC_ind'; eauto.
Qed.
Print Assumptions c01_CC_is_least_congruence.

(** For EVERY command list run from the empty database: the run returns [Ok] — no panic, and the
    stated fuel [rebuild_fuel] suffices, i.e. the rebuild loop terminates however long the chain
    of congruences is. *)
Theorem c01_run_ok : forall n sg cs,
  Forall (fun m => m = MUnionId) sg ->
  exists s, run sg (init n) cs = Ok s.
Proof. exact CC.c01_run_ok. Qed.
Print Assumptions c01_run_ok.

(** No equality is invented: after ANY command history, two ground terms that evaluate to the
    same value are in the congruence closure of the unions performed so far. *)
Theorem c01_sound : forall n sg cs s t1 t2 v,
  Forall (fun m => m = MUnionId) sg ->
  run sg (init n) cs = Ok s ->
  eval s t1 = Some v -> eval s t2 = Some v -> CC (unions_of cs) t1 t2.
Proof. exact CC.c01_sound. Qed.
Print Assumptions c01_sound.

(** None that follows is missed once the command has returned: two represented ground terms that
    are in the congruence closure of the unions performed evaluate to the same value. *)
Theorem c01_complete : forall n sg cs s t1 t2 v1 v2,
  Forall (fun m => m = MUnionId) sg -> cmds_okb n cs = true ->
  run sg (init n) cs = Ok s ->
  CC (unions_of cs) t1 t2 -> eval s t1 = Some v1 -> eval s t2 = Some v2 -> v1 = v2.
Proof. exact CC.c01_complete. Qed.
Print Assumptions c01_complete.

(** The property as an equivalence: two represented ground terms are reported equal (evaluate to
    the same e-class) if and only if their equality follows from the unions performed so far by
    reflexivity, symmetry, transitivity and congruence. *)
Theorem c01_iff : forall n sg cs s t1 t2 v1 v2,
  Forall (fun m => m = MUnionId) sg -> cmds_okb n cs = true ->
  run sg (init n) cs = Ok s -> eval s t1 = Some v1 -> eval s t2 = Some v2 ->
  (v1 = v2 <-> CC (unions_of cs) t1 t2).
Proof. exact CC.c01_iff. Qed.
Print Assumptions c01_iff.

(** Stronger form: congruent terms have the same evaluation, defined or not. *)
Theorem c01_complete_opt : forall n sg cs s t1 t2,
  Forall (fun m => m = MUnionId) sg -> cmds_okb n cs = true ->
  run sg (init n) cs = Ok s ->
  CC (unions_of cs) t1 t2 -> eval s t1 = eval s t2.
Proof. exact CC.c01_complete_opt. Qed.
Print Assumptions c01_complete_opt.

(** Every asserted pair is represented and both sides evaluate to one class. *)
Theorem c01_unions_visible : forall n sg cs s a b,
  Forall (fun m => m = MUnionId) sg -> cmds_okb n cs = true ->
  run sg (init n) cs = Ok s -> In (a, b) (unions_of cs) ->
  exists v, eval s a = Some v /\ eval s b = Some v.
Proof. exact CC.c01_unions_visible. Qed.
Print Assumptions c01_unions_visible.

(** "THIS MUST MATCH THE UNION-FIND IMPLEMENTATION" (egglog-bridge MergeFn::UnionId) as a theorem
    over the two translated items: the value kept in the table on a collision is min(cur,new), and
    the translated [union] of two distinct roots reports exactly that id as the parent and makes it
    the root of both. *)
Theorem c01_unionid_agrees :
  (forall a b, merge_unionid a b = Nat.min a b) /\
  (forall p a b fuel, Inv p -> Nat.max (length p) (S (Nat.max a b)) <= fuel ->
     par p a = a -> par p b = b -> a <> b ->
     exists p', union fuel p a b = Ok (p', (merge_unionid a b, Nat.max a b)) /\
       root_of p' a (merge_unionid a b) /\ root_of p' b (merge_unionid a b)).
Proof. exact CC.c01_unionid_agrees. Qed.
Print Assumptions c01_unionid_agrees.

(** non-vacuity: a congruence chain f^3(a) ~ f^3(b) that needs three rebuild passes; an unrelated
    constant stays apart and an absent term stays absent *)
Example c01_example_chain :
  cmds_okb 4 Ex.cs1 = true /\
  Ex.evals_after Ex.cs1 [Ex.f (Ex.f (Ex.f Ex.a)); Ex.f (Ex.f (Ex.f Ex.b)); Ex.a; Ex.b; Ex.c; Ex.f Ex.c]
  = Ok [Some (VId 3); Some (VId 3); Some (VId 0); Some (VId 0); Some (VId 8); None] /\
  Ex.evals_after (firstn 3 Ex.cs1) [Ex.f (Ex.f (Ex.f Ex.a)); Ex.f (Ex.f (Ex.f Ex.b))]
  = Ok [Some (VId 3); Some (VId 7)].
Proof. vm_compute. repeat split. Qed.

(** the rebuild loop really iterates: 3 passes are not enough on the chain, 4 are, and
    [rebuild_fuel] = 11 is what the model supplies *)
Example c01_example_passes :
  bind (run Ex.sg (init 4) (firstn 3 Ex.cs1)) (fun s =>
  bind (uf_union (uf s) 0 4) (fun p' =>
  let s3 := mkSt p' (tabs s) (wit s) in
  Ok (match rebuild 3 Ex.sg s3 with OutOfFuel => true | _ => false end,
      match rebuild 4 Ex.sg s3 with Ok _ => true | _ => false end,
      rebuild_fuel s3)))
  = Ok (true, true, 11).
Proof. exact CC.ex_passes. Qed.

(** the well-formedness hypothesis is necessary for completeness (function id out of range) *)
Example c01_fn_bound_needed :
  let cs := [CUnion (T 5 []) (T 0 []); CUnion (T 5 []) (T 1 [])] in
  exists s, run (repeat MUnionId 2) (init 2) cs = Ok s /\
    CC (unions_of cs) (T 0 []) (T 1 []) /\
    eval s (T 0 []) = Some (VId 0) /\ eval s (T 1 []) = Some (VId 2).
Proof. exact CC.c01_fn_bound_needed. Qed.

(** ... and so is the restriction of unions to constructor terms (an ill-sorted union of two
    integer literals is ignored by [exec] but recorded by [unions_of]) *)
Example c01_eqsort_needed :
  let cs := [CUnion (TI 1) (TI 2)] in
  exists s, run [] (init 0) cs = Ok s /\
    CC (unions_of cs) (TI 1) (TI 2) /\ eval s (TI 1) = Some (VInt 1) /\ eval s (TI 2) = Some (VInt 2).
Proof. exact CC.c01_eqsort_needed. Qed.

(* ================================================================== *)
(** * The rule interpreter ([Egg/Rules.v]) is a term-level history

    [prog_ctor_okb n sg ks] (executable): every table of [sg] is a constructor ([MUnionId]); every
    top-level action and every rule head is [AExpr] or [AUnion] over function symbols [< n]
    (rule bodies are unrestricted). [ptrace] = the states after each command up to the first
    error (what [prun] observes); [pfinal] = the state in which the program ends, returned
    together with the error if there is one; [visited] = all of these. *)
Require Import Verif.Egg.Rules Verif.Egg.RulesProofs.

(** [prun] observes exactly the states of [ptrace] *)
Theorem c01_prun_observes_ptrace : forall sg probes iprobes ks ps,
  prun sg ps ks probes iprobes = map (fun ps' => observe (fst ps') probes iprobes) (ptrace sg ps ks).
Proof. exact RulesProofs.prun_ptrace. Qed.
Print Assumptions c01_prun_observes_ptrace.

(** Every state a constructor-fragment program passes through — after each command, and the
    state at the point where an ungrounded action / panic stops it — is the result of a
    well-formed term-level history run from the empty database. *)
Theorem c01_rules_history : forall n sg ks, prog_ctor_okb n sg ks = true ->
  Forall (fun ps => exists cs, cmds_okb n cs = true /\ run sg (init n) cs = Ok (fst ps))
         (ptrace sg (init n, []) ks) /\
  (exists cs, cmds_okb n cs = true /\ run sg (init n) cs = Ok (fst (fst (pfinal sg (init n, []) ks)))).
Proof. exact RulesProofs.rules_history. Qed.
Print Assumptions c01_rules_history.

(** ... and the histories are nested: each program command (an action = one [exec]; a [(run n)] =
    iterations, each an [xrun] of issued commands) extends the previous state by a well-formed
    list of term-level commands. *)
Theorem c01_rules_stepwise : forall n sg ks, prog_ctor_okb n sg ks = true ->
  chain (fun ps ps' => exists cs, cmds_okb n cs = true /\ run sg (fst ps) cs = Ok (fst ps'))
        (init n, []) (ptrace sg (init n, []) ks).
Proof. exact RulesProofs.rules_stepwise. Qed.
Print Assumptions c01_rules_stepwise.

(** such a program can only stop with a user-visible error: 1 = panic action, 3 = ungrounded
    action; never a merge conflict, never the model's own fuel/panic code *)
Theorem c01_rules_errors : forall n sg ks, prog_ctor_okb n sg ks = true ->
  let e := snd (pfinal sg (init n, []) ks) in e = None \/ e = Some 1 \/ e = Some 3.
Proof. exact RulesProofs.rules_errors. Qed.
Print Assumptions c01_rules_errors.

(** C01 after every command of every constructor-fragment program: in every visited state two
    represented ground terms have the same value iff they are in the congruence closure of the
    unions of the history that produced the state. *)
Theorem c01_rules_iff : forall n sg ks s, prog_ctor_okb n sg ks = true -> visited sg n ks s ->
  exists cs, cmds_okb n cs = true /\ run sg (init n) cs = Ok s /\
    forall t1 t2 v1 v2, eval s t1 = Some v1 -> eval s t2 = Some v2 ->
      (v1 = v2 <-> CC (unions_of cs) t1 t2).
Proof. exact RulesProofs.rules_iff_visited. Qed.
Print Assumptions c01_rules_iff.

Theorem c01_rules_sound : forall n sg ks s, prog_ctor_okb n sg ks = true -> visited sg n ks s ->
  exists cs, cmds_okb n cs = true /\ run sg (init n) cs = Ok s /\
    forall t1 t2 v, eval s t1 = Some v -> eval s t2 = Some v -> CC (unions_of cs) t1 t2.
Proof. exact RulesProofs.rules_sound_visited. Qed.
Print Assumptions c01_rules_sound.

Theorem c01_rules_complete : forall n sg ks s, prog_ctor_okb n sg ks = true -> visited sg n ks s ->
  exists cs, cmds_okb n cs = true /\ run sg (init n) cs = Ok s /\
    forall t1 t2 v1 v2, CC (unions_of cs) t1 t2 -> eval s t1 = Some v1 -> eval s t2 = Some v2 -> v1 = v2.
Proof. exact RulesProofs.rules_complete_visited. Qed.
Print Assumptions c01_rules_complete.

(** non-vacuity: a program with a rule that fires, a union, and an ungrounded action that stops
    it (5 states observed, error 3, final database as shown) *)
Example c01_rules_example :
  prog_ctor_okb 3 REx.sg1 REx.ks1 = true /\
  length (ptrace REx.sg1 (init 3, []) REx.ks1) = 5 /\
  snd (pfinal REx.sg1 (init 3, []) REx.ks1) = Some 3 /\
  REx.dump (fst (pfinal REx.sg1 (init 3, []) REx.ks1))
  = ([0; 0; 0; 2], [[([], VId 0, false)]; [([], VId 0, false)]; [([VId 0], VId 0, false)]]).
Proof. exact RulesProofs.rex_ctor. Qed.

(* ================================================================== *)
(** * Mixed signatures: constructors + relations + lattice / old / new / no-merge functions

    [is_ctor sg f]: table [f] is a constructor ([MUnionId]). [proj sg s]: the constructor part of
    [s] (non-constructor tables emptied; same union-find and witnesses). [cterm_okb sg n t]:
    [t] is a ground term over constructors [< n] of the signature (integer literals are leaves).
    [prog_mixed_okb n sg ks] (executable; ANY signature [sg]): every top-level action and rule head
    is an expression / union over constructor patterns, a [set] / [delete] on a NON-constructor
    table (relation, min/max/or/and lattice function, :merge old/new, :no-merge) whose keys and
    value are constructor patterns / integers, or a panic; rule BODIES are unrestricted (they match
    relation rows and lattice values, which are keyed by e-class ids and re-keyed by rebuild). *)
Require Import Verif.Egg.Mixed Verif.Egg.MixedProofs.

(** this pins the fragment and the projection *)
Theorem c01_mixed_defs_unfold :
  (forall sg f, is_ctor sg f = match nth f sg MUnionId with MUnionId => true | _ => false end) /\
  (forall sg s, uf (proj sg s) = uf s /\ wit (proj sg s) = wit s /\ length (tabs (proj sg s)) = length (tabs s) /\
     forall f, get_tab (tabs (proj sg s)) f = if is_ctor sg f then get_tab (tabs s) f else []) /\
  (forall sg n f l, cterm_okb sg n (T f l) = ((f <? n) && is_ctor sg f && forallb (cterm_okb sg n) l)%bool) /\
  (forall sg n z, cterm_okb sg n (TI z) = true) /\
  (forall n sg ks, prog_mixed_okb n sg ks = forallb (mkcmd_okb sg n) ks) /\
  (forall sg n f ps v, mact_okb sg n (ASet f ps v)
     = (negb (is_ctor sg f) && forallb (cpat_okb sg n) ps && cpat_okb sg n v)%bool) /\
  (forall sg n p q, mact_okb sg n (AUnion p q) = (cpat_okb sg n p && cpat_okb sg n q)%bool) /\
  (forall sg n f ps, mact_okb sg n (ASubsume f ps) = false).
Proof.
  repeat split; try reflexivity.
  - apply MixedProofs.length_ptabs.
  - intros f. apply MixedProofs.get_tab_ptabs.
Qed.
Print Assumptions c01_mixed_defs_unfold.

(** a constructor term is evaluated on the constructor part only *)
Theorem c01_mixed_eval_proj : forall sg n s t, cterm_okb sg n t = true -> eval (proj sg s) t = eval s t.
Proof. exact MixedProofs.eval_proj. Qed.
Print Assumptions c01_mixed_eval_proj.

(** tables that are not constructors never stage a union — not on a [set], not in a rebuild pass
    (whatever the merge function does with the two values) *)
Theorem c01_mixed_no_union_staged : forall m, is_ctor_m m = false ->
  (forall t r, snd (fst (tab_insert m t r)) = []) /\
  (forall p rows acc, snd (fst (rebuild_rows p m rows acc)) = []).
Proof.
  intros m H. split; [intros t r; apply MixedProofs.tab_insert_non; exact H|].
  intros p. apply MixedProofs.rebuild_rows_non. exact H.
Qed.
Print Assumptions c01_mixed_no_union_staged.

(** the rebuild loop over a mixed signature is, on the constructor part, the constructor-only
    loop: same number of passes, same unions, same outcome ([Ok] / panic / out of fuel) *)
Theorem c01_mixed_rebuild_proj : forall sg fuel s,
  match rebuild fuel sg s with
  | Ok (s', _) => exists e', rebuild fuel [] (proj sg s) = Ok (proj sg s', e')
  | Panic => rebuild fuel [] (proj sg s) = Panic
  | OutOfFuel => rebuild fuel [] (proj sg s) = OutOfFuel
  end.
Proof. exact MixedProofs.rebuild_proj. Qed.
Print Assumptions c01_mixed_rebuild_proj.

(** Every state a mixed-fragment program passes through — after each command, and the state at
    the point where a panic / ungrounded action / merge conflict stops it: its constructor part
    is the result of a well-formed term-level history over constructor tables ([run []]: every
    table a constructor) run from the empty database. *)
Theorem c01_mixed_rules_history : forall n sg ks, prog_mixed_okb n sg ks = true ->
  Forall (fun ps => exists cs, cmds_okb n cs = true /\ run [] (init n) cs = Ok (proj sg (fst ps)))
         (ptrace sg (init n, []) ks) /\
  (exists cs, cmds_okb n cs = true /\ run [] (init n) cs = Ok (proj sg (fst (fst (pfinal sg (init n, []) ks))))).
Proof. exact MixedProofs.mixed_history. Qed.
Print Assumptions c01_mixed_rules_history.

(** ... nested: each program command extends the constructor part by a well-formed list of
    term-level commands *)
Theorem c01_mixed_rules_stepwise : forall n sg ks, prog_mixed_okb n sg ks = true ->
  chain (fun ps ps' => exists cs, cmds_okb n cs = true /\ run [] (proj sg (fst ps)) cs = Ok (proj sg (fst ps')))
        (init n, []) (ptrace sg (init n, []) ks).
Proof. exact MixedProofs.mixed_stepwise. Qed.
Print Assumptions c01_mixed_rules_stepwise.

(** C01 after every command of every mixed-fragment program: in every visited state two
    represented ground constructor terms have the same e-class iff they are in the congruence
    closure of the unions of the history that produced the state. *)
Theorem c01_mixed_rules_iff : forall n sg ks s, prog_mixed_okb n sg ks = true -> visited sg n ks s ->
  exists cs, cmds_okb n cs = true /\ run [] (init n) cs = Ok (proj sg s) /\
    forall t1 t2 v1 v2, cterm_okb sg n t1 = true -> cterm_okb sg n t2 = true ->
      eval s t1 = Some v1 -> eval s t2 = Some v2 ->
      (v1 = v2 <-> CC (unions_of cs) t1 t2).
Proof. exact MixedProofs.mixed_iff_visited. Qed.
Print Assumptions c01_mixed_rules_iff.

(** no equality is invented *)
Theorem c01_mixed_rules_sound : forall n sg ks s, prog_mixed_okb n sg ks = true -> visited sg n ks s ->
  exists cs, cmds_okb n cs = true /\ run [] (init n) cs = Ok (proj sg s) /\
    forall t1 t2 v, cterm_okb sg n t1 = true -> cterm_okb sg n t2 = true ->
      eval s t1 = Some v -> eval s t2 = Some v -> CC (unions_of cs) t1 t2.
Proof. exact MixedProofs.mixed_sound_visited. Qed.
Print Assumptions c01_mixed_rules_sound.

(** none that follows is missed once the command has returned *)
Theorem c01_mixed_rules_complete : forall n sg ks s, prog_mixed_okb n sg ks = true -> visited sg n ks s ->
  exists cs, cmds_okb n cs = true /\ run [] (init n) cs = Ok (proj sg s) /\
    forall t1 t2 v1 v2, cterm_okb sg n t1 = true -> cterm_okb sg n t2 = true ->
      CC (unions_of cs) t1 t2 -> eval s t1 = Some v1 -> eval s t2 = Some v2 -> v1 = v2.
Proof. exact MixedProofs.mixed_complete_visited. Qed.
Print Assumptions c01_mixed_rules_complete.

(** non-vacuity: constructors a, b, f, c; [g] a min-lattice function keyed by an e-class id; [r] a
    relation keyed by two e-class ids; a rule triggered by a relation row unions a~b, one triggered
    by a lattice value unions f(x)~x; f(a)~f(b) follows by congruence, the g-rows merge through
    min, the r-row is re-keyed; c stays apart; then a delete on the relation and a panic.
    (class vectors of the probes a, b, f a, f b, f (f a), c, f c after each command) *)
Example c01_mixed_example :
  prog_mixed_okb 6 MEx.sg MEx.ks = true /\ prog_ctor_okb 6 MEx.sg MEx.ks = false /\
  map (fun ps => class_vector (fst ps) MEx.probes) (ptrace MEx.sg (init 6, []) MEx.ks)
  = [[0; -1; 2; -1; -1; -1; -1]; [0; 1; 2; 3; -1; -1; -1]; [0; 1; 2; 3; -1; 5; 6];
     [0; 1; 2; 3; -1; 5; 6]; [0; 1; 2; 3; -1; 5; 6]; [0; 1; 2; 3; -1; 5; 6]; [0; 1; 2; 3; -1; 5; 6];
     [0; 1; 2; 3; -1; 5; 6]; [0; 1; 2; 3; -1; 5; 6];
     [0; 0; 0; 0; 0; 5; 6]; [0; 0; 0; 0; 0; 5; 6]; [0; 0; 0; 0; 0; 5; 6]]%Z /\
  snd (pfinal MEx.sg (init 6, []) MEx.ks) = Some 1 /\
  REx.dump (fst (pfinal MEx.sg (init 6, []) MEx.ks))
  = ([0; 0; 0; 1; 4; 5],
     [[([], VId 0, false)]; [([], VId 0, false)];
      [([VId 0], VId 0, false); ([VId 4], VId 5, false)];
      [([VId 0], VInt 3, false); ([VId 4], VInt 7, false)]; []; [([], VId 4, false)]]).
Proof. exact MixedProofs.mex_mixed. Qed.

(* ================================================================== *)
(** * The rebuild loop's control facts, regenerated from the source ([gen/ParFacts.v])

    [rebuild_loop_exit_condition], [rebuild_loop_order], [rebuild_break_flags],
    [rebuild_guard_run_rules], [rebuild_guard_flush] are regenerated on every run from
    egglog-bridge/src/lib.rs ([EGraph::rebuild] native branch, [run_rules_inner],
    [flush_updates_inner]). [rebuild_loop x] is the model's loop under exit discipline [x];
    [run_with x] the term-level interpreter that uses it. *)
Require Import Verif.gen.ParFacts Verif.Egg.RepFacts Verif.Egg.RebuildBound.

(** this pins [rebuild_loop]: "until nothing changed" is [Model.rebuild]; a cap of k is at most
    k passes and then falls out silently *)
Theorem c01_rebuild_loop_unfold : forall fuel sg s,
  rebuild_loop ExitWhenNoChange fuel sg s = rebuild fuel sg s /\
  (forall cap, rebuild_loop (ExitAfterCap cap) fuel sg s = rebuild_capped cap sg s) /\
  rebuild_capped 0 sg s = Ok (s, false) /\
  (forall cap, rebuild_capped (S cap) sg s =
     bind (rebuild_pass sg s) (fun '(s', more, e) =>
       if more then bind (rebuild_capped cap sg s') (fun '(s'', e') => Ok (s'', orb e e'))
       else Ok (s', e))).
Proof. intros. repeat split. Qed.
Print Assumptions c01_rebuild_loop_unfold.

(** the source's loop has NO iteration cap: it leaves only when nothing changed *)
Theorem c01_source_loop_exit : rebuild_loop_exit_condition = ExitWhenNoChange.
Proof. exact RebuildBound.source_loop_exit. Qed.
Print Assumptions c01_source_loop_exit.

(** under the source's exit discipline the loop reaches the fixpoint, on EVERY signature: it
    terminates within the model's fuel, without panic, in a canonical database *)
Theorem c01_rebuild_fix : forall sg n s, WFxm s -> length (tabs s) = n ->
  exists s' e, rebuild_loop rebuild_loop_exit_condition (rebuild_fuel s) sg s = Ok (s', e) /\ c04_inv n s'.
Proof. exact RebuildBound.source_rebuild_fix. Qed.
Print Assumptions c01_rebuild_fix.

(** [c01_run_ok] / [c01_sound] / [c01_complete] for the interpreter whose loop is the
    regenerated one *)
Theorem c01_source_run_ok : forall n sg cs, Forall (fun m => m = MUnionId) sg ->
  exists s, run_with rebuild_loop_exit_condition sg (init n) cs = Ok s.
Proof. exact RebuildBound.source_run_ok. Qed.
Print Assumptions c01_source_run_ok.

Theorem c01_source_sound : forall n sg cs s t1 t2 v, Forall (fun m => m = MUnionId) sg ->
  run_with rebuild_loop_exit_condition sg (init n) cs = Ok s ->
  eval s t1 = Some v -> eval s t2 = Some v -> CC (unions_of cs) t1 t2.
Proof. exact RebuildBound.source_sound. Qed.
Print Assumptions c01_source_sound.

Theorem c01_source_complete : forall n sg cs s t1 t2 v1 v2,
  Forall (fun m => m = MUnionId) sg -> cmds_okb n cs = true ->
  run_with rebuild_loop_exit_condition sg (init n) cs = Ok s ->
  CC (unions_of cs) t1 t2 -> eval s t1 = Some v1 -> eval s t2 = Some v2 -> v1 = v2.
Proof. exact RebuildBound.source_complete. Qed.
Print Assumptions c01_source_complete.

(** containers -> tables -> refresh -> timestamp, once each per pass *)
Theorem c01_source_loop_order :
  before StepContainers StepTables rebuild_loop_order = true /\
  before StepTables StepRefresh rebuild_loop_order = true /\
  before StepRefresh StepIncTs rebuild_loop_order = true /\
  length rebuild_loop_order = 4.
Proof. exact RebuildBound.source_loop_order. Qed.
Print Assumptions c01_source_loop_order.

(** the loop is left exactly when no container changed, no table row was re-keyed and no row was
    refreshed *)
Theorem c01_source_break_iff_nothing_changed : forall c t r,
  forallb (fun f => negb (match f with FlagContainers => c | FlagTables => t | FlagRefreshed => r end))
          rebuild_break_flags = true
  <-> (c = false /\ t = false /\ r = false).
Proof. exact RebuildBound.source_break_iff_nothing_changed. Qed.
Print Assumptions c01_source_break_iff_nothing_changed.

(** both call sites (after a rule iteration, after a flush) rebuild exactly when the union-find grew *)
Theorem c01_source_rebuild_guards :
  rebuild_guard_run_rules = RebuildIffUfGrew /\ rebuild_guard_flush = RebuildIffUfGrew.
Proof. exact RebuildBound.source_rebuild_guards. Qed.
Print Assumptions c01_source_rebuild_guards.

(** A capped loop is NOT complete (the red-team patch "rebuild loop capped at N passes"): witness
    cap 3 — TopA ~ f^3(a), TopB ~ f^3(b) asserted, then a ~ b: level i of the towers is merged by
    pass i, the rows of TopA/TopB are re-keyed by pass 4, which the capped loop never runs. *)
Theorem c01_capped_loop_refuted :
  exists cs s t1 t2 v1 v2, cmds_okb 5 cs = true /\
    run_with (ExitAfterCap 3) (repeat MUnionId 5) (init 5) cs = Ok s /\
    CC (unions_of cs) t1 t2 /\ eval s t1 = Some v1 /\ eval s t2 = Some v2 /\ v1 <> v2.
Proof. exact RebuildBound.capped_loop_refuted. Qed.
Print Assumptions c01_capped_loop_refuted.

(** ... and for every cap < 7: [cap] passes miss the chain of height [cap], [cap+1] passes do not,
    the uncapped loop never does *)
Example c01_capped_loop_small_caps :
  forallb (fun cap => misses (ExitAfterCap cap) cap && negb (misses (ExitAfterCap (S cap)) cap)
                      && negb (misses ExitWhenNoChange cap))%bool (seq 0 7) = true.
Proof. exact RebuildBound.misses_small_caps. Qed.

(** Pass bound, ANY signature, any state with ids in range: the loop executes [k] passes with
    [k + (classes after) <= (classes before) + 1] (every non-final pass merges two classes);
    exactly [k] passes are needed (fuel [k] gives the same result, any smaller fuel runs out). *)
Theorem c01_rebuild_pass_bound : forall sg fuel s, WFxm s -> nroots (uf s) < fuel ->
  exists s' e k, rebuild fuel sg s = Ok (s', e) /\ rebuild_passes fuel sg s = Ok k /\
    k + nroots (uf s') <= S (nroots (uf s)) /\
    rebuild k sg s = Ok (s', e) /\ (forall k', k' < k -> rebuild k' sg s = OutOfFuel).
Proof. exact RebuildBound.rebuild_pass_bound. Qed.
Print Assumptions c01_rebuild_pass_bound.

(** the bound is attained: chain of height 3 — 4 passes, 8 classes before, 5 after *)
Example c01_pass_count_example :
  bind (run Ex.sg (init 4) (firstn 3 Ex.cs1)) (fun s =>
  bind (uf_union (uf s) 0 4) (fun p' =>
  let s3 := mkSt p' (tabs s) (wit s) in
  bind (rebuild (rebuild_fuel s3) Ex.sg s3) (fun '(s4, _) =>
  bind (rebuild_passes (rebuild_fuel s3) Ex.sg s3) (fun k =>
  Ok (k, nroots (uf s3), nroots (uf s4))))))
  = Ok (4, 8, 5).
Proof. exact RebuildBound.ex_pass_count. Qed.
