(** C09 — Bad input is rejected cleanly: no panic, no partial effect.
    This file only pins statements and prints their assumptions.

    What is theorem-backed: statements about `step` of Session/Pipeline.v, the faithful model of the
    command pipeline over the DECLARATION STATE (tied to the code by kernel-evaluated cases).
    What is NOT a theorem: "the real engine never panics" — every Gallina function is total; that
    clause is decided by harness/src/bin/h_session.rs (catch_unwind, child processes) and is testing. *)
From Coq Require Import List Arith Bool.
Import ListNotations.
Require Import Verif.gen.SessionFacts Verif.Session.Pipeline Verif.Session.Proofs Verif.Session.Order.

(** The unrestricted claim "rejected before execution => no effect" is FALSE for the faithful model
    (finding F2, what remains of it after repository commit 473a35e). Witnesses, each replayed on the
    real engine by the harness:
    - (datatype d (va i64) (vb nope)): the sort and the first constructor stay declared;
    - (ruleset r) then (function r (i64) i64 :merge (min old new)): typechecks, is then rejected by
      check_shadowing, the signature stays in TypeInfo;
    - (let $g 1) then (let $g "s"): rejected by check_shadowing, but the global's sort changed. *)
Theorem c09_reject_no_effect_refuted :
  (exists s' e, step init (CDatatype (U 11) [(U 12, [U 0]); (U 13, [U 14])]) = (s', RReject e)
                /\ ~ sess_decl_eq init s')
  /\ rejected_with_effect (fst (step init (CRuleset (U 15))))
       (CFunction (U 15) [U 0] (U 0) (Some (EPrim PMin [EVar (U 2); EVar (U 3)])))
  /\ rejected_with_effect (fst (step init (CAct (ALet (G 16) EInt)))) (CAct (ALet (G 16) EStr)).
Proof.
  exact (conj bad_variant_leaves_sort_and_constructor
           (conj shadowing_after_typecheck_leaves_signature second_let_changes_global_sort)).
Qed.
Print Assumptions c09_reject_no_effect_refuted.

(** F2 inside the model: the leftover signature makes a later, well-typed command panic
    (lib.rs:2700 `self.functions[name]`) *)
Theorem c09_leftover_panics :
  snd (run init [CDatatype (U 11) [(U 12, [U 0]); (U 13, [U 14])]; CAct (ADo (ECall (U 12) [EInt]))])
    = [RReject (ELaterPart EUndefinedSort); RPanic]
  /\ snd (run init [CRuleset (U 15); CFunction (U 15) [U 0] (U 0) (Some (EPrim PMin [EVar (U 2); EVar (U 3)]));
                    CAct (ASet (U 15) [EInt] EInt)])
    = [RAccept; RReject EShadowing; RPanic].
Proof. exact (conj f2_replay_datatype f2_replay_shadowing). Qed.
Print Assumptions c09_leftover_panics.

(** repaired by 473a35e (the model follows the repaired order): a function with a bad or
    self-referential (F9) merge expression, a constructor with a non-eq output and a duplicate
    declaration with another signature are rejected with NO effect *)
Theorem c09_function_decl_now_atomic :
  step init (CFunction (U 10) [U 0] (U 0) (Some (ECall (U 14) [EVar (U 2); EVar (U 3)]))) = (init, RReject EBadMerge)
  /\ step init (CFunction (U 10) [U 0] (U 0) (Some (ECall (U 10) [EVar (U 2)]))) = (init, RReject EBadMerge)
  /\ step init (CConstructor (U 10) [U 0] (U 0)) = (init, RReject ECtorOutputNotSort)
  /\ (let s := fst (step init (CFunction (U 10) [U 0] (U 0) (Some (EPrim PMin [EVar (U 2); EVar (U 3)])))) in
      step s (CFunction (U 10) [U 0; U 0] (U 0) (Some (EPrim PMin [EVar (U 2); EVar (U 3)]))) = (s, RReject EDupFunction)).
Proof. exact (conj bad_merge_clean (conj self_merge_clean (conj ctor_non_eq_clean dup_other_sig_clean))). Qed.
Print Assumptions c09_function_decl_now_atomic.

(** PARTIAL 1: for every state and every command whose typechecking is pure — ruleset, rule, run,
    check, push, pop, print-size, and the top-level actions set / union / expression — a rejection
    leaves the whole session state (including the push stack and the symbol generator) unchanged. *)
Theorem c09_reject_no_effect_partial : forall s c s' e,
  pure_cmd c = true -> step s c = (s', RReject e) -> s' = s.
Proof. exact reject_no_effect_pure. Qed.
Print Assumptions c09_reject_no_effect_partial.

(** PARTIAL 2: single-part declarations (sort, presort instance, function, constructor, let) rejected
    by the typechecker (undefined sort, sort already bound, name bound as a function, unknown presort /
    bad presort arguments, duplicate function, constructor output not an eq-sort, bad merge expression,
    ill-typed let body) leave the state unchanged. The only excluded errors are the late ones:
    EShadowing (raised after typechecking has recorded the declaration) and ELaterPart of compound
    declarations (datatype, relation) — exactly the remaining F2 witnesses. *)
Theorem c09_reject_no_effect_partial_decl : forall s c s' e,
  single_decl c = true -> step s c = (s', RReject e) -> early e = true -> s' = s.
Proof. exact reject_no_effect_early. Qed.
Print Assumptions c09_reject_no_effect_partial_decl.

(** an accepted declaration adds exactly the declared names, which were not declared before *)
Theorem c09_accept_extends_sort : forall F st n s',
  step (F, st) (CSort n) = (s', RAccept) ->
  ~ In n (sort_names F) /\ ~ In n (func_names F) /\ ~ In n (seen F) /\
  s' = (with_seen (with_sorts F ((n, KEq) :: sorts F)) (n :: seen F), st).
Proof. exact accept_sort_extends. Qed.
Print Assumptions c09_accept_extends_sort.

Theorem c09_accept_extends_function : forall F st n ins out m s',
  step (F, st) (CFunction n ins out m) = (s', RAccept) ->
  ~ In n (sort_names F) /\ ~ In n (func_names F) /\ ~ In n (seen F) /\ ~ In n (table_names F) /\
  (forall i, In i (out :: ins) -> In i (sort_names F)) /\
  s' = (with_tables (with_seen (with_funcs F (funcs F ++ [(n, {| f_ctor := false; f_ins := ins; f_out := out |})]))
                               (n :: seen F)) ((n, false) :: tables F), st).
Proof. exact accept_function_extends. Qed.
Print Assumptions c09_accept_extends_function.

Theorem c09_accept_extends_ruleset : forall F st n s',
  step (F, st) (CRuleset n) = (s', RAccept) ->
  ~ In n (seen F) /\ rs_lookup (rulesets F) (Some n) = None /\
  s' = (with_rulesets (with_seen F (n :: seen F)) ((Some n, []) :: rulesets F), st).
Proof. exact accept_ruleset_extends. Qed.
Print Assumptions c09_accept_extends_ruleset.

(** Panics need an inconsistent declaration state: if every function and global the typechecker
    knows has a table ([fn_closed]), then no command that only USES declarations (rule, check, run,
    push, pop, print-size, set / union / expression actions) reaches the `self.functions[name]`
    panic. The initial state is closed; the rejected datatype declaration of F2 breaks closedness. *)
Theorem c09_no_panic_partial : forall F st c,
  fn_closed F -> uses_only c = true -> snd (step (F, st) c) <> RPanic.
Proof. exact no_panic_when_closed. Qed.
Print Assumptions c09_no_panic_partial.

Theorem c09_reject_breaks_closed_refuted :
  fn_closed init_frame /\ exists s' e, step init (CDatatype (U 11) [(U 12, [U 0]); (U 13, [U 14])]) = (s', RReject e)
               /\ ~ fn_closed (fst s').
Proof. exact (conj closed_init f2_breaks_closed). Qed.
Print Assumptions c09_reject_breaks_closed_refuted.

(** a run stops at the first panic and otherwise yields one result per command *)
Theorem c09_run_total : forall cs s,
  length (snd (run s cs)) <= length cs /\
  (~ In RPanic (snd (run s cs)) -> length (snd (run s cs)) = length cs).
Proof. intros; split; [apply run_length | apply run_no_panic_full]. Qed.
Print Assumptions c09_run_total.

(** non-vacuity: the partial theorems' hypotheses are met by non-trivial states and commands *)
Example c09_example_pure_reject :
  let s := fst (run init [CDatatype (U 20) [(U 21, []); (U 22, [U 20])]; CRelation (U 23) [U 0]; CRuleset (U 24)]) in
  pure_cmd (CAct (ASet (U 22) [ECall (U 21) []] (ECall (U 21) []))) = true
  /\ step s (CAct (ASet (U 22) [ECall (U 21) []] (ECall (U 21) []))) = (s, RReject ESetConstructor)
  /\ step s (CRule 0 (Some (U 25)) [FHolds (ECall (U 23) [EVar (U 30)])] []) = (s, RReject ENoSuchRuleset)
  /\ step s (CAct (AUnion (ECall (U 23) [EInt]) (ECall (U 23) [EInt]))) = (s, RReject ENonUnionable)
  /\ step s (CRule 1 None [FHolds (ECall (U 23) [EVar (U 21)])] []) = (s, RReject EShadowing)
  /\ snd (step s (CRule 2 (Some (U 24)) [FEq (EVar (U 31)) (ECall (U 22) [EVar (U 32)])]
                        [AUnion (EVar (U 31)) (EVar (U 32))])) = RAccept.
Proof. vm_compute. repeat split; reflexivity. Qed.

Example c09_example_early_reject :
  let s := fst (run init [CSort (U 20)]) in
  step s (CFunction (U 21) [U 99] (U 0) None) = (s, RReject EUndefinedSort)
  /\ step s (CSortPre (U 22) PsVec [U 99]) = (s, RReject EUndefinedSort)
  /\ step s (CSort (U 20)) = (s, RReject ESortAlreadyBound).
Proof. vm_compute. repeat split; reflexivity. Qed.

(** the third F2 witness replayed: a second `let` of a global with another sort is rejected by
    check_shadowing, `global_sorts` keeps the new sort, and a later query on the global panics
    (lib.rs:2776 `query_table(..).unwrap()`) — found by the correspondence cases (seed 2) *)
Example c09_example_stale_global_panics :
  snd (run init [CDatatype (U 20) [(U 21, [])]; CAct (ALet (G 16) (ECall (U 21) []));
                 CAct (ALet (G 16) EInt); CCheck [FEq (EVar (G 16)) (EVar (G 16))]])
  = [RAccept; RAccept; RReject EShadowing; RPanic].
Proof. vm_compute. reflexivity. Qed.

From Coq Require Import String.
Open Scope string_scope.
Open Scope list_scope.
(* ======================================================================================== *)
(** * The mutation ORDER, regenerated from the source (gen/SessionFacts.v, Tier A) *)

(** every path of the pipeline (typecheck_command arms, check_shadowing arms, run_command arms,
    typecheck_function, typecheck_program, resolve_command_before_proofs, push, pop): the order of
    validations and mutations the model is written in EQUALS the order regenerated from
    src/typechecking.rs, src/lib.rs, src/ast/check_shadowing.rs on this run *)
Theorem c09_model_order_is_source_order :
  Forall (fun p => snd (fst p) = snd p) order_table.
Proof. exact model_order_is_source_order. Qed.
Print Assumptions c09_model_order_is_source_order.

(** the abstract lemma: on a loop-free step list, "no step that can reject comes after a step that
    mutates" holds IF AND ONLY IF every rejected run — whatever the individual validations answer,
    with no rollback — has performed no mutation *)
Theorem c09_validates_first_iff_atomic : forall db l,
  vf db false l = true <-> (forall ok tr, exec db ok 0 l [] = (tr, true) -> tr = []).
Proof. exact vf_iff_atomic. Qed.
Print Assumptions c09_validates_first_iff_atomic.

(** exclusive branches are listed one after the other: a real execution path is a subsequence of
    the regenerated list, and inherits the criterion *)
Theorem c09_validates_first_subseq : forall db (l' l : list sstep),
  subseq l' l -> forall d, vf db d l = true -> vf db d l' = true.
Proof. exact vf_subseq. Qed.
Print Assumptions c09_validates_first_subseq.

(** the model's declaration functions ARE the regenerated lists, interpreted (each label given its
    meaning on the model state, a failing validation returning the state as it is at that point):
    a source patch that moves the insertion of the signature above a check changes the left-hand side *)
Theorem c09_tc_function_is_source_order : forall n ins out ctor merge F,
  interp_fn n ins out ctor merge typecheck_function_steps F = Some (tc_function F n ins out ctor merge).
Proof. exact tc_function_is_source_order. Qed.
Print Assumptions c09_tc_function_is_source_order.

Theorem c09_tc_sort_is_source_order : forall n k pre F,
  interp_sort n k pre tc_arm_sort_steps F = Some (tc_sort F n k pre).
Proof. exact tc_sort_is_source_order. Qed.
Print Assumptions c09_tc_sort_is_source_order.

Theorem c09_tc_let_is_source_order : forall x e F,
  interp_let x e tc_arm_let_steps F = Some (tc_ncmd F (NAct (ALet x e))).
Proof. exact tc_let_is_source_order. Qed.
Print Assumptions c09_tc_let_is_source_order.

(** atomic BY ORDER (declaration state): every typecheck arm and every check_shadowing arm taken
    alone, and the whole ruleset / rule / non-let action / check commands *)
Theorem c09_paths_atomic_by_order :
  Forall (fun l => validates_first false l = true)
    [typecheck_function_steps; tc_arm_function_steps; tc_arm_sort_steps; tc_arm_let_steps; tc_arm_action_steps;
     tc_arm_rule_steps; tc_arm_check_steps; tc_arm_schedule_steps; tc_arm_ruleset_steps; tc_arm_combined_steps;
     tc_arm_push_steps; tc_arm_pop_steps; tc_arm_printsize_steps;
     shadow_arm_sort_steps; shadow_arm_function_steps; shadow_arm_ruleset_steps; shadow_arm_combined_steps;
     shadow_arm_rule_steps; shadow_arm_action_steps]
  /\ Forall (fun l => validates_first false l = true) [p_ruleset; p_rule; p_action; p_check].
Proof. exact (conj typecheck_arms_validate_first whole_paths_validate_first). Qed.
Print Assumptions c09_paths_atomic_by_order.

(** REFUTED BY ORDER: on these regenerated paths a mutation precedes a validation — whole sort /
    function / let commands (check_shadowing after the typechecker recorded the declaration),
    datatypes with >= 1 variant, `(fail c)` (F10); each F2 path comes with its witness in the model *)
Theorem c09_paths_order_refuted :
  Forall (fun l => vf false false l = false) [p_sort; p_function; p_let; p_datatype_tc 1; p_datatype_tc 2; p_fail]
  /\ (forall k, vf false false (p_datatype_tc (S k)) = false)
  /\ typecheck_program_steps = [LoopStart; Call "typecheck_command"; LoopEnd]
  /\ rejected_with_effect init (CDatatype (U 11) [(U 12, [U 0]); (U 13, [U 14])])
  /\ rejected_with_effect (fst (step init (CRuleset (U 15))))
       (CFunction (U 15) [U 0] (U 0) (Some (EPrim PMin [EVar (U 2); EVar (U 3)])))
  /\ rejected_with_effect (fst (step init (CAct (ALet (G 16) EInt)))) (CAct (ALet (G 16) EStr)).
Proof.
  exact (conj whole_paths_mutate_before_validating
          (conj datatype_never_validates_first
            (conj typecheck_program_is_plain_loop
              (conj bad_variant_leaves_sort_and_constructor
                (conj shadowing_after_typecheck_leaves_signature second_let_changes_global_sort))))).
Qed.
Print Assumptions c09_paths_order_refuted.

(** combined rulesets (F12, fixed by e53b4f6): the late validation in run_command comes after
    check_shadowing's mutation, but the same validation runs before the command is resolved *)
Theorem c09_combined_ruleset_guarded :
  vf false false p_combined = false
  /\ precedes (Validate "NoSuchRuleset") (Opaque "desugar_command") process_program_steps = true
  /\ precedes (Validate "NoSuchRuleset") (Call "typecheck_command") process_program_steps = true.
Proof. exact combined_ruleset_guarded_by_early_check. Qed.
Print Assumptions c09_combined_ruleset_guarded.

(** DATABASE effects by order: a failing top-level action touches no declaration state, but
    `run_rules` precedes the conversion of the backend error (writes made before the failing
    instruction stay — observed on the engine by h_session's `db-partial` probes); a rejected rule
    leaves neither declaration state nor database writes *)
Theorem c09_db_effects_by_order :
  validates_first false p_action = true /\ vf true false p_action = false /\ validates_first true p_rule = true.
Proof. exact (conj (proj1 action_db_not_atomic_by_order) (conj (proj2 action_db_not_atomic_by_order) rule_db_atomic_by_order)). Qed.
Print Assumptions c09_db_effects_by_order.

Example c09_example_order_exec :
  exec false (fun i => negb (Nat.eqb i 6)) 0 typecheck_function_steps [] = ([], true)
  /\ (let r := exec false (fun i => negb (Nat.eqb i 32)) 0 (p_datatype_tc 2) [] in
      snd r = true /\ Nat.leb 2 (List.length (fst r)) = true).
Proof. exact (conj exec_function_path_rejects_clean exec_datatype_path_rejects_dirty). Qed.
