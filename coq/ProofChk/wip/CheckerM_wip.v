(** C12: a Gallina re-implementation of egglog's proof checker
    (src/proofs/proof_checker.rs, [ProofStore::check_proof] / [check_proof_with_context]) for the
    proof-step kinds Fiat, Rule, Trans, Sym, Congr over a deep-embedded desugared program
    (top-level actions let / union / expression, rules [body => head] over constructors).
    Executable definitions only; the theorems are in ProofChk/Sound.v.

    Correspondence with the source (kept side condition by side condition):
      [eval]             eval_expr_with_subst (both copies), constructors and literals only
      [subterms]         add_subterm_reflexive_equalities
      [process_actions]  process_actions (Let / Union / Expr; Panic / Change (subsume, delete) add
                         nothing = [ANop]; Set on a custom function is outside the fragment)
      [ctx_new]          ProofCheckContext::new (duplicate rule names, global bindings + equalities)
      [fact_matches]     check_fact_matches_proposition (Eq and plain facts)
      [check]            check_proof_with_context; the memo table [checked_proofs] only avoids
                         re-checking a shared node, so checking the unfolded tree gives the same
                         verdict ([unfold] below builds the tree from the store's nodes)
    MergeFn, ContainerNormalize, primitives and custom-function facts are NOT modelled (link-only).
    Names (constructors, variables, rules) are numbered by the harness; terms are the [term] of
    the Egg core ([T f args | TI z]). *)
From Coq Require Import List Arith ZArith Bool PeanoNat.
Import ListNotations.
Require Import Verif.Egg.Model.

(* ------------------------------------------------------------------ *)
(** * terms *)

Fixpoint tm_eqb (a b : term) {struct a} : bool :=
  match a, b with
  | TI x, TI y => Z.eqb x y
  | T f l1, T g l2 =>
      Nat.eqb f g &&
      (fix go (l1 l2 : list term) {struct l1} : bool :=
         match l1, l2 with
         | [], [] => true
         | x :: t1, y :: t2 => tm_eqb x y && go t1 t2
         | _, _ => false
         end) l1 l2
  | _, _ => false
  end.

Fixpoint tms_eqb (l1 l2 : list term) : bool :=
  match l1, l2 with
  | [], [] => true
  | x :: t1, y :: t2 => tm_eqb x y && tms_eqb t1 t2
  | _, _ => false
  end.

(** every subterm of [t], [t] first *)
Fixpoint subterms (t : term) : list term :=
  t :: match t with
       | T _ l => flat_map subterms l
       | TI _ => []
       end.

Definition prop := (term * term)%type.

Definition refl_props (t : term) : list prop := map (fun s => (s, s)) (subterms t).

Definition in_props (l r : term) (ps : list prop) : bool :=
  existsb (fun p => tm_eqb (fst p) l && tm_eqb (snd p) r) ps.

(* ------------------------------------------------------------------ *)
(** * the desugared program *)

Inductive pat := PV (x : nat) | PA (f : nat) (args : list pat) | PL (z : Z)
| PP (op : nat) (args : list pat).   (* primitive call: 0 + | 1 - | 2 * | 3 min | 4 max (i64) *)

Inductive fact := FEq (a b : pat) | FPat (e : pat)
| FFun (f : nat) (args : list pat) (v : nat).   (* (= (f args..) v), f a custom function *)

Inductive action :=
| ALet (x : nat) (e : pat)
| AUnion (a b : pat)
| AExpr (e : pat)
| ANop
| ASet (f : nat) (args : list pat) (rhs : pat).

Record rule := mkRule { rname : nat; rbody : list fact; rhead : list action }.

Inductive cmd := CAct (a : action) | CRule (r : rule) | COther
| CFunc (name vold vnew : nat) (merge : option pat).  (* function declaration; [vold]/[vnew] are the
                                                        numbers of the variables "old"/"new" *)

Definition program := list cmd.

Definition env := list (nat * term).

Fixpoint lookup (w : env) (x : nat) : option term :=
  match w with
  | [] => None
  | (y, t) :: tl => if Nat.eqb y x then Some t else lookup tl x
  end.

(** the validators of the i64 primitives (src/sort/i64.rs: checked_add / checked_sub /
    checked_mul fail on overflow; min / max are total) *)
Definition i64_ok (z : Z) : bool := (Z.leb (-9223372036854775808) z && Z.ltb z 9223372036854775808)%Z.

Definition prim_eval (op : nat) (args : list term) : option term :=
  match args with
  | [TI a; TI b] =>
      match op with
      | 0 => if i64_ok (a + b) then Some (TI (a + b)%Z) else None
      | 1 => if i64_ok (a - b) then Some (TI (a - b)%Z) else None
      | 2 => if i64_ok (a * b) then Some (TI (a * b)%Z) else None
      | 3 => Some (TI (Z.min a b))
      | 4 => Some (TI (Z.max a b))
      | _ => None
      end
  | _ => None
  end.

Fixpoint eval (w : env) (p : pat) {struct p} : option term :=
  match p with
  | PV x => lookup w x
  | PL z => Some (TI z)
  | PP op args =>
      match (fix go (l : list pat) : option (list term) :=
               match l with
               | [] => Some []
               | a :: tl => match eval w a, go tl with
                            | Some t, Some ts => Some (t :: ts)
                            | _, _ => None
                            end
               end) args with
      | Some ts => prim_eval op ts
      | None => None
      end
  | PA f args =>
      match (fix go (l : list pat) : option (list term) :=
               match l with
               | [] => Some []
               | a :: tl => match eval w a, go tl with
                            | Some t, Some ts => Some (t :: ts)
                            | _, _ => None
                            end
               end) args with
      | Some ts => Some (T f ts)
      | None => None
      end
  end.

(** the propositions [eval_expr_with_subst] returns with the term: [t = t] for the result and its
    subterms, and those of the evaluated arguments (which a primitive's result does not contain) *)
Fixpoint eprops (w : env) (p : pat) {struct p} : list prop :=
  match p with
  | PV x => match lookup w x with Some t => refl_props t | None => [] end
  | PL z => [(TI z, TI z)]
  | PA _ args | PP _ args =>
      (fix go (l : list pat) : list prop :=
         match l with
         | [] => []
         | a :: tl => eprops w a ++ go tl
         end) args ++
      match eval w p with Some t => refl_props t | None => [] end
  end.

(** one action: extended bindings and the propositions it establishes *)
Definition do_action (w : env) (a : action) : option (env * list prop) :=
  match a with
  | ALet x e => match eval w e with
                | Some t => Some ((x, t) :: w, eprops w e)
                | None => None
                end
  | AUnion a b => match eval w a, eval w b with
                  | Some ta, Some tb => Some (w, eprops w a ++ eprops w b ++ [(ta, tb); (tb, ta)])
                  | _, _ => None
                  end
  | AExpr e => match eval w e with
               | Some t => Some (w, eprops w e)
               | None => None
               end
  | ANop => Some (w, [])
  | ASet f args rhs => match eval w (PA f (args ++ [rhs])) with
                       | Some t => Some (w, eprops w (PA f (args ++ [rhs])))
                       | None => None
                       end
  end.

Fixpoint process_actions (w : env) (acts : list action) : option (env * list prop) :=
  match acts with
  | [] => Some (w, [])
  | a :: tl => match do_action w a with
               | Some (w1, ps1) => match process_actions w1 tl with
                                   | Some (w2, ps2) => Some (w2, ps1 ++ ps2)
                                   | None => None
                                   end
               | None => None
               end
  end.

Fixpoint global_actions (prog : program) : list action :=
  match prog with
  | [] => []
  | CAct a :: tl => a :: global_actions tl
  | _ :: tl => global_actions tl
  end.

Fixpoint rules_of (prog : program) : list rule :=
  match prog with
  | [] => []
  | CRule r :: tl => r :: rules_of tl
  | _ :: tl => rules_of tl
  end.

Fixpoint nodup_nat (l : list nat) : bool :=
  match l with
  | [] => true
  | x :: tl => negb (existsb (Nat.eqb x) tl) && nodup_nat tl
  end.

Fixpoint find_rule (prog : program) (n : nat) : option rule :=
  match prog with
  | [] => None
  | CRule r :: tl => if Nat.eqb (rname r) n then Some r else find_rule tl n
  | _ :: tl => find_rule tl n
  end.

(** [run_merge]: the first declaration of [fn]; no declaration / no merge function / a failing
    evaluation is an error. The substitution binds ONLY old and new. *)
Fixpoint find_func (prog : program) (fn : nat) : option (nat * nat * option pat) :=
  match prog with
  | [] => None
  | CFunc n vo vn m :: tl => if Nat.eqb n fn then Some (vo, vn, m) else find_func tl fn
  | _ :: tl => find_func tl fn
  end.

Definition run_merge (prog : program) (fn : nat) (old new : term) : option (term * list prop) :=
  match find_func prog fn with
  | Some (vo, vn, Some e) =>
      let w := [(vn, new); (vo, old)] in
      match eval w e with
      | Some m => Some (m, eprops w e)
      | None => None
      end
  | _ => None
  end.

Fixpoint split_last (l : list term) : option (list term * term) :=
  match l with
  | [] => None
  | x :: tl => match tl with
               | [] => Some ([], x)
               | _ => match split_last tl with
                      | Some (i, o) => Some (x :: i, o)
                      | None => None
                      end
               end
  end.

Record gctx := mkCtx { gbind : env; geqs : list prop }.

Definition ctx_new (prog : program) : option gctx :=
  if nodup_nat (map rname (rules_of prog)) then
    match process_actions [] (global_actions prog) with
    | Some (w, ps) => Some (mkCtx w ps)
    | None => None
    end
  else None.

(* ------------------------------------------------------------------ *)
(** * proofs (the tree a [ProofId] denotes; every node carries the proposition it claims) *)

Inductive proof :=
| PFiat (l r : term)
| PRule (l r : term) (name : nat) (prems : list proof) (sub : env)
| PTrans (l r : term) (p q : proof)
| PSym (l r : term) (p : proof)
| PCongr (l r : term) (p : proof) (i : nat) (c : proof)
| PEval
| PMergeFn (l r : term) (fn : nat) (p q : proof).

Definition is_lit (t : term) : bool := match t with TI _ => true | T _ _ => false end.

Definition fact_matches (w : env) (f : fact) (pr : prop) : bool :=
  match f with
  | FEq a b => match eval w a, eval w b with
               | Some ta, Some tb => tm_eqb ta (fst pr) && tm_eqb tb (snd pr)
               | _, _ => false
               end
  | FPat e => match eval w e with
              | Some t => tm_eqb t (snd pr)
              | None => false
              end
  | FFun f args v =>
      match lookup w v, eval w (PA f args) with
      | Some vt, Some (T _ ts) => tm_eqb (fst pr) (T f (ts ++ [vt])) && tm_eqb (snd pr) (T f (ts ++ [vt]))
      | _, _ => false
      end
  end.

Fixpoint set_child (cs : list term) (i : nat) (c : term) : list term :=
  match cs, i with
  | [], _ => []
  | _ :: tl, 0 => c :: tl
  | x :: tl, S j => x :: set_child tl j c
  end.

Fixpoint check (g : gctx) (prog : program) (p : proof) {struct p} : option prop :=
  match p with
  | PFiat l r =>
      if (is_lit l && tm_eqb l r) || in_props l r (geqs g) then Some (l, r) else None
  | PRule l r name prems sub =>
      match find_rule prog name with
      | None => None
      | Some rl =>
          if Nat.eqb (length (rbody rl)) (length prems) then
            let w := sub ++ gbind g in
            if (fix go (fs : list fact) (ps : list proof) {struct ps} : bool :=
                  match fs, ps with
                  | f :: fs', q :: ps' =>
                      match check g prog q with
                      | Some pr => fact_matches w f pr && go fs' ps'
                      | None => false
                      end
                  | _, _ => true
                  end) (rbody rl) prems
            then match process_actions w (rhead rl) with
                 | Some (_, props) => if in_props l r props then Some (l, r) else None
                 | None => None
                 end
            else None
          else None
      end
  | PTrans l r p1 p2 =>
      match check g prog p1, check g prog p2 with
      | Some (a, b), Some (b', c) =>
          if tm_eqb b b' && tm_eqb l a && tm_eqb r c then Some (l, r) else None
      | _, _ => None
      end
  | PSym l r p1 =>
      match check g prog p1 with
      | Some (a, b) => if tm_eqb l b && tm_eqb r a then Some (l, r) else None
      | None => None
      end
  | PCongr l r p1 i c =>
      match check g prog p1, check g prog c with
      | Some (bl, T f cs), Some (cl, cr) =>
          if Nat.ltb i (length cs)
             && match nth_error cs i with Some x => tm_eqb x cl | None => false end
             && tm_eqb r (T f (set_child cs i cr))
             && tm_eqb l bl
          then Some (l, r) else None
      | _, _ => None
      end
  | PEval => None
  | PMergeFn l r fn p1 p2 =>
      match check g prog p1, check g prog p2 with
      | Some (ol, T oh oargs), Some (nl, T nh nargs) =>
          match split_last oargs, split_last nargs with
          | Some (oin, oout), Some (nin, nout) =>
              if tm_eqb ol (T oh oargs) && tm_eqb nl (T nh nargs) && Nat.eqb oh nh && tms_eqb oin nin then
                match run_merge prog fn oout nout with
                | Some (m, mprops) =>
                    if in_props l r (mprops ++ [(T oh (oin ++ [m]), T oh (oin ++ [m]))])
                    then Some (l, r) else None
                | None => None
                end
              else None
          | _, _ => None
          end
      | _, _ => None
      end
  end.

(** [ProofStore::check_proof] *)
Definition check_proof (prog : program) (p : proof) : option prop :=
  match ctx_new prog with
  | Some g => check g prog p
  | None => None
  end.

(* ------------------------------------------------------------------ *)
(** * glue for the correspondence cases: the proof store as a node table, the hook's program
      edits and node mutations, and the comparison of verdicts *)

Inductive pnode :=
| NFiat (l r : term)
| NRule (l r : term) (name : nat) (prems : list nat) (sub : env)
| NTrans (l r : term) (a b : nat)
| NSym (l r : term) (a : nat)
| NCongr (l r : term) (a : nat) (i : nat) (c : nat)
| NEval
| NMergeFn (l r : term) (fn : nat) (a b : nat).

Fixpoint unfold (ns : list pnode) (fuel : nat) (i : nat) {struct fuel} : proof :=
  match fuel with
  | 0 => PEval
  | S k =>
      match nth_error ns i with
      | None => PEval
      | Some (NFiat l r) => PFiat l r
      | Some (NRule l r nm ps s) => PRule l r nm (map (unfold ns k) ps) s
      | Some (NTrans l r a b) => PTrans l r (unfold ns k a) (unfold ns k b)
      | Some (NSym l r a) => PSym l r (unfold ns k a)
      | Some (NCongr l r a j c) => PCongr l r (unfold ns k a) j (unfold ns k c)
      | Some NEval => PEval
      | Some (NMergeFn l r fn a b) => PMergeFn l r fn (unfold ns k a) (unfold ns k b)
      end
  end.

Inductive pedit := ENone | ERemoveRule (n : nat) | ERemoveAction (i : nat) | ERemoveFunc (n : nat).

Fixpoint remove_rule (prog : program) (n : nat) : program :=
  match prog with
  | [] => []
  | CRule r :: tl => if Nat.eqb (rname r) n then remove_rule tl n else CRule r :: remove_rule tl n
  | c :: tl => c :: remove_rule tl n
  end.

Fixpoint remove_action (prog : program) (i : nat) : program :=
  match prog with
  | [] => []
  | CAct a :: tl => match i with
                    | 0 => tl
                    | S j => CAct a :: remove_action tl j
                    end
  | c :: tl => c :: remove_action tl i
  end.

Fixpoint remove_func (prog : program) (n : nat) : program :=
  match prog with
  | [] => []
  | CFunc m vo vn e :: tl => if Nat.eqb m n then remove_func tl n else CFunc m vo vn e :: remove_func tl n
  | c :: tl => c :: remove_func tl n
  end.

Definition apply_edit (e : pedit) (prog : program) : program :=
  match e with
  | ENone => prog
  | ERemoveRule n => remove_rule prog n
  | ERemoveAction i => remove_action prog i
  | ERemoveFunc n => remove_func prog n
  end.

Inductive pmut :=
| MNone
| MSwapTrans (id : nat)
| MCongrIdx (id i : nat)
| MSetLhs (id : nat) (t : term)
| MSetRhs (id : nat) (t : term)
| MSetSubst (id x : nat) (t : term)
| MDropPrem (id i : nat)
| MSetChild (id i c : nat).

Fixpoint upd_nth {A} (l : list A) (i : nat) (f : A -> A) : list A :=
  match l, i with
  | [], _ => []
  | x :: tl, 0 => f x :: tl
  | x :: tl, S j => x :: upd_nth tl j f
  end.

Fixpoint drop_nth {A} (l : list A) (i : nat) : list A :=
  match l, i with
  | [], _ => []
  | _ :: tl, 0 => tl
  | x :: tl, S j => x :: drop_nth tl j
  end.

Definition set_lhs (t : term) (n : pnode) : pnode :=
  match n with
  | NFiat _ r => NFiat t r
  | NRule _ r nm ps s => NRule t r nm ps s
  | NTrans _ r a b => NTrans t r a b
  | NSym _ r a => NSym t r a
  | NCongr _ r a i c => NCongr t r a i c
  | NMergeFn _ r fn a b => NMergeFn t r fn a b
  | NEval => NEval
  end.

Definition set_rhs (t : term) (n : pnode) : pnode :=
  match n with
  | NFiat l _ => NFiat l t
  | NRule l _ nm ps s => NRule l t nm ps s
  | NTrans l _ a b => NTrans l t a b
  | NSym l _ a => NSym l t a
  | NCongr l _ a i c => NCongr l t a i c
  | NMergeFn l _ fn a b => NMergeFn l t fn a b
  | NEval => NEval
  end.

Definition set_sub (i c : nat) (n : pnode) : pnode :=
  match n with
  | NRule l r nm ps s => NRule l r nm (upd_nth ps i (fun _ => c)) s
  | NTrans l r a b => match i with 0 => NTrans l r c b | 1 => NTrans l r a c | _ => n end
  | NSym l r a => match i with 0 => NSym l r c | _ => n end
  | NCongr l r a j d => match i with 0 => NCongr l r c j d | 1 => NCongr l r a j c | _ => n end
  | NMergeFn l r fn a b => match i with 0 => NMergeFn l r fn c b | 1 => NMergeFn l r fn a c | _ => n end
  | _ => n
  end.

Definition apply_mut (m : pmut) (ns : list pnode) : list pnode :=
  match m with
  | MNone => ns
  | MSwapTrans id => upd_nth ns id (fun n => match n with NTrans l r a b => NTrans l r b a | _ => n end)
  | MCongrIdx id i => upd_nth ns id (fun n => match n with NCongr l r a _ c => NCongr l r a i c | _ => n end)
  | MSetLhs id t => upd_nth ns id (set_lhs t)
  | MSetRhs id t => upd_nth ns id (set_rhs t)
  | MSetSubst id x t =>
      upd_nth ns id (fun n => match n with NRule l r nm ps s => NRule l r nm ps ((x, t) :: s) | _ => n end)
  | MDropPrem id i =>
      upd_nth ns id (fun n => match n with NRule l r nm ps s => NRule l r nm (drop_nth ps i) s | _ => n end)
  | MSetChild id i c => upd_nth ns id (set_sub i c)
  end.

Definition verdict (prog : program) (ns : list pnode) (root : nat) (e : pedit) (m : pmut) : bool :=
  match check_proof (apply_edit e prog) (unfold (apply_mut m ns) (S (length ns)) root) with
  | Some _ => true
  | None => false
  end.

(** a case: the checking program, the proof store restricted to the nodes reachable from the
    root (children renumbered), the root, and for each (program edit, node mutation) the verdict
    of the in-tree checker *)
Definition case := (program * list pnode * nat * list (pedit * pmut * bool))%type.

Definition check_case (c : case) : bool :=
  let '(prog, ns, root, obs) := c in
  forallb (fun o => let '(e, m, v) := o in Bool.eqb (verdict prog ns root e m) v) obs.
