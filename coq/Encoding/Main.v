(** C11: the assembled statement about the between-commands maintenance schedule. *)
From Coq Require Import List Arith ZArith Bool PeanoNat Lia.
Import ListNotations.
Require Import Verif.Base.Res Verif.Egg.Model Verif.Egg.CCDefs
  Verif.Encoding.Datalog Verif.Encoding.DatalogFacts Verif.Encoding.Templates Verif.Encoding.Maint
  Verif.Encoding.MaintInv Verif.Encoding.MaintFix Verif.Encoding.Compl.

Lemma eq_cols_nth : forall cols j0 i, i < length cols -> nth i cols false = true -> In (j0 + i) (eq_cols cols j0).
Proof.
  induction cols as [|b tl IH]; intros j0 i Hi Hn; cbn [length] in Hi; [lia|]. cbn [eq_cols].
  destruct i as [|i]; cbn [nth] in Hn.
  - subst b. rewrite Nat.add_0_r. simpl. auto.
  - apply in_or_app. right. replace (j0 + S i) with (S j0 + i) by lia. apply IH; [lia|exact Hn].
Qed.

Section Main.
  Variable sg : sigT.
  Variable U : list (term * term).
  Variable w : list term.

  (** two roots of one class are equal *)
  Lemma roots_eq d a b : Canonical sg d -> eqv d a b -> root d a -> root d b -> a = b.
  Proof.
    intros HC E Ha Hb. pose proof (canonical_eqv sg d HC a b E a) as [H1 _]. specialize (H1 Ha).
    destruct HC as [C1 _ _ _ _]. symmetry. apply (C1 b); assumption.
  Qed.

  (** on the saturated database the partition is a congruence for the view tables: rows of one
      constructor whose children are pairwise in one class (eq-sort columns) / equal (base
      columns) have the same leader *)
  Lemma canonical_congruence d : Inv sg U w d -> Canonical sg d ->
    forall f kinds cs1 cs2 o1 o2, nth_error sg f = Some kinds ->
      viewE d f (cs1 ++ [VId o1]) -> viewE d f (cs2 ++ [VId o2]) ->
      (forall i, i < length kinds ->
         if nth i kinds false then eqv d (nth i cs1 unitv) (nth i cs2 unitv) else nth i cs1 unitv = nth i cs2 unitv) ->
      o1 = o2.
  Proof.
    intros HI HC f kinds cs1 cs2 o1 o2 Hn H1 H2 Hcols.
    assert (Hl : forall cs o, viewE d f (cs ++ [VId o]) -> length cs = length kinds).
    { intros cs o (r & Hr & Hk). destruct (iv_view _ _ _ _ HI f kinds r Hn Hr) as (cs' & o' & Hsh & Hc).
      rewrite Hk in Hsh. apply app_inj_tail in Hsh. destruct Hsh as [<- _]. apply Forall2_len in Hc. lia. }
    pose proof (Hl _ _ H1) as L1. pose proof (Hl _ _ H2) as L2.
    assert (E : cs1 = cs2).
    { apply (nth_ext _ _ unitv unitv); [lia|]. intros i Hi. rewrite L1 in Hi. specialize (Hcols i Hi).
      destruct (nth i kinds false) eqn:Ek; [|exact Hcols].
      assert (Hin : In i (eq_cols (kinds ++ [true]) 0)).
      { apply (eq_cols_nth (kinds ++ [true]) 0 i); [rewrite app_length; cbn [length]; lia|rewrite app_nth1 by lia; exact Ek]. }
      pose proof (cn_canon _ _ HC f kinds _ i Hn H1 Hin) as R1. pose proof (cn_canon _ _ HC f kinds _ i Hn H2 Hin) as R2.
      rewrite app_nth1 in R1, R2 by lia. eapply roots_eq; eauto. }
    subst cs2. eapply (cn_func _ _ HC); eauto.
  Qed.

  (** The maintenance schedule computes the congruence closure of the encoded tables. *)
  Theorem maint_computes_cc fuel d d' c :
    Inv sg U w d -> UffEqv d -> run_sched fuel (enc_prog sg) maint_sched d = Ok (d', c) ->
    (* nothing invented, shape kept *)  Inv sg U w d' /\ UffEqv d' /\
    (* canonical, functional *)         Canonical sg d' /\
    (* no equality lost *)              (forall a b, eqv d a b -> eqv d' a b) /\
    (* no row lost *)                   (forall f kinds k, nth_error sg f = Some kinds -> viewE d f k ->
                                           exists k', viewE d' f k' /\ Forall2 (eqv d') k k') /\
    (* closed under congruence *)       (forall f kinds cs1 cs2 o1 o2, nth_error sg f = Some kinds ->
                                           viewE d' f (cs1 ++ [VId o1]) -> viewE d' f (cs2 ++ [VId o2]) ->
                                           (forall i, i < length kinds ->
                                              if nth i kinds false then eqv d' (nth i cs1 unitv) (nth i cs2 unitv)
                                              else nth i cs1 unitv = nth i cs2 unitv) -> o1 = o2).
  Proof.
    intros HI Hu H. destruct (maint_canonical sg U w fuel d d' c HI H) as [HI' HC].
    destruct (kept_sched sg U w fuel _ d d' c HI Hu H) as [_ Hu' He Hv].
    split; [exact HI'|]. split; [exact Hu'|]. split; [exact HC|]. split; [exact He|]. split; [exact Hv|].
    apply canonical_congruence; assumption.
  Qed.
End Main.
