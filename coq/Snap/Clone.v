(** C08 — clone half: a clone and its original are two sessions over ONE shared registry.
    Isolation is FALSE in the faithful model (finding F6) — witness below — and holds when the two
    copies never declare a table name the other copy has or declares. *)
From Coq Require Import List Arith Bool PeanoNat Lia ZArith.
Import ListNotations.
Require Import Verif.Snap.PushPop Verif.Snap.Proofs.

Section CloneProofs.

Variables (db dcmd dout aop aout : Type).
Variable db_step : decls -> db -> dcmd -> db * dout * nat * nat.
Variable db_decl : db -> ns -> name -> list nat -> db.
Variable db_api : db -> nat -> aop -> db * aout.
Variable decl_extra : decls -> ns -> name -> list nat -> bool.
Variable reject_effect : decls -> ns -> name -> list nat -> decls.

Hypothesis reject_mono : forall d k n a m, In m (fnames d) -> In m (fnames (reject_effect d k n a)).
Hypothesis reject_names : forall d k n a m, In m (fnames (reject_effect d k n a)) ->
  In m (fnames d) \/ (k = NFunc /\ m = n).

Notation egraph := (egraph db).
Notation sess := (sess db).
Notation pair := (pair db).
Notation cmd := (cmd dcmd aop).
Notation out := (out dout aout).
Notation step := (step db dcmd dout aop aout db_step db_decl db_api decl_extra reject_effect).
Notation run := (run db dcmd dout aop aout db_step db_decl db_api decl_extra reject_effect).
Notation outputs := (outputs db dcmd dout aop aout db_step db_decl db_api decl_extra reject_effect).
Notation pstep := (pstep db dcmd dout aop aout db_step db_decl db_api decl_extra reject_effect).
Notation prun := (prun db dcmd dout aop aout db_step db_decl db_api decl_extra reject_effect).
Notation lookup_action := (lookup_action db).
Notation equiv := (equiv db).
Notation Inv := (Inv db).
Notation undeclared := (undeclared db).
Notation same_counters := (same_counters db).
Notation frames := (frames db).
Notation tabs_ok := (tabs_ok db).
Notation fdecl_names := (fdecl_names dcmd aop).

Definition get (sd : side) (p : pair) : sess := match sd with SA => p_a p | SB => p_b p end.
Definition other (sd : side) : side := match sd with SA => SB | SB => SA end.

(** a registration made by SOMEBODY ELSE under a name this session does not have changes nothing
    this session can see *)
Lemma lookup_register_undeclared sh (F : egraph) n t :
  tabs_ok sh F -> ~ In n (fnames (e_decls F)) ->
  forall m, lookup_action (register sh n t) F m = lookup_action sh F m.
Proof.
  intros Hok Hn m. unfold register. destruct (Nat.eq_dec m n) as [->|Hm].
  - rewrite lookup_register_fresh.
    + symmetry. apply lookup_unnamed. intros i Hin. destruct (Hok n i Hin) as [_ H]. auto.
    + intros m j Hin. apply (Hok m j Hin).
  - apply lookup_register_other; auto.
Qed.

Lemma Forall2_left_impl {A B} (P : A -> Prop) (R R' : A -> B -> Prop) l1 l2 :
  Forall P l1 -> Forall2 R l1 l2 -> (forall a b, P a -> R a b -> R' a b) -> Forall2 R' l1 l2.
Proof.
  intros HP HR Himp. induction HR; constructor; inversion HP; subst; auto.
Qed.

Lemma foreign_register s sh s2 sh2 n t :
  equiv s sh s2 sh2 -> Inv s sh -> undeclared n s ->
  equiv s (register sh n t) s2 sh2 /\ Inv s (register sh n t).
Proof.
  intros HE [HF HC] Hu. split.
  - unfold Proofs.equiv in *.
    apply (Forall2_left_impl (fun F => tabs_ok sh F /\ ~ In n (fnames (e_decls F))) _ _ _ _) with (2 := HE).
    + rewrite Forall_forall in *. intros F HFin. split; [apply HF; auto|apply Hu; auto].
    + intros a b [Hok Hn] [Hab Hl]. split; auto. intros m.
      rewrite lookup_register_undeclared; auto.
  - split; auto. eapply Forall_impl; [|exact HF]. intros a. apply tabs_ok_mono. simpl. lia.
Qed.

Lemma equiv_refl s sh : equiv s sh s sh.
Proof.
  unfold Proofs.equiv. apply Forall2_same. intros x _. split; [repeat split; auto|intros n; reflexivity].
Qed.

Lemma fdecl_names_step_sub c tl n : In n (fdecl_names tl) -> In n (fdecl_names (c :: tl)).
Proof. intros H. destruct c; simpl; auto. destruct k; simpl; auto. Qed.

Lemma pstep_mine sd c p p1 o : pstep sd c p = (p1, o) ->
  step c (get sd p) (p_sh p) = (get sd p1, p_sh p1, o).
Proof.
  intros Hp. destruct sd; cbn [get]; simpl in Hp;
    [destruct (step c (p_a p) (p_sh p)) as [[a sh'] o'] | destruct (step c (p_b p) (p_sh p)) as [[a sh'] o']];
    inversion Hp; subst; reflexivity.
Qed.

Lemma pstep_theirs sd c p p1 o : pstep (other sd) c p = (p1, o) ->
  get sd p1 = get sd p /\ exists s', step c (get (other sd) p) (p_sh p) = (s', p_sh p1, o).
Proof.
  intros Hp. destruct sd; cbn [get other] in *; simpl in Hp;
    [destruct (step c (p_b p) (p_sh p)) as [[a sh'] o'] eqn:E | destruct (step c (p_a p) (p_sh p)) as [[a sh'] o'] eqn:E];
    inversion Hp; subst; simpl; split; eauto.
Qed.

(** the copy [sd] of a pair, observed through its own commands only, behaves exactly like a
    session that runs those commands alone — provided the other copy never declares a function
    name that this copy has or declares *)
Lemma clone_sim sd cs : forall p s2 sh2,
  equiv (get sd p) (p_sh p) s2 sh2 -> same_counters (get sd p) s2 ->
  Inv (get sd p) (p_sh p) -> Inv s2 sh2 ->
  (forall n, In n (fdecl_names (proj (other sd) cs)) ->
             undeclared n (get sd p) /\ ~ In n (fdecl_names (proj sd cs))) ->
  proj sd (snd (prun cs p)) = outputs (proj sd cs) s2 sh2.
Proof.
  induction cs as [|[sd' c] tl IH]; intros p s2 sh2 HE HC HI HI2 HN.
  - reflexivity.
  - cbn [PushPop.prun]. destruct (pstep sd' c p) as [p1 o] eqn:Ep.
    destruct (prun tl p1) as [p2 os] eqn:Er. cbn [snd].
    assert (Hsd : sd' = sd \/ sd' = other sd) by (destruct sd, sd'; auto).
    destruct Hsd as [-> | ->].
    + (* this copy's own command *)
      assert (Es := pstep_mine _ _ _ _ _ Ep).
      replace (proj sd ((sd, c) :: tl)) with (c :: proj sd tl) in * by (destruct sd; reflexivity).
      replace (proj sd ((sd, o) :: os)) with (o :: proj sd os) by (destruct sd; reflexivity).
      replace (proj (other sd) ((sd, c) :: tl)) with (proj (other sd) tl) in HN by (destruct sd; reflexivity).
      unfold PushPop.outputs. cbn [PushPop.run].
      destruct (step c s2 sh2) as [[s3 sh3] o3] eqn:E3.
      destruct (run (proj sd tl) s3 sh3) as [[s4 sh4] os4] eqn:E4. cbn [snd].
      destruct (sim_step db dcmd dout aop aout db_step db_decl db_api decl_extra reject_effect
                  c _ _ _ _ _ _ _ _ _ _ HE HI HI2 Es E3) as (_ & HE' & Hs).
      destruct (Hs HC) as [-> HC'].
      f_equal.
      assert (HI' := inv_step db dcmd dout aop aout db_step db_decl db_api decl_extra reject_effect reject_mono
                       _ _ _ _ _ _ HI Es).
      assert (HI2' := inv_step db dcmd dout aop aout db_step db_decl db_api decl_extra reject_effect reject_mono
                       _ _ _ _ _ _ HI2 E3).
      specialize (IH p1 s3 sh3 HE' HC' HI' HI2').
      rewrite Er in IH. cbn [snd] in IH. rewrite IH.
      * unfold PushPop.outputs. rewrite E4. reflexivity.
      * intros n Hn. destruct (HN n Hn) as [Hu Hnot]. split.
        -- intros F' HF' Hm.
           destruct (step_fnames db dcmd dout aop aout db_step db_decl db_api decl_extra reject_effect reject_names
                       _ _ _ _ _ _ _ _ Es HF' Hm) as [(F & HF & HmF)|(aux & ->)].
           ++ apply (Hu F HF HmF).
           ++ apply Hnot. simpl. left; auto.
        -- intros Hx. apply Hnot. apply fdecl_names_step_sub; auto.
    + (* the other copy's command: this copy does not move, the shared registry may *)
      destruct (pstep_theirs _ _ _ _ _ Ep) as (Hget & s' & Es).
      replace (proj sd ((other sd, c) :: tl)) with (proj sd tl) in * by (destruct sd; reflexivity).
      replace (proj sd ((other sd, o) :: os)) with (proj sd os) by (destruct sd; reflexivity).
      replace (proj (other sd) ((other sd, c) :: tl)) with (c :: proj (other sd) tl) in HN by (destruct sd; reflexivity).
      assert (Hrest : forall n, In n (fdecl_names (proj (other sd) tl)) ->
                undeclared n (get sd p1) /\ ~ In n (fdecl_names (proj sd tl))).
      { intros n Hn. rewrite Hget. apply HN. apply fdecl_names_step_sub; auto. }
      destruct (step_shared db dcmd dout aop aout db_step db_decl db_api decl_extra reject_effect
                  _ _ _ _ _ _ Es) as [Hsh|(n & aux & -> & _ & _ & Hsh)].
      * specialize (IH p1 s2 sh2). rewrite Er in IH. cbn [snd] in IH. apply IH; auto.
        -- rewrite Hget, Hsh. exact HE.
        -- rewrite Hget. exact HC.
        -- rewrite Hget, Hsh. exact HI.
      * destruct (HN n) as [Hu _]; [simpl; left; auto|].
        destruct (foreign_register _ _ _ _ n (length (e_tabs (s_cur (get (other sd) p)))) HE HI Hu) as [HE' HI'].
        specialize (IH p1 s2 sh2). rewrite Er in IH. cbn [snd] in IH. apply IH; auto.
        -- rewrite Hget, Hsh. exact HE'.
        -- rewrite Hget. exact HC.
        -- rewrite Hget, Hsh. exact HI'.
Qed.

(** C08, clone half, the part that holds.  [b = a.clone()], then ANY interleaving [cs] of commands
    on the two copies.  If the copy [other sd] never declares a function/table name that copy [sd]
    has (in any of its frames at the time of the clone) or declares later, then what [sd] outputs
    in the interleaving is exactly what it outputs when it runs its own commands alone. *)
Theorem clone_isolated_partial sd s sh cs :
  Inv s sh ->
  (forall n, In n (fdecl_names (proj (other sd) cs)) ->
             undeclared n s /\ ~ In n (fdecl_names (proj sd cs))) ->
  proj sd (snd (prun cs (clone db s sh))) = outputs (proj sd cs) s sh.
Proof.
  intros HI HN. apply clone_sim.
  - destruct sd; simpl; apply equiv_refl.
  - destruct sd; simpl; split; reflexivity.
  - destruct sd; simpl; exact HI.
  - exact HI.
  - destruct sd; simpl; exact HN.
Qed.

End CloneProofs.

(* ------------------------------------------------------------------------------------------ *)
(** F6 in the faithful model (concrete database instance of Snap/PushPop.v).

    a: (function g0 (i64) i64 ..)           -- prefix
    b = a.clone()
    b: (function g1 (i64) i64 ..)
    a: (function g1 (i64 i64) i64 ..)       -- a's later registration overwrites the SHARED entry
    b: update(|fs| fs.set("g1", (1,), 42))  -- b has a table g1, yet: MissingTable             *)

Definition f6_prefix : list scmd := [CDecl NFunc 0 [1]].
Definition f6_cmds : list (side * scmd) :=
  [(SB, CDecl NFunc 1 [1]); (SA, CDecl NFunc 1 [2]); (SB, CApi 1 (ASet [1%Z] 42%Z))].

Definition f6_shared : list sout :=
  let '(s, sh, _) := srun f6_prefix ssess0 shared0 in proj SB (snd (sprun f6_cmds (clone sdb s sh))).
Definition f6_alone : list sout :=
  let '(s, sh, _) := srun f6_prefix ssess0 shared0 in snd (srun (proj SB f6_cmds) s sh).

Lemma f6_values : f6_shared = [OOk; OMissing] /\ f6_alone = [OOk; OApi AOk].
Proof. vm_compute. split; reflexivity. Qed.

(** isolation of a clone from its original is REFUTED *)
Theorem clone_isolated_refuted :
  exists (prefix : list scmd) (cs : list (side * scmd)) (sd : side),
    let '(s, sh, _) := srun prefix ssess0 shared0 in
    proj sd (snd (sprun cs (clone sdb s sh))) <> snd (srun (proj sd cs) s sh).
Proof.
  exists f6_prefix, f6_cmds, SB. vm_compute. intros H. discriminate H.
Qed.

(** the instance satisfies the two hypotheses about rejected declarations (rejection is clean) *)
Lemma sreject_mono : forall d k n a m, In m (fnames d) -> In m (fnames (sreject d k n a)).
Proof. intros; exact H. Qed.
Lemma sreject_names : forall d k n a m, In m (fnames (sreject d k n a)) ->
  In m (fnames d) \/ (k = NFunc /\ m = n).
Proof. intros; left; exact H. Qed.
