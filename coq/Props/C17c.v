(** C17 (concurrent half) — the concurrent union-find of union-find/src/concurrent/uf.rs.
    This file only pins statements and prints their assumptions.

    TIER A LINK (second half of this file, the c17c_prog theorems): the atomic programs of find_impl / find /
    merge / same_set are REGENERATED from uf.rs on every run as control-flow graphs
    (gen/UFConcFacts.v: uf_prog), interpreted by UF/AtomProg.v; c17c_prog_step_is_model pins that one
    atomic step of that interpreter is exactly one [tstep] of the hand model, and c17c_prog_inv /
    c17c_prog_rep_min / c17c_prog_response_ok state the invariants for the interpreter of the
    regenerated program directly. Changing in uf.rs which root is linked under which, the CAS
    retry, the re-find in same_set, the root test or the splitting CAS breaks these obligations.

    The theorems are about the interleaving semantics UF/ConcModel.v: shared [parent : nat -> nat],
    any number of threads, every atomic step = one load or one cas of find_impl / merge / same_set,
    ALL interleavings, sequentially consistent. Not modelled (stress harness only): Acquire/Release
    orderings, Buffer growth under the ReadOptimizedLock (its protocol: the c19_rolock theorems of C19), u32
    exhaustion. Linearizability: proved at the level of the PARTITION - every find / same_set /
    union has a point inside its interval at which its answer (for union: its effect and the
    absorbed root) agrees with the abstract partition (c17c_response_ok_partial,
    c17c_same_false_lin); REFUTED for the first component of union's result, which can be a stale
    non-root (c17c_union_parent_stale_refuted, c17c_linearizable_refuted). *)
From Coq Require Import List Arith Bool.
Import ListNotations.
Require Import Verif.UF.ConcModel Verif.UF.Conc.
Require Import Verif.UF.AtomProg Verif.gen.UFConcFacts Verif.UF.AtomSim Verif.UF.AtomReach.

(** in every reachable configuration parent[x] <= x and the partition (same root) is exactly the
    equivalence closure of the arguments of the merges that took effect (successful link CAS, or
    both roots found equal) *)
Theorem c17c_inv : forall s, ConcModel.reachable s ->
  (forall i, parent s i <= i) /\
  (forall x y, eqv (parent s) x y <-> conn (merged s) x y).
Proof. exact conc_inv. Qed.
Print Assumptions c17c_inv.

(** compression never changes the partition: whichever find_impl step a thread takes next
    (load, load, or splitting CAS - successful or failed), every id keeps its root *)
Theorem c17c_compress_preserves : forall s t x0 f, ConcModel.reachable s ->
  fpc_of (thr s t) = Some (x0, f) ->
  (forall x r, root_of (parent s) x r <-> root_of (fst (fstep (parent s) f)) x r) /\
  (forall i, fst (fstep (parent s) f) i <= i).
Proof. exact conc_compress_preserves. Qed.
Print Assumptions c17c_compress_preserves.

(** the only root-changing step, a successful link CAS, makes the partition the old one plus the
    pair of arguments of that merge *)
Theorem c17c_link_effect : forall s t l0 r0 l r, ConcModel.reachable s ->
  thr s t = MergeCas l0 r0 l r -> parent s (Nat.max l r) = Nat.max l r ->
  let p' := upd (parent s) (Nat.max l r) (Nat.min l r) in
  (forall i, p' i <= i) /\
  forall x y, eqv p' x y <->
     (eqv (parent s) x y \/ (eqv (parent s) x l0 /\ eqv (parent s) r0 y)
                         \/ (eqv (parent s) x r0 /\ eqv (parent s) l0 y)).
Proof. exact conc_link_effect. Qed.
Print Assumptions c17c_link_effect.

(** the representative (root) of every id exists, is connected to it by the merges that took
    effect, and is the least id of its class - in every reachable configuration, in particular at
    quiescence *)
Theorem c17c_rep_min : forall s, ConcModel.reachable s -> forall x,
  exists r, root_of (parent s) x r /\ conn (merged s) x r /\
            forall y, conn (merged s) x y -> r <= y.
Proof. exact conc_rep_min. Qed.
Print Assumptions c17c_rep_min.

(** linearization-point facts, PARTIAL linearizability (see the comment at [resp_ok] in
    UF/Conc.v): at the step where a thread responds,
    find(x)=r: r is the root (least member) of x's class now; same_set=true: same class now;
    union(a,b)=(p,c): takes effect now, a~b afterwards, p<=c, c was a root until now and points to
    p now (or p=c is the common root and nothing was written);
    same_set=false: the left root is current, differs from the remembered right root (partial) *)
Theorem c17c_response_ok_partial : forall s t o rs, ConcModel.reachable s ->
  tstep (parent s) (thr s t) = Some o -> o_res o = Some rs -> resp_ok (parent s) (o_par o) rs.
Proof. exact conc_response_ok. Qed.
Print Assumptions c17c_response_ok_partial.

(** linearization point of same_set = false INSIDE the call's interval: if thread t entered
    same_set(a,b) in configuration s0, has not returned since ([incall]), and its next step answers
    false, then in some configuration sm of that interval a and b were in different classes
    (argument: the right root r was a root when observed; the left root l is a root now, hence was
    one then - a non-root never becomes a root again - so two different roots then) *)
Theorem c17c_same_false_lin : forall t s0 s a b o, ConcModel.reachable s0 ->
  thr s0 t = SameL a b b (F0 a) -> incall t s0 s ->
  tstep (parent s) (thr s t) = Some o -> o_res o = Some (RSame a b false) ->
  exists sm, incall t s0 sm /\ steps sm s /\ ~ eqv (parent sm) a b.
Proof. exact conc_same_false_lin. Qed.
Print Assumptions c17c_same_false_lin.

(** REFUTED in the faithful model (so also not linearizable w.r.t. the sequential union, whose
    first component is the class representative): union(5,7) can return parent 5 although 5 is not
    a root any more (3 is the representative). Schedule: [stale_schedule]. *)
Theorem c17c_union_parent_stale_refuted :
  exists s, ConcModel.reachable s /\
    hist s = [RMerge 5 7 5 7; RMerge 5 3 3 5] /\ parent s 5 = 3 /\ parent s 7 = 5 /\
    root_of (parent s) 7 3.
Proof. exact conc_union_parent_stale. Qed.
Print Assumptions c17c_union_parent_stale_refuted.

(** REFUTED: linearizability w.r.t. the sequential union-find (whose [union] returns the
    representative of the merged class). A reachable, quiescent history of four operations -
    union(5,3)=(3,5), then same_set(5,3)=true, then same_set(5,7)=false, all three inside the
    interval of union(5,7)=(5,7) - such that NONE of the four orders compatible with real time is
    explained by the translated sequential structure (gen/UFSeq.v); the last order is explained
    once the stale parent 5 is replaced by the true representative 3. The partition-level
    behaviour (find, same_set, the effect of union) is not affected: c17c_response_ok_partial. *)
Theorem c17c_linearizable_refuted :
  (exists s, ConcModel.reachable s /\ rev (hist s) = nonlin_observed /\
     thr s 1 = Idle /\ thr s 2 = Idle /\ thr s 3 = Idle) /\
  forallb (fun c => negb (explains c)) nonlin_candidates = true /\
  explains ([CUnion 5 3; CSame 5 3; CSame 5 7; CUnion 5 7],
            [RMerge 5 3 3 5; RSame 5 3 true; RSame 5 7 false; RMerge 5 7 3 7]) = true.
Proof. exact conc_not_linearizable_witness. Qed.
Print Assumptions c17c_linearizable_refuted.

(** non-vacuity of the final-state correspondence check *)
Example c17c_case_example :
  ConcModel.check_case ([(5, 7); (5, 3); (9, 8)], 10, [0; 1; 2; 3; 4; 3; 6; 3; 8; 8]) = true.
Proof. vm_compute. reflexivity. Qed.

(* ========================================================================================== *)
(** * Tier A link: the regenerated atomic programs (gen/UFConcFacts.v) *)
From Coq Require Import String.
Local Open Scope string_scope.

(** invocation: running the local prefix of the regenerated `find` / `merge` / `same_set` stops
    at the first load of find_impl, in a configuration that corresponds ([rel]) to the program
    counter at which the hand model starts the operation *)
Theorem c17c_prog_start_is_model : forall c,
  exists stk, start uf_prog (op_fn c) (op_args c) = Some (AtMem stk) /\ rel c stk (hand_start c).
Proof. exact sim_start. Qed.
Print Assumptions c17c_prog_start_is_model.

(** the hand model's step relation IS the interpreter of the regenerated program: from
    corresponding configurations, one atomic step (memory access + local instructions up to the
    next access) of the interpreter never gets stuck and is matched by [tstep] with the same new
    parent array, the same response, and corresponding successor configurations *)
Theorem c17c_prog_step_is_model : forall p c stk hc, rel c stk hc ->
  match astep uf_prog p stk with
  | Some (p', AtMem stk') =>
      exists o, tstep p hc = Some o /\ o_par o = p' /\ o_res o = None /\ rel c stk' (o_pc o)
  | Some (p', Returned vs) =>
      exists o, tstep p hc = Some o /\ o_par o = p' /\ o_pc o = Idle /\
                exists r, resp c vs = Some r /\ o_res o = Some r
  | None => False
  end.
Proof. exact sim_step. Qed.
Print Assumptions c17c_prog_step_is_model.

(** every configuration reachable by any number of threads running the regenerated programs under
    any interleaving has a reachable counterpart in the hand model: same parent array, same
    history of responses, corresponding thread states *)
Theorem c17c_prog_refines_model : forall cs, creachable uf_prog cs ->
  exists s, ConcModel.reachable s /\ parent s = c_par cs /\ hist s = c_hist cs /\
            forall t, trel (c_thr cs t) (thr s t).
Proof. exact sim_reachable. Qed.
Print Assumptions c17c_prog_refines_model.

(** c17c_inv for the regenerated program: in every reachable configuration parent[x] <= x and the
    partition is exactly the equivalence closure of the arguments of the merges that returned *)
Theorem c17c_prog_inv : forall cs, creachable uf_prog cs ->
  (forall i, c_par cs i <= i) /\
  (forall x y, eqv (c_par cs) x y <-> conn (merges_of (c_hist cs)) x y).
Proof. exact prog_inv. Qed.
Print Assumptions c17c_prog_inv.

(** c17c_rep_min for the regenerated program: the representative of every id exists, is connected
    to it and is the least id of its class *)
Theorem c17c_prog_rep_min : forall cs, creachable uf_prog cs -> forall x,
  exists r, root_of (c_par cs) x r /\ conn (merges_of (c_hist cs)) x r /\
            forall y, conn (merges_of (c_hist cs)) x y -> r <= y.
Proof. exact prog_rep_min. Qed.
Print Assumptions c17c_prog_rep_min.

(** linearization-point facts for the regenerated program: the values it returns satisfy
    [resp_ok] (see c17c_response_ok_partial) at the step that returns them *)
Theorem c17c_prog_response_ok : forall cs t c stk p' vs, creachable uf_prog cs ->
  c_thr cs t = Some (c, stk) -> astep uf_prog (c_par cs) stk = Some (p', Returned vs) ->
  exists r, resp c vs = Some r /\ resp_ok (c_par cs) p' r.
Proof. exact prog_response_ok. Qed.
Print Assumptions c17c_prog_response_ok.

(** U1 on the regenerated program (not only on the hand model): the schedule of
    c17c_union_parent_stale_refuted, executed by the interpreter of gen/UFConcFacts.v, makes
    merge(5,7) return parent 5 although 3 is the representative *)
Theorem c17c_prog_union_parent_stale_refuted :
  exists cs, creachable uf_prog cs /\
    c_hist cs = [RMerge 5 7 5 7; RMerge 5 3 3 5] /\ c_par cs 5 = 3 /\ c_par cs 7 = 5.
Proof. exact prog_union_parent_stale. Qed.
Print Assumptions c17c_prog_union_parent_stale_refuted.

(** the memory orderings atomic_int.rs passes for load / store / compare_exchange (regenerated;
    the model is sequentially consistent - these are the orderings the SC assumption is about:
    every load acquires, every successful write releases) *)
Theorem c17c_prog_orderings :
  uf_load_ordering = Acquire /\ uf_store_ordering = Release /\
  uf_cas_success_ordering = AcqRel /\ uf_cas_failure_ordering = Acquire.
Proof. exact prog_orderings. Qed.
Print Assumptions c17c_prog_orderings.

(** every operation demands capacity (largest argument + 1) from Buffer::with_access before its
    body runs (regenerated [a_need]) *)
Theorem c17c_prog_need : forall l r e,
  e "l" = l -> e "r" = r ->
  option_map (eval e) (a_need uf_merge_fn) = Some (Nat.max l r) /\
  option_map (eval (eset e "max_elt" (Nat.max l r))) (a_need uf_same_set_fn) = Some (Nat.max l r) /\
  option_map (eval e) (a_need uf_find_fn) = Some (e "elt") /\
  nth_error (a_code uf_same_set_fn) 0 = Some (ISet "max_elt" (EMax (EVar "l") (EVar "r")) 1).
Proof. exact prog_need. Qed.
Print Assumptions c17c_prog_need.

(** non-vacuity: a two-thread run of the regenerated program (merge(1,2) by thread 0 interleaved
    with find(2) by thread 1) reaches a configuration with a non-trivial partition *)
Example c17c_prog_run_example :
  exists cs, cexec_all uf_prog cinit prog_example_schedule = Some cs /\
    c_hist cs = [ConcModel.RFind 2 1; RMerge 1 2 1 2] /\ c_par cs 2 = 1.
Proof. eexists. split; [vm_compute; reflexivity|]. split; reflexivity. Qed.
