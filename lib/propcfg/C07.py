"""C07 configuration for bin/check."""

CFG = {
        "tier_a": ["Facts.subsume_guards"],
        "props_files": ["C07", "C07src"],
        "model_targets": ["Extract/Model.vo"],
        "proof_targets": ["Props/C07.vo", "Props/C07src.vo"],
        "harness": [{"bin": "h_extract", "prefix": "cases_extract"}],
        "trusted": [
            "hand-written Gallina model coq/Extract/Model.v of Extractor<u64> with TreeAdditiveCostModel (src/extract.rs: saturating cost fold, bellman_ford relaxation in scan order with rank stamps, save_best_parent_edge with the rank guard, reconstruct, extract_variants); tied to the code by the h_extract correspondence: same e-graph (constructor_enodes dump in scan order), same reported cost AND same extracted term (so tie-breaks and the rank guard are compared), same failure/panic, same variant costs",
            "h_extract's row order = declaration order of the constructors of the single eq-sort, then constructor_enodes order (the BFS over sorts of compute_costs_from_rootsorts is trivial for one sort); the theorems hold for every row order",
        ],
        "theorem_backed": "for every e-graph (list of rows with children that are classes or base values, subsumed flags, per-constructor cost/unextractable) and every row order: a returned term lies in the class through allowed rows only, its saturating tree cost equals the reported cost, no allowed term of the class is cheaper (the loop stops at the least fixpoint; also under saturation), failure only if the class has no allowed term, the relaxation loop terminates, reconstruction terminates and never panics for classes whose cost is below 2^64-1, variants are members rooted at distinct e-nodes; totality is refuted under saturation (F4 witness evaluates to Panic)",
        "link_only": "containers of e-classes (Vec/Set/MultiSet/Pair-of-E constructor arguments: container_cost, inner_values, rank through containers, reconstruct_termdag_container) are NOT in the Coq model; h_extract generates them in one case out of three (incl. cycles through containers, zero-cost wrappers before leaves, ties) and checks the property predicates on the implementation only (termination/no abort via a supervised child process, member via dump evaluation and (check (= term e)) on a clone, recomputed tree cost with a container costing the sum of its elements, independent least fixpoint treating a container child as the multiset of its element classes); those cases are kept out of the kernel-evaluated case files (extra_coverage c07_link_only_container_cases). Map containers, multi-sort reachability (BFS of compute_costs_from_rootsorts), view tables of proof/term encoding (term_constructor, find_canonical), custom CostModel implementations, function_to_dag: not modelled and not generated; the TermDag cache is modelled as the pure function it memoises",
        "assumptions": [
            "e-class ids and constructor ids are unbounded nat; base-value children are i64 literals (cost 1, rank 0)",
            "the e-graph handed to the extractor is rebuilt (canonical ids in rows), as after any top-level command",
            "costs and topo_rnk are one map in the model (the code writes both together at extract.rs:376-397)",
            "number of relaxation rounds evaluated by check_case is rows+2 (termination is proved for unbounded fuel; the tight round bound is not proved, an OutOfFuel would show as a model/implementation disagreement)",
        ],
    }
