//! Correspondence / property-predicate harness: runs the real egglog crates on generated cases,
//! evaluates the property's boolean predicate on what the implementation did, and writes the same
//! cases as Coq terms (`cases_*.v`) so the Gallina model is evaluated on them by the kernel.
//!
//! usage: verif-harness <sub> --out <dir> [--seed N] [--tier quick|thorough] [--replay file]
mod uf;
mod util;

pub struct Opts {
    pub out: std::path::PathBuf,
    pub seed: u64,
    pub thorough: bool,
    pub replay: Option<String>,
    pub extra: Vec<String>,
}

fn main() {
    let args: Vec<String> = std::env::args().collect();
    if args.len() < 2 {
        eprintln!("usage: verif-harness <sub> --out <dir> [--seed N] [--tier quick|thorough]");
        std::process::exit(2);
    }
    let sub = args[1].clone();
    let mut o = Opts { out: "out".into(), seed: 1, thorough: false, replay: None, extra: vec![] };
    let mut i = 2;
    while i < args.len() {
        match args[i].as_str() {
            "--out" => {
                o.out = args[i + 1].clone().into();
                i += 2;
            }
            "--seed" => {
                o.seed = args[i + 1].parse().expect("seed");
                i += 2;
            }
            "--tier" => {
                o.thorough = args[i + 1] == "thorough";
                i += 2;
            }
            "--replay" => {
                o.replay = Some(args[i + 1].clone());
                i += 2;
            }
            other => {
                o.extra.push(other.to_string());
                i += 1;
            }
        }
    }
    std::fs::create_dir_all(&o.out).unwrap();
    let code = match sub.as_str() {
        "uf" => uf::run(&o),
        _ => {
            eprintln!("unknown subcommand {sub}");
            2
        }
    };
    std::process::exit(code);
}
