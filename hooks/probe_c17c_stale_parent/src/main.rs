//! Probe: reproduce the "stale parent" history of c17c_linearizable_refuted on the real
//! concurrent union-find built with the H5 perturbation hook.
use egglog_union_find::concurrent::UnionFind;
use std::sync::atomic::{AtomicBool, AtomicU64, AtomicUsize, Ordering};
use std::sync::{Arc, Barrier};

fn main() {
    let iters: usize = std::env::args().nth(1).and_then(|s| s.parse().ok()).unwrap_or(200000);
    let seed: u64 = std::env::args().nth(2).and_then(|s| s.parse().ok()).unwrap_or(7);
    #[cfg(egglog_verif)]
    egglog_concurrency::verif_hooks::PERTURB_SEED.store(seed, Ordering::SeqCst);
    let _ = seed;
    let clock = Arc::new(AtomicU64::new(0));
    let mut found = 0usize;
    let mut stale_only = 0usize;
    for it in 0..iters {
        let uf: UnionFind<usize> = UnionFind::with_capacity(16);
        let bar = Arc::new(Barrier::new(3));
        let stop = Arc::new(AtomicBool::new(false));
        let t1_done = Arc::new(AtomicUsize::new(0));
        let (u1, b1, c1) = (uf.clone(), bar.clone(), clock.clone());
        let h1 = std::thread::spawn(move || {
            b1.wait();
            let inv = c1.fetch_add(1, Ordering::SeqCst);
            let r = u1.union(5, 7);
            let ret = c1.fetch_add(1, Ordering::SeqCst);
            (inv, ret, r)
        });
        let (u2, b2, c2) = (uf.clone(), bar.clone(), clock.clone());
        let h2 = std::thread::spawn(move || {
            b2.wait();
            let inv = c2.fetch_add(1, Ordering::SeqCst);
            let r = u2.union(5, 3);
            let ret = c2.fetch_add(1, Ordering::SeqCst);
            (inv, ret, r)
        });
        let (u3, b3, c3, st) = (uf.clone(), bar.clone(), clock.clone(), stop.clone());
        let h3 = std::thread::spawn(move || {
            b3.wait();
            // look for: same_set(5,3) = true (returned) and then same_set(5,7) = false
            let mut obs = None;
            for _ in 0..2000 {
                if st.load(Ordering::Relaxed) { break; }
                let i1 = c3.fetch_add(1, Ordering::SeqCst);
                let a = u3.same_set(5, 3);
                let r1 = c3.fetch_add(1, Ordering::SeqCst);
                if !a { continue; }
                let i2 = c3.fetch_add(1, Ordering::SeqCst);
                let b = u3.same_set(5, 7);
                let r2 = c3.fetch_add(1, Ordering::SeqCst);
                if !b { obs = Some((i1, r1, i2, r2)); }
                break;
            }
            obs
        });
        let (inv1, ret1, r1) = h1.join().unwrap();
        let (inv2, ret2, r2) = h2.join().unwrap();
        stop.store(true, Ordering::Relaxed);
        let o3 = h3.join().unwrap();
        let _ = t1_done;
        if r1 == (5, 7) && r2 == (3, 5) {
            if let Some((i1, r1t, i2, r2t)) = o3 {
                // union(5,3) returned before same_set(5,3) was invoked, same_set(5,7)=false returned
                // before union(5,7) returned, union(5,7) invoked before union(5,3) returned
                if ret2 < i1 && r2t < ret1 && inv1 < i1 {
                    found += 1;
                    if found <= 3 {
                        println!("iteration {it}: union(5,7)=(5,7) [{inv1},{ret1}]  union(5,3)=(3,5) [{inv2},{ret2}]  same_set(5,3)=true [{i1},{r1t}]  same_set(5,7)=false [{i2},{r2t}]  final find(7)={}", uf.find(7));
                    }
                }
            }
            stale_only += 1;
        }
    }
    println!("iters={iters} histories_with_both_results={stale_only} non_linearizable_histories={found}");
}
