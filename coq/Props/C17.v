(** C17 — Union-find: same class iff connected, representative is the minimum id.
    This file only pins statements and prints their assumptions. *)
From Coq Require Import List Arith PeanoNat.
Import ListNotations.
Require Import Verif.Base.Res Verif.gen.UFSeq Verif.UF.Ops Verif.UF.Seq.

(** For EVERY sequence of union/find/reset operations, run on the functions translated from
    union-find/src/lib.rs starting from the empty structure: the run neither panics nor runs out
    of the stated fuel, the order invariant parents[i] <= i holds, and two ids have the same
    representative iff they are connected by the unions performed since the last reset. *)
Theorem c17_same_iff_connected : forall ops : list op,
  exists p, run [] ops = Ok p /\ Inv p /\ forall x y, eqv p x y <-> conn ops x y.
Proof. exact run_same_iff_connected. Qed.
Print Assumptions c17_same_iff_connected.

(** The representative of a class is its least member. *)
Theorem c17_rep_is_min : forall p x r, Inv p -> root_of p x r ->
  eqv p x r /\ forall y, eqv p x y -> r <= y.
Proof. exact rep_is_min. Qed.
Print Assumptions c17_rep_is_min.

(** find (path halving) returns the root, terminates within fuel max(len, id+1), does not panic,
    and changes no id's root: compression never changes the partition. *)
Theorem c17_find_ok : forall p id fuel, Inv p -> Nat.max (length p) (S id) <= fuel ->
  exists p' r, find fuel p id = Ok (p', r)
    /\ root_of p id r /\ Inv p' /\ length p' = Nat.max (length p) (S id)
    /\ (forall x r', root_of p x r' <-> root_of p' x r').
Proof. exact find_ok. Qed.
Print Assumptions c17_find_ok.

(** find_naive agrees with the root relation (hence with find). *)
Theorem c17_find_naive_ok : forall p id fuel, Inv p -> length p <= fuel ->
  exists r, find_naive fuel p id = Ok r /\ root_of p id r.
Proof. exact find_naive_ok. Qed.
Print Assumptions c17_find_naive_ok.

(** union links the larger root under the smaller one and reports (min, max) of the two roots. *)
Theorem c17_union_ok : forall p a b fuel, Inv p -> Nat.max (length p) (S (Nat.max a b)) <= fuel ->
  exists p' ra rb, root_of p a ra /\ root_of p b rb
    /\ union fuel p a b = Ok (p', (Nat.min ra rb, if Nat.eqb ra rb then ra else Nat.max ra rb))
    /\ Inv p' /\ length p' = Nat.max (length p) (S (Nat.max a b))
    /\ (forall x r, root_of p x r ->
          root_of p' x (if (negb (Nat.eqb ra rb) && Nat.eqb r (Nat.max ra rb))%bool then Nat.min ra rb else r)).
Proof. exact union_ok. Qed.
Print Assumptions c17_union_ok.

(** the observing run evaluated by the correspondence check is the proved state machine *)
Theorem c17_run_obs_run : forall ops p, bind (run_obs p ops) (fun '(p', _) => Ok p') = run p ops.
Proof. exact run_obs_run. Qed.
Print Assumptions c17_run_obs_run.

(** non-vacuity: a concrete non-trivial run *)
Example c17_example :
  run_obs [] [OUnion 3 1; OUnion 4 2; OUnion 3 4; OFind 4] = Ok ([0; 1; 1; 1; 1], [1; 3; 2; 4; 1; 2; 1]).
Proof. vm_compute. reflexivity. Qed.
