(** C14 — executable model of core-relations/src/containers/mod.rs ([ContainerEnv]) on top of the
    union-find of the Egg core ([rep] = translated [find_naive]). Executable definitions only.

    - [to_id]   : contents |-> id            (DashMap<C, Value>, the hash-consing map)
    - [to_cont] : id |-> locator             (DashMap<Value, (hash, shard)>; the locator is modelled
                                              by the contents under which the entry was filed, i.e. a
                                              perfect hash; [get_container] looks the entry up in that
                                              bucket and compares the stored id, as the Rust does)
    - [vidx]    : value |-> ids of containers mentioning it (val_index)

    One environment holds all container kinds (the Rust has one [ContainerEnv<C>] per Rust type;
    contents of different kinds are never equal, so the tagged union is the disjoint sum).
    Container kinds are abstracted by what [rebuild_contents] / [iter] do (src/sort/*.rs). *)
From Coq Require Import List Arith Bool PeanoNat.
Import ListNotations.
Require Import Verif.Base.Res Verif.Base.Cases Verif.gen.UFSeq Verif.gen.MergeArms Verif.Egg.Model.

(* ------------------------------------------------------------------ contents *)

Inductive cont :=
| CVec (l : list nat)                       (* VecContainer.data *)
| CSet (l : list nat)                       (* SetContainer.data : BTreeSet, kept strictly sorted *)
| CMSet (l : list nat)                      (* MultiSetContainer.data, kept sorted *)
| CPair (a b : nat)                         (* PairContainer *)
| CMap (rk rv : bool) (l : list (nat * nat)). (* MapContainer: do_rebuild_keys/vals, BTreeMap *)

Fixpoint nats_eqb (a b : list nat) : bool :=
  match a, b with
  | [], [] => true
  | x :: a', y :: b' => (x =? y) && nats_eqb a' b'
  | _, _ => false
  end.

Fixpoint pairs_eqb (a b : list (nat * nat)) : bool :=
  match a, b with
  | [], [] => true
  | (x1, x2) :: a', (y1, y2) :: b' => (x1 =? y1) && (x2 =? y2) && pairs_eqb a' b'
  | _, _ => false
  end.

Definition cont_eqb (c d : cont) : bool :=
  match c, d with
  | CVec a, CVec b => nats_eqb a b
  | CSet a, CSet b => nats_eqb a b
  | CMSet a, CMSet b => nats_eqb a b
  | CPair a1 a2, CPair b1 b2 => (a1 =? b1) && (a2 =? b2)
  | CMap k1 v1 a, CMap k2 v2 b => Bool.eqb k1 k2 && Bool.eqb v1 v2 && pairs_eqb a b
  | _, _ => false
  end.

(** sorted insertion keeping duplicates (MultiSet) / dropping duplicates (BTreeSet) *)
Fixpoint ins (x : nat) (l : list nat) : list nat :=
  match l with
  | [] => [x]
  | y :: t => if x <=? y then x :: l else y :: ins x t
  end.

Fixpoint insd (x : nat) (l : list nat) : list nat :=
  match l with
  | [] => [x]
  | y :: t => if x <? y then x :: l else if x =? y then l else y :: insd x t
  end.

Definition sort_ms (l : list nat) : list nat := fold_right ins [] l.
Definition sort_set (l : list nat) : list nat := fold_right insd [] l.

Section Kinds.
  (** which value survives when two keys of one Map collide: [oracle key stored incoming].
      The Rust collects into a BTreeMap in old key order (last write wins); the property leaves the
      choice open, so do the theorems. *)
  Variable oracle : nat -> nat -> nat -> nat.

  Fixpoint insm (k v : nat) (l : list (nat * nat)) : list (nat * nat) :=
    match l with
    | [] => [(k, v)]
    | (k', v') :: t =>
        if k <? k' then (k, v) :: l
        else if k =? k' then (k', oracle k v' v) :: t
        else (k', v') :: insm k v t
    end.

  Definition norm_map (l : list (nat * nat)) : list (nat * nat) :=
    fold_left (fun acc kv => insm (fst kv) (snd kv) acc) l [].

  (** [ContainerValue::iter] : every value mentioned (feeds val_index) *)
  Definition iter (c : cont) : list nat :=
    match c with
    | CVec l | CSet l | CMSet l => l
    | CPair a b => [a; b]
    | CMap _ _ l => flat_map (fun kv => [fst kv; snd kv]) l
    end.

  (** the values [rebuild_contents] passes through the rebuilder *)
  Definition rids (c : cont) : list nat :=
    match c with
    | CVec l | CSet l | CMSet l => l
    | CPair a b => [a; b]
    | CMap rk rv l => (if rk then map fst l else []) ++ (if rv then map snd l else [])
    end.

  Section Rebuild.
    Variable f : nat -> nat.     (* ValueRebuilder::rebuild_val = find_naive of the union-find *)

    (** the bool returned by [rebuild_contents] *)
    Definition changed (c : cont) : bool := existsb (fun x => negb (f x =? x)) (rids c).

    Definition rebuild_raw (c : cont) : cont :=
      match c with
      | CVec l => CVec (map f l)
      | CSet l => CSet (sort_set (map f l))
      | CMSet l => CMSet (sort_ms (map f l))
      | CPair a b => CPair (f a) (f b)
      | CMap rk rv l =>
          let l1 := if rk then norm_map (map (fun kv => (f (fst kv), snd kv)) l) else l in
          let l2 := if rv then map (fun kv => (fst kv, f (snd kv))) l1 else l1 in
          CMap rk rv l2
      end.

    (** contract of the trait: when the returned flag is false the container is unmodified *)
    Definition rebuild_contents (c : cont) : cont := if changed c then rebuild_raw c else c.
  End Rebuild.

  (* ---------------------------------------------------------------- environment *)

  Record env := mkEnv {
    to_id : list (cont * nat);
    to_cont : list (nat * cont);
    vidx : list (nat * list nat)
  }.

  Definition empty_env : env := mkEnv [] [] [].

  Fixpoint find_id (m : list (cont * nat)) (c : cont) : option nat :=
    match m with
    | [] => None
    | (d, v) :: t => if cont_eqb d c then Some v else find_id t c
    end.

  Fixpoint find_cont (m : list (nat * cont)) (v : nat) : option cont :=
    match m with
    | [] => None
    | (w, c) :: t => if w =? v then Some c else find_cont t v
    end.

  (** [get_container]: follow the locator, then compare the stored id *)
  Definition get_container (e : env) (v : nat) : option cont :=
    match find_cont (to_cont e) v with
    | Some c0 => match find_id (to_id e) c0 with
                 | Some w => if w =? v then Some c0 else None
                 | None => None
                 end
    | None => None
    end.

  Definition del_id (m : list (cont * nat)) (v : nat) : list (cont * nat) :=
    filter (fun cv => negb (snd cv =? v)) m.
  Definition del_key (m : list (cont * nat)) (c : cont) : list (cont * nat) :=
    filter (fun cv => negb (cont_eqb (fst cv) c)) m.
  Definition del_cont (m : list (nat * cont)) (v : nat) : list (nat * cont) :=
    filter (fun vc => negb (fst vc =? v)) m.
  Definition tc_insert (m : list (nat * cont)) (v : nat) (c : cont) : list (nat * cont) :=
    (v, c) :: del_cont m v.

  (* val_index: IndexSet per value *)
  Fixpoint idx_get (vi : list (nat * list nat)) (x : nat) : list nat :=
    match vi with
    | [] => []
    | (y, s) :: t => if y =? x then s else idx_get t x
    end.
  Fixpoint idx_upd (vi : list (nat * list nat)) (x : nat) (g : list nat -> list nat) :=
    match vi with
    | [] => [(x, g [])]
    | (y, s) :: t => if y =? x then (y, g s) :: t else (y, s) :: idx_upd t x g
    end.
  Definition smem (v : nat) (s : list nat) : bool := existsb (Nat.eqb v) s.
  Definition sadd (v : nat) (s : list nat) : list nat := if smem v s then s else s ++ [v].
  Definition srem (v : nat) (s : list nat) : list nat := filter (fun w => negb (w =? v)) s.

  Definition idx_add_all (vi : list (nat * list nat)) (xs : list nat) (v : nat) :=
    fold_left (fun vi x => idx_upd vi x (sadd v)) xs vi.
  Definition idx_swap_all (vi : list (nat * list nat)) (xs : list nat) (old new : nat) :=
    fold_left (fun vi x => idx_upd vi x (fun s => sadd new (srem old s))) xs vi.

  (** file a new entry (Vacant arms of get_or_insert / insert_owned) *)
  Definition add_entry (e : env) (c : cont) (v : nat) : env :=
    mkEnv ((c, v) :: to_id e) (tc_insert (to_cont e) v c) (idx_add_all (vidx e) (iter c) v).

  Definition get_or_insert (e : env) (c : cont) (fresh : nat) : env * nat :=
    match find_id (to_id e) c with
    | Some v => (e, v)
    | None => (add_entry e c fresh, fresh)
    end.

  (** [insert_owned]: returns the environment, the id the contents now have, the union staged by
      the merge closure of register_container_ty ([merge_unionid]: min survives) *)
  Definition insert_owned (e : env) (c : cont) (value : nat) : env * nat * list (nat * nat) :=
    match find_id (to_id e) c with
    | Some old =>
        let result := merge_unionid old value in
        let us := if old =? value then [] else [(old, value)] in
        if result =? old then (e, result, us)
        else (mkEnv ((c, result) :: del_key (to_id e) c)
                    (tc_insert (del_cont (to_cont e) old) result c)
                    (idx_swap_all (vidx e) (iter c) old result), result, us)
    | None => (add_entry e c value, value, [])
    end.

  (* ---------------------------------------------------------------- rebuild passes *)

  Section Pass.
    Variable f : nat -> nat.

    (** apply_rebuild_nonincremental, first loop: walk the entries; changed containers are taken
        out (both maps) and queued, "just the value changed" re-keys in place WITHOUT touching
        val_index (suspect S3) *)
    Fixpoint scan_full (entries : list (cont * nat)) (e : env) (todo : list (cont * nat * bool))
             (chg : bool) : env * list (cont * nat * bool) * bool :=
      match entries with
      | [] => (e, todo, chg)
      | (c, v) :: tl =>
          let nv := f v in
          let ch := changed f c in
          if negb ch && (nv =? v) then scan_full tl e todo chg
          else if ch then
            scan_full tl (mkEnv (del_id (to_id e) v) (del_cont (to_cont e) v) (vidx e))
                      (todo ++ [(rebuild_raw f c, nv, nv =? v)]) true
          else
            scan_full tl (mkEnv ((c, nv) :: del_key (to_id e) c)
                                (tc_insert (del_cont (to_cont e) v) nv c) (vidx e))
                      todo true
      end.

    Fixpoint reinsert (todo : list (cont * nat * bool)) (e : env) (us : list (nat * nat))
             (dirty : list nat) : env * list (nat * nat) * list nat :=
      match todo with
      | [] => (e, us, dirty)
      | (c, v, stable) :: tl =>
          let '(e', actual, u) := insert_owned e c v in
          reinsert tl e' (us ++ u) (if stable && (actual =? v) then dirty ++ [v] else dirty)
      end.

    Definition pass_full (e : env) : env * list (nat * nat) * list nat * bool :=
      let '(e1, todo, chg) := scan_full (to_id e) e [] false in
      let '(e2, us, dirty) := reinsert todo e1 [] [] in
      (e2, us, dirty, chg).

    (** apply_rebuild_incremental: ids to rebuild = the displaced ids and every container that
        val_index lists for them *)
    Definition to_rebuild (displaced : list nat) (e : env) : list nat :=
      nodup Nat.eq_dec (flat_map (fun d => d :: idx_get (vidx e) d) displaced).

    Fixpoint inc_loop (ids : list nat) (e : env) (us : list (nat * nat)) (dirty : list nat)
             (chg : bool) : env * list (nat * nat) * list nat * bool :=
      match ids with
      | [] => (e, us, dirty, chg)
      | id :: tl =>
          match get_container e id with
          | None => inc_loop tl e us dirty chg
          | Some c =>
              let rid := f id in
              let ch := changed f c in
              let c' := rebuild_contents f c in
              (* the entry leaves to_id; its locator stays unless the id itself changed *)
              let tc := if rid =? id then to_cont e else del_cont (to_cont e) id in
              let e1 := mkEnv (del_id (to_id e) id) tc (vidx e) in
              let '(e2, actual, u) := insert_owned e1 c' rid in
              inc_loop tl e2 (us ++ u)
                       (if ch && (rid =? id) && (actual =? id) then dirty ++ [id] else dirty)
                       (chg || ch || negb (rid =? id))
          end
      end.

    Definition pass_inc (displaced : list nat) (e : env) : env * list (nat * nat) * list nat * bool :=
      inc_loop (to_rebuild displaced e) e [] [] false.
  End Pass.

  (** expand_dirty_id_closure: climb val_index until nothing new *)
  Fixpoint close_dirty (fuel : nat) (e : env) (frontier seen : list nat) : list nat :=
    match fuel with
    | O => seen
    | S fuel =>
        let next := flat_map (idx_get (vidx e)) frontier in
        let fresh := nodup Nat.eq_dec (filter (fun v => negb (smem v seen)) next) in
        match fresh with
        | [] => seen
        | _ => close_dirty fuel e fresh (seen ++ fresh)
        end
    end.

  Definition all_index_ids (e : env) : list nat := flat_map snd (vidx e).
  Definition dirty_closure (e : env) (dirty : list nat) : list nat :=
    close_dirty (S (length (all_index_ids e))) e dirty (nodup Nat.eq_dec dirty).

  (* ---------------------------------------------------------------- rebuild to fixpoint *)

  Definition isroot_b (p : list nat) (i : nat) : bool := rep p i =? i.
  (** rows the Displaced table gained between two union-finds *)
  Definition displaced (p p' : list nat) : list nat :=
    filter (fun i => isroot_b p i && negb (isroot_b p' i)) (seq 0 (length p)).

  Record cstate := mkCS { cuf : list nat; cenv : env; pending : list nat }.

  (** the container half of egglog-bridge [rebuild]'s loop; [strat k] says whether pass [k] (counted
      down with the fuel) takes the incremental strategy. Returns the dirty ids of all passes. *)
  Fixpoint rebuild_loop (fuel : nat) (strat : nat -> bool) (s : cstate) (dacc : list nat)
    : Res (cstate * list nat) :=
    match fuel with
    | O => OutOfFuel
    | S fuel =>
        let p := cuf s in
        let '(e', us, dirty, chg) :=
          if strat fuel then pass_inc (rep p) (pending s) (cenv s) else pass_full (rep p) (cenv s) in
        let dirty' := dirty_closure e' dirty in
        bind (uf_unions p us) (fun p' =>
          let s' := mkCS p' e' (displaced p p') in
          if chg then rebuild_loop fuel strat s' (dacc ++ dirty') else Ok (s', dacc ++ dirty'))
    end.

  Definition rebuild_fuel (s : cstate) : nat := 2 * S (length (cuf s)) + 2.
End Kinds.

(* ------------------------------------------------------------------ histories (cases) *)

(** last write wins, as BTreeMap::collect does *)
Definition lww (k old new : nat) : nat := new.

Inductive kindtag := KVec | KSet | KMSet | KPair | KMapSS | KMapSI.

Inductive hop :=
| HNew                                  (* a fresh e-class of the eq-sort *)
| HIns (k : kindtag) (hs : list nat)    (* insert a container built from handles (Map: k v k v ..;
                                           MapSI: values are literal integers) *)
| HUnion (a b : nat)                    (* union two element handles, then rebuild *)
| HObs (o : list (list nat)).           (* expected: per handle class :: contents as classes *)

Record hstate := mkHS { hcs : cstate; handles : list nat; hkinds : list (option kindtag) }.

Definition hid (s : hstate) (h : nat) : nat := nth h (handles s) 0.
Definition hval (s : hstate) (h : nat) : nat := rep (cuf (hcs s)) (hid s h).

Fixpoint pairs_of (l : list nat) : list (nat * nat) :=
  match l with
  | a :: b :: t => (a, b) :: pairs_of t
  | _ => []
  end.

Definition mk_cont (s : hstate) (k : kindtag) (hs : list nat) : cont :=
  match k with
  | KVec => CVec (map (hval s) hs)
  | KSet => CSet (sort_set (map (hval s) hs))
  | KMSet => CMSet (sort_ms (map (hval s) hs))
  | KPair => CPair (hval s (nth 0 hs 0)) (hval s (nth 1 hs 0))
  | KMapSS => CMap true true (norm_map lww (map (fun kv => (hval s (fst kv), hval s (snd kv))) (pairs_of hs)))
  | KMapSI => CMap true false (norm_map lww (map (fun kv => (hval s (fst kv), snd kv)) (pairs_of hs)))
  end.

Fixpoint index_of (x : nat) (l : list nat) (i : nat) : nat :=
  match l with
  | [] => 999
  | y :: t => if y =? x then i else index_of x t (S i)
  end.

(** least handle in the class of id [v] *)
Definition class_of (s : hstate) (v : nat) : nat :=
  index_of (rep (cuf (hcs s)) v) (map (fun i => rep (cuf (hcs s)) i) (handles s)) 0.

Fixpoint inspairs (kv : nat * nat) (l : list (nat * nat)) : list (nat * nat) :=
  match l with
  | [] => [kv]
  | kv' :: t => if (fst kv <? fst kv') || ((fst kv =? fst kv') && (snd kv <=? snd kv')) then kv :: l
                else kv' :: inspairs kv t
  end.

Definition obs_cont (s : hstate) (c : cont) : list nat :=
  match c with
  | CVec l => map (class_of s) l
  | CSet l => sort_set (map (class_of s) l)
  | CMSet l => sort_ms (map (class_of s) l)
  | CPair a b => [class_of s a; class_of s b]
  | CMap _ rv l =>
      flat_map (fun kv => [fst kv; snd kv])
               (fold_right inspairs [] (map (fun kv => (class_of s (fst kv),
                                                        if rv then class_of s (snd kv) else snd kv)) l))
  end.

Definition observe (s : hstate) : list (list nat) :=
  map (fun h => (class_of s (hid s h) ::
                 match nth h (hkinds s) None with
                 | None => []
                 | Some _ => match get_container (cenv (hcs s)) (hval s h) with
                             | Some c => obs_cont s c
                             | None => [777]
                             end
                 end)) (seq 0 (length (handles s))).

Definition obs_eqb (a b : list (list nat)) : bool := list_eqb nats_eqb a b.

Definition hstep (strat : nat -> bool) (s : hstate) (o : hop) : Res (hstate * bool) :=
  let cs := hcs s in
  match o with
  | HNew =>
      let i := length (cuf cs) in
      Ok (mkHS (mkCS (cuf cs ++ [i]) (cenv cs) (pending cs)) (handles s ++ [i]) (hkinds s ++ [None]), true)
  | HIns k hs =>
      let c := mk_cont s k hs in
      let i := length (cuf cs) in
      let '(e', v) := get_or_insert (cenv cs) c i in
      let p' := if v =? i then cuf cs ++ [i] else cuf cs in
      Ok (mkHS (mkCS p' e' (pending cs)) (handles s ++ [v]) (hkinds s ++ [Some k]), true)
  | HUnion a b =>
      bind (uf_union (cuf cs) (hid s a) (hid s b)) (fun p' =>
      let cs1 := mkCS p' (cenv cs) (pending cs ++ displaced (cuf cs) p') in
      bind (rebuild_loop lww (rebuild_fuel cs1) strat cs1 []) (fun '(cs2, _) =>
      Ok (mkHS cs2 (handles s) (hkinds s), true)))
  | HObs o => Ok (s, obs_eqb (observe s) o)
  end.

Fixpoint hrun (strat : nat -> bool) (s : hstate) (ops : list hop) : Res bool :=
  match ops with
  | [] => Ok true
  | o :: tl => bind (hstep strat s o) (fun '(s', ok) => if ok then hrun strat s' tl else Ok false)
  end.

Definition hinit : hstate := mkHS (mkCS [] empty_env []) [] [].

Definition res_true (r : Res bool) : bool := match r with Ok true => true | _ => false end.

(** a case passes iff the model reproduces every recorded observation under the full strategy,
    under the incremental strategy, and under alternating strategies *)
Definition check_case (ops : list hop) : bool :=
  res_true (hrun (fun _ => false) hinit ops)
  && res_true (hrun (fun _ => true) hinit ops)
  && res_true (hrun Nat.odd hinit ops).
