(** Support for harness-written case files (`cases_*.v`): index the cases whose model evaluation
    differs from what the implementation did. *)
From Coq Require Import List NArith.
Import ListNotations.

Fixpoint failing_from {A} (i : N) (chk : A -> bool) (l : list A) : list N :=
  match l with
  | [] => []
  | a :: tl => if chk a then failing_from (N.succ i) chk tl else i :: failing_from (N.succ i) chk tl
  end.

Fixpoint list_eqb {A} (eqb : A -> A -> bool) (l1 l2 : list A) : bool :=
  match l1, l2 with
  | [], [] => true
  | a :: t1, b :: t2 => andb (eqb a b) (list_eqb eqb t1 t2)
  | _, _ => false
  end.
