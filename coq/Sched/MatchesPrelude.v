(** Prelude of gen/MatchesFns.v (the Gallina regenerated from `impl Matches` of src/scheduler.rs by
    translator/src/x_matches.rs). Executable definitions only: the meaning of the std operations the
    translated code calls. [usize] quantities are [nat]; subtraction and division are CHECKED
    ([usub] underflow / [udiv] by zero = Panic); [+] and [*] are unbounded (every product the
    theorems reach is bounded by the length of a Vec, hence by isize::MAX). *)
From Coq Require Import List Arith NArith PeanoNat Bool.
Import ListNotations.
Require Import Verif.Base.Res.

(** [a - b] / [a -= b] on usize: panics on underflow (debug) — modelled as Panic *)
Definition usub (a b : nat) : Res nat := if b <=? a then Ok (a - b) else Panic.
(** [a / b] on usize: panics when [b = 0] *)
Definition udiv (a b : nat) : Res nat := match b with O => Panic | S _ => Ok (a / b) end.
(** [usize::is_multiple_of]: [b == 0] => [a == 0] *)
Definition is_multiple_of (a b : nat) : bool :=
  match b with O => Nat.eqb a 0 | S _ => Nat.eqb (a mod b) 0 end.
(** [&l[a..b]]: panics unless [a <= b <= len] *)
Definition slice {A} (l : list A) (a b : nat) : Res (list A) :=
  if (a <=? b) && (b <=? length l) then Ok (firstn (b - a) (skipn a l)) else Panic.
(** [l.swap(i, j)]: panics when out of bounds *)
Definition vswap {A} (l : list A) (i j : nat) : Res (list A) :=
  bind (idx l i) (fun a => bind (idx l j) (fun b =>
  bind (upd l i b) (fun l1 => upd l1 j a))).

(** [l.chunks(w)]: panics when [w = 0]; the last chunk may be shorter *)
Fixpoint chunks_fuel {A} (fuel w : nat) (l : list A) : list (list A) :=
  match fuel with
  | O => []
  | S f => match l with
           | [] => []
           | _ :: _ => firstn w l :: chunks_fuel f w (skipn w l)
           end
  end.
Definition chunks {A} (l : list A) (w : nat) : Res (list (list A)) :=
  match w with O => Panic | S _ => Ok (chunks_fuel (length l) w l) end.

(** [Vec<usize>::sort_unstable]: on plain integers every sort returns THE non-decreasing
    permutation, so a concrete insertion sort is extensionally the std function *)
Fixpoint insert_nat (x : nat) (l : list nat) : list nat :=
  match l with
  | [] => [x]
  | y :: tl => if x <=? y then x :: l else y :: insert_nat x tl
  end.
Fixpoint sort_nat (l : list nat) : list nat :=
  match l with
  | [] => []
  | x :: tl => insert_nat x (sort_nat tl)
  end.
(** [Vec<usize>::dedup]: removes CONSECUTIVE repeated elements *)
Fixpoint dedup_nat (l : list nat) : list nat :=
  match l with
  | [] => []
  | x :: tl => match tl with
               | [] => [x]
               | y :: _ => if x =? y then dedup_nat tl else x :: dedup_nat tl
               end
  end.
