(** C08 — what `push`, `pop` and `clone` do FIELD BY FIELD, tied to the regenerated facts of
    gen/SnapFacts.v (translator/src/x_snap.rs reads src/lib.rs, egglog-bridge/src/lib.rs,
    core-relations/src/free_join/mod.rs on every run).

    1. REVIEWED TABLES: every field of `egglog::EGraph`, `egglog_bridge::EGraph` and
       `core_relations::Database` with its type text, its classification (how a derive(Clone)
       copy relates to the original) and the component of the session model (Snap/PushPop.v)
       that stands for it.  The tables are hand-written and reviewed; the theorems below say that
       their domain (names AND type texts, in order) is the regenerated field list, that no field
       classified Deep has a reference-counted handle in its type, and that the model keeps in its
       [shared] record exactly the fields classified SharedMut.
    2. `pop`: the model's [CPop] equals the pop INTERPRETED from the regenerated carry-over list.
    3. `push`: the model's [CPush] equals the regenerated statement list interpreted on the model. *)
From Coq Require Import List String Bool Arith.
Require Import Verif.gen.SnapFacts Verif.Snap.PushPop.
Import ListNotations.
Open Scope string_scope.
Open Scope list_scope.

(** classification of a field under `#[derive(Clone)]` (field-wise `.clone()`) *)
Inductive fclass :=
| Deep                    (* the copy owns an independent value *)
| SharedImm               (* a shared handle to something that is never mutated through it *)
| SharedMut (key : string)(* a shared handle to MUTABLE state: an isolation hole; [key] = the
                             recorded finding / refutation theorem that exhibits it *)
| SharedScratch.          (* a shared mutable cell that is written and drained inside one
                             `run_rules` call (empty between commands in single-threaded use) *)

(** the component of the session model that stands for a field *)
Inductive mcomp :=
| MDecls      (* e_decls *)
| MBackend    (* e_db + e_tabs (the bridge e-graph / the database with its table list) *)
| MParser     (* e_gensym is parser.symbol_gen; the rest of the parser is not modelled *)
| MReport     (* e_report *)
| MStack      (* s_stack *)
| MShared     (* the [shared] record: NOT copied *)
| MConst      (* configuration / caches that no modelled command changes or that are not observable *)
| MNone.      (* not modelled: link-only *)

Record row := mkRow { r_name : string; r_type : string; r_class : fclass; r_comp : mcomp; r_note : string }.

(** src/lib.rs `struct EGraph` (derive(Clone)) *)
Definition tbl_egraph : list row := [
  mkRow "backend" "egglog_bridge::EGraph" Deep MBackend "field-wise clone of the bridge e-graph: see tbl_bridge";
  mkRow "parser" "Parser" Deep MParser "symbol_gen is the fresh-symbol counter (carve-out of pop); user parser macros not modelled";
  mkRow "names" "check_shadowing::Names" Deep MDecls "names bound so far (shadowing check)";
  mkRow "pushed_egraph" "Option<Box<Self>>" Deep MStack "the snapshot stack; Box<Self> clones recursively";
  mkRow "functions" "IndexMap<String,Function>" Deep MDecls "declared functions (schema + backend id)";
  mkRow "rulesets" "IndexMap<String,Ruleset>" Deep MDecls "rulesets and their rules";
  mkRow "fact_directory" "Option<PathBuf>" Deep MConst "configuration";
  mkRow "seminaive" "bool" Deep MConst "configuration";
  mkRow "no_decomp" "bool" Deep MConst "configuration";
  mkRow "type_info" "TypeInfo" Deep MDecls "sorts, primitives, function types, globals";
  mkRow "overall_run_report" "RunReport" Deep MReport "accumulated run report (carve-out of pop)";
  mkRow "schedulers" "DenseIdMap<SchedulerId,SchedulerRecord>" Deep MNone "custom schedulers (C18); link-only here";
  mkRow "commands" "IndexMap<String,Arc<dynUserDefinedCommand>>" SharedImm MNone "user-defined commands: `update(&self, ..)`, immutable unless the user adds interior mutability";
  mkRow "extension_state" "HashMap<TypeId,Box<dynExtensionStateValue>>" Deep MNone "Box<dyn> cloned through dyn_clone (T: Clone); link-only";
  mkRow "strict_mode" "bool" Deep MConst "configuration";
  mkRow "warned_about_global_prefix" "bool" Deep MConst "only suppresses a repeated log warning";
  mkRow "command_macros" "CommandMacroRegistry" Deep MNone "command macros; link-only";
  mkRow "proof_state" "EncodingState" Deep MNone "term-encoding mode; link-only (C11)";
  mkRow "proof_check_program" "Vec<ResolvedNCommand>" Deep MNone "proof mode; link-only"
].

(** egglog-bridge/src/lib.rs `struct EGraph` (derive(Clone)) *)
Definition tbl_bridge : list row := [
  mkRow "db" "Database" Deep MBackend "field-wise clone of the database: see tbl_database";
  mkRow "uf_table" "TableId" Deep MBackend "id (Copy)";
  mkRow "id_counter" "CounterId" Deep MBackend "id (Copy); the counter VALUE lives in Database.counters";
  mkRow "timestamp_counter" "CounterId" Deep MBackend "id (Copy)";
  mkRow "rules" "DenseIdMapWithReuse<RuleId,RuleInfo>" Deep MBackend "compiled rules";
  mkRow "funcs" "DenseIdMap<FunctionId,FunctionInfo>" Deep MBackend "function metadata";
  mkRow "panic_message" "SideChannel<String>" SharedScratch MNone "Arc<Mutex<Option<String>>> shared with the panic external functions; taken before run_rules returns";
  mkRow "panic_funcs" "HashMap<String,ExternalFunctionId>" Deep MConst "cache: message -> external function id";
  mkRow "report_level" "ReportLevel" Deep MConst "configuration";
  mkRow "action_registry" "Arc<std::sync::RwLock<ActionRegistry>>" (SharedMut "F6-clone-shared-registry") MShared "name -> table action; register_table overwrites by name: finding F6";
  mkRow "threads" "usize" Deep MConst "configuration";
  mkRow "thread_pool" "Option<Arc<ThreadPool>>" SharedImm MConst "worker pool: no e-graph state"
].

(** core-relations/src/free_join/mod.rs `struct Database` (derive(Clone)) *)
Definition tbl_database : list row := [
  mkRow "tables" "DenseIdMap<TableId,TableInfo>" Deep MBackend "manual `impl Clone for TableInfo`: rows by dyn_clone, indexes refreshed and re-wrapped in fresh Arcs (tableinfo_clone)";
  mkRow "counters" "Counters" Deep MBackend "manual Clone: a fresh AtomicUsize per counter";
  mkRow "external_functions" "ExternalFunctions" Deep MBackend "Box<dyn ExternalFunction> cloned through dyn_clone";
  mkRow "container_values" "ContainerValues" Deep MBackend "container interning tables";
  mkRow "notification_list" "NotificationList<TableId>" Deep MBackend "tables modified since the last merge_all";
  mkRow "deps" "DependencyGraph" Deep MBackend "merge dependencies between tables";
  mkRow "base_values" "BaseValues" Deep MBackend "base-value interning tables";
  mkRow "total_size_estimate" "usize" Deep MConst "heuristic for going parallel"
].

(** the findings / refutation theorems a SharedMut row may point to *)
Definition recorded_holes : list string := ["F6-clone-shared-registry"].

(* ---------------------------------------------------------------------------------------- *)
(** checks of a table against a regenerated field list *)

Fixpoint str_list_eqb (a b : list string) : bool :=
  match a, b with
  | [], [] => true
  | x :: ta, y :: tb => String.eqb x y && str_list_eqb ta tb
  | _, _ => false
  end.

Definition is_owned (s : share) : bool := match s with SOwned => true | _ => false end.
Definition is_deep (c : fclass) : bool := match c with Deep => true | _ => false end.

Definition row_matches (r : row) (f : string * string * share) : bool :=
  let '(n, t, s) := f in
  String.eqb (r_name r) n && String.eqb (r_type r) t
  (* a Deep field has no handle anywhere in its type; a field with a handle is never Deep *)
  && Bool.eqb (is_deep (r_class r)) (is_owned s).

Fixpoint table_matches (t : list row) (fs : list (string * string * share)) : bool :=
  match t, fs with
  | [], [] => true
  | r :: rest, f :: tf => row_matches r f && table_matches rest tf
  | _, _ => false
  end.

Definition is_derive (h : clone_how) : bool := match h with HDerive => true | HManual => false end.

(** every SharedMut row names a recorded hole and is kept in the model's [shared] record; every
    row that the model copies (MDecls/MBackend/MParser/MReport/MStack) is Deep *)
Definition row_model_ok (r : row) : bool :=
  match r_class r with
  | SharedMut k => existsb (String.eqb k) recorded_holes && match r_comp r with MShared => true | _ => false end
  | Deep => match r_comp r with MShared => false | _ => true end
  | SharedImm | SharedScratch =>
      match r_comp r with MConst | MNone => true | _ => false end
  end.

Definition rows_with (p : row -> bool) (t : list row) : list string := map r_name (filter p t).
Definition is_shared_mut (r : row) : bool := match r_class r with SharedMut _ => true | _ => false end.
Definition is_scratch (r : row) : bool := match r_class r with SharedScratch => true | _ => false end.
Definition is_unmodelled (r : row) : bool := match r_comp r with MNone => true | _ => false end.

(* ---------------------------------------------------------------------------------------- *)
(** `pop` interpreted from the regenerated carry-over list *)

Inductive mfield := FDecls | FDb | FTabs | FGensym | FReport.
Definition all_mfields : list mfield := [FDecls; FDb; FTabs; FGensym; FReport].

(** the Rust places a model field stands for *)
Definition mfield_paths (f : mfield) : list (list string) :=
  match f with
  | FDecls => [["type_info"]; ["names"]; ["functions"]; ["rulesets"]]
  | FDb => [["backend"]]
  | FTabs => [["backend"]]
  | FGensym => [["parser"; "symbol_gen"]]
  | FReport => [["overall_run_report"]]
  end.

Definition path_in (p : list string) (l : list (list string)) : bool := existsb (str_list_eqb p) l.

(** is the model field carried over from the live e-graph by a pop with carry-over list [carry]? *)
Definition carried (carry : list (list string)) (f : mfield) : bool :=
  existsb (fun p => path_in p carry) (mfield_paths f).

(** the carry-over list is expressible in the model: every carried path is a place of some model
    field (a new carry-over of an unmodelled field fails here), its head is a field of the
    regenerated `EGraph`, and a model field is carried entirely or not at all *)
Definition carry_expressible (carry : list (list string)) (fields : list (string * string * share)) : bool :=
  forallb (fun p => existsb (fun f => path_in p (mfield_paths f)) all_mfields
                    && match p with
                       | [] => false
                       | h :: _ => existsb (fun x => String.eqb h (fst (fst x))) fields
                       end) carry
  && forallb (fun f => forallb (fun p => path_in p carry) (mfield_paths f)
                       || negb (carried carry f)) all_mfields.

Section Interp.
Variable db : Type.

Definition pop_of_facts (carry : list (list string)) (e p : egraph db) : egraph db :=
  let pick {A} (f : mfield) (g : egraph db -> A) := if carried carry f then g e else g p in
  mkEg (pick FDecls e_decls) (pick FDb e_db) (pick FTabs e_tabs) (pick FGensym e_gensym)
       (pick FReport e_report).

(** `push`: the four statement shapes, interpreted on (current e-graph, stack).  `self.clone()`
    copies every model component (they stand for Deep fields only: [row_model_ok]). *)
Record pstate := mkPS {
  ps_stack : list (egraph db);                           (* self.pushed_egraph *)
  ps_saved : option (list (egraph db));                  (* the `take()`n stack *)
  ps_copy : option (egraph db * list (egraph db))        (* the clone of self *)
}.

Definition push_step (cur : egraph db) (st : push_stmt) (s : pstate) : option pstate :=
  match st with
  | PTakeStack => Some (mkPS [] (Some (ps_stack s)) (ps_copy s))
  | PCloneSelf => Some (mkPS (ps_stack s) (ps_saved s) (Some (cur, ps_stack s)))
  | PCopySetStack =>
      match ps_saved s, ps_copy s with
      | Some sv, Some (c, _) => Some (mkPS (ps_stack s) (ps_saved s) (Some (c, sv)))
      | _, _ => None
      end
  | PSelfStackIsCopy =>
      match ps_copy s with
      | Some (c, cs) => Some (mkPS (c :: cs) (ps_saved s) (ps_copy s))
      | None => None
      end
  end.

Fixpoint push_run (cur : egraph db) (body : list push_stmt) (s : pstate) : option pstate :=
  match body with
  | [] => Some s
  | st :: tl => match push_step cur st s with Some s' => push_run cur tl s' | None => None end
  end.

Definition push_of_facts (body : list push_stmt) (s : sess db) : option (sess db) :=
  match push_run (s_cur s) body (mkPS (s_stack s) None None) with
  | Some r => Some (mkSess (s_cur s) (ps_stack r))
  | None => None
  end.

End Interp.

(* ---------------------------------------------------------------------------------------- *)
(** proofs *)

Lemma tables_match :
  table_matches tbl_egraph egraph_fields = true
  /\ table_matches tbl_bridge bridge_fields = true
  /\ table_matches tbl_database database_fields = true
  /\ is_derive egraph_clone_how && is_derive bridge_clone_how && is_derive database_clone_how = true.
Proof. vm_compute. repeat split; reflexivity. Qed.

Lemma tables_model_ok :
  forallb row_model_ok (tbl_egraph ++ tbl_bridge ++ tbl_database) = true.
Proof. vm_compute. reflexivity. Qed.

Lemma shared_rows :
  rows_with is_shared_mut (tbl_egraph ++ tbl_bridge ++ tbl_database) = ["action_registry"]
  /\ rows_with is_scratch (tbl_egraph ++ tbl_bridge ++ tbl_database) = ["panic_message"].
Proof. vm_compute. split; reflexivity. Qed.

Lemma carry_ok : carry_expressible pop_carry egraph_fields = true.
Proof. vm_compute. reflexivity. Qed.

Section InterpProofs.
Variables (db dcmd dout aop aout : Type).
Variable db_step : decls -> db -> dcmd -> db * dout * nat * nat.
Variable db_decl : db -> ns -> name -> list nat -> db.
Variable db_api : db -> nat -> aop -> db * aout.
Variable decl_extra : decls -> ns -> name -> list nat -> bool.
Variable reject_effect : decls -> ns -> name -> list nat -> decls.
Notation step := (step db dcmd dout aop aout db_step db_decl db_api decl_extra reject_effect).

Lemma pop_is_regenerated : forall (s : sess db) sh,
  step CPop s sh =
  match s_stack s with
  | [] => (s, sh, OErr EPop)
  | p :: st => (mkSess (pop_of_facts db pop_carry (s_cur s) p) st, sh, OOk)
  end.
Proof. intros s sh. simpl. destruct (s_stack s); reflexivity. Qed.

Lemma push_is_regenerated : forall (s : sess db) sh,
  push_of_facts db push_body s = Some (fst (fst (step CPush s sh)))
  /\ snd (step CPush s sh) = OOk /\ snd (fst (step CPush s sh)) = sh.
Proof. intros s sh. repeat split. Qed.

End InterpProofs.
