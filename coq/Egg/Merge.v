(** C05: a function's value is the merge of everything written to its key.
    Lemmas over [Egg/Model.v]'s [tab_insert] / [rebuild_rows] and pure fold algebra. *)
From Coq Require Import List Arith ZArith Bool PeanoNat Lia Permutation.
Import ListNotations.
Require Import Verif.Base.Res Verif.gen.MergeArms Verif.gen.BridgeFns Verif.Egg.Model.

(* ------------------------------------------------------------------ fold algebra *)
Section Fold.
  Variable A : Type.
  Variable m : A -> A -> A.
  Hypothesis m_assoc : forall a b c, m (m a b) c = m a (m b c).
  Hypothesis m_comm : forall a b, m a b = m b a.

  Lemma fold_left_m_init : forall l a b, fold_left m l (m a b) = m a (fold_left m l b).
  Proof.
    induction l as [|x l IH]; intros a b; simpl; auto.
    rewrite m_assoc. apply IH.
  Qed.

  (** order of arrival does not matter *)
  Theorem fold_perm : forall l l' a, Permutation l l' -> fold_left m l a = fold_left m l' a.
  Proof.
    intros l l' a P. revert a. induction P; intros a; simpl; auto.
    - f_equal. rewrite !m_assoc. f_equal. apply m_comm.
    - rewrite IHP1. apply IHP2.
  Qed.

  Lemma fold_app : forall l1 l2 a, fold_left m (l1 ++ l2) a = fold_left m l2 (fold_left m l1 a).
  Proof. intros. apply fold_left_app. Qed.

  Hypothesis m_idem : forall a, m a a = a.

  Lemma fold_push_in : forall l a x, m (fold_left m l a) x = fold_left m l (m a x).
  Proof.
    intros l a x. rewrite m_comm, <- fold_left_m_init. f_equal. apply m_comm.
  Qed.

  Lemma fold_absorb : forall l a x, In x (a :: l) -> m (fold_left m l a) x = fold_left m l a.
  Proof.
    intros l a x [->|Hin].
    - rewrite fold_push_in, m_idem. reflexivity.
    - apply in_split in Hin. destruct Hin as (l1 & l2 & ->).
      assert (P : Permutation (l1 ++ x :: l2) (x :: l1 ++ l2)) by (symmetry; apply Permutation_middle).
      rewrite (fold_perm _ _ a P). simpl.
      rewrite fold_push_in, m_assoc, m_idem. reflexivity.
  Qed.

  (** batching: merging batch results (each batch folded on its own, starting from one of its
      elements) gives the same value as merging all writes one by one *)
  Theorem fold_batches : forall (bs : list (A * list A)) a,
    fold_left m (map (fun b => fold_left m (snd b) (fst b)) bs) a
    = fold_left m (flat_map (fun b => fst b :: snd b) bs) a.
  Proof.
    induction bs as [|[x xs] bs IH]; intros a; simpl; auto.
    rewrite IH. rewrite fold_left_app. f_equal.
    rewrite <- fold_left_m_init. reflexivity.
  Qed.

  (** duplicates do not matter (idempotence): writing a value again changes nothing *)
  Theorem fold_dup : forall l a x, In x (a :: l) -> fold_left m (l ++ [x]) a = fold_left m l a.
  Proof. intros. rewrite fold_left_app. simpl. apply fold_absorb; auto. Qed.
End Fold.

(* ------------------------------------------------------------------ the lattice merges *)

Definition mval (m : mergefn) (cur new : val) : val := fst (fst (merge_vals m cur new)).
Definition mconflict (m : mergefn) (cur new : val) : bool := snd (merge_vals m cur new).

Definition is_int (v : val) : Prop := match v with VInt _ => True | _ => False end.

Definition zmerge (m : mergefn) (a b : Z) : Z :=
  match m with MMin => Z.min a b | MMax => Z.max a b | MOr => Z.lor a b | MAnd => Z.land a b | _ => a end.

(** the modelled lattices: min, max (selective) and bitwise or / and (NOT selective: the merged
    value can differ from both inputs, which is what exposes a path that keeps the raw new row) *)
Definition lattice (m : mergefn) : Prop := m = MMin \/ m = MMax \/ m = MOr \/ m = MAnd.

Lemma mval_int m a b : lattice m -> mval m (VInt a) (VInt b) = VInt (zmerge m a b).
Proof. intros [->|[->|[->| ->]]]; reflexivity. Qed.

Lemma mconflict_lattice m a b : lattice m -> mconflict m (VInt a) (VInt b) = false.
Proof. intros [->|[->|[->| ->]]]; reflexivity. Qed.

Lemma zmerge_assoc m : lattice m -> forall a b c, zmerge m (zmerge m a b) c = zmerge m a (zmerge m b c).
Proof.
  intros [->|[->|[->| ->]]] a b c; simpl; try lia.
  - symmetry. apply Z.lor_assoc.
  - symmetry. apply Z.land_assoc.
Qed.
Lemma zmerge_comm m : lattice m -> forall a b, zmerge m a b = zmerge m b a.
Proof.
  intros [->|[->|[->| ->]]] a b; simpl; try lia.
  - apply Z.lor_comm.
  - apply Z.land_comm.
Qed.
Lemma zmerge_idem m : lattice m -> forall a, zmerge m a a = a.
Proof.
  intros [->|[->|[->| ->]]] a; simpl; try lia.
  - apply Z.lor_diag.
  - apply Z.land_diag.
Qed.

(** :no-merge: two different values for one key raise the conflict flag; equal values do not *)
Theorem nomerge_conflict a b : mconflict MAssertEq a b = negb (val_eqb a b).
Proof. destruct a, b; reflexivity. Qed.

Lemma val_eqb_refl v : val_eqb v v = true.
Proof. destruct v; simpl; [apply Nat.eqb_refl | apply Z.eqb_refl]. Qed.

Lemma val_eqb_eq a b : val_eqb a b = true <-> a = b.
Proof.
  destruct a, b; simpl; split; intros H; try discriminate; try congruence.
  - apply Nat.eqb_eq in H. congruence.
  - injection H as ->. apply Nat.eqb_refl.
  - apply Z.eqb_eq in H. congruence.
  - injection H as ->. apply Z.eqb_refl.
Qed.

Lemma vals_eqb_eq l1 : forall l2, vals_eqb l1 l2 = true <-> l1 = l2.
Proof.
  induction l1 as [|a l1 IH]; intros [|b l2]; simpl; split; intros H; try discriminate; auto.
  - apply andb_true_iff in H. destruct H as [H1 H2]. apply val_eqb_eq in H1. apply IH in H2. congruence.
  - injection H as -> ->. rewrite val_eqb_refl. apply IH. reflexivity.
Qed.

Lemma vals_eqb_refl l : vals_eqb l l = true.
Proof. apply vals_eqb_eq. reflexivity. Qed.

(* ------------------------------------------------------------------ tables as keyed maps *)

Definition keys_distinct (t : table) : Prop := NoDup (map rargs t).

Definition tab_get (t : table) (k : list val) : option val :=
  option_map rret (tab_lookup t k).

Lemma tab_lookup_none t k : tab_lookup t k = None <-> ~ In k (map rargs t).
Proof.
  unfold tab_lookup. induction t as [|r t IH]; simpl.
  - split; auto.
  - destruct (vals_eqb (rargs r) k) eqn:E.
    + apply vals_eqb_eq in E. split; [discriminate|]. intros H. exfalso. apply H. auto.
    + rewrite IH. split.
      * intros H [H1|H1]; auto. subst. rewrite vals_eqb_refl in E. discriminate.
      * intros H H1. apply H. auto.
Qed.

(** effect of one insert on the keyed-map view *)
Lemma tab_insert_get m t r : forall k,
  tab_get (fst (fst (tab_insert m t r))) k =
    if vals_eqb (rargs r) k then
      match tab_get t k with
      | Some cur => Some (mval m cur (rret r))
      | None => Some (rret r)
      end
    else tab_get t k.
Proof.
  induction t as [|r0 t IH]; intros k; simpl.
  - unfold tab_get, tab_lookup. simpl. destruct (vals_eqb (rargs r) k); reflexivity.
  - destruct (vals_eqb (rargs r0) (rargs r)) eqn:E0.
    + apply vals_eqb_eq in E0.
      destruct (merge_vals m (rret r0) (rret r)) as [[v us] e] eqn:Em. simpl.
      unfold tab_get, tab_lookup. simpl. rewrite <- E0.
      destruct (vals_eqb (rargs r0) k) eqn:Ek; simpl; auto.
      unfold mval. rewrite Em. reflexivity.
    + specialize (IH k).
      destruct (tab_insert m t r) as [[tl' us] e] eqn:Et. simpl. simpl in IH.
      unfold tab_get, tab_lookup in *. simpl.
      destruct (vals_eqb (rargs r0) k) eqn:Ek; simpl.
      * apply vals_eqb_eq in Ek. subst k.
        destruct (vals_eqb (rargs r) (rargs r0)) eqn:E1; auto.
        apply vals_eqb_eq in E1. rewrite E1, vals_eqb_refl in E0. discriminate.
      * exact IH.
Qed.

Lemma tab_insert_keys m t r :
  keys_distinct t -> keys_distinct (fst (fst (tab_insert m t r))).
Proof.
  unfold keys_distinct. induction t as [|r0 t IH]; simpl; intros H.
  - repeat constructor; auto.
  - inversion H as [|? ? Hn Hd]; subst.
    destruct (vals_eqb (rargs r0) (rargs r)) eqn:E0.
    + destruct (merge_vals m (rret r0) (rret r)) as [[v us] e]. simpl. constructor; auto.
    + destruct (tab_insert m t r) as [[tl' us] e] eqn:Et. simpl in *.
      constructor; auto.
      intros Hin. apply Hn.
      (* keys of tl' are keys of t plus possibly rargs r *)
      assert (Hk : forall k, In k (map rargs tl') -> In k (map rargs t) \/ k = rargs r).
      { clear -Et. revert tl' us e Et. induction t as [|r1 t IH]; simpl; intros tl' us e Et.
        - injection Et as <- _ _. simpl. intros k [<-|[]]. auto.
        - destruct (vals_eqb (rargs r1) (rargs r)) eqn:E1.
          + destruct (merge_vals m (rret r1) (rret r)) as [[v us1] e1]. injection Et as <- _ _.
            simpl. intros k [<-|Hk]; auto.
          + destruct (tab_insert m t r) as [[tl1 us1] e1] eqn:Et1. injection Et as <- _ _.
            simpl. intros k [<-|Hk]; auto. destruct (IH _ _ _ eq_refl k Hk); auto. }
      destruct (Hk _ Hin) as [H1|H1]; auto.
      rewrite H1, vals_eqb_refl in E0. discriminate.
Qed.

(** C05 at table level: after ANY sequence of writes [ws] (rows) to a keyed table with a lattice
    merge, the value stored for key [k] is the fold of the merge over the values written to [k],
    in arrival order, starting from the previous value if any. *)
Fixpoint insert_all (m : mergefn) (t : table) (ws : list row) : table :=
  match ws with
  | [] => t
  | w :: tl => insert_all m (fst (fst (tab_insert m t w))) tl
  end.

Definition writes_to (k : list val) (ws : list row) : list val :=
  map rret (filter (fun w => vals_eqb (rargs w) k) ws).

Definition fold_opt (m : mergefn) (o : option val) (vs : list val) : option val :=
  match o, vs with
  | None, [] => None
  | None, v :: tl => Some (fold_left (mval m) tl v)
  | Some c, _ => Some (fold_left (mval m) vs c)
  end.

Theorem insert_all_get m : forall ws t k,
  tab_get (insert_all m t ws) k = fold_opt m (tab_get t k) (writes_to k ws).
Proof.
  induction ws as [|w ws IH]; intros t k; simpl.
  - unfold writes_to. simpl. destruct (tab_get t k); reflexivity.
  - rewrite IH, tab_insert_get. unfold writes_to. simpl.
    destruct (vals_eqb (rargs w) k); simpl.
    + destruct (tab_get t k); reflexivity.
    + reflexivity.
Qed.

(* ------------------------------------------------------------------ lattice functions *)

Definition mk_rows (ws : list (list val * Z)) : list row :=
  map (fun w => mkRow (fst w) (VInt (snd w)) false) ws.

Definition zwrites_to (k : list val) (ws : list (list val * Z)) : list Z :=
  map snd (filter (fun w => vals_eqb (fst w) k) ws).

Lemma writes_to_mk_rows k ws : writes_to k (mk_rows ws) = map VInt (zwrites_to k ws).
Proof.
  unfold writes_to, zwrites_to, mk_rows. induction ws as [|w ws IH]; simpl; auto.
  destruct (vals_eqb (fst w) k); simpl; rewrite IH; reflexivity.
Qed.

Lemma fold_mval_int m : lattice m -> forall zs z,
  fold_left (mval m) (map VInt zs) (VInt z) = VInt (fold_left (zmerge m) zs z).
Proof.
  intros L zs. induction zs as [|x zs IH]; intros z; simpl; auto.
  rewrite mval_int by exact L. apply IH.
Qed.

(** the value of a key after any sequence of writes, as a fold over Z *)
Definition zfold_opt (m : mergefn) (o : option Z) (zs : list Z) : option Z :=
  match o, zs with
  | None, [] => None
  | None, z :: tl => Some (fold_left (zmerge m) tl z)
  | Some c, _ => Some (fold_left (zmerge m) zs c)
  end.

Definition int_get (t : table) (k : list val) : option Z :=
  match tab_get t k with Some (VInt z) => Some z | _ => None end.

Definition int_table (t : table) : Prop := forall r, In r t -> is_int (rret r).

Lemma tab_get_in t k v : tab_get t k = Some v -> exists r, In r t /\ rret r = v.
Proof.
  unfold tab_get, tab_lookup. destruct (List.find _ t) eqn:E; simpl; intros H; [|discriminate].
  apply find_some in E. injection H as <-. exists r. tauto.
Qed.

Theorem c05_value_lemma m t k ws : lattice m -> int_table t ->
  int_get (insert_all m t (mk_rows ws)) k = zfold_opt m (int_get t k) (zwrites_to k ws).
Proof.
  intros L Hint. unfold int_get. rewrite insert_all_get, writes_to_mk_rows.
  destruct (tab_get t k) as [v|] eqn:E.
  - destruct (tab_get_in _ _ _ E) as (r & Hr & <-). specialize (Hint r Hr).
    destruct (rret r) as [i|z]; [contradiction|]. simpl.
    rewrite fold_mval_int by exact L. reflexivity.
  - destruct (zwrites_to k ws) as [|z zs]; simpl; auto.
    rewrite fold_mval_int by exact L. reflexivity.
Qed.

Lemma zwrites_perm k ws ws' : Permutation ws ws' -> Permutation (zwrites_to k ws) (zwrites_to k ws').
Proof.
  intros P. unfold zwrites_to. apply Permutation_map.
  induction P; simpl; auto.
  - destruct (vals_eqb (fst x) k); auto.
  - destruct (vals_eqb (fst x) k), (vals_eqb (fst y) k); auto. apply perm_swap.
  - eapply perm_trans; eauto.
Qed.

Lemma zfold_opt_perm m o zs zs' : lattice m -> Permutation zs zs' -> zfold_opt m o zs = zfold_opt m o zs'.
Proof.
  intros L P. destruct o as [c|]; simpl.
  - f_equal. apply fold_perm; auto using zmerge_assoc, zmerge_comm.
  - (* no previous value: the first write seeds the fold; reorderings change the seed *)
    destruct zs as [|z zs], zs' as [|z' zs']; auto.
    + apply Permutation_nil in P. discriminate.
    + symmetry in P. apply Permutation_nil in P. discriminate.
    + f_equal.
      assert (H : forall l x, fold_left (zmerge m) l x = fold_left (zmerge m) (x :: l) x).
      { intros l x. simpl. rewrite zmerge_idem by exact L. reflexivity. }
      rewrite (H zs z), (H zs' z').
      rewrite (fold_perm _ (zmerge m) (zmerge_assoc m L) (zmerge_comm m L) _ _ z P).
      (* now same list, different seeds z / z', both members of the list *)
      assert (A : forall l a x, In x l -> fold_left (zmerge m) l a = fold_left (zmerge m) l (zmerge m a x)).
      { intros l a x Hin. rewrite <- (fold_push_in _ (zmerge m) (zmerge_assoc m L) (zmerge_comm m L)).
        symmetry. apply fold_absorb; auto using zmerge_assoc, zmerge_comm, zmerge_idem. right. exact Hin. }
      assert (Hz : In z (z' :: zs')) by (eapply Permutation_in; [exact P|left; auto]).
      rewrite (A (z' :: zs') z z') by (left; auto).
      rewrite (A (z' :: zs') z' z Hz). f_equal. apply zmerge_comm. exact L.
Qed.

(** C05: the stored value does not depend on the order in which the writes arrived *)
Theorem c05_order_irrelevant_lemma m t k ws ws' : lattice m -> int_table t -> Permutation ws ws' ->
  int_get (insert_all m t (mk_rows ws)) k = int_get (insert_all m t (mk_rows ws')) k.
Proof.
  intros L Hint P. rewrite !c05_value_lemma by assumption.
  apply zfold_opt_perm; auto. apply zwrites_perm; auto.
Qed.

(** batching: applying the writes in two batches (e.g. two commands / iterations) is the same as
    applying them all at once *)
Theorem c05_batching_lemma m t ws1 ws2 :
  insert_all m (insert_all m t ws1) ws2 = insert_all m t (ws1 ++ ws2).
Proof. revert t. induction ws1 as [|w ws1 IH]; intros t; simpl; auto. Qed.

(** collisions created by rebuilding go through the same merge: re-keying a table through the
    union-find is exactly inserting the canonicalised rows one by one *)
Lemma rebuild_rows_insert_all p m : forall rows acc,
  fst (fst (rebuild_rows p m rows acc)) = insert_all m acc (map (canon_row p) rows).
Proof.
  induction rows as [|r rows IH]; intros acc; simpl; auto.
  destruct (tab_insert m acc (canon_row p r)) as [[acc' us] e] eqn:E.
  specialize (IH acc').
  destruct (rebuild_rows p m rows acc') as [[acc'' us'] e']. simpl in *. exact IH.
Qed.

(** after re-keying, the value stored for a (canonical) key is the fold of the merge over the
    values of ALL rows whose canonicalised key is that key — i.e. over everything ever written
    to keys that have since become equal *)
Theorem c05_rebuild_value_lemma p m rows k :
  tab_get (fst (fst (rebuild_rows p m rows []))) k
  = fold_opt m None (writes_to k (map (canon_row p) rows)).
Proof. rewrite rebuild_rows_insert_all, insert_all_get. reflexivity. Qed.

Lemma rebuild_rows_keys p m : forall rows acc,
  keys_distinct acc -> keys_distinct (fst (fst (rebuild_rows p m rows acc))).
Proof.
  intros rows acc H. rewrite rebuild_rows_insert_all.
  revert acc H. induction (map (canon_row p) rows) as [|w ws IH]; intros acc H; simpl; auto.
  apply IH. apply tab_insert_keys. exact H.
Qed.
