(** C05 — A function's value is the merge of everything ever written to its key.
    Statements pinned here; proofs in Egg/Merge.v. *)
From Coq Require Import List ZArith Bool Permutation.
Import ListNotations.
Require Import Verif.gen.MergeArms Verif.gen.SourceFacts Verif.Egg.Model Verif.Egg.Merge Verif.Egg.Collide.
From Coq Require Import NArith.
Require Import Verif.Base.Res Verif.Egg.SchemaPrelude Verif.gen.SchemaFns Verif.Egg.Callback.

(** order of arrival does not matter for an associative-commutative merge *)
Theorem c05_fold_perm : forall (A : Type) (m : A -> A -> A),
  (forall a b c, m (m a b) c = m a (m b c)) -> (forall a b, m a b = m b a) ->
  forall l l' a, Permutation l l' -> fold_left m l a = fold_left m l' a.
Proof. exact fold_perm. Qed.
Print Assumptions c05_fold_perm.

(** batching: merging per-batch results equals merging all writes one by one *)
Theorem c05_fold_batches : forall (A : Type) (m : A -> A -> A),
  (forall a b c, m (m a b) c = m a (m b c)) -> (forall a b, m a b = m b a) ->
  forall (bs : list (A * list A)) a,
    fold_left m (map (fun b => fold_left m (snd b) (fst b)) bs) a
    = fold_left m (flat_map (fun b => fst b :: snd b) bs) a.
Proof. intros A m Ha _. exact (fold_batches A m Ha). Qed.
Print Assumptions c05_fold_batches.

(** idempotence: writing a value that was already written changes nothing *)
Theorem c05_fold_dup : forall (A : Type) (m : A -> A -> A),
  (forall a b c, m (m a b) c = m a (m b c)) -> (forall a b, m a b = m b a) -> (forall a, m a a = a) ->
  forall l a x, In x (a :: l) -> fold_left m (l ++ [x]) a = fold_left m l a.
Proof. exact fold_dup. Qed.
Print Assumptions c05_fold_dup.

(** after ANY sequence of writes to a table with a lattice merge (min / max), the value stored
    for key k is the fold of the merge over all values written to k (seeded by the previous value) *)
Theorem c05_value : forall m t k ws, lattice m -> int_table t ->
  int_get (insert_all m t (mk_rows ws)) k = zfold_opt m (int_get t k) (zwrites_to k ws).
Proof. exact c05_value_lemma. Qed.
Print Assumptions c05_value.

(** ... regardless of the order in which the writes arrived *)
Theorem c05_order_irrelevant : forall m t k ws ws', lattice m -> int_table t -> Permutation ws ws' ->
  int_get (insert_all m t (mk_rows ws)) k = int_get (insert_all m t (mk_rows ws')) k.
Proof. exact c05_order_irrelevant_lemma. Qed.
Print Assumptions c05_order_irrelevant.

(** ... and of how they were batched across commands / iterations *)
Theorem c05_batching : forall m t ws1 ws2,
  insert_all m (insert_all m t ws1) ws2 = insert_all m t (ws1 ++ ws2).
Proof. exact c05_batching_lemma. Qed.
Print Assumptions c05_batching.

(** collisions created by rebuilding go through the same merge: after re-keying through the
    union-find, the value of a canonical key is the fold over the values of ALL rows whose key
    canonicalises to it *)
Theorem c05_rebuild_value : forall p m rows k,
  tab_get (fst (fst (rebuild_rows p m rows []))) k
  = fold_opt m None (writes_to k (map (canon_row p) rows)).
Proof. exact c05_rebuild_value_lemma. Qed.
Print Assumptions c05_rebuild_value.

(** tables stay functions of their key through inserts and rebuilds *)
Theorem c05_keys_distinct : forall p m rows acc,
  keys_distinct acc -> keys_distinct (fst (fst (rebuild_rows p m rows acc))).
Proof. exact rebuild_rows_keys. Qed.
Print Assumptions c05_keys_distinct.

(** :no-merge: two different values for one key raise the conflict, equal values do not *)
Theorem c05_nomerge_conflict : forall a b, mconflict MAssertEq a b = negb (val_eqb a b).
Proof. exact nomerge_conflict. Qed.
Print Assumptions c05_nomerge_conflict.

(** the collision paths of core-relations/src/table/mod.rs AS WRITTEN NOW ([collision_sites] is
    regenerated from the source on every run: serial insert with / without sort column, per-shard
    parallel flush, in-batch staging): every one stores the merged row when the merge reports a
    change, so on any sequence of writes to one key it keeps the fold of the merge *)
Theorem c05_every_collision_path_folds : forall s, In s collision_sites ->
  forall m ws a, fold_left (site_val (snd s) m) ws a = fold_left (zmerge m) ws a.
Proof. exact every_collision_path_folds. Qed.
Print Assumptions c05_every_collision_path_folds.

Theorem c05_collision_paths_inventory :
  forallb (fun s => is_merged (snd s)) collision_sites = true /\ 4 <= List.length collision_sites.
Proof. exact (conj collision_sites_all_merged collision_sites_count). Qed.
Print Assumptions c05_collision_paths_inventory.

(** in-batch staging (any listed path) followed by the flush against the stored row (any listed
    path): the fold of all the batch's writes over the stored value *)
Theorem c05_staged_batch_value : forall st fl, In st collision_sites -> In fl collision_sites ->
  forall m, lattice m -> forall ws w0 stored,
  site_val (snd fl) m stored (fold_left (site_val (snd st) m) ws w0) = fold_left (zmerge m) (w0 :: ws) stored.
Proof. exact staged_path_value. Qed.
Print Assumptions c05_staged_batch_value.

(** non-vacuity of the source fact: a path keeping the raw incoming row loses writes under bit-or,
    and min / max cannot see it *)
Theorem c05_store_incoming_refuted :
  fold_left (site_val StoreIncoming MOr) [2; 4]%Z 1%Z <> fold_left (zmerge MOr) [2; 4]%Z 1%Z.
Proof. exact store_incoming_refuted. Qed.
Print Assumptions c05_store_incoming_refuted.

(** non-vacuity: min-merge of three writes in two orders, and a collision created by a union *)
Example c05_example :
  int_get (insert_all MMin [] (mk_rows [([VId 0], 5%Z); ([VId 1], 7%Z); ([VId 0], 3%Z)])) [VId 0] = Some 3%Z
  /\ tab_get (fst (fst (rebuild_rows [0; 0] MMax
        [mkRow [VId 0] (VInt 5) false; mkRow [VId 1] (VInt 9) false] []))) [VId 0] = Some (VInt 9).
Proof. split; vm_compute; reflexivity. Qed.

(** a NON-selective lattice: the merged value differs from both writes *)
Example c05_example_or :
  int_get (insert_all MOr [] (mk_rows [([VId 0], 1%Z); ([VId 0], 2%Z); ([VId 0], 4%Z)])) [VId 0] = Some 7%Z.
Proof. vm_compute; reflexivity. Qed.

(* ================================================================================================
   The bridge's row layout, merge functions and merge callback AS WRITTEN NOW (gen/SchemaFns.v is
   regenerated from egglog-bridge/src/lib.rs on every run) *)

(** SchemaMath: for ALL arities (func_cols >= 1) and both flag values the key columns are
    [0, num_keys), ret < ts (< subsume) are pairwise distinct non-key columns inside the row width
    and the row has no other column; without subsumption the subsume column is never computed *)
Theorem c05_schema_layout : forall sm, (1 <= sm_func_cols sm)%N ->
  (SchemaMath_num_keys sm + 1 = sm_func_cols sm
  /\ SchemaMath_num_keys sm <= SchemaMath_ret_val_col sm
  /\ SchemaMath_ret_val_col sm < SchemaMath_ts_col sm
  /\ SchemaMath_ts_col sm < SchemaMath_table_columns sm
  /\ (if sm_subsume sm
      then exists c, SchemaMath_subsume_col sm = Ok c
                     /\ SchemaMath_ts_col sm < c /\ c < SchemaMath_table_columns sm
                     /\ SchemaMath_table_columns sm = SchemaMath_num_keys sm + 3
      else SchemaMath_subsume_col sm = Panic
           /\ SchemaMath_table_columns sm = SchemaMath_num_keys sm + 2))%N.
Proof. exact schema_layout. Qed.
Print Assumptions c05_schema_layout.

(** ResolvedMergeFn::run, selective arms: Const / Old / New, no effect on the state *)
Theorem c05_run_selectors : forall env v st c n ts,
  ResolvedMergeFn_run env (RMF_Const v) st c n ts = Ok (v, st)
  /\ ResolvedMergeFn_run env RMF_Old st c n ts = Ok (c, st)
  /\ ResolvedMergeFn_run env RMF_New st c n ts = Ok (n, st).
Proof. intros. exact (conj (run_const env v st c n ts) (conj (run_old env st c n ts) (run_new env st c n ts))). Qed.
Print Assumptions c05_run_selectors.

(** :no-merge (AssertEq): the old value is kept and the panic function is called exactly when the
    two values differ: never silently *)
Theorem c05_run_nomerge_panics : forall env p st c n ts, ext_call env p [] = None ->
  ResolvedMergeFn_run env (RMF_AssertEq p) st c n ts
  = Ok (c, if (c =? n)%N then st else st ++ [ECall p []]).
Proof. exact run_asserteq. Qed.
Print Assumptions c05_run_nomerge_panics.

(** a primitive merge expression `(p old new)` calls p on [old; new] IN THIS ORDER (and
    `(p new old)` on [new; old]): a non-commutative merge sees the stored value first *)
Theorem c05_run_prim_arg_order : forall env p pn st c n ts r,
  (ext_call env p [c; n] = Some r ->
   ResolvedMergeFn_run env (RMF_Primitive p [RMF_Old; RMF_New] pn) st c n ts = Ok (r, st ++ [ECall p [c; n]]))
  /\ (ext_call env p [n; c] = Some r ->
   ResolvedMergeFn_run env (RMF_Primitive p [RMF_New; RMF_Old] pn) st c n ts = Ok (r, st ++ [ECall p [n; c]])).
Proof. intros. split; [apply run_prim_old_new | apply run_prim_new_old]. Qed.
Print Assumptions c05_run_prim_arg_order.

(** nested merge expressions are evaluated inside-out, each on (old, new) *)
Theorem c05_run_prim_nested : forall env p q pn qn st c n ts r1 r2,
  ext_call env q [c; n] = Some r1 -> ext_call env p [r1; n] = Some r2 ->
  ResolvedMergeFn_run env (RMF_Primitive p [RMF_Primitive q [RMF_Old; RMF_New] qn; RMF_New] pn) st c n ts
  = Ok (r2, (st ++ [ECall q [c; n]]) ++ [ECall p [r1; n]]).
Proof. exact run_prim_nested. Qed.
Print Assumptions c05_run_prim_nested.

(** a nested FUNCTION merge `(f old new)`: equal values short-cut; otherwise f is looked up on
    [old; new]; a failed lookup keeps the old value and calls the panic function *)
Theorem c05_run_function_arg_order : forall env f pn st c n ts,
  ResolvedMergeFn_run env (RMF_Function f [RMF_Old; RMF_New] pn) st c n ts
  = if (c =? n)%N then Ok (c, st)
    else match tab_lookup_or_insert env f [c; n] with
         | Some r => Ok (r, st ++ [ELookup f [c; n]])
         | None => match ext_call env pn [] with
                   | None => Ok (c, (st ++ [ELookup f [c; n]]) ++ [ECall pn []])
                   | Some _ => Panic
                   end
         end.
Proof. exact run_function_old_new. Qed.
Print Assumptions c05_run_function_arg_order.

(** the merge callback (closure of MergeFn::to_callback), any arity, with or without subsumption,
    any merge function [run]: it runs the merge function on (current value, incoming value, incoming
    timestamp); afterwards the row the table holds (the produced row if the callback reports
    "changed", else the current row) has the MERGED value in its value column; a produced row has
    the incoming row's keys and timestamp; when nothing changed NOTHING is written (the current row
    keeps its old timestamp) *)
Theorem c05_callback_value : forall sm run cur new st v st',
  (1 <= sm_func_cols sm)%N ->
  length cur = N.to_nat (SchemaMath_table_columns sm) ->
  length new = N.to_nat (SchemaMath_table_columns sm) ->
  run st (nth (rv sm) cur 0%N) (nth (rv sm) new 0%N) (nth (tsc sm) new 0%N) = Ok (v, st') ->
  exists changed out, MergeFn_to_callback sm run st cur new [] = Ok (changed, st', out)
    /\ nth (rv sm) (if changed then out else cur) 0%N = v
    /\ (changed = true -> firstn (N.to_nat (SchemaMath_num_keys sm)) out
                          = firstn (N.to_nat (SchemaMath_num_keys sm)) new
                          /\ nth (tsc sm) out 0%N = nth (tsc sm) new 0%N)
    /\ (changed = false -> out = []).
Proof. exact callback_value. Qed.
Print Assumptions c05_callback_value.

(** exact form for tables without a subsume column: "changed" iff the merged value differs from
    the CURRENT value *)
Theorem c05_callback_changed_iff : forall sm run cur new st v st',
  (1 <= sm_func_cols sm)%N ->
  length cur = N.to_nat (SchemaMath_table_columns sm) ->
  length new = N.to_nat (SchemaMath_table_columns sm) ->
  sm_subsume sm = false ->
  run st (nth (rv sm) cur 0%N) (nth (rv sm) new 0%N) (nth (tsc sm) new 0%N) = Ok (v, st') ->
  MergeFn_to_callback sm run st cur new [] =
    let changed := negb (nth (rv sm) cur 0 =? v)%N in
    Ok (changed, st', if changed then set_nth (set_nth new (tsc sm) (nth (tsc sm) new 0%N)) (rv sm) v else []).
Proof. intros sm run cur new st v st' W Lc Ln. exact (callback_nosub sm run W cur new Lc Ln st v st'). Qed.
Print Assumptions c05_callback_changed_iff.

(** non-vacuity: a non-commutative primitive (old - new) through the regenerated callback *)
Example c05_callback_example :
  MergeFn_to_callback (mkSchemaMath true 2) (ResolvedMergeFn_run ex_env (RMF_Primitive 7 [RMF_Old; RMF_New] 9))
     [] [5; 10; 3; 0]%N [5; 4; 8; 1]%N []
  = Ok (true, [ECall 7 [10; 4]%N], [5; 6; 8; 1]%N).
Proof. exact (proj1 callback_example). Qed.
