(** C16: the regenerated decision functions (gen/TableFns.v, from table/mod.rs) meet the
    specifications the refinement proofs of Table/Refine.v are about, for EVERY library binary
    search that satisfies its documented contract ([bs_contract], Table/Prelude.v). *)
From Coq Require Import List Arith PeanoNat Bool Sorted Lia.
Import ListNotations.
Require Import Verif.Base.Res Verif.Table.Model Verif.Table.MapSpec Verif.Table.Refine.
Require Verif.gen.TableFns.

Definition SSlt (o : list (nat * nat)) : Prop :=
  StronglySorted (fun a b => fst a < fst b /\ snd a < snd b) o.

Lemma SSlt_keys o : SSlt o -> StronglySorted le (map fst o).
Proof.
  induction 1 as [|a l Hs IH Hall]; simpl; constructor; auto.
  rewrite Forall_forall in *. intros k Hk. apply in_map_iff in Hk. destruct Hk as (x & E & Hx).
  subst k. apply Hall in Hx. lia.
Qed.

Definition to_rres (b : bs_res) : rres (nat * nat) nat :=
  match b with BOk f b => ROk (f, b) | BErr x => RErr x end.

Definition snd_or (o : list (nat * nat)) (i n : nat) : nat :=
  match nth_error o i with Some p => snd p | None => n end.

Lemma bsearch_found : forall o i v n, SSlt o -> nth_error (map fst o) i = Some v ->
  bsearch o v n = BOk (snd_or o i n) (snd_or o (S i) n).
Proof.
  induction o as [|(w, s) tl IH]; intros i v n HS Hn; [destruct i; discriminate|].
  inversion HS as [|? ? HS' Hall]; subst. rewrite Forall_forall in Hall.
  destruct i as [|i]; simpl in Hn.
  - inversion Hn; subst w. simpl. rewrite Nat.ltb_irrefl, Nat.eqb_refl. unfold snd_or. simpl.
    destruct tl as [|(w', s') tl']; reflexivity.
  - assert (Hw : w < v).
    { rewrite nth_error_map in Hn. destruct (nth_error tl i) as [p|] eqn:E; [|discriminate].
      inversion Hn; subst v. apply nth_error_In in E. apply Hall in E. simpl in E. lia. }
    simpl. apply Nat.ltb_lt in Hw. rewrite Hw. rewrite (IH i v n HS' Hn). reflexivity.
Qed.

Lemma bsearch_notfound : forall o i v n, SSlt o -> i <= length o ->
  (forall j k, nth_error (map fst o) j = Some k -> (j < i -> k < v) /\ (i <= j -> v < k)) ->
  bsearch o v n = BErr (snd_or o i n).
Proof.
  induction o as [|(w, s) tl IH]; intros i v n HS Hi Hj.
  - destruct i; reflexivity.
  - inversion HS as [|? ? HS' Hall]; subst. simpl in Hi.
    destruct i as [|i].
    + destruct (Hj 0 w eq_refl) as (_ & H). specialize (H (le_n 0)). simpl.
      destruct (Nat.ltb_spec w v); [lia|]. destruct (Nat.eqb_spec w v); [lia|]. reflexivity.
    + destruct (Hj 0 w eq_refl) as (H & _). specialize (H (Nat.lt_0_succ i)). simpl.
      apply Nat.ltb_lt in H. rewrite H. rewrite (IH i v n HS'); [reflexivity|lia|].
      intros j k Hn. specialize (Hj (S j) k Hn). split; intros; apply Hj; lia.
Qed.

(** the regenerated [binary_search_sort_val] never panics on a strictly increasing offsets vector
    and is the linear search [bsearch], whatever (contract-abiding) binary search the library uses *)
Theorem binary_search_sort_val_spec bs o n v : bs_contract bs -> SSlt o ->
  TableFns.binary_search_sort_val bs o n v = Ok (to_rres (bsearch o v n)).
Proof.
  intros Hbs HS. unfold TableFns.binary_search_sort_val.
  pose proof (Hbs (map fst o) v (SSlt_keys o HS)) as Hc.
  destruct (bs (map fst o) v) as [got|next].
  - rewrite (bsearch_found o got v n HS Hc).
    assert (Hlt : got < length o).
    { rewrite <- (map_length fst). apply nth_error_Some. congruence. }
    rewrite (idx_ok o got (0, 0) Hlt). simpl. rewrite Nat.add_1_r. unfold snd_or.
    rewrite (nth_error_nth' o (0, 0) Hlt). reflexivity.
  - destruct Hc as (Hl & Hj). rewrite map_length in Hl.
    rewrite (bsearch_notfound o next v n HS Hl Hj). reflexivity.
Qed.

(** hence the regenerated [fast_subset] is the specification, in every state whose offsets are
    strictly increasing (in particular every reachable one) *)
Theorem fast_subset_with_spec bs c t cn : bs_contract bs ->
  (forall sc, sortc c = Some sc -> SSlt (offs t)) ->
  fast_subset_with bs c t cn = Ok (fast_subset_spec c t cn).
Proof.
  intros Hbs HS. unfold fast_subset_with, TableFns.fast_subset, fast_subset_spec.
  destruct (sortc c) as [sc|]; [|reflexivity]. specialize (HS sc eq_refl).
  destruct cn as [l r|cl v|cl v|cl v|cl v|cl v]; try reflexivity;
    (destruct (cl =? sc); [|reflexivity]);
    rewrite (binary_search_sort_val_spec bs _ _ _ Hbs HS); cbn [bind];
    destruct (bsearch (offs t) v (length (rows t))); reflexivity.
Qed.

Lemma TInv_SSlt c t : TInv c t -> forall sc, sortc c = Some sc -> SSlt (offs t).
Proof. intros (_ & HS & _) sc Es. destruct (HS sc Es) as (H & _). exact H. Qed.

(** statements over whole histories (pinned in Props/C16.v) *)
Theorem table_fast_subset_total c mf ops t bs cn :
  mf_ok c mf -> run c mf empty ops = Ok t -> bs_contract bs ->
  fast_subset_with bs c t cn = Ok (fast_subset_spec c t cn) /\
  fast_subset_with bs c t cn = fast_subset c t cn.
Proof.
  intros Hmf Hrun Hbs.
  destruct (run_refines c mf Hmf ops empty s_init t (TInv_empty c) (Ref_init c) Hrun) as (HT & _).
  pose proof (TInv_SSlt c t HT) as HS.
  split; [apply fast_subset_with_spec; auto|].
  unfold fast_subset. rewrite !fast_subset_with_spec; auto. exact lin_bs_contract.
Qed.

Theorem table_fast_subset_gen_exact c mf ops t sc bs cn lo hi :
  mf_ok c mf -> run c mf empty ops = Ok t -> bs_contract bs ->
  sortc c = Some sc -> fast_subset_with bs c t cn = Ok (Some (lo, hi)) ->
  (forall i r, In (i, r) (scan_all t) -> (lo <= i < hi <-> eval_c cn r = true)) /\
  scan_range t lo hi = scan_cs t [cn].
Proof.
  intros Hmf Hrun Hbs Es Hf.
  destruct (table_fast_subset_total c mf ops t bs cn Hmf Hrun Hbs) as (E & _).
  rewrite E in Hf. inversion Hf as [Hf'].
  eapply table_fast_subset_exact; eauto.
Qed.

Lemma fast_subset_with_only_sort bs c t cn lo hi :
  fast_subset_with bs c t cn = Ok (Some (lo, hi)) ->
  exists sc, sortc c = Some sc /\
    match cn with CEq _ _ => False | CEqC cl _ | CLt cl _ | CGt cl _ | CLe cl _ | CGe cl _ => cl = sc end.
Proof.
  unfold fast_subset_with, TableFns.fast_subset. destruct (sortc c) as [sc|]; [|discriminate].
  intros H. exists sc. split; auto.
  destruct cn; try discriminate; destruct (Nat.eqb_spec c0 sc); auto; discriminate.
Qed.
