//! C14 — containers of e-classes stay canonical and keep rules firing.
//!
//! Generated egglog sessions over every container sort on an eq-sort (Vec, Set, MultiSet, Pair,
//! Map S S, Map S i64) including nesting depth 2, run command by command on the real engine:
//!   (a) every e-class / container id stored in a table row or inside a stored container is
//!       canonical (hook H0 `verif_canon_id`) and every nested container id is live;
//!   (b) rows keyed by containers that are equal modulo the current equalities have merged (no two
//!       rows of one table render to the same key; handles the harness' own closure proves equal
//!       have one value; `(check (= e1 e2))` succeeds);
//!   (c) a second engine with `seminaive = false` (one thread) run in lockstep agrees on a
//!       renaming-invariant dump after EVERY command;
//!   (d) `--big`: > 1000 containers per kind so that the incremental strategy is chosen;
//!       `--threads 4` + EGGLOG_PARALLEL_*_CUTOFF=0 for the parallel variants.
//! Rule-free sessions without Wrap rows are also written as cases for coq/Cont/Env.v.
//!
//! extra args: --threads N  --big  --cases N  --verbose
use egglog::sort::{MapContainer, MultiSetContainer, PairContainer, SetContainer, VecContainer};
use egglog::{EGraph, Value};
use egglog_numeric_id::NumericId;
use std::collections::{BTreeMap, HashMap, HashSet};
use verif_harness::egg::{canon_u32, step};
use verif_harness::util::*;

#[derive(Clone, Copy, Debug, PartialEq, Eq, Hash, PartialOrd, Ord)]
enum K {
    Vec,
    Set,
    MSet,
    Pair,
    Map,
}

#[derive(Clone, Copy, Debug, PartialEq, Eq, Hash)]
enum Ty {
    S,
    I,
    C(usize),
}

struct SortDef {
    name: &'static str,
    k: K,
    a: Ty,
    b: Ty,
}

const SORTS: &[SortDef] = &[
    SortDef { name: "VS", k: K::Vec, a: Ty::S, b: Ty::S },
    SortDef { name: "SS", k: K::Set, a: Ty::S, b: Ty::S },
    SortDef { name: "MS", k: K::MSet, a: Ty::S, b: Ty::S },
    SortDef { name: "PS", k: K::Pair, a: Ty::S, b: Ty::S },
    SortDef { name: "MP", k: K::Map, a: Ty::S, b: Ty::S },
    SortDef { name: "MI", k: K::Map, a: Ty::S, b: Ty::I },
    SortDef { name: "VVS", k: K::Vec, a: Ty::C(0), b: Ty::S },
    SortDef { name: "SVS", k: K::Set, a: Ty::C(0), b: Ty::S },
    SortDef { name: "VSS", k: K::Vec, a: Ty::C(1), b: Ty::S },
    SortDef { name: "MVS", k: K::MSet, a: Ty::C(0), b: Ty::S },
    SortDef { name: "PVS", k: K::Pair, a: Ty::C(0), b: Ty::S },
    SortDef { name: "MSV", k: K::Map, a: Ty::S, b: Ty::C(0) },
    SortDef { name: "VMP", k: K::Vec, a: Ty::C(4), b: Ty::S },
    SortDef { name: "SPS", k: K::Set, a: Ty::C(3), b: Ty::S },
    SortDef { name: "VMS", k: K::Vec, a: Ty::C(2), b: Ty::S },
];
const NELEM: usize = 6;
const NFILL: usize = 1100;

fn ty_name(t: Ty) -> &'static str {
    match t {
        Ty::S => "S",
        Ty::I => "i64",
        Ty::C(i) => SORTS[i].name,
    }
}

fn sort_decl(s: &SortDef) -> String {
    match s.k {
        K::Vec => format!("(sort {} (Vec {}))", s.name, ty_name(s.a)),
        K::Set => format!("(sort {} (Set {}))", s.name, ty_name(s.a)),
        K::MSet => format!("(sort {} (MultiSet {}))", s.name, ty_name(s.a)),
        K::Pair => format!("(sort {} (Pair {} {}))", s.name, ty_name(s.a), ty_name(s.b)),
        K::Map => format!("(sort {} (Map {} {}))", s.name, ty_name(s.a), ty_name(s.b)),
    }
}

struct Table {
    name: String,
    args: Vec<Ty>,
    out: Option<Ty>,
}

fn tables() -> Vec<Table> {
    let mut t = Vec::new();
    for (i, s) in SORTS.iter().enumerate() {
        t.push(Table { name: format!("Holds{}", s.name), args: vec![Ty::C(i)], out: None });
        t.push(Table { name: format!("Wrap{}", s.name), args: vec![Ty::C(i)], out: Some(Ty::S) });
    }
    t.push(Table { name: "Mark".into(), args: vec![Ty::S], out: None });
    t.push(Table { name: "OutI".into(), args: vec![Ty::I, Ty::I], out: None });
    t.push(Table { name: "OutS".into(), args: vec![Ty::I, Ty::S], out: None });
    t
}

fn header() -> String {
    let mut s = String::from("(datatype S");
    for i in 0..NELEM {
        s.push_str(&format!(" (A{i})"));
    }
    s.push_str(" (N i64))\n");
    for d in SORTS {
        s.push_str(&sort_decl(d));
        s.push('\n');
    }
    for d in SORTS {
        s.push_str(&format!("(relation Holds{} ({}))\n(constructor Wrap{} ({}) S)\n", d.name, d.name, d.name, d.name));
    }
    s.push_str("(relation Mark (S))\n(relation OutI (i64 i64))\n(relation OutS (i64 S))\n(relation Num (i64))\n(ruleset filler)\n");
    s
}

/// rule templates: (id, sorts that must be in use, unions?, text)
fn rule_templates() -> Vec<(usize, Vec<usize>, bool, String)> {
    let a = |i: usize| format!("(A{i})");
    vec![
        (1, vec![0], false, "(rule ((HoldsVS c) (= (vec-get c 0) (vec-get c 1))) ((OutS 1 (vec-get c 0))))".into()),
        (2, vec![0], false, format!("(rule ((HoldsVS (vec-of {} {}))) ((OutI 2 0)))", a(0), a(0))),
        (3, vec![0], false, "(rule ((HoldsVS c) (Mark x) (vec-contains c x)) ((OutS 3 x)))".into()),
        (4, vec![0], false, "(rule ((= w (WrapVS c)) (= n (vec-length c)) (= (vec-get c 0) (vec-get c 1))) ((OutI 4 n)))".into()),
        (5, vec![1], false, "(rule ((HoldsSS c) (= n (set-length c))) ((OutI 5 n)))".into()),
        (6, vec![1], false, "(rule ((HoldsSS c) (= 1 (set-length c)) (= x (set-get c 0))) ((OutS 6 x)))".into()),
        (7, vec![1], false, format!("(rule ((HoldsSS (set-of {} {}))) ((OutI 7 0)))", a(0), a(3))),
        (8, vec![1], true, "(rule ((HoldsSS c) (Mark x) (Mark y) (set-contains c x) (set-contains c y)) ((union x y)))".into()),
        (9, vec![2], false, format!("(rule ((HoldsMS c) (= n (multiset-count c {}))) ((OutI 9 n)))", a(0))),
        (10, vec![3], false, "(rule ((HoldsPS c) (= (pair-first c) (pair-second c))) ((OutS 10 (pair-first c))))".into()),
        (11, vec![4], false, format!("(rule ((HoldsMP m) (= v (map-get m {}))) ((OutS 11 v)))", a(0))),
        (12, vec![5], false, format!("(rule ((HoldsMI m) (= v (map-get m {}))) ((OutI 12 v)))", a(0))),
        (13, vec![6], false, format!("(rule ((HoldsVVS (vec-of (vec-of {} {})))) ((OutI 13 0)))", a(0), a(0))),
        (14, vec![6], false, "(rule ((HoldsVVS c) (= i (vec-get c 0)) (= (vec-get i 0) (vec-get i 1))) ((OutS 14 (vec-get i 0))))".into()),
        (15, vec![7], false, "(rule ((HoldsSVS c) (= n (set-length c))) ((OutI 15 n)))".into()),
        (16, vec![10], false, "(rule ((HoldsPVS c) (= i (pair-first c)) (= (vec-get i 0) (pair-second c))) ((OutS 16 (pair-second c))))".into()),
        (17, vec![11], false, format!("(rule ((HoldsMSV m) (= i (map-get m {})) (= (vec-get i 0) (vec-get i 1))) ((OutS 17 (vec-get i 0))))", a(0))),
        (18, vec![8], false, "(rule ((HoldsVSS c) (= i (vec-get c 0)) (= n (set-length i))) ((OutI 18 n)))".into()),
        (19, vec![0], false, "(rule ((HoldsVS c) (Mark x) (< (vec-length c) 3)) ((HoldsVS (vec-push c x))))".into()),
        (20, vec![1], false, "(rule ((HoldsSS c) (Mark x)) ((HoldsSS (set-insert c x))))".into()),
        (21, vec![0, 6], false, "(rule ((HoldsVS c) (= 2 (vec-length c))) ((HoldsVVS (vec-of c c))))".into()),
        (22, vec![9], false, "(rule ((HoldsMVS c) (HoldsVS i) (= n (multiset-count c i))) ((OutI 22 n)))".into()),
        (23, vec![12], false, format!("(rule ((HoldsVMP c) (= m (vec-get c 0)) (= v (map-get m {}))) ((OutS 23 v)))", a(0))),
        (24, vec![13], false, "(rule ((HoldsSPS c) (= n (set-length c))) ((OutI 24 n)))".into()),
        (25, vec![14], false, format!("(rule ((HoldsVMS c) (= m (vec-get c 0)) (= n (multiset-count m {}))) ((OutI 25 n)))", a(0))),
        (26, vec![0], false, "(rule ((= w (WrapVS c)) (= w2 (WrapVS c2)) (= w w2) (!= (vec-length c) (vec-length c2))) ((OutI 26 0)))".into()),
        (27, vec![12], false, format!("(rule ((HoldsVMP c) (= m (vec-get c 0)) (= v (map-get m {})) (= v {})) ((OutI 27 0)))", a(0), a(1))),
        (28, vec![4], false, format!("(rule ((HoldsMP m) (= v (map-get m {})) (= v {})) ((OutI 28 0)))", a(0), a(1))),
        (29, vec![5], false, format!("(rule ((HoldsMI m) (= n (map-get m {}))) ((OutI 29 n)))", a(1))),
    ]
}

#[derive(Clone, Debug, PartialEq, Eq, Hash)]
enum Arg {
    S(usize),
    Int(i64),
    H(usize),
}

#[derive(Clone, Debug)]
enum Op {
    Ins { sort: usize, args: Vec<Arg> },
    Wrap { h: usize },
    Mark { s: usize },
    Union { a: usize, b: usize },
    Rule { id: usize },
    Run(usize),
    Filler,
    FillHandles,
}

#[derive(Clone, Copy, PartialEq, Debug)]
enum Mode {
    Pure,
    Rich,
    Big,
    Shape,
}

/// harness-side description of the handles (texts) built while generating
#[derive(Clone, Default)]
struct Names {
    s_text: Vec<String>,
    s_wrap_of: Vec<Option<usize>>, // S-handle i is Wrap of container handle
    h_sort: Vec<usize>,
    h_args: Vec<Vec<Arg>>,
    h_text: Vec<String>,
}

impl Names {
    fn new() -> Self {
        let mut n = Names::default();
        for i in 0..NELEM {
            n.s_text.push(format!("(A{i})"));
            n.s_wrap_of.push(None);
        }
        n
    }
    fn arg_text(&self, a: &Arg) -> String {
        match a {
            Arg::S(i) => self.s_text[*i].clone(),
            Arg::Int(z) => z.to_string(),
            Arg::H(h) => self.h_text[*h].clone(),
        }
    }
    fn cont_text(&self, sort: usize, args: &[Arg]) -> String {
        let at: Vec<String> = args.iter().map(|a| self.arg_text(a)).collect();
        match SORTS[sort].k {
            K::Vec => format!("(vec-of {})", at.join(" ")),
            K::Set => format!("(set-of {})", at.join(" ")),
            K::MSet => format!("(multiset-of {})", at.join(" ")),
            K::Pair => format!("(pair {} {})", at[0], at[1]),
            K::Map => {
                let mut s = String::from("(map-empty)");
                for kv in at.chunks(2) {
                    s = format!("(map-insert {} {} {})", s, kv[0], kv[1]);
                }
                s
            }
        }
    }
    fn add_h(&mut self, sort: usize, args: Vec<Arg>) -> usize {
        let t = self.cont_text(sort, &args);
        self.h_sort.push(sort);
        self.h_args.push(args);
        self.h_text.push(t);
        self.h_text.len() - 1
    }
    fn add_wrap(&mut self, h: usize) -> usize {
        self.s_text.push(format!("(Wrap{} {})", SORTS[self.h_sort[h]].name, self.h_text[h]));
        self.s_wrap_of.push(Some(h));
        self.s_text.len() - 1
    }
}

// ------------------------------------------------------------------------------------------
// the harness' own closure: a lower bound on the engine's equalities (external unions +
// congruence of Wrap over structurally equal containers)

#[derive(Clone, Debug, PartialEq, Eq, PartialOrd, Ord, Hash)]
enum Tree {
    Cls(usize),
    Raw(u32),
    Anon,
    Int(i64),
    Node(K, Vec<Tree>),
    Dead,
}

fn norm_children(k: K, mut ch: Vec<Tree>) -> Vec<Tree> {
    match k {
        K::Vec | K::Pair => ch,
        K::Set => {
            ch.sort();
            ch.dedup();
            ch
        }
        K::MSet => {
            ch.sort();
            ch
        }
        K::Map => {
            // pairs, last write wins on equal keys (construction order), sorted by key
            let mut m: BTreeMap<Tree, Tree> = BTreeMap::new();
            for kv in ch.chunks(2) {
                m.insert(kv[0].clone(), kv[1].clone());
            }
            m.into_iter().flat_map(|(k, v)| [k, v]).collect()
        }
    }
}

#[derive(Clone)]
struct Oracle {
    cls: Vec<usize>,
}
impl Oracle {
    fn find(&self, i: usize) -> usize {
        self.cls[i]
    }
    fn ensure(&mut self, n: usize) {
        while self.cls.len() < n {
            self.cls.push(self.cls.len());
        }
    }
    fn union(&mut self, a: usize, b: usize) {
        let (ca, cb) = (self.cls[a].min(self.cls[b]), self.cls[a].max(self.cls[b]));
        if ca != cb {
            for c in self.cls.iter_mut() {
                if *c == cb {
                    *c = ca;
                }
            }
        }
    }
    fn tree(&self, nm: &Names, h: usize) -> Tree {
        let ch: Vec<Tree> = nm.h_args[h]
            .iter()
            .map(|a| match a {
                Arg::S(i) => Tree::Cls(self.find(*i)),
                Arg::Int(z) => Tree::Int(*z),
                Arg::H(j) => self.tree(nm, *j),
            })
            .collect();
        Tree::Node(SORTS[nm.h_sort[h]].k, norm_children(SORTS[nm.h_sort[h]].k, ch))
    }
    fn close(&mut self, nm: &Names) {
        self.ensure(nm.s_text.len());
        loop {
            let mut changed = false;
            let wraps: Vec<(usize, usize)> = nm.s_wrap_of.iter().enumerate().filter_map(|(i, w)| w.map(|h| (i, h))).collect();
            for x in 0..wraps.len() {
                for y in (x + 1)..wraps.len() {
                    let ((i, hi), (j, hj)) = (wraps[x], wraps[y]);
                    if self.find(i) != self.find(j) && nm.h_sort[hi] == nm.h_sort[hj] && self.tree(nm, hi) == self.tree(nm, hj) {
                        self.union(i, j);
                        changed = true;
                    }
                }
            }
            if !changed {
                break;
            }
        }
    }
    /// number of classes containing >= 2 of the key elements {0,1,2}
    fn key_merges(&self) -> usize {
        let mut n = 0;
        for a in 0..3 {
            for b in (a + 1)..3 {
                if self.find(a) == self.find(b) {
                    n += 1;
                }
            }
        }
        n
    }
}

// ------------------------------------------------------------------------------------------
// generator

struct Gen<'a> {
    r: &'a mut Rng,
    nm: Names,
    or: Oracle,
    ops: Vec<Op>,
    mode: Mode,
    has_maps: bool,
    marked: Vec<usize>,
    rules_used: HashSet<usize>,
}

impl<'a> Gen<'a> {
    fn pick_s(&mut self, key: bool) -> usize {
        if key {
            self.r.below(3)
        } else if self.mode != Mode::Pure && self.nm.s_text.len() > NELEM && self.r.chance(1, 4) {
            self.r.range(NELEM, self.nm.s_text.len() - 1)
        } else {
            self.r.below(NELEM)
        }
    }
    fn handle_of_sort(&mut self, sort: usize) -> usize {
        let cands: Vec<usize> = (0..self.nm.h_sort.len()).filter(|h| self.nm.h_sort[*h] == sort).collect();
        if !cands.is_empty() && self.r.chance(3, 4) {
            *self.r.pick(&cands)
        } else {
            self.ins(sort)
        }
    }
    fn arg_of(&mut self, t: Ty, key: bool) -> Arg {
        match t {
            Ty::S => Arg::S(self.pick_s(key)),
            Ty::I => Arg::Int(self.r.below(3) as i64),
            Ty::C(s) => Arg::H(self.handle_of_sort(s)),
        }
    }
    fn ins(&mut self, sort: usize) -> usize {
        let d = &SORTS[sort];
        let mut args = Vec::new();
        match d.k {
            K::Vec | K::Set | K::MSet => {
                let n = self.r.range(1, 3);
                for _ in 0..n {
                    let a = self.arg_of(d.a, false);
                    args.push(a);
                }
            }
            K::Pair => {
                let a = self.arg_of(d.a, false);
                let b = self.arg_of(d.b, false);
                args.push(a);
                args.push(b);
            }
            K::Map => {
                let n = self.r.range(1, 2);
                let mut keys: Vec<usize> = Vec::new();
                for _ in 0..n {
                    let k = self.arg_of(d.a, true);
                    if let Arg::S(i) = k {
                        if keys.iter().any(|j| self.or.find(*j) == self.or.find(i)) {
                            continue;
                        }
                        keys.push(i);
                    }
                    let v = self.arg_of(d.b, false);
                    args.push(k);
                    args.push(v);
                }
            }
        }
        let h = self.nm.add_h(sort, args.clone());
        self.ops.push(Op::Ins { sort, args });
        h
    }
    fn pick_sort(&mut self) -> usize {
        loop {
            let s = if self.r.chance(3, 5) { self.r.below(6) } else { self.r.below(SORTS.len()) };
            let is_map = |i: usize| SORTS[i].k == K::Map || matches!(SORTS[i].a, Ty::C(j) if SORTS[j].k == K::Map) || matches!(SORTS[i].b, Ty::C(j) if SORTS[j].k == K::Map);
            if is_map(s) && !self.has_maps {
                continue;
            }
            return s;
        }
    }
    /// union two S-handles unless that would make two Map keys collide (outside the claim)
    fn try_union(&mut self, a: usize, b: usize) -> bool {
        let mut o2 = self.or.clone();
        o2.ensure(self.nm.s_text.len());
        o2.union(a, b);
        o2.close(&self.nm);
        if o2.key_merges() > self.or.key_merges() {
            return false;
        }
        self.or = o2;
        self.ops.push(Op::Union { a, b });
        true
    }
    fn union(&mut self) {
        for _ in 0..6 {
            let (a, b) = (self.pick_s(false), self.pick_s(false));
            if self.or.find(a) == self.or.find(b) && self.r.chance(4, 5) {
                continue;
            }
            if self.try_union(a, b) {
                return;
            }
        }
    }
    fn session(mut self, nops: usize) -> (Vec<Op>, Names) {
        if self.mode == Mode::Big {
            self.ops.push(Op::Filler);
        }
        let n0 = self.r.range(2, 4);
        for _ in 0..n0 {
            let s = self.pick_sort();
            self.ins(s);
        }
        let mut chain_second_at: Option<usize> = None;
        if self.mode == Mode::Big {
            // a few filler elements become handles so that unions among fillers are generated
            self.ops.push(Op::FillHandles);
            for t in ["(N 3)", "(N 4)", "(N 5)", "(N 500)"] {
                self.nm.s_text.push(t.to_string());
                self.nm.s_wrap_of.push(None);
            }
            self.or.ensure(self.nm.s_text.len());
            // two-step union chains on the element of two containers that collide in the first
            // step, random kind / interning order / shape (elements 5 -> 4 -> 3, padding 2)
            let nchains = self.r.range(1, 3);
            for _ in 0..nchains {
                let sort = self.r.below(6);
                if SORTS[sort].k == K::Map && !self.has_maps {
                    continue;
                }
                let hi_first = self.r.chance(1, 2);
                let variant = self.r.chance(1, 2);
                let (x, y) = chain_pair(sort, 5, 4, 2, hi_first, variant);
                for args in [x, y] {
                    self.nm.add_h(sort, args.clone());
                    self.ops.push(Op::Ins { sort, args });
                }
            }
            self.try_union(5, 4);
            chain_second_at = Some(self.r.below(nops.max(1)));
        }
        let templates = rule_templates();
        for opi in 0..nops {
            if chain_second_at == Some(opi) {
                self.try_union(4, 3);
            }
            let k = self.r.below(100);
            match self.mode {
                Mode::Pure => {
                    if k < 55 {
                        let s = self.pick_sort();
                        self.ins(s);
                    } else {
                        self.union();
                    }
                }
                Mode::Rich | Mode::Big | Mode::Shape => {
                    if k < 30 {
                        let s = self.pick_sort();
                        self.ins(s);
                    } else if k < 55 {
                        self.union();
                    } else if k < 65 && !self.nm.h_text.is_empty() {
                        let h = self.r.below(self.nm.h_text.len());
                        self.nm.add_wrap(h);
                        self.or.ensure(self.nm.s_text.len());
                        self.or.close(&self.nm);
                        self.ops.push(Op::Wrap { h });
                    } else if k < 72 {
                        let s = 3 + self.r.below(3);
                        self.marked.push(s);
                        self.ops.push(Op::Mark { s });
                    } else if k < 88 {
                        let used: HashSet<usize> = self.nm.h_sort.iter().copied().collect();
                        let cands: Vec<&(usize, Vec<usize>, bool, String)> = templates
                            .iter()
                            .filter(|t| !self.rules_used.contains(&t.0) && t.1.iter().any(|s| used.contains(s)) && !(t.2 && self.has_maps))
                            .collect();
                        if !cands.is_empty() {
                            let id = cands[self.r.below(cands.len())].0;
                            self.rules_used.insert(id);
                            self.ops.push(Op::Rule { id });
                        }
                    } else {
                        let n = self.r.range(1, 3);
                        self.ops.push(Op::Run(n));
                    }
                }
            }
        }
        if self.mode != Mode::Pure {
            self.ops.push(Op::Run(2));
        }
        (self.ops, self.nm)
    }
}

fn generate(seed: u64, case: u64, mode: Mode) -> (Vec<Op>, Names) {
    let mut r = Rng::for_case(seed, case);
    if mode == Mode::Shape {
        return shape_session(&mut r);
    }
    let nops = r.range(5, 16);
    let has_maps = r.chance(1, 2);
    let g = Gen {
        r: &mut r,
        nm: Names::new(),
        or: Oracle { cls: (0..NELEM).collect() },
        ops: vec![],
        mode,
        has_maps,
        marked: vec![],
        rules_used: HashSet::new(),
    };
    g.session(nops)
}

/// targeted shapes: a container (possibly nested / wrapped) is stored, rules reading its contents
/// are run, then a union changes the contents (in place, through nesting, or merging two
/// containers), then the rules run again; random unrelated inserts / unions are mixed in
fn shape_session(r: &mut Rng) -> (Vec<Op>, Names) {
    let mut nm = Names::new();
    let mut ops: Vec<Op> = Vec::new();
    let b = 3 + r.below(3);
    let s = Arg::S;
    // (inserts as (sort, args) with H(k) = k-th insert of the scenario, wraps of inserts, rules, union)
    type Sc = (Vec<(usize, Vec<Arg>)>, Vec<usize>, Vec<usize>, (usize, usize));
    let scen: Vec<Sc> = vec![
        (vec![(0, vec![s(0), s(b)])], vec![], vec![1, 2], (b, 0)),
        (vec![(1, vec![s(0), s(3)])], vec![], vec![5, 6, 7], (3, 0)),
        (vec![(2, vec![s(0), s(b)])], vec![], vec![9], (b, 0)),
        (vec![(3, vec![s(0), s(b)])], vec![], vec![10], (b, 0)),
        (vec![(4, vec![s(0), s(4)])], vec![], vec![11, 28], (4, 1)),
        (vec![(5, vec![s(4), Arg::Int(2)])], vec![], vec![12, 29], (4, 1)),
        (vec![(0, vec![s(0), s(b)]), (6, vec![Arg::H(0)])], vec![], vec![13, 14], (b, 0)),
        (vec![(0, vec![s(0)]), (0, vec![s(b)]), (7, vec![Arg::H(0), Arg::H(1)])], vec![], vec![15], (b, 0)),
        (vec![(1, vec![s(0), s(b)]), (8, vec![Arg::H(0)])], vec![], vec![18], (b, 0)),
        (vec![(0, vec![s(0)]), (0, vec![s(b)]), (9, vec![Arg::H(0), Arg::H(1)])], vec![], vec![22], (b, 0)),
        (vec![(0, vec![s(0), s(5)]), (10, vec![Arg::H(0), s(3)])], vec![], vec![16], (3, 0)),
        (vec![(0, vec![s(0), s(b)]), (11, vec![s(0), Arg::H(0)])], vec![], vec![17], (b, 0)),
        (vec![(4, vec![s(0), s(4)]), (12, vec![Arg::H(0)])], vec![], vec![23, 27], (4, 1)),
        (vec![(3, vec![s(0), s(0)]), (3, vec![s(b), s(b)]), (13, vec![Arg::H(0), Arg::H(1)])], vec![], vec![24], (b, 0)),
        (vec![(2, vec![s(0), s(b)]), (14, vec![Arg::H(0)])], vec![], vec![25], (b, 0)),
        (vec![(0, vec![s(0), s(b)])], vec![0], vec![4], (b, 0)),
        (vec![(0, vec![s(0)]), (0, vec![s(b)]), (0, vec![s(b), s(b)])], vec![0, 1], vec![26, 3], (b, 0)),
    ];
    let (ins, wraps, rules, un) = scen[r.below(scen.len())].clone();
    let noise = |r: &mut Rng, nm: &mut Names, ops: &mut Vec<Op>| {
        if r.chance(1, 2) {
            let sort = r.below(4);
            let n = if SORTS[sort].k == K::Pair { 2 } else { r.range(1, 3) };
            let args: Vec<Arg> = (0..n).map(|_| Arg::S(r.below(NELEM))).collect();
            nm.add_h(sort, args.clone());
            ops.push(Op::Ins { sort, args });
        }
    };
    noise(r, &mut nm, &mut ops);
    let mut hs: Vec<usize> = Vec::new();
    for (sort, args) in ins {
        let args: Vec<Arg> = args
            .into_iter()
            .map(|a| match a {
                Arg::H(k) => Arg::H(hs[k]),
                x => x,
            })
            .collect();
        hs.push(nm.add_h(sort, args.clone()));
        ops.push(Op::Ins { sort, args });
        noise(r, &mut nm, &mut ops);
    }
    for w in wraps {
        nm.add_wrap(hs[w]);
        ops.push(Op::Wrap { h: hs[w] });
    }
    if r.chance(1, 3) {
        ops.push(Op::Mark { s: 3 + r.below(3) });
    }
    for id in rules {
        ops.push(Op::Rule { id });
    }
    ops.push(Op::Run(1));
    ops.push(Op::Union { a: un.0, b: un.1 });
    ops.push(Op::Run(1));
    if r.chance(1, 2) {
        // a second, unrelated union among non-key elements and another run
        let (x, y) = (3 + r.below(3), 3 + r.below(3));
        ops.push(Op::Union { a: x, b: y });
        ops.push(Op::Run(1));
    }
    (ops, nm)
}

/// two containers of base sort `sort` that differ only in one element (`hi` vs `mid`), interned
/// in the given order (`hi_first`: the container that will be REBUILT by `union hi mid` holds the
/// smaller id and wins the collision, so the surviving entry is re-keyed and val_index must follow)
fn chain_pair(sort: usize, hi: usize, mid: usize, pad: usize, hi_first: bool, variant: bool) -> (Vec<Arg>, Vec<Arg>) {
    let s = Arg::S;
    let mk = |x: usize| -> Vec<Arg> {
        match (SORTS[sort].k, SORTS[sort].b, variant) {
            (K::Vec | K::Set | K::MSet, _, false) => vec![s(x)],
            (K::Vec | K::Set | K::MSet, _, true) => vec![s(x), s(pad)],
            (K::Pair, _, false) => vec![s(x), s(pad)],
            (K::Pair, _, true) => vec![s(pad), s(x)],
            (K::Map, Ty::I, false) => vec![s(x), Arg::Int(1)],
            (K::Map, Ty::I, true) => vec![s(x), Arg::Int(2)],
            (K::Map, _, false) => vec![s(x), s(pad)],
            (K::Map, _, true) => vec![s(0), s(x)],
        }
    };
    if hi_first {
        (mk(hi), mk(mid))
    } else {
        (mk(mid), mk(hi))
    }
}

/// fixed Big sessions (always run first in the --big entries): after the fillers, for every base
/// container kind and both interning orders, two containers are made equal by a first union and
/// the shared element is displaced again by a second union (two-step chains: the second
/// incremental pass must find the surviving container through val_index); the same one level up
/// through nesting (the displaced value is a container id)
fn fixed_big_sessions() -> Vec<(Vec<Op>, Names, &'static str)> {
    let mut out = Vec::new();
    for (name, hi_first) in [("fixed-big-chain-rebuilt-wins", true), ("fixed-big-chain-stored-wins", false)] {
        let mut nm = Names::new();
        let mut ops = vec![Op::Filler];
        let mut ins = |nm: &mut Names, ops: &mut Vec<Op>, sort: usize, args: Vec<Arg>| -> usize {
            let h = nm.add_h(sort, args.clone());
            ops.push(Op::Ins { sort, args });
            h
        };
        // element chain 2 -> 1 -> 0 (ids A0 < A1 < A2: the union-find keeps the least id)
        for sort in 0..6 {
            for variant in [false, true] {
                let (x, y) = chain_pair(sort, 2, 1, 5, hi_first, variant);
                ins(&mut nm, &mut ops, sort, x);
                ins(&mut nm, &mut ops, sort, y);
            }
        }
        // nesting: R=[A0], P=[A2], Q=[A1]; outer containers of Q and P; step 1 displaces Q (P wins and
        // the outer of Q is rebuilt), step 2 displaces P (R wins): the outer must follow
        let r = ins(&mut nm, &mut ops, 0, vec![Arg::S(0)]);
        let p = ins(&mut nm, &mut ops, 0, vec![Arg::S(2)]);
        let q = ins(&mut nm, &mut ops, 0, vec![Arg::S(1)]);
        let _ = r;
        let (first, second) = if hi_first { (q, p) } else { (p, q) };
        for outer in [6usize, 7, 9, 10, 11] {
            for inner in [first, second] {
                let args = match outer {
                    10 => vec![Arg::H(inner), Arg::S(5)],
                    11 => vec![Arg::S(3), Arg::H(inner)],
                    _ => vec![Arg::H(inner)],
                };
                ins(&mut nm, &mut ops, outer, args);
            }
        }
        ops.push(Op::Rule { id: 1 });
        ops.push(Op::Rule { id: 5 });
        ops.push(Op::Union { a: 2, b: 1 });
        ops.push(Op::Run(1));
        ops.push(Op::Union { a: 1, b: 0 });
        ops.push(Op::Run(1));
        out.push((ops, nm, name));
    }
    out
}

/// the three regression shapes of tests/container_rebuild.rs & friends, as fixed sessions
fn fixed_sessions() -> Vec<(Vec<Op>, Names, &'static str)> {
    let mut out = Vec::new();
    // 1. in-place change of a Vec makes a ground pattern matchable: Holds [A0,A1], union A0 A1
    {
        let mut nm = Names::new();
        let mut ops = vec![];
        nm.add_h(0, vec![Arg::S(0), Arg::S(1)]);
        ops.push(Op::Ins { sort: 0, args: vec![Arg::S(0), Arg::S(1)] });
        ops.push(Op::Rule { id: 2 });
        ops.push(Op::Rule { id: 1 });
        ops.push(Op::Run(1));
        ops.push(Op::Union { a: 1, b: 0 });
        ops.push(Op::Run(1));
        out.push((ops, nm, "fixed-inplace-vec"));
    }
    // 2. nested: inner Vec changes in place, outer Vec id and contents unchanged
    {
        let mut nm = Names::new();
        let mut ops = vec![];
        let h = nm.add_h(0, vec![Arg::S(0), Arg::S(1)]);
        ops.push(Op::Ins { sort: 0, args: vec![Arg::S(0), Arg::S(1)] });
        nm.add_h(6, vec![Arg::H(h)]);
        ops.push(Op::Ins { sort: 6, args: vec![Arg::H(h)] });
        ops.push(Op::Rule { id: 13 });
        ops.push(Op::Rule { id: 14 });
        ops.push(Op::Run(1));
        ops.push(Op::Union { a: 1, b: 0 });
        ops.push(Op::Run(1));
        out.push((ops, nm, "fixed-nested-closure"));
    }
    // 3. two containers become equal: the larger id is displaced; set collapses; Wrap rows merge
    {
        let mut nm = Names::new();
        let mut ops = vec![];
        let h0 = nm.add_h(0, vec![Arg::S(0)]);
        ops.push(Op::Ins { sort: 0, args: vec![Arg::S(0)] });
        let h1 = nm.add_h(0, vec![Arg::S(1)]);
        ops.push(Op::Ins { sort: 0, args: vec![Arg::S(1)] });
        nm.add_h(7, vec![Arg::H(h0), Arg::H(h1)]);
        ops.push(Op::Ins { sort: 7, args: vec![Arg::H(h0), Arg::H(h1)] });
        nm.add_h(1, vec![Arg::S(0), Arg::S(1)]);
        ops.push(Op::Ins { sort: 1, args: vec![Arg::S(0), Arg::S(1)] });
        nm.add_wrap(h0);
        ops.push(Op::Wrap { h: h0 });
        nm.add_wrap(h1);
        ops.push(Op::Wrap { h: h1 });
        ops.push(Op::Rule { id: 15 });
        ops.push(Op::Rule { id: 5 });
        ops.push(Op::Rule { id: 6 });
        ops.push(Op::Run(1));
        ops.push(Op::Union { a: 0, b: 1 });
        ops.push(Op::Run(1));
        out.push((ops, nm, "fixed-merge-cascade"));
    }
    out
}

// ------------------------------------------------------------------------------------------
// engine side

struct Eng {
    eg: EGraph,
    sv: Vec<Value>,
    hv: Vec<Value>,
}

fn eval(eg: &mut EGraph, text: &str) -> Result<Value, String> {
    let res = std::panic::catch_unwind(std::panic::AssertUnwindSafe(|| {
        let e = eg.parser.get_expr_from_string(None, text).map_err(|e| format!("{e}"))?;
        eg.eval_expr(&e).map(|x| x.1).map_err(|e| format!("{e}"))
    }));
    match res {
        Ok(r) => r,
        Err(_) => Err("PANIC in eval_expr".into()),
    }
}

struct Render<'a> {
    eg: &'a EGraph,
    labels: HashMap<u32, usize>,
    viol: Vec<String>,
    canon_checks: usize,
}

impl<'a> Render<'a> {
    fn children(&mut self, v: Value, sort: usize) -> Option<Vec<(Value, Ty)>> {
        let d = &SORTS[sort];
        Some(match d.k {
            K::Vec => self.eg.value_to_container::<VecContainer>(v)?.data.iter().map(|x| (*x, d.a)).collect(),
            K::Set => self.eg.value_to_container::<SetContainer>(v)?.data.iter().map(|x| (*x, d.a)).collect(),
            K::MSet => self.eg.value_to_container::<MultiSetContainer>(v)?.data.iter().map(|x| (*x, d.a)).collect(),
            K::Pair => {
                let p = self.eg.value_to_container::<PairContainer>(v)?;
                vec![(p.first, d.a), (p.second, d.b)]
            }
            K::Map => self.eg.value_to_container::<MapContainer>(v)?.data.iter().flat_map(|(k, x)| [(*k, d.a), (*x, d.b)]).collect(),
        })
    }
    fn go(&mut self, v: Value, t: Ty, wher: &str) -> Tree {
        match t {
            Ty::I => Tree::Int(self.eg.value_to_base::<i64>(v)),
            Ty::S => {
                let c = canon_u32(self.eg, v.rep());
                self.canon_checks += 1;
                if c != v.rep() {
                    self.viol.push(format!("{wher}: e-class id {} stored but canonical id is {}", v.rep(), c));
                }
                match self.labels.get(&c) {
                    Some(l) => Tree::Cls(*l),
                    None => Tree::Raw(c),
                }
            }
            Ty::C(s) => {
                let c = canon_u32(self.eg, v.rep());
                self.canon_checks += 1;
                if c != v.rep() {
                    self.viol.push(format!("{wher}: container id {} of sort {} stored but canonical id is {}", v.rep(), SORTS[s].name, c));
                }
                match self.children(Value::new(c), s) {
                    None => {
                        self.viol.push(format!("{wher}: container id {} (canonical {}) of sort {} has no contents", v.rep(), c, SORTS[s].name));
                        Tree::Dead
                    }
                    Some(ch) => {
                        let w = format!("{wher} > {}#{}", SORTS[s].name, c);
                        let trees: Vec<Tree> = ch.into_iter().map(|(x, tx)| self.go(x, tx, &w)).collect();
                        let n = trees.len();
                        let normed = norm_children(SORTS[s].k, trees);
                        if normed.len() != n && SORTS[s].k != K::Map {
                            self.viol.push(format!("{w}: two elements of one Set are equal modulo the current equalities"));
                        }
                        Tree::Node(SORTS[s].k, normed)
                    }
                }
            }
        }
    }
}

fn anonymise(t: &Tree) -> Tree {
    match t {
        Tree::Raw(_) => Tree::Anon,
        Tree::Node(k, ch) => Tree::Node(*k, norm_children(*k, ch.iter().map(anonymise).collect())),
        x => x.clone(),
    }
}

type DumpT = Vec<Vec<(Vec<Tree>, Tree)>>;

/// dump every table; returns (raw-structural dump, predicate violations (a)/(b), #canonicity checks)
fn dump(e: &Eng, tabs: &[Table]) -> Result<(DumpT, Vec<String>, usize), String> {
    let mut labels = HashMap::new();
    for (i, v) in e.sv.iter().enumerate() {
        labels.entry(canon_u32(&e.eg, v.rep())).or_insert(i);
    }
    let mut r = Render { eg: &e.eg, labels, viol: vec![], canon_checks: 0 };
    let mut out: DumpT = Vec::new();
    for t in tabs {
        let mut raw: Vec<(Vec<Value>, Value)> = Vec::new();
        e.eg.constructor_enodes(&t.name, |en| raw.push((en.children.to_vec(), en.eclass))).map_err(|x| format!("{x}"))?;
        let mut rows = Vec::new();
        for (args, ec) in raw {
            let w = format!("table {}", t.name);
            let a: Vec<Tree> = args.iter().zip(t.args.iter()).map(|(v, ty)| r.go(*v, *ty, &w)).collect();
            let o = match t.out {
                Some(ty) => r.go(ec, ty, &w),
                None => Tree::Int(0),
            };
            rows.push((a, o));
        }
        // (b) rows keyed by containers equal modulo the current equalities have merged
        let mut seen: HashSet<&Vec<Tree>> = HashSet::new();
        for (a, _) in &rows {
            if !seen.insert(a) {
                r.viol.push(format!("table {}: two rows whose keys are equal modulo the current equalities: {:?}", t.name, a));
                break;
            }
        }
        rows.sort();
        out.push(rows);
    }
    Ok((out, r.viol, r.canon_checks))
}

fn anon_dump(d: &DumpT) -> DumpT {
    d.iter()
        .map(|rows| {
            let mut v: Vec<(Vec<Tree>, Tree)> = rows.iter().map(|(a, o)| (a.iter().map(anonymise).collect(), anonymise(o))).collect();
            v.sort();
            v
        })
        .collect()
}

struct Viol {
    what: String,
    key: String,
    text: String,
    at: usize,
}

#[derive(Default)]
struct Stats {
    op_hist: BTreeMap<String, usize>,
    sort_hist: BTreeMap<String, usize>,
    event_hist: BTreeMap<String, usize>,
    rule_hist: BTreeMap<String, usize>,
    canon_checks: usize,
    lockstep_cmps: usize,
    eq_checks: usize,
}

fn bump(h: &mut BTreeMap<String, usize>, k: &str) {
    *h.entry(k.to_string()).or_insert(0) += 1;
}

fn op_text(op: &Op, nm: &Names, hidx: usize, templates: &[(usize, Vec<usize>, bool, String)]) -> String {
    match op {
        Op::Ins { sort, .. } => format!("(Holds{} {})", SORTS[*sort].name, nm.h_text[hidx]),
        Op::Wrap { h } => format!("(Wrap{} {})", SORTS[nm.h_sort[*h]].name, nm.h_text[*h]),
        Op::Mark { s } => format!("(Mark {})", nm.s_text[*s]),
        Op::Union { a, b } => format!("(union {} {})", nm.s_text[*a], nm.s_text[*b]),
        Op::Rule { id } => templates.iter().find(|t| t.0 == *id).unwrap().3.clone(),
        Op::Run(n) => format!("(run {n})"),
        Op::Filler => format!(
            "(Num 0)\n(rule ((Num n) (< n {NFILL})) ((Num (+ n 1)) (HoldsVS (vec-of (N n) (N (+ n 1)))) (HoldsSS (set-of (N n) (N (+ n 1)))) (HoldsMS (multiset-of (N n) (N n))) (HoldsPS (pair (N n) (N n))) (HoldsMP (map-insert (map-empty) (N n) (N n)))) :ruleset filler)\n(run filler {})",
            NFILL + 1
        ),
        Op::FillHandles => "(N 3)".into(),
    }
}

struct Outcome {
    viols: Vec<Viol>,
    model_case: Option<String>,
    nontrivial: bool,
    text: String,
    sample: Option<serde_json::Value>,
}

fn kindtag(sort: usize) -> &'static str {
    match (SORTS[sort].k, SORTS[sort].b) {
        (K::Vec, _) => "KVec",
        (K::Set, _) => "KSet",
        (K::MSet, _) => "KMSet",
        (K::Pair, _) => "KPair",
        (K::Map, Ty::I) => "KMapSI",
        (K::Map, _) => "KMapSS",
    }
}

/// observation in the shape of coq/Cont/Env.v [observe]: per handle (class, contents as classes)
fn model_obs(e: &Eng, nm: &Names, nh: usize) -> Vec<(usize, Vec<usize>)> {
    let ns = NELEM;
    let canon = |v: Value| canon_u32(&e.eg, v.rep());
    let all: Vec<u32> = e.sv.iter().take(ns).map(|v| canon(*v)).chain(e.hv.iter().take(nh).map(|v| canon(*v))).collect();
    let class_of = |c: u32| all.iter().position(|x| *x == c).unwrap_or(999);
    let mut out = Vec::new();
    for i in 0..ns {
        out.push((class_of(all[i]), vec![]));
    }
    for h in 0..nh {
        let c = all[ns + h];
        let sort = nm.h_sort[h];
        let mut r = Render { eg: &e.eg, labels: HashMap::new(), viol: vec![], canon_checks: 0 };
        let contents = match r.children(Value::new(c), sort) {
            None => vec![777],
            Some(ch) => {
                let vals: Vec<usize> = ch
                    .iter()
                    .map(|(v, t)| match t {
                        Ty::I => e.eg.value_to_base::<i64>(*v) as usize,
                        _ => class_of(canon(*v)),
                    })
                    .collect();
                match SORTS[sort].k {
                    K::Vec | K::Pair => vals,
                    K::Set => {
                        let mut v = vals;
                        v.sort();
                        v.dedup();
                        v
                    }
                    K::MSet => {
                        let mut v = vals;
                        v.sort();
                        v
                    }
                    K::Map => {
                        let mut ps: Vec<(usize, usize)> = vals.chunks(2).map(|kv| (kv[0], kv[1])).collect();
                        ps.sort();
                        ps.into_iter().flat_map(|(k, v)| [k, v]).collect()
                    }
                }
            }
        };
        out.push((class_of(c), contents));
    }
    out
}

fn coq_obs(o: &[(usize, Vec<usize>)]) -> String {
    coq_list(o, |(c, l)| {
        let mut v = vec![*c];
        v.extend(l.iter().copied());
        coq_nat_list(&v)
    })
}

fn run_session(ops: &[Op], nm: &Names, mode: Mode, threads: usize, st: &mut Stats, verbose: bool) -> Outcome {
    let templates = rule_templates();
    let tabs = tables();
    let hdr = header();
    let mut text = hdr.clone();
    let mk = |threads: usize, semi: bool| -> Eng {
        let mut eg = if threads > 1 { EGraph::default().with_num_threads(threads) } else { EGraph::default() };
        eg.seminaive = semi;
        Eng { eg, sv: vec![], hv: vec![] }
    };
    let mut engs = vec![mk(threads, true), mk(1, false)];
    let mut viols: Vec<Viol> = Vec::new();
    let mut model_ops: Vec<String> = Vec::new();
    let mut model_ok = mode == Mode::Pure;
    let mut nontrivial = false;
    let mut or = Oracle { cls: (0..NELEM).collect() };
    let mut s_known = NELEM; // S-handles the engines have evaluated so far
    macro_rules! fail {
        ($key:expr, $at:expr, $($arg:tt)*) => {{
            viols.push(Viol { what: format!($($arg)*), key: $key.to_string(), text: text.clone(), at: $at });
        }};
    }
    for e in engs.iter_mut() {
        let (r, _) = step(&mut e.eg, &hdr);
        if let Err(x) = r {
            fail!("harness-header", 0, "harness: header rejected: {x}");
            return Outcome { viols, model_case: None, nontrivial: false, text, sample: None };
        }
        for i in 0..NELEM {
            match eval(&mut e.eg, &nm.s_text[i]) {
                Ok(v) => e.sv.push(v),
                Err(x) => {
                    fail!("harness-eval", 0, "harness: cannot evaluate {}: {x}", nm.s_text[i]);
                    return Outcome { viols, model_case: None, nontrivial: false, text, sample: None };
                }
            }
        }
    }
    for _ in 0..NELEM {
        model_ops.push("HNew".into());
    }
    let mut hidx = 0usize; // next container handle
    let mut prev_holds: Option<Vec<usize>> = None;
    let mut prev_out: usize = 0;
    let mut last_obs: Option<Vec<(usize, Vec<usize>)>> = None;
    'cmds: for (k, op) in ops.iter().enumerate() {
        bump(
            &mut st.op_hist,
            match op {
                Op::Ins { .. } => "insert",
                Op::Wrap { .. } => "wrap",
                Op::Mark { .. } => "mark",
                Op::Union { .. } => "union",
                Op::Rule { .. } => "rule",
                Op::Run(_) => "run",
                Op::Filler => "filler",
                Op::FillHandles => "fill-handles",
            },
        );
        let ctext = op_text(op, nm, hidx, &templates);
        text.push_str(&ctext);
        text.push('\n');
        // handles are evaluated (both engines) before the command that stores them
        match op {
            Op::Ins { sort, args } => {
                bump(&mut st.sort_hist, SORTS[*sort].name);
                if args.iter().any(|a| matches!(a, Arg::H(_))) {
                    bump(&mut st.event_hist, "nested-insert");
                }
                for e in engs.iter_mut() {
                    match eval(&mut e.eg, &nm.h_text[hidx]) {
                        Ok(v) => e.hv.push(v),
                        Err(x) => {
                            fail!("harness-eval", k, "harness: cannot evaluate {}: {x}", nm.h_text[hidx]);
                            break 'cmds;
                        }
                    }
                }
                let margs: Vec<usize> = args
                    .iter()
                    .map(|a| match a {
                        Arg::S(i) => *i,
                        Arg::Int(z) => *z as usize,
                        Arg::H(h) => NELEM + *h,
                    })
                    .collect();
                if args.iter().any(|a| matches!(a, Arg::S(i) if *i >= NELEM)) {
                    model_ok = false;
                }
                model_ops.push(format!("HIns {} {}", kindtag(*sort), coq_nat_list(&margs)));
                hidx += 1;
            }
            Op::Rule { id } => {
                bump(&mut st.rule_hist, &format!("r{id}"));
                model_ok = false;
            }
            Op::Union { a, b } => {
                model_ops.push(format!("HUnion {a} {b}"));
                if *a >= NELEM || *b >= NELEM {
                    model_ok = false;
                }
            }
            _ => model_ok = false,
        }
        let mut outcomes = Vec::new();
        for e in engs.iter_mut() {
            let (r, panicked) = step(&mut e.eg, &ctext);
            if panicked {
                fail!("engine-panic", k, "engine panicked on command {k} `{}`: {}", ctext.replace('\n', " "), r.as_ref().err().cloned().unwrap_or_default().chars().take(200).collect::<String>());
                break 'cmds;
            }
            outcomes.push(r.is_ok());
            if let Err(x) = &r {
                if verbose {
                    eprintln!("command failed: {ctext}: {x}");
                }
            }
        }
        if !outcomes[0] {
            // every generated command is well-typed and monotone: a failure is a harness bug or an
            // engine error; both must be looked at
            fail!("command-failed", k, "command {k} `{}` failed on the engine", ctext.replace('\n', " "));
            break 'cmds;
        }
        // S-handles created by this command
        let new_s: Vec<usize> = match op {
            Op::Wrap { .. } => vec![s_known],
            Op::FillHandles => (s_known..s_known + 4).collect(),
            _ => vec![],
        };
        for i in new_s {
            for e in engs.iter_mut() {
                match eval(&mut e.eg, &nm.s_text[i]) {
                    Ok(v) => e.sv.push(v),
                    Err(x) => {
                        fail!("harness-eval", k, "harness: cannot evaluate {}: {x}", nm.s_text[i]);
                        break 'cmds;
                    }
                }
            }
            s_known += 1;
        }
        or.ensure(s_known);
        if let Op::Union { a, b } = op {
            or.union(*a, *b);
        }
        // only handles that exist so far take part in the closure
        let mut nm_now = nm.clone();
        nm_now.s_text.truncate(s_known);
        nm_now.s_wrap_of.truncate(s_known);
        nm_now.h_sort.truncate(hidx);
        nm_now.h_args.truncate(hidx);
        nm_now.h_text.truncate(hidx);
        or.close(&nm_now);

        // ---- dumps + predicates (a) (b) on both engines, (c) lockstep ----
        let mut dumps = Vec::new();
        for (ei, e) in engs.iter().enumerate() {
            match dump(e, &tabs) {
                Ok((d, v, n)) => {
                    st.canon_checks += n;
                    if let Some(m) = v.first() {
                        let key = if m.contains("canonical id is") || m.contains("has no contents") || m.contains("one Set are equal") {
                            "C14a-noncanonical"
                        } else {
                            "C14b-unmerged-rows"
                        };
                        fail!(key, k, "after command {k} `{}` ({} engine): {m}", ctext.replace('\n', " "), if ei == 0 { "semi-naive" } else { "naive" });
                        break 'cmds;
                    }
                    dumps.push(d);
                }
                Err(x) => {
                    fail!("dump-failed", k, "dump failed after command {k}: {x}");
                    break 'cmds;
                }
            }
        }
        st.lockstep_cmps += 1;
        let (d0, d1) = (anon_dump(&dumps[0]), anon_dump(&dumps[1]));
        if outcomes[0] != outcomes[1] || d0 != d1 {
            let ti = (0..tabs.len()).find(|i| d0[*i] != d1[*i]).unwrap_or(0);
            fail!(
                "C14c-semi-vs-naive",
                k,
                "after command {k} `{}`: semi-naive and naive engines differ on table {}: semi-naive {:?} / naive {:?}",
                ctext.replace('\n', " "),
                tabs[ti].name,
                d0[ti].iter().take(12).collect::<Vec<_>>(),
                d1[ti].iter().take(12).collect::<Vec<_>>()
            );
            break 'cmds;
        }
        // (b) handles the harness' closure proves equal have one value; (check (= e1 e2)) holds
        let mut checked_pair = false;
        for h1 in 0..hidx {
            for h2 in (h1 + 1)..hidx {
                if nm.h_sort[h1] != nm.h_sort[h2] || or.tree(&nm_now, h1) != or.tree(&nm_now, h2) {
                    continue;
                }
                st.eq_checks += 1;
                for (ei, e) in engs.iter().enumerate() {
                    let (c1, c2) = (canon_u32(&e.eg, e.hv[h1].rep()), canon_u32(&e.eg, e.hv[h2].rep()));
                    if c1 != c2 {
                        fail!("C14b-equal-containers-differ", k, "after command {k} `{}` ({} engine): containers {} and {} are equal modulo the unions performed but have ids {} and {}", ctext.replace('\n', " "), if ei == 0 { "semi-naive" } else { "naive" }, nm.h_text[h1], nm.h_text[h2], c1, c2);
                        break 'cmds;
                    }
                }
                if !checked_pair && matches!(op, Op::Union { .. }) && nm.h_text[h1] != nm.h_text[h2] {
                    checked_pair = true;
                    let chk = format!("(check (= {} {}))", nm.h_text[h1], nm.h_text[h2]);
                    for e in engs.iter_mut() {
                        let (r, _) = step(&mut e.eg, &chk);
                        if r.is_err() {
                            fail!("C14b-check-failed", k, "after command {k}: `{chk}` fails although the contents are equal modulo the unions performed");
                            break 'cmds;
                        }
                    }
                    nontrivial = true;
                    bump(&mut st.event_hist, "containers-made-equal");
                }
            }
        }
        // distribution: table shrink = rows merged, Out growth after a union = rule fired through rebuild
        let holds: Vec<usize> = dumps[0].iter().map(|t| t.len()).collect();
        let out_n = holds[holds.len() - 1] + holds[holds.len() - 2];
        if let Some(p) = &prev_holds {
            if holds.iter().zip(p.iter()).take(2 * SORTS.len()).any(|(a, b)| a < b) {
                bump(&mut st.event_hist, "rows-merged");
                nontrivial = true;
            }
        }
        if matches!(op, Op::Run(_)) && out_n > prev_out {
            bump(&mut st.event_hist, "run-produced-outputs");
        }
        prev_out = out_n;
        prev_holds = Some(holds);
        // model observation after unions
        if matches!(op, Op::Union { .. }) || k + 1 == ops.len() {
            let o = model_obs(&engs[0], nm, hidx);
            if let Some(prev) = &last_obs {
                let n = prev.len().min(o.len());
                if (NELEM..n).any(|i| prev[i].0 == o[i].0 && prev[i].1 != o[i].1) {
                    bump(&mut st.event_hist, "contents-changed-in-place-or-id-kept");
                    nontrivial = true;
                }
            }
            model_ops.push(format!("HObs {}", coq_obs(&o)));
            last_obs = Some(o);
        }
    }
    let sample = if nontrivial {
        Some(serde_json::json!({"program": text.lines().skip(hdr.lines().count()).collect::<Vec<_>>().join(" "), "final_observation": format!("{:?}", last_obs)}))
    } else {
        None
    };
    let model_case = if model_ok && viols.is_empty() { Some(format!("[{}]", model_ops.join("; "))) } else { None };
    Outcome { viols, model_case, nontrivial, text, sample }
}

fn main() {
    let o = verif_harness::parse_opts();
    let mut threads = 1usize;
    let mut big = false;
    let mut verbose = false;
    let mut ncases_override: Option<usize> = None;
    let mut i = 0;
    while i < o.extra.len() {
        match o.extra[i].as_str() {
            "--threads" => {
                threads = o.extra[i + 1].parse().expect("threads");
                i += 1;
            }
            "--cases" => {
                ncases_override = Some(o.extra[i + 1].parse().expect("cases"));
                i += 1;
            }
            "--big" => big = true,
            "--verbose" => verbose = true,
            _ => {}
        }
        i += 1;
    }
    std::panic::set_hook(Box::new(|_| {}));
    let header_v = "From Coq Require Import List Arith NArith.\nImport ListNotations.\nRequire Import Verif.Base.Cases Verif.Cont.Env.\n";
    let mut w = CaseWriter::new(&o.out, "cases_cont", header_v, "check_case", 25);
    let mut st = Stats::default();
    let mut viols: Vec<(Viol, serde_json::Value)> = Vec::new();
    let mut distinct: HashSet<String> = HashSet::new();
    let mut nontrivial = 0usize;
    let mut samples: Vec<serde_json::Value> = Vec::new();
    let mut sessions = 0usize;
    let mut mode_hist: BTreeMap<String, usize> = BTreeMap::new();

    // (mode, seed, case) list
    let mut plan: Vec<(Mode, u64, u64)> = Vec::new();
    let mut fixed = true;
    if let Some(path) = &o.replay {
        let txt = std::fs::read_to_string(path).expect("replay");
        let v: serde_json::Value = serde_json::from_str(&txt).expect("json");
        let viol = if v.get("violation").is_some() { &v["violation"] } else { &v };
        let inp = if viol.get("input").is_some() { &viol["input"] } else { viol };
        let mode = match inp["mode"].as_str().unwrap_or("Rich") {
            "Pure" => Mode::Pure,
            "Big" => Mode::Big,
            "Shape" => Mode::Shape,
            _ => Mode::Rich,
        };
        if inp["fixed"].as_str().is_none() {
            plan.push((mode, inp["seed"].as_u64().unwrap_or(o.seed), inp["case"].as_u64().unwrap_or(0)));
            fixed = false;
        }
    } else {
        // corpus seeds first
        if let Ok(rd) = std::fs::read_dir("/verif/corpus/C14") {
            let mut files: Vec<_> = rd.flatten().map(|e| e.path()).collect();
            files.sort();
            for f in files {
                if let Ok(txt) = std::fs::read_to_string(&f) {
                    if let Ok(v) = serde_json::from_str::<serde_json::Value>(&txt) {
                        let mode = match v["mode"].as_str().unwrap_or("Rich") {
                            "Pure" => Mode::Pure,
                            "Big" => Mode::Big,
                            "Shape" => Mode::Shape,
                            _ => Mode::Rich,
                        };
                        if big == (mode == Mode::Big) {
                            plan.push((mode, v["seed"].as_u64().unwrap_or(1), v["case"].as_u64().unwrap_or(0)));
                        }
                    }
                }
            }
        }
        let n = ncases_override.unwrap_or(if big {
            if o.thorough { 60 } else { 6 }
        } else if o.thorough {
            3000
        } else {
            330
        });
        for ci in 0..n {
            let mode = if big {
                Mode::Big
            } else if ci % 3 == 0 {
                Mode::Pure
            } else if ci % 3 == 1 {
                Mode::Rich
            } else {
                Mode::Shape
            };
            plan.push((mode, o.seed, ci as u64));
        }
    }
    let mut all: Vec<(Vec<Op>, Names, Mode, serde_json::Value)> = Vec::new();
    if fixed && !big {
        for (ops, nm, name) in fixed_sessions() {
            all.push((ops, nm, Mode::Rich, serde_json::json!({"fixed": name})));
        }
    }
    if fixed && big {
        for (ops, nm, name) in fixed_big_sessions() {
            all.push((ops, nm, Mode::Big, serde_json::json!({"fixed": name, "mode": "Big"})));
        }
    }
    for (mode, seed, case) in plan {
        let (ops, nm) = generate(seed, case, mode);
        all.push((ops, nm, mode, serde_json::json!({"seed": seed, "case": case, "mode": format!("{mode:?}")})));
    }
    for (ops, nm, mode, input) in all {
        sessions += 1;
        bump(&mut mode_hist, &format!("{mode:?}"));
        let out = run_session(&ops, &nm, mode, threads, &mut st, verbose);
        if verbose {
            eprintln!("---- {input}\n{}", out.text.lines().skip(header().lines().count()).collect::<Vec<_>>().join("\n"));
        }
        let fresh = distinct.insert(out.text.clone());
        if fresh && out.nontrivial {
            nontrivial += 1;
        }
        if let Some(s) = out.sample {
            if samples.len() < 4 {
                samples.push(s);
            }
        }
        if let Some(c) = out.model_case {
            w.push(c);
        }
        for v in out.viols {
            let mut inp = input.clone();
            inp["program"] = serde_json::Value::String(v.text.clone());
            inp["at"] = serde_json::json!(v.at);
            viols.push((v, inp));
        }
    }
    w.flush();
    let rule = "seeded egglog sessions over 15 container sorts (Vec/Set/MultiSet/Pair/Map S S/Map S i64 on an eq-sort and 9 nested sorts of depth 2): container inserts into Holds relations / Wrap constructors, unions of element handles (never making two Map keys collide), 26 rule templates matching on container contents or creating containers, runs; Pure sessions (inserts + unions only) are also model cases; Big sessions start with 1100 filler containers per kind. After every command: canonicity of every id reachable from a table row, no two rows with keys equal modulo the equalities, equal-by-closure handles share one id and `(check (= e1 e2))` holds, and a naive engine in lockstep agrees on the renaming-invariant dump. A session is non-trivial iff a union merged rows keyed by containers, made two differently written containers equal, or changed a stored container's contents while its class stayed; distinct by program text";
    let lbl = match (big, threads > 1) {
        (false, false) => "serial",
        (false, true) => "par",
        (true, false) => "big",
        (true, true) => "big_par",
    };
    let report = serde_json::json!({
        "sub": format!("cont-{lbl}"),
        "cases": sessions,
        "shards": w.shards,
        "model_cases": w.total,
        "distinct_nontrivial": nontrivial,
        "rule": rule,
        "samples": samples,
        "violations": viols.iter().take(20).map(|(v, inp)| serde_json::json!({"what": v.what, "input": inp, "key": v.key})).collect::<Vec<_>>(),
        "op_hist": st.op_hist,
        "sort_hist": st.sort_hist,
        "event_hist": st.event_hist,
        "rule_hist": st.rule_hist,
        "mode_hist": mode_hist,
        "extra_coverage": {
            format!("c14_{}_canonicity_checks", lbl): st.canon_checks,
            format!("c14_{}_lockstep_comparisons", lbl): st.lockstep_cmps,
            format!("c14_{}_equal_handle_checks", lbl): st.eq_checks,
            format!("c14_{}_threads", lbl): threads,
        },
    });
    std::fs::write(o.out.join("impl_report.json"), serde_json::to_string(&report).unwrap() + "\n").unwrap();
}
