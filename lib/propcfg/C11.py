"""C11 configuration for bin/check."""

CFG = {
    "tier_a": [],
    "model_targets": ["Encoding/Templates.vo"],
    "proof_targets": ["Props/C11.vo"],
    "harness": [{"bin": "h_modes", "prefix": "cases_modes", "timeout": 3000}],
    "corr_is_violation": False,
    "trusted": [
        "hand-written model coq/Encoding/Datalog.v (Datalog-with-functions semantics: all matches, then deletes, then sets) "
        "and coq/Encoding/Templates.v (maintenance rule templates + schedule + session layer, transcribed from "
        "src/proofs/proof_encoding.rs / the doc_example snapshot), tied to the engine by the correspondence check h_modes "
        "(class partition of probe terms of the real term-encoding engine vs the encoded model vs the native Egg model)",
        "the native model coq/Egg/Model.v and its C01 theorems (Egg/CC.v)",
    ],
    "theorem_backed": "filled in below",
    "link_only": "filled in below",
    "assumptions": [
        "term ids are unbounded nat allocated in insertion order; ordering-max/min is the order of ids",
        "one eq-sort; term mode (every UF/view output is ()), proof columns are link-only",
    ],
}
